(* C16 proofs, part 5: the two front-ends on files whose option lines are plain long-form
   directives. *)
From Coq Require Import List String Ascii Bool Arith Lia.
From RC Require Import lib.PyStr gen.ReqFileConstsC16 model.ReqFileC16 proofs.ReqFileC16P proofs.ReqFileC16Main.
Import ListNotations.
Open Scope string_scope.
Open Scope nat_scope.

(* ------------------------------------------------------------------ the guarded domain *)
(* a long-form directive line: indentation, `--name<blanks/tabs>value` or `--name=value`, the
   value bare or in single/double quotes, an optional trailing comment *)
Inductive fline := FDir (k : dkind) (eq : bool) (ind sp q v : string) (tl : tail) | FOther (i : item).
Definition fitem (l : fline) : item :=
  match l with FDir k eq ind sp q v tl => directive_item k eq ind sp q v tl | FOther i => i end.

Definition strip_set : string :=
  String "="%char (String " "%char (String (ascii_of_nat 9) (String (ascii_of_nat 10) (String """"%char (String "'"%char EmptyString))))).
Definition in_set (c : ascii) : bool := mem_ascii c strip_set.
Definition hash_c : ascii := "#"%char.

(* an unquoted value that neither starts nor ends with a character sanitize() strips, does
   not start with '-' (argparse would take it for an option) and has no '#' *)
Definition value_ok (v : string) : bool :=
  word_ok v && no_quote v && negb (has_char hash_c v) && negb (startswith v "-")
  && starts_np in_set v && ends_np in_set v.
Definition quote_ok (q : string) : bool := String.eqb q "" || String.eqb q "'" || String.eqb q """".
(* the comment, if any, is set off by blanks/tabs *)
Definition dir_tail_ok (tl : tail) : bool :=
  tail_ok true tl && match t_comment tl with Some (ws, _) => sh_ws_ok ws | None => true end.

Definition bzl_prefixes : list string :=
  ["--extra-index-url"; "--extra_index_url"; "--index-url"; "--index_url"; "--find-links"; "--find_links"].
Definition neutral_line (l : string) : bool := forallb (fun p => negb (startswith (strip l) p)) bzl_prefixes.

Definition fline_ok (l : fline) : bool :=
  match l with
  | FDir k eq ind sp q v tl =>
    value_ok v && ws_ok ind && quote_ok q && dir_tail_ok tl && (eq || (nonempty sp && sh_ws_ok sp))
  | FOther i => conv_item i && forallb neutral_line (render_item i)
                && match i with IComment _ _ | IBlank _ | IReq _ _ _ _ _ => true | _ => false end
  end.

Definition vals (k : dkind) (fl : list fline) : list string :=
  flat_map (fun l => match l with
                     | FDir k' _ _ _ _ v _ => match k, k' with DIndex, DIndex | DExtra, DExtra | DFind, DFind => [v] | _, _ => [] end
                     | FOther _ => [] end) fl.

Definition dtoks (l : fline) : list string :=
  match l with
  | FDir k true _ _ _ v _ => [dname k ++ "=" ++ v]
  | FDir k false _ _ _ v _ => [dname k; v]
  | FOther _ => []
  end.

(* ------------------------------------------------------------------ conventional *)
Lemma value_ok_inv v : value_ok v = true ->
  word_ok v = true /\ no_quote v = true /\ has_char hash_c v = false /\ startswith v "-" = false /\
  starts_np in_set v = true /\ ends_np in_set v = true.
Proof.
  unfold value_ok. intros H.
  apply andb_true_iff in H as [H H6]. apply andb_true_iff in H as [H H5].
  apply andb_true_iff in H as [H H4]. apply andb_true_iff in H as [H H3].
  apply andb_true_iff in H as [H1 H2]. apply negb_true_iff in H3, H4.
  repeat split; assumption.
Qed.

Lemma fdir_ok_inv k eq ind sp q v tl : fline_ok (FDir k eq ind sp q v tl) = true ->
  value_ok v = true /\ ws_ok ind = true /\ quote_ok q = true /\ dir_tail_ok tl = true /\
  (eq = true \/ (sp <> "" /\ sh_ws_chars sp)).
Proof.
  cbn [fline_ok]. intros H. apply andb_true_iff in H as [H H5]. apply andb_true_iff in H as [H H4].
  apply andb_true_iff in H as [H H3]. apply andb_true_iff in H as [H1 H2].
  repeat split; try assumption. destruct eq; [left; reflexivity|right].
  cbn [orb] in H5. apply andb_true_iff in H5 as [Ha Hb]. split; [intros ->; discriminate|exact Hb].
Qed.

Lemma quote_cases q : quote_ok q = true -> q = "" \/ q = "'" \/ q = """".
Proof.
  unfold quote_ok. intros H. apply orb_true_iff in H as [H|H]; [apply orb_true_iff in H as [H|H]|];
    apply String.eqb_eq in H; auto.
Qed.

Lemma shlex_word_close qc v : no_quote v = true -> is_quote qc = true ->
  shlex_word (Some qc) (v ++ String qc "") = Some v.
Proof.
  unfold no_quote. intros Hv Hq. induction v as [|c v IH]; cbn [append shlex_word].
  - rewrite Ascii.eqb_refl. reflexivity.
  - cbn [has_char] in Hv. apply andb_true_iff in Hv as [H1 H2]. apply negb_true_iff in H1, H2.
    apply orb_false_iff in H1 as [H1a H1b], H2 as [H2a H2b].
    assert (Ec : Ascii.eqb c qc = false).
    { unfold is_quote in Hq. apply orb_true_iff in Hq as [E|E]; apply Ascii.eqb_eq in E; subst qc; assumption. }
    rewrite Ec. rewrite IH by (rewrite H1b, H2b; reflexivity). reflexivity.
Qed.
Lemma shlex_word_app_noq A B : has_q A = false ->
  shlex_word None (A ++ B) = option_map (append A) (shlex_word None B).
Proof.
  unfold has_q. induction A as [|c A IH]; cbn [append has_char shlex_word]; intros H.
  - destruct (shlex_word None B); reflexivity.
  - apply orb_false_iff in H as [H1 H2]. apply orb_false_iff in H1 as [H1a H1b], H2 as [H2a H2b].
    rewrite H1a, H2a. cbn [orb]. rewrite IH by (rewrite H1b, H2b; reflexivity).
    destruct (shlex_word None B); reflexivity.
Qed.
Lemma pip_quoted q v : quote_ok q = true -> no_quote v = true -> shlex_word None (q ++ v ++ q) = Some v.
Proof.
  intros Hq Hv. destruct (quote_cases _ Hq) as [-> | [-> | ->]].
  - cbn [append]. rewrite sapp_nil_r. apply shlex_noquote; exact Hv.
  - cbn [append shlex_word Ascii.eqb Bool.eqb orb andb]. apply shlex_word_close; [exact Hv|reflexivity].
  - cbn [append shlex_word Ascii.eqb Bool.eqb orb andb]. apply shlex_word_close; [exact Hv|reflexivity].
Qed.
Lemma quoted_word_ok q v : quote_ok q = true -> word_ok v = true -> word_ok (q ++ v ++ q) = true.
Proof.
  intros Hq Hv. destruct (quote_cases _ Hq) as [-> | [-> | ->]].
  - cbn [append]. rewrite sapp_nil_r. exact Hv.
  - apply word_ok_app; [reflexivity|]. apply word_ok_app; [exact Hv|reflexivity].
  - apply word_ok_app; [reflexivity|]. apply word_ok_app; [exact Hv|reflexivity].
Qed.
Lemma dname_facts k : word_ok (dname k) = true /\ has_q (dname k ++ "=") = false /\ no_quote (dname k) = true.
Proof. destruct k; repeat split. Qed.

Lemma dir_tail_inv tl : dir_tail_ok tl = true -> tail_ok true tl = true /\
  (t_comment tl = None \/ exists ws text, t_comment tl = Some (ws, text) /\ ws <> "" /\ sh_ws_chars ws).
Proof.
  unfold dir_tail_ok. intros H. apply andb_true_iff in H as [H1 H2]. split; [exact H1|].
  destruct (tail_ok_inv _ _ H1) as (_ & [E | (ws & text & E & _ & Hne & _)]); [left; exact E|right].
  rewrite E in H2. exists ws, text. repeat split; assumption.
Qed.

Lemma dir_words k eq ind sp q v tl : fline_ok (FDir k eq ind sp q v tl) = true ->
  exists first rest, directive_item k eq ind sp q v tl = IOpt ind first rest tl /\
    word_ok first = true /\ startswith first "-" = true /\ quotes_closed first = true /\
    forallb gw_ok_sh rest = true /\
    map pip_word (first :: map snd rest) = dtoks (FDir k eq ind sp q v tl) /\
    flat first rest = dname k ++ (if eq then "=" else sp) ++ q ++ v ++ q.
Proof.
  intros H. destruct (fdir_ok_inv _ _ _ _ _ _ _ H) as (Hv & Hind & Hq & Htl & Hsp).
  destruct (value_ok_inv _ Hv) as (Hw & Hnq & _).
  destruct (dname_facts k) as (Hdw & Hdq & Hdn).
  pose proof (pip_quoted q v Hq Hnq) as Hpq. pose proof (quoted_word_ok q v Hq Hw) as Hqw.
  unfold directive_item. destruct eq.
  - exists (dname k ++ "=" ++ q ++ v ++ q), []. 
    assert (Hsw : shlex_word None (dname k ++ "=" ++ q ++ v ++ q) = Some (dname k ++ "=" ++ v)).
    { rewrite <- sapp_assoc. rewrite shlex_word_app_noq by exact Hdq. rewrite Hpq. cbn [option_map]. rewrite sapp_assoc. reflexivity. }
    repeat split.
    + rewrite <- sapp_assoc. apply word_ok_app; [|exact Hqw]. apply word_ok_app; [exact Hdw|reflexivity].
    + destruct k; reflexivity.
    + unfold quotes_closed. rewrite Hsw. reflexivity.
    + cbn [map snd dtoks]. unfold pip_word. rewrite Hsw. reflexivity.
  - destruct Hsp as [Hsp | [Hsp1 Hsp2]]; [discriminate|].
    exists (dname k), [(GSp sp, q ++ v ++ q)]. repeat split.
    + exact Hdw.
    + destruct k; reflexivity.
    + apply no_quote_closed; exact Hdn.
    + cbn [forallb]. unfold gw_ok_sh, gap_ok_sh, nonempty, quotes_closed. cbn [fst snd].
      rewrite Hqw, Hpq. replace (negb (String.eqb sp "")) with true by (destruct sp; [congruence|reflexivity]).
      unfold sh_ws_ok. rewrite Hsp2. reflexivity.
    + cbn [map snd dtoks]. rewrite (pip_word_noquote _ Hdn). unfold pip_word. rewrite Hpq. reflexivity.
Qed.

Lemma dir_conv k eq ind sp q v tl : fline_ok (FDir k eq ind sp q v tl) = true ->
  conv_item (directive_item k eq ind sp q v tl) = true.
Proof.
  intros H. destruct (dir_words _ _ _ _ _ _ _ H) as (first & rest & -> & Hw & Hd & Hq & Hr & Hm & _).
  destruct (fdir_ok_inv _ _ _ _ _ _ _ H) as (_ & Hind & _ & Htl & _). destruct (dir_tail_inv _ Htl) as [Htl' _].
  cbn [conv_item]. rewrite Hind, Hw, Hd, Hq, Hr, Htl'.
  assert (Hn : is_include_form (pip_word first) = false).
  { cbn [map] in Hm. destruct eq; cbn [dtoks] in Hm; injection Hm as Hm _; rewrite Hm.
    - unfold is_include_form. change (dname k ++ "=" ++ v) with (dname k ++ String "="%char v).
      rewrite partition_first_eq by (destruct k; reflexivity). destruct k; reflexivity.
    - destruct k; reflexivity. }
  rewrite Hn. reflexivity.
Qed.

Lemma fline_conv l : fline_ok l = true -> conv_item (fitem l) = true.
Proof.
  destruct l as [k eq ind sp q v tl|i]; [apply dir_conv|].
  cbn [fline_ok fitem]. intros H. apply andb_true_iff in H as [H _]. apply andb_true_iff in H as [H _]. exact H.
Qed.
Lemma flines_conv fl : forallb fline_ok fl = true -> conventional (map fitem fl) = true.
Proof.
  unfold conventional. induction fl as [|l fl IH]; cbn [forallb map]; [reflexivity|].
  intros H. apply andb_true_iff in H as [H1 H2]. rewrite (fline_conv _ H1), IH by exact H2. reflexivity.
Qed.

Lemma fitem_flat l : fline_ok l = true ->
  item_depth (fitem l) = 0 /\ (forall fs dir, item_holds fs dir (fitem l)) /\ item_opts (fitem l) = dtoks l.
Proof.
  destruct l as [k eq ind sp q v tl|i].
  - intros H. destruct (dir_words _ _ _ _ _ _ _ H) as (first & rest & E & _ & _ & _ & _ & Hm & _).
    cbn [fitem]. rewrite E. cbn [item_depth item_holds item_opts]. repeat split. exact Hm.
  - cbn [fline_ok fitem]. intros H. apply andb_true_iff in H as [_ H].
    destruct i; try discriminate; repeat split.
Qed.

Lemma flines_flat fl : forallb fline_ok fl = true ->
  depth (map fitem fl) = 0 /\ (forall fs dir, holds fs dir (map fitem fl)) /\
  opts_of (map fitem fl) = flat_map dtoks fl.
Proof.
  induction fl as [|l fl IH]; cbn [forallb map]; [repeat split|].
  intros H. apply andb_true_iff in H as [H1 H2].
  destruct (fitem_flat _ H1) as (D1 & Hh1 & O1). destruct (IH H2) as (D2 & Hh2 & O2).
  repeat split.
  - unfold depth in *. cbn [fold_right]. rewrite D1, D2. reflexivity.
  - apply Hh1.
  - apply Hh2.
  - unfold opts_of in *. cbn [flat_map]. rewrite O1, O2. reflexivity.
Qed.

(* ------------------------------------------------------------------ argparse on directive tokens *)
Definition act_of (k : dkind) : act :=
  match k with
  | DIndex => AOpt "index_urls" 0 true
  | DExtra => AOpt "extra_index_urls" 0 true
  | DFind => AOpt "find_links" 0 false
  end.
Definition eq_c : ascii := "="%char.

Lemma keys_no_eq : forallb (fun e : string * act => negb (has_char eq_c (fst e))) opt_strings = true.
Proof. vm_compute. reflexivity. Qed.

Lemma assoc_none_by_char {A} c t (tbl : list (string * A)) :
  forallb (fun e => negb (has_char c (fst e))) tbl = true -> has_char c t = true -> assoc t tbl = None.
Proof.
  induction tbl as [|[k a] tbl IH]; cbn [forallb assoc fst]; [reflexivity|].
  intros H Ht. apply andb_true_iff in H as [H1 H2]. apply negb_true_iff in H1.
  destruct (String.eqb t k) eqn:E; [apply String.eqb_eq in E; subst; congruence|]. apply IH; assumption.
Qed.

Lemma classify_dname k : classify (dname k) = CO (Some (act_of k)) (dname k) None.
Proof. destruct k; vm_compute; reflexivity. Qed.

Lemma classify_value v : v <> "" -> startswith v "-" = false -> classify v = CA /\ String.eqb v "--" = false.
Proof.
  destruct v as [|c v]; [congruence|]. intros _ H. unfold startswith in H. cbn [prefixb] in H.
  rewrite andb_true_r in H.
  assert (E : Ascii.eqb c "-"%char = false) by (rewrite Ascii.eqb_sym; exact H).
  split.
  - unfold classify, dash. rewrite E. reflexivity.
  - cbn [String.eqb]. rewrite E. reflexivity.
Qed.

Lemma classify_long_eq t r' before after a :
  t = String dash (String dash r') -> assoc t opt_strings = None ->
  partition_char eq_c t = (before, true, after) -> assoc before opt_strings = Some a ->
  classify t = CO (Some a) before (Some after).
Proof.
  intros -> H1 H2 H3. unfold classify. rewrite Ascii.eqb_refl. cbn [negb].
  rewrite H1. unfold eq_c in H2. rewrite H2. rewrite H3. reflexivity.
Qed.

Lemma classify_eq k v : classify (dname k ++ "=" ++ v) = CO (Some (act_of k)) (dname k) (Some v) /\
                        String.eqb (dname k ++ "=" ++ v) "--" = false.
Proof.
  split; [|destruct k; reflexivity].
  assert (Hh : has_char eq_c (dname k ++ "=" ++ v) = true).
  { rewrite !has_app. replace (has_char eq_c "=") with true by reflexivity. cbn [orb]. apply orb_true_r. }
  destruct k.
  - eapply classify_long_eq; [reflexivity| | |].
    + apply assoc_none_by_char with (c := eq_c); [exact keys_no_eq|exact Hh].
    + apply (partition_first eq_c "--index-url" v). reflexivity.
    + vm_compute. reflexivity.
  - eapply classify_long_eq; [reflexivity| | |].
    + apply assoc_none_by_char with (c := eq_c); [exact keys_no_eq|exact Hh].
    + apply (partition_first eq_c "--extra-index-url" v). reflexivity.
    + vm_compute. reflexivity.
  - eapply classify_long_eq; [reflexivity| | |].
    + apply assoc_none_by_char with (c := eq_c); [exact keys_no_eq|exact Hh].
    + apply (partition_first eq_c "--find-links" v). reflexivity.
    + vm_compute. reflexivity.
Qed.

Definition dcls (l : fline) : list (string * pcls) :=
  match l with
  | FDir k true _ _ _ v _ => [(dname k ++ "=" ++ v, PO (Some (act_of k)) (dname k) (Some v))]
  | FDir k false _ _ _ v _ => [(dname k, PO (Some (act_of k)) (dname k) None); (v, PA)]
  | FOther _ => []
  end.

Lemma word_nonempty v : word_ok v = true -> v <> "".
Proof. intros H E. subst v. discriminate H. Qed.

Lemma classify_all_dirs fl : forallb fline_ok fl = true ->
  classify_all (flat_map dtoks fl) = Some (flat_map dcls fl).
Proof.
  induction fl as [|l fl IH]; cbn [forallb flat_map]; [reflexivity|].
  intros H. apply andb_true_iff in H as [H1 H2]. specialize (IH H2).
  destruct l as [k eq ind sp q v tl|i]; [|cbn [dtoks dcls app]; exact IH].
  destruct (fdir_ok_inv _ _ _ _ _ _ _ H1) as (Hv & _).
  destruct (value_ok_inv _ Hv) as (Hw & _ & _ & Hd & _).
  destruct eq; cbn [dtoks dcls app classify_all].
  - destruct (classify_eq k v) as [-> ->]. rewrite IH. reflexivity.
  - replace (String.eqb (dname k) "--") with false by (destruct k; reflexivity).
    rewrite classify_dname.
    destruct (classify_value v (word_nonempty _ Hw) Hd) as [-> ->]. rewrite IH. reflexivity.
Qed.

(* ---- namespace *)
Lemma ns_get_set d d' v n : ns_get d (ns_set d' v n) = if String.eqb d' d then v else ns_get d n.
Proof.
  induction n as [|[k w] n IH]; cbn [ns_set ns_get].
  - rewrite (String.eqb_sym d' d). destruct (String.eqb d d'); reflexivity.
  - destruct (String.eqb k d') eqn:E1; cbn [ns_get].
    + apply String.eqb_eq in E1. subst k. rewrite (String.eqb_sym d' d). destruct (String.eqb d d'); reflexivity.
    + rewrite IH. destruct (String.eqb d' d) eqn:E2; [|reflexivity].
      apply String.eqb_eq in E2. subst d'. rewrite E1. reflexivity.
Qed.

Definition norm_of (k : dkind) : bool := match k with DFind => false | _ => true end.
Definition dest_of (k : dkind) : string :=
  match k with DIndex => "index_urls" | DExtra => "extra_index_urls" | DFind => "find_links" end.
Definition nval (k : dkind) (v : string) : string := if norm_of k then norm_index_url v else v.

Definition napply (l : fline) (n : ns) : ns :=
  match l with
  | FDir k _ _ _ _ v _ => apply_val (dest_of k) 0 (norm_of k) v n
  | FOther _ => n
  end.

Lemma consume_dirs fl : forallb fline_ok fl = true -> forall r n,
  consume (flat_map dcls fl ++ r) n false = consume r (fold_left (fun a l => napply l a) fl n) false.
Proof.
  induction fl as [|l fl IH]; cbn [forallb flat_map fold_left app]; [reflexivity|].
  intros H r n. apply andb_true_iff in H as [H1 H2].
  destruct l as [k eq ind sp q v tl|i]; [|cbn [dcls app napply]; apply IH; exact H2].
  destruct (fdir_ok_inv _ _ _ _ _ _ _ H1) as (Hv & _).
  destruct (value_ok_inv _ Hv) as (Hw & _ & _ & Hd & _).
  destruct (classify_value v (word_nonempty _ Hw) Hd) as [_ Hne].
  rewrite <- app_assoc. destruct eq; cbn [dcls app consume napply].
  - destruct k; cbn [act_of takes_arg Nat.eqb negb]; rewrite Hne; apply IH; exact H2.
  - destruct k; cbn [act_of takes_arg Nat.eqb negb]; apply IH; exact H2.
Qed.

Lemma ns_get_fold d fl : forall n,
  ns_get d (fold_left (fun a l => napply l a) fl n) =
  (ns_get d n ++ flat_map (fun l => match l with
                                    | FDir k _ _ _ _ v _ => if String.eqb (dest_of k) d then [nval k v] else []
                                    | FOther _ => [] end) fl)%list.
Proof.
  induction fl as [|l fl IH]; intros n; cbn [fold_left flat_map]; [rewrite app_nil_r; reflexivity|].
  rewrite IH. destruct l as [k eq ind sp q v tl|i]; cbn [napply]; [|reflexivity].
  unfold apply_val. rewrite ns_get_set. unfold nval.
  destruct (String.eqb (dest_of k) d) eqn:E.
  - apply String.eqb_eq in E. subst d. rewrite <- app_assoc. reflexivity.
  - reflexivity.
Qed.

Lemma flat_dest k fl :
  flat_map (fun l => match l with
                     | FDir k' _ _ _ _ v _ => if String.eqb (dest_of k') (dest_of k) then [nval k' v] else []
                     | FOther _ => [] end) fl = map (nval k) (vals k fl).
Proof.
  unfold vals. induction fl as [|l fl IH]; cbn [flat_map map]; [reflexivity|].
  rewrite map_app, <- IH. f_equal. destruct l as [k' eq ind sp q v tl|i]; [|reflexivity].
  destruct k, k'; reflexivity.
Qed.

Lemma cli_parse_dirs fl : forallb fline_ok fl = true ->
  exists n, cli_parse (flat_map dtoks fl) = CliOk n /\
    ns_get "index_urls" n = map norm_index_url (vals DIndex fl) /\
    ns_get "extra_index_urls" n = map norm_index_url (vals DExtra fl) /\
    ns_get "find_links" n = vals DFind fl /\
    ns_get "editable_sources" n = [] /\ ns_get "no_index" n = [].
Proof.
  intros H. unfold cli_parse. rewrite classify_all_dirs by exact H.
  exists (fold_left (fun a l => napply l a) fl []). split.
  - rewrite <- (app_nil_r (flat_map dcls fl)). rewrite consume_dirs by exact H. reflexivity.
  - rewrite !ns_get_fold. cbn [ns_get app].
    rewrite (flat_dest DIndex), (flat_dest DExtra), (flat_dest DFind).
    repeat split; try reflexivity.
    + unfold nval. cbn [norm_of]. rewrite map_id. reflexivity.
    + clear H. induction fl as [|l fl IH]; [reflexivity|].
      cbn [flat_map]. rewrite IH. destruct l as [k eq ind sp q v tl|i]; [destruct k|]; reflexivity.
    + clear H. induction fl as [|l fl IH]; [reflexivity|].
      cbn [flat_map]. rewrite IH. destruct l as [k eq ind sp q v tl|i]; [destruct k|]; reflexivity.
Qed.

(* ------------------------------------------------------------------ the Bazel scanner *)
Definition kidx (k : dkind) : nat := match k with DIndex => 0 | DExtra => 1 | DFind => 2 end.

Lemma bzl_line_strip l t : bzl_line l t =
  fold_left (fun acc (rule : list string * nat * nat) =>
    match rule with
    | (pres, cut, tgt) =>
      if existsb (fun p => startswith (strip l) p) pres then t_add tgt (sanitize (drop cut (strip l))) acc
      else acc
    end) c16_bzl_rules t.
Proof. unfold bzl_line. destruct gen_bzl_ok as (_ & _ & _ & ->). reflexivity. Qed.

Lemma bzl_neutral l t : neutral_line l = true -> bzl_line l t = t.
Proof.
  unfold neutral_line, bzl_prefixes. cbn [forallb]. intros H.
  repeat (apply andb_true_iff in H as [? H]).
  repeat match goal with Hx : negb _ = true |- _ => apply negb_true_iff in Hx end.
  rewrite bzl_line_strip. destruct gen_bzl_ok as (-> & _). cbn [fold_left existsb].
  repeat match goal with Hx : startswith (strip l) _ = false |- _ => rewrite Hx end. reflexivity.
Qed.

Lemma in_set_not_hash s : all_chars in_set s = true -> has_char hash_c s = false.
Proof.
  intros H. apply has_false_all. eapply all_impl; [|exact H]. intros c Hc.
  destruct (Ascii.eqb c hash_c) eqn:E; [|reflexivity]. apply Ascii.eqb_eq in E. subst c. discriminate Hc.
Qed.
Lemma sh_ws_in_set s : sh_ws_chars s -> all_chars in_set s = true.
Proof.
  apply all_impl. intros c H. apply orb_true_iff in H as [H|H]; apply Ascii.eqb_eq in H; subst c; reflexivity.
Qed.
Lemma quote_in_set q : quote_ok q = true -> all_chars in_set q = true.
Proof. intros H. destruct (quote_cases _ H) as [-> | [-> | ->]]; reflexivity. Qed.

(* sanitize( sep q value q [blanks # comment] ) = value *)
Lemma sanitize_val pre q v tl : all_chars in_set pre = true -> quote_ok q = true -> value_ok v = true ->
  dir_tail_ok tl = true -> sanitize (pre ++ q ++ v ++ q ++ tailT tl) = v.
Proof.
  intros Hpre Hq Hv Htl. destruct (value_ok_inv _ Hv) as (_ & _ & Hh & _ & Hs & He).
  pose proof (quote_in_set _ Hq) as Hqs.
  unfold sanitize. destruct gen_bzl_ok as (_ & -> & -> & _). fold strip_set hash_c.
  assert (Hstrip : forall post, all_chars in_set post = true ->
            strip_chars strip_set (pre ++ q ++ v ++ q ++ post) = v).
  { intros post Hpost. unfold strip_chars, rstrip_chars, lstrip_chars.
    replace (pre ++ q ++ v ++ q ++ post) with ((pre ++ q) ++ v ++ (q ++ post)) by (rewrite !sapp_assoc; reflexivity).
    apply (strip_by_sandwich in_set); try assumption; rewrite all_app; [rewrite Hpre, Hqs|rewrite Hqs, Hpost]; reflexivity. }
  destruct (dir_tail_inv _ Htl) as (_ & [E | (ws & text & E & Hne & Hws)]); unfold tailT; rewrite E.
  - rewrite partition_none.
    + apply (Hstrip ""). reflexivity.
    + rewrite !has_app, Hh, (in_set_not_hash _ Hpre), (in_set_not_hash _ Hqs). reflexivity.
  - replace (pre ++ q ++ v ++ q ++ ws ++ "#" ++ text) with ((pre ++ q ++ v ++ q ++ ws) ++ String hash_c text)
      by (rewrite !sapp_assoc; reflexivity).
    rewrite partition_first.
    + apply Hstrip. apply sh_ws_in_set; exact Hws.
    + rewrite !has_app, Hh, (in_set_not_hash _ Hpre), (in_set_not_hash _ Hqs), (in_set_not_hash _ (sh_ws_in_set _ Hws)). reflexivity.
Qed.

Definition dsep (eq : bool) (sp : string) : string := if eq then "=" else sp.
Lemma render_dir k eq ind sp q v tl : fline_ok (FDir k eq ind sp q v tl) = true ->
  exists body, render_item (directive_item k eq ind sp q v tl) = [ind ++ body ++ render_tail tl] /\
    good_body body /\ body = dname k ++ dsep eq sp ++ q ++ v ++ q.
Proof.
  intros H. destruct (dir_words _ _ _ _ _ _ _ H) as (first & rest & E & Hw & _ & _ & Hr & _ & Hf).
  destruct (fdir_ok_inv _ _ _ _ _ _ _ H) as (Hv & _ & Hq & _ & Hsp).
  destruct (value_ok_inv _ Hv) as (Hvw & _).
  exists (dname k ++ dsep eq sp ++ q ++ v ++ q). rewrite E. unfold directive_item in E. destruct eq; injection E as <- <-.
  - cbn [render_item render_rest dsep].
    split; [f_equal; repeat (rewrite !sapp_assoc || cbn [append]); reflexivity|]. split; [|reflexivity].
    apply word_good. exact Hw.
  - cbn [render_item render_rest dsep].
    split; [f_equal; repeat (rewrite !sapp_assoc || cbn [append]); reflexivity|]. split; [|reflexivity].
    destruct Hsp as [Hsp | [Hsp1 Hsp2]]; [discriminate|].
    apply good_body_ext; [apply word_good; exact Hw|apply sh_ws_space; exact Hsp2|].
    apply word_good. apply quoted_word_ok; assumption.
Qed.

Lemma bzl_dir_line k X t : bzl_line (dname k ++ X) t = bzl_line (dname k ++ X) t.
Proof. reflexivity. Qed.

Lemma bzl_dir_stripped k X t ind trail :
  strip (ind ++ (dname k ++ X) ++ trail) = dname k ++ X ->
  bzl_line (ind ++ (dname k ++ X) ++ trail) t = t_add (kidx k) (sanitize X) t.
Proof.
  intros Hs. rewrite bzl_line_strip, Hs. destruct gen_bzl_ok as (-> & _). destruct k; cbn; reflexivity.
Qed.

Definition badd (l : fline) (t : triple) : triple :=
  match l with FDir k _ _ _ _ v _ => t_add (kidx k) v t | FOther _ => t end.

Lemma fold_neutral ls t : forallb neutral_line ls = true -> fold_left (fun acc l => bzl_line l acc) ls t = t.
Proof.
  revert t; induction ls as [|l ls IH]; intros t H; [reflexivity|]. cbn [forallb] in H.
  apply andb_true_iff in H as [H1 H2]. cbn [fold_left]. rewrite bzl_neutral by exact H1. apply IH; exact H2.
Qed.

Lemma scan_lines fl : forallb fline_ok fl = true -> forall t,
  fold_left (fun acc l => bzl_line l acc) (render (map fitem fl)) t = fold_left (fun a l => badd l a) fl t.
Proof.
  induction fl as [|l fl IH]; cbn [forallb map]; intros H t; [reflexivity|].
  apply andb_true_iff in H as [H1 H2]. unfold render. cbn [flat_map]. rewrite fold_left_app.
  fold (render (map fitem fl)). cbn [fold_left]. rewrite <- IH by exact H2. f_equal.
  destruct l as [k eq ind sp q v tl|i].
  - cbn [fitem badd]. destruct (render_dir _ _ _ _ _ _ _ H1) as (body & -> & Hb & Eb).
    destruct (fdir_ok_inv _ _ _ _ _ _ _ H1) as (Hv & Hind & Hq & Htl & Hsp).
    destruct (dir_tail_inv _ Htl) as [Htl' _].
    destruct (body_tail_good _ _ _ Hb Htl') as (G1 & G2 & _).
    destruct (tail_ok_inv _ _ Htl') as (Htr & _).
    cbn [fold_left]. rewrite render_tail_eq.
    replace (ind ++ body ++ tailT tl ++ t_trail tl) with (ind ++ (dname k ++ (dsep eq sp ++ q ++ v ++ q ++ tailT tl)) ++ t_trail tl)
      by (rewrite Eb, !sapp_assoc; reflexivity).
    rewrite bzl_dir_stripped.
    + rewrite sanitize_val; [reflexivity| |exact Hq|exact Hv|exact Htl].
      unfold dsep. destruct eq; [reflexivity|]. destruct Hsp as [Hsp | [_ Hsp]]; [discriminate|]. apply sh_ws_in_set; exact Hsp.
    + replace (dname k ++ dsep eq sp ++ q ++ v ++ q ++ tailT tl) with (body ++ tailT tl) by (rewrite Eb, !sapp_assoc; reflexivity).
      apply strip_sandwich; assumption.
  - cbn [fitem badd]. cbn [fline_ok] in H1. apply andb_true_iff in H1 as [H1 _]. apply andb_true_iff in H1 as [_ Hn].
    apply fold_neutral; exact Hn.
Qed.

Lemma badd_fold fl : forall a b c,
  fold_left (fun t l => badd l t) fl (a, b, c) =
  ((a ++ vals DIndex fl)%list, (b ++ vals DExtra fl)%list, (c ++ vals DFind fl)%list).
Proof.
  unfold vals. induction fl as [|l fl IH]; intros a b c; cbn [fold_left flat_map]; [rewrite !app_nil_r; reflexivity|].
  destruct l as [k eq ind sp q v tl|i]; cbn [badd]; [|rewrite IH; reflexivity].
  destruct k; cbn [kidx t_add]; rewrite IH; cbn [app]; rewrite <- ?app_assoc; reflexivity.
Qed.

Lemma scan_dirs fl : forallb fline_ok fl = true ->
  parse_index_urls (render (map fitem fl)) = (vals DIndex fl, vals DExtra fl, vals DFind fl).
Proof. intros H. unfold parse_index_urls. rewrite scan_lines by exact H. rewrite badd_fold. reflexivity. Qed.

(* ------------------------------------------------------------------ OrderedDict merge *)
Lemma dedup_fold l : forall acc u,
  In u (fold_left (fun acc u => if existsb (String.eqb u) acc then acc else (acc ++ [u])%list) l acc) <->
  In u acc \/ In u l.
Proof.
  induction l as [|x l IH]; intros acc u; cbn [fold_left]; [cbn; tauto|].
  rewrite IH. cbn [In]. destruct (existsb (String.eqb x) acc) eqn:E.
  - apply existsb_exists in E as (y & Hy & Ey). apply String.eqb_eq in Ey. subst y.
    split; [tauto|]. intros [H|[H|H]]; [tauto|subst; tauto|tauto].
  - rewrite in_app_iff. cbn [In]. tauto.
Qed.
Lemma dedup_in b l u : In u (dedup_append b l) <-> In u b \/ In u l.
Proof. unfold dedup_append. rewrite dedup_fold, in_app_iff. cbn [In]. tauto. Qed.

(* when the file declares nothing the command line's own lists are passed on untouched;
   otherwise its own entries come first, in their order (OrderedDict semantics) *)
Lemma dedup_append_prefix : forall new base, NoDup base -> exists tl, dedup_append base new = (base ++ tl)%list.
Proof.
  intros new base Hnd. unfold dedup_append. rewrite fold_left_app.
  assert (Hb : forall l acc, NoDup (acc ++ l) ->
             fold_left (fun acc u => if existsb (String.eqb u) acc then acc else (acc ++ [u])%list) l acc = (acc ++ l)%list).
  { induction l as [|x l IH]; intros acc H; cbn [fold_left]; [rewrite app_nil_r; reflexivity|].
    assert (Hx : existsb (String.eqb x) acc = false).
    { destruct (existsb (String.eqb x) acc) eqn:E; [|reflexivity].
      apply existsb_exists in E as (y & Hy & Ey). apply String.eqb_eq in Ey. subst y.
      apply NoDup_remove_2 in H. exfalso. apply H. apply in_or_app. left; exact Hy. }
    rewrite Hx. rewrite IH; [rewrite <- app_assoc; reflexivity|]. rewrite <- app_assoc. exact H. }
  rewrite (Hb base []) by exact Hnd. cbn [app].
  assert (Hp : forall l acc, exists tl, fold_left (fun acc u => if existsb (String.eqb u) acc then acc else (acc ++ [u])%list) l acc = (acc ++ tl)%list).
  { induction l as [|x l IH]; intros acc; cbn [fold_left]; [exists []; rewrite app_nil_r; reflexivity|].
    destruct (existsb (String.eqb x) acc); [apply IH|].
    destruct (IH (acc ++ [x])%list) as (tl & E). exists (x :: tl). rewrite E, <- app_assoc. reflexivity. }
  apply Hp.
Qed.

(* ------------------------------------------------------------------ both front-ends *)
Section Fronts.
  Variable valid : string -> bool.
  Variable fs : string -> option (list string).

  (* bi be bf bno: --index-url / --extra-index-url / --find-links / --no-index given on the
     command line itself *)
  Definition agree_concl (bi be bf : list string) (bno : bool) (fl : list fline) (rc rb : cli_repos) : Prop :=
      r_index rb = vals DIndex fl /\ r_extra rb = vals DExtra fl /\ r_find rb = vals DFind fl /\
      (forall u, In u (r_index rc) <-> In u bi \/ In u (map norm_index_url (r_index rb))) /\
      (forall u, In u (r_extra rc) <-> In u be \/ In u (map norm_index_url (r_extra rb))) /\
      (forall u, In u (r_find rc) <-> In u bf \/ In u (r_find rb)) /\
      r_noindex rc = bno /\ r_noindex rb = false /\
      (NoDup bi -> exists tl, r_index rc = (bi ++ tl)%list) /\
      (NoDup be -> exists tl, r_extra rc = (be ++ tl)%list) /\
      (NoDup bf -> exists tl, r_find rc = (bf ++ tl)%list).

  (* once the option tokens of the directive lines have been collected *)
  Lemma fronts_of_dirs bi be bf bno texts (fl : list fline) : forallb fline_ok fl = true ->
    exists rc rb,
      cli_front_full bi be bf bno (Ok (texts, flat_map dtoks fl)) = FOk rc /\
      bazel_front (Ok (texts, flat_map dtoks fl)) (render (map fitem fl)) = FOk rb /\
      agree_concl bi be bf bno fl rc rb.
  Proof.
    intros Hok. unfold agree_concl, bazel_front. rewrite scan_dirs by exact Hok.
    destruct (cli_parse_dirs _ Hok) as (n & En & Ni & Ne & Nf & Ned & Nno).
    unfold cli_front_full. destruct (flat_map dtoks fl) as [|tk tks] eqn:Et.
    - (* no directive at all *)
      assert (Hnil : forall k, vals k fl = []).
      { intros k. unfold vals. clear -Et. induction fl as [|l fl IH]; [reflexivity|].
        cbn [flat_map] in *. destruct l as [k' [|] ind sp q v tl|i]; cbn [dtoks app] in Et; try discriminate.
        apply IH; exact Et. }
      eexists; eexists. repeat split; cbn [r_index r_extra r_find r_noindex]; rewrite ?Hnil; cbn; try tauto;
        intros _; exists []; rewrite app_nil_r; reflexivity.
    - rewrite En, Ned, Nno.
      destruct gen_cli_ok as (_ & _ & _ & Em). unfold merged. rewrite Em. cbn [existsb String.eqb Ascii.eqb Bool.eqb orb andb].
      eexists; eexists. repeat split; cbn [r_index r_extra r_find r_noindex].
      + rewrite Ni. apply dedup_in.
      + rewrite Ni. apply dedup_in.
      + rewrite Ne. apply dedup_in.
      + rewrite Ne. apply dedup_in.
      + rewrite Nf. apply dedup_in.
      + rewrite Nf. apply dedup_in.
      + cbn. apply orb_false_r.
      + apply dedup_append_prefix.
      + apply dedup_append_prefix.
      + apply dedup_append_prefix.
  Qed.

  (* bi be bf bno: --index-url / --extra-index-url / --find-links / --no-index given on the
     command line itself *)
  Theorem front_ends_agree : forall bi be bf bno fuel path (fl : list fline),
    forallb fline_ok fl = true ->
    fs path = Some (render (map fitem fl)) -> 0 < fuel ->
    (forall t, In (req_meaning t) (reqs_of (map fitem fl)) -> valid t = true) ->
    exists rc rb,
      cli_front_full bi be bf bno (req_iter valid fs fuel path) = FOk rc /\
      bazel_front (req_iter valid fs fuel path) (render (map fitem fl)) = FOk rb /\
      r_index rb = vals DIndex fl /\ r_extra rb = vals DExtra fl /\ r_find rb = vals DFind fl /\
      (forall u, In u (r_index rc) <-> In u bi \/ In u (map norm_index_url (r_index rb))) /\
      (forall u, In u (r_extra rc) <-> In u be \/ In u (map norm_index_url (r_extra rb))) /\
      (forall u, In u (r_find rc) <-> In u bf \/ In u (r_find rb)) /\
      r_noindex rc = bno /\ r_noindex rb = false /\
      (NoDup bi -> exists tl, r_index rc = (bi ++ tl)%list) /\
      (NoDup be -> exists tl, r_extra rc = (be ++ tl)%list) /\
      (NoDup bf -> exists tl, r_find rc = (bf ++ tl)%list).
  Proof.
    intros bi be bf bno fuel path fl Hok Hfs Hfuel Hvalid.
    destruct (flines_flat _ Hok) as (Hd & Hh & Ho).
    destruct (reads_like_pip valid fs fuel path (map fitem fl) (flines_conv _ Hok) Hfs (Hh fs _) ltac:(lia) Hvalid)
      as (texts & Er & _).
    rewrite Er, Ho. apply fronts_of_dirs. exact Hok.
  Qed.

  (* ---- several input files, given in any order *)
  Lemma render_concat (fls : list (list fline)) :
    List.concat (map (fun fl => render (map fitem fl)) fls) = render (map fitem (List.concat fls)).
  Proof.
    induction fls as [|fl fls IH]; [reflexivity|]. cbn [map List.concat]. rewrite IH.
    unfold render. rewrite map_app, flat_map_app. reflexivity.
  Qed.
  Lemma dtoks_concat (fls : list (list fline)) :
    List.concat (map (flat_map dtoks) fls) = flat_map dtoks (List.concat fls).
  Proof.
    induction fls as [|fl fls IH]; [reflexivity|]. cbn [map List.concat]. rewrite IH, flat_map_app. reflexivity.
  Qed.

  Definition file_ok (p : string) (fl : list fline) : Prop :=
    forallb fline_ok fl = true /\ fs p = Some (render (map fitem fl)) /\
    (forall t, In (req_meaning t) (reqs_of (map fitem fl)) -> valid t = true).

  Lemma read_files_dirs fuel : 0 < fuel -> forall paths fls, Forall2 file_ok paths fls -> forall acc,
    exists texts, combine_res (map (req_iter valid fs fuel) paths) acc =
                  Ok (texts, (snd acc ++ flat_map dtoks (List.concat fls))%list).
  Proof.
    intros Hfuel paths fls H. induction H as [|p fl paths fls (Hok & Hfs & Hv) _ IH]; intros acc.
    - cbn. rewrite app_nil_r. destruct acc; eauto.
    - cbn [map combine_res List.concat].
      destruct (flines_flat _ Hok) as (Hd & Hh & Ho).
      destruct (reads_like_pip valid fs fuel p (map fitem fl) (flines_conv _ Hok) Hfs (Hh fs _) ltac:(lia) Hv) as (texts & -> & _).
      rewrite Ho. destruct (IH ((fst acc ++ texts)%list, (snd acc ++ flat_map dtoks fl)%list)) as (T & ->).
      cbn [snd]. rewrite flat_map_app, app_assoc. eauto.
  Qed.
  Lemma forallb_concat_ok paths fls : Forall2 file_ok paths fls -> forallb fline_ok (List.concat fls) = true.
  Proof.
    intros H. induction H as [|p fl paths fls (Hok & _) _ IH]; [reflexivity|].
    cbn [List.concat]. rewrite forallb_app, Hok, IH. reflexivity.
  Qed.

  Theorem front_ends_agree_files : forall bi be bf bno fuel (paths : list string) (fls : list (list fline)),
    Forall2 file_ok paths fls -> 0 < fuel ->
    exists rc rb,
      cli_front_files bi be bf bno (read_files valid fs fuel paths) = FOk rc /\
      bazel_front_files (read_files valid fs fuel paths) (map (fun fl => render (map fitem fl)) fls) = FOk rb /\
      agree_concl bi be bf bno (List.concat fls) rc rb.
  Proof.
    intros bi be bf bno fuel paths fls H Hfuel. unfold read_files, cli_front_files, bazel_front_files.
    destruct (read_files_dirs fuel Hfuel paths fls H ([], [])) as (texts & ->). cbn [snd app].
    rewrite render_concat. apply fronts_of_dirs. eapply forallb_concat_ok; exact H.
  Qed.
End Fronts.

(* the index, extra-index and find-links locations the command line uses are the declared
   ones (index urls up to the trailing-slash normalisation of norm_index_url) *)
Corollary options_honoured (valid : string -> bool) (fs : string -> option (list string)) :
  forall fuel path (fl : list fline),
    forallb fline_ok fl = true ->
    fs path = Some (render (map fitem fl)) -> 0 < fuel ->
    (forall t, In (req_meaning t) (reqs_of (map fitem fl)) -> valid t = true) ->
    exists rc, cli_front (req_iter valid fs fuel path) = FOk rc /\
      (forall u, In u (r_index rc) <-> In u (map norm_index_url (vals DIndex fl))) /\
      (forall u, In u (r_extra rc) <-> In u (map norm_index_url (vals DExtra fl))) /\
      (forall u, In u (r_find rc) <-> In u (vals DFind fl)).
Proof.
  intros fuel path fl H1 H2 H3 H4.
  destruct (front_ends_agree valid fs [] [] [] false fuel path fl H1 H2 H3 H4)
    as (rc & rb & E1 & _ & Ei & Ee & Ef & Hi & He & Hf & _).
  exists rc. split; [exact E1|]. rewrite <- Ei, <- Ee, <- Ef.
  split; [|split]; intros u; [rewrite Hi|rewrite He|rewrite Hf]; cbn [In]; tauto.
Qed.

(* ---- the guard is satisfiable by a file with all three directive kinds, both spellings,
   indentation, tabs, quotes, a trailing comment, and a hashed requirement on continuation lines *)
Definition htab : string := String (ascii_of_nat 9) EmptyString.
Definition ex_fl : list fline :=
  [FOther (IComment "" " indexes");
   FDir DIndex false "  " " " "" "http://x/simple/" (mkTail (Some ("  ", " main")) "");
   FDir DExtra true "" "" """" "http://y/team_s" (mkTail None "  ");
   FOther (IReq "" "foo==1.0" [] [(GBr " " "    ", "--hash=sha256:aa")] (mkTail None ""));
   FDir DFind false htab htab "'" "./wheel_cache" (mkTail None "");
   FDir DIndex true "" "" "" "http://x/simple" (mkTail None "")].
Definition ex_fl_fs : string -> option (list string) :=
  fun p => if String.eqb p "reqs.in" then Some (render (map fitem ex_fl)) else None.

Lemma front_ends_agree_example :
  forallb fline_ok ex_fl = true /\
  render (map fitem ex_fl) = ["# indexes"; "  --index-url http://x/simple/  # main"; "--extra-index-url=""http://y/team_s""  ";
                              "foo==1.0 \"; "    --hash=sha256:aa"; htab ++ "--find-links" ++ htab ++ "'./wheel_cache'";
                              "--index-url=http://x/simple"] /\
  cli_front_full ["http://cli/s"] [] ["./own"] false (req_iter (fun _ => true) ex_fl_fs 1 "reqs.in") =
    FOk (mkRepos ["http://cli/s"; "http://x/simple"] ["http://y/team_s"] ["./own"; "./wheel_cache"] false) /\
  bazel_front (req_iter (fun _ => true) ex_fl_fs 1 "reqs.in") (render (map fitem ex_fl)) =
    FOk (mkRepos ["http://x/simple/"; "http://x/simple"] ["http://y/team_s"] ["./wheel_cache"] false).
Proof. vm_compute. repeat split; reflexivity. Qed.

(* C01 - "every pin satisfies every requirement placed on it" - for ALL compiles of the solver model: all universes,
   inputs, constraint sets, repository stacks, options and walk-back histories; by an invariant of the dependency graph
   and induction on the fuel (no bound, no evaluation over samples).

   RESULT.
   * The form first proposed - edges_ok: the version of the target lies inside the STORED reason of every link whose
     both ends are solved - is FALSE of the model: compile_edges_ok_refuted (Part 7) exhibits a universe that satisfies
     every hypothesis below, on which the compile succeeds, and whose result graph violates it.  A walk-back replaces
     a-2.0 (which requested b[x]) by a-1.0; b keeps the link b -> c with the reason "c>=1,<2" that was computed while
     extra x was requested of it; c is then solved again - to 3.0 - against the requirements that apply NOW (c>=1 from b,
     c>=2 from a-1.0).  The stale reason is stronger than anything b still requires, so this is no violation of the
     property C01 itself ("every applicable requirement of every other solved distribution").
   * The strongest true variant, proved for ALL compiles (Part 6):
       compile_pins_sound          for every indexed (live) solved node s and every requirement line q of its metadata whose
                                   marker holds under no extra or under an extra requested of s by a current link: the
                                   project q names is in the index, its node lists s as requirer, s has a link to it,
                                   and if it is solved to a version v (not a container) then v lies inside q's specifier;
       compile_edges_ok_applicable the shape of edges_ok with "stored reason" replaced by "every requirement line of
                                   the requirer that applies now", requirer indexed;
       compile_pins_ok_live        the form of model/Check.v (pins_ok, second half: the merged, de-duplicated
                                   requirements build_constraints and the annotations see), requirer indexed;
       compile_pins_sound_b        the same under the decidable hypothesis hyps_okb;
       nocand_pins_sound           the same for the graph attached to a NoCandidate failure.
     What is excluded, and why: (1) requirers that are no longer in the index (node objects removed from the graph
     that a stale link still names) - the invariant is about indexed nodes, a removed object is not a distribution of
     the result; on about 70000 generated compiles the statement also held for them, but it is not proved;  (2) stored
     reasons that are stronger than what applies now (the refutation).
   * Hypotheses (each decidable: hyps_okb; each true of real universes):
       stack_ok u      every candidate c of every repository: norm (dname (cdist c)) = norm (cname c) (the metadata carries
                       the project name of the file it was read from - otherwise add_dist files the answer under
                       another project's node, without asking that node's requirers); the name of the distribution and
                       of each of its requirements is hygienic (name_ok: the node key norm(name) and the repository key
                       norm(safe_name(name)) coincide and are fixed points - true of every PEP 508 name; otherwise a
                       requirement is filed under one key and matched under another); wildcards only with == / !=
                       (clause_wf: PEP 440; otherwise the set(...) in build_constraints, which compares wildcard clauses
                       by release only, may drop a requirement that differs from the one it keeps).
       container_ok    inputs and constraint files are containers (dmeta = true, as requirements files are) with
                       hygienic requirement names.  NEEDED: PinsEx.v shows a compile whose second input is a project
                       (a solved, non-meta distribution foo 1.0) and whose first input requires foo>=2: it succeeds
                       with foo pinned to 1.0 - add_dist(metadata) never consults the requirers.
     No hypothesis on versions (a version-less distribution is not claimed to satisfy anything), on markers, on the
     environment, on the options (pins, --only-binary, --extra, max_downgrade), on cons (None and Some are covered).

   ROUTE.  J g = GraphFwd.inv None g (links mirror each other and point at indexed nodes) + hygiene of the metadata in
   the graph (J2) + every node is a container or carries a project key (J3) + JQ: every applicable requirement line of
   an indexed solved node has a link to a node of the required project that honours it.  JQ is phrased with LINKS, so
   every removal (invalidate, cascade, remove the walk-back container) preserves it by a frame argument (Part 1: no
   link of another node is lost, metadata is untouched or cleared).  add_dist (Part 3b) keeps J with a list of
   PENDING obligations - (s, r): add_dist(r.name, source = s, reason = r) is still to be done or under way - and an
   exempted node (the one under construction); the final re-check of the node against the reason discharges the
   caller's pending obligation, using that a node solved at the end kept all its links (Part 3a).  compile_roots
   (Part 4c) carries J, key stability and "no index entry under a #bad# key is created" through the walk-back handler
   (the latter makes the removal of the container safe).  The solving step (Part 4b) shows that the repository's answer
   satisfies every applicable requirement line of every registered requirer: build_constraints merges them, the set(...)
   drops only equal ones (Part 0b), and by J every live solved node with such a requirement IS a registered requirer. *)
From Coq Require Import List String Ascii Bool Arith NArith ZArith Lia.
From RC Require Import lib.Lex lib.PyStr lib.StrSort lib.Pep440 lib.Name model.Merge model.Graph model.Possible
                       model.Solver model.Check gen.SolverConsts gen.NameConsts proofs.MergeP proofs.SolverP proofs.GraphP proofs.GraphWF
                       proofs.GraphStable proofs.GraphFwd proofs.SrcP proofs.SolverWF proofs.NameSpecP.
Import ListNotations.
Open Scope list_scope.
Open Scope nat_scope.

(* ================================================================================================ *)
(* Part 0a: names                                                                                   *)
(* ================================================================================================ *)

(* the project key under which the repositories are asked and requirements are matched to nodes *)
Definition pkey (s : string) : string := norm (safe_name s).
(* a key on which both normalisations are the identity *)
Definition kgood (k : string) : Prop := norm k = k /\ pkey k = k.
(* name hygiene: the node key norm(name) and the repository key norm(safe_name(name)) coincide and are stable *)
Definition name_ok (s : string) : Prop := norm s = pkey s /\ kgood (pkey s).
(* keys of the "#bad#-..." containers of the walk-back handler *)
Definition is_bad (k : string) : bool :=
  match k with String c _ => Ascii.eqb c "#"%char | EmptyString => false end.

Lemma name_ok_kgood s : name_ok s -> kgood (norm s).
Proof. intros [H1 H2]. rewrite H1. exact H2. Qed.

Lemma kgood_name_ok k : kgood k -> name_ok k.
Proof. intros [H1 H2]. unfold name_ok. rewrite H2. split; [exact H1|split; assumption]. Qed.

Lemma name_ok_norm s : name_ok s -> name_ok (norm s) /\ pkey (norm s) = pkey s.
Proof.
  intros H. pose proof (name_ok_kgood s H) as Hk. destruct H as [H1 H2].
  split; [apply kgood_name_ok; exact Hk|]. destruct Hk as [_ Hk2]. rewrite Hk2. exact H1.
Qed.

(* norm is a character-wise map *)
Definition chain_char (chain : list (ascii * ascii)) (c : ascii) : ascii :=
  fold_left (fun a p => if Ascii.eqb a (fst p) then snd p else a) chain c.
Definition normc (c : ascii) : ascii := chain_char norm_chain (if norm_lower then lower_ascii c else c).

Lemma apply_chain_cons chain : forall c s,
  apply_chain chain (String c s) = String (chain_char chain c) (apply_chain chain s).
Proof.
  unfold apply_chain, chain_char. induction chain as [|p chain IH]; intros c s; cbn [fold_left]; [reflexivity|].
  unfold replace_char at 2. cbn [smap]. fold (replace_char (fst p) (snd p) s). apply IH.
Qed.

Lemma norm_cons c s : norm (String c s) = String (normc c) (norm s).
Proof.
  unfold norm, normc. destruct norm_lower.
  - unfold lower. cbn [smap]. apply apply_chain_cons.
  - apply apply_chain_cons.
Qed.

Lemma norm_empty : norm EmptyString = EmptyString.
Proof.
  unfold norm, apply_chain. destruct norm_lower; cbn [lower smap];
    induction norm_chain as [|p ch IH]; cbn [fold_left]; auto.
Qed.

Lemma normc_safe_not_hash c :
  (safe_ok c || Ascii.eqb c "-"%char) = true -> Ascii.eqb (normc c) "#"%char = false.
Proof.
  destruct c as [b0 b1 b2 b3 b4 b5 b6 b7].
  destruct b0, b1, b2, b3, b4, b5, b6, b7; vm_compute; intros H; try reflexivity; discriminate H.
Qed.

Lemma safe_name_head s :
  safe_name s = EmptyString \/ exists c rest, safe_name s = String c rest /\ (safe_ok c || Ascii.eqb c "-"%char) = true.
Proof.
  unfold safe_name. destruct s as [|c s]; cbn [safe_name_aux]; [left; reflexivity|right].
  destruct (safe_ok c) eqn:E.
  - eexists _, _. split; [reflexivity|]. rewrite E. reflexivity.
  - eexists _, _. split; [reflexivity|]. apply orb_true_r.
Qed.

Lemma pkey_not_bad s : is_bad (pkey s) = false.
Proof.
  unfold pkey. destruct (safe_name_head s) as [->|[c [rest [-> Hc]]]].
  - rewrite norm_empty. reflexivity.
  - rewrite norm_cons. cbn [is_bad]. apply normc_safe_not_hash. exact Hc.
Qed.

Lemma kgood_not_bad k : kgood k -> is_bad k = false.
Proof. intros [_ H]. rewrite <- H. apply pkey_not_bad. Qed.

Lemma norm_hash_bad s : is_bad (norm (String "#"%char s)) = true.
Proof. rewrite norm_cons. cbn [is_bad]. vm_compute. reflexivity. Qed.

(* ================================================================================================ *)
(* Part 0b: clause_eqb (the equality used by set(...) of requirements) preserves clause_match        *)
(* ================================================================================================ *)

(* PEP 440: a wildcard suffix is only allowed with == and != *)
Definition clause_wf (c : clause) : Prop := cwild c = true -> cop c = OEq \/ cop c = ONe.

Lemma app_sentinel (l1 : list N) : forall (l2 : list N) (r1 r2 : list Z),
  map (fun n => (Z.of_N n + 1)%Z) l1 ++ 0%Z :: r1 = map (fun n => (Z.of_N n + 1)%Z) l2 ++ 0%Z :: r2 ->
  l1 = l2 /\ r1 = r2.
Proof.
  induction l1 as [|a l1 IH]; intros [|b l2] r1 r2; cbn [map app]; intros H.
  - injection H as H. auto.
  - injection H as H _. lia.
  - injection H as H _. lia.
  - injection H as H1 H2. destruct (IH _ _ _ H2) as [-> ->]. split; [|reflexivity]. f_equal. lia.
Qed.

Lemma vkey_inj a b : vkey a = vkey b ->
  epoch a = epoch b /\ strip0 (release a) = strip0 (release b) /\ pre a = pre b /\ post a = post b /\
  dev a = dev b /\ has_local a = has_local b.
Proof.
  unfold vkey, enc_release. rewrite <- !app_assoc. cbn [app]. intros H. injection H as He H.
  apply app_sentinel in H as [Hr H]. split; [lia|]. split; [exact Hr|].
  unfold enc_pre, enc_post, enc_dev, enc_local, has_local in *.
  destruct (pre a) as [[ka na]|], (pre b) as [[kb nb]|], (post a) as [pa|], (post b) as [pb|],
           (dev a) as [da|], (dev b) as [db|]; cbn [app] in H;
    try (destruct ka; discriminate H); try (destruct kb; discriminate H); try discriminate H;
    try (destruct ka, kb; discriminate H);
    destruct (vlocal a) as [|sa la], (vlocal b) as [|sb lb]; cbn [app] in H; try discriminate H;
    inversion H;
    repeat match goal with
           | Hx : Z.of_N _ = Z.of_N _ |- _ => apply N2Z.inj in Hx; subst
           | Hx : kcode ?k1 = kcode ?k2 |- _ => assert (k1 = k2) by (destruct k1, k2; (reflexivity || discriminate Hx)); clear Hx; subst
           end; repeat split; reflexivity.
Qed.

Lemma list_N_eqb_eq a : forall b, list_N_eqb a b = true -> a = b.
Proof.
  induction a as [|x a IH]; intros [|y b]; cbn [list_N_eqb]; try discriminate; [reflexivity|].
  intros H. apply andb_true_iff in H as [H1 H2]. apply N.eqb_eq in H1. subst. f_equal. apply IH. exact H2.
Qed.

Lemma op_eqb_eq a b : op_eqb a b = true -> a = b.
Proof. destruct a, b; cbn; intros H; (reflexivity || discriminate H). Qed.

Lemma veqb_vkey a b : veqb a b = true -> vkey a = vkey b.
Proof. unfold veqb. apply Lex.eqb_eq. Qed.

Lemma vkey_mk e r r' p po d l : strip0 r = strip0 r' -> vkey (mkV e r p po d l) = vkey (mkV e r' p po d l).
Proof. intros H. unfold vkey, enc_release. cbn [epoch release]. rewrite H. reflexivity. Qed.

(* functions of a version that only look at the sort key and the named components *)
Lemma clause_match_vkey s s' v :
  vkey s = vkey s' ->
  eq_match s v = eq_match s' v /\ lt_match s v = lt_match s' v /\ gt_match s v = gt_match s' v /\
  vleb (public v) s = vleb (public v) s' /\ vleb s (public v) = vleb s' (public v).
Proof.
  intros Hk. destruct (vkey_inj _ _ Hk) as [He [Hr [Hp [Hpo [Hd Hl]]]]].
  repeat split.
  - unfold eq_match. rewrite Hl. unfold veqb. rewrite Hk. reflexivity.
  - unfold lt_match, is_prerelease. rewrite Hp, Hd, He, Hpo. unfold vltb at 1 3. rewrite Hk.
    unfold vltb. rewrite (vkey_mk _ _ _ _ _ _ _ Hr). reflexivity.
  - unfold gt_match. rewrite Hd, Hpo, He, Hp.
    destruct (dev s') as [n|].
    + unfold vleb. rewrite (vkey_mk _ _ _ _ _ _ _ Hr). reflexivity.
    + destruct (post s') as [n|].
      * unfold vleb. rewrite (vkey_mk _ _ _ _ _ _ _ Hr). reflexivity.
      * unfold vltb, same_family. rewrite Hk, He, Hr, Hp. reflexivity.
  - unfold vleb. rewrite Hk. reflexivity.
  - unfold vleb. rewrite Hk. reflexivity.
Qed.

Lemma clause_eqb_match a b v : clause_eqb a b = true -> clause_wf a -> clause_match a v = clause_match b v.
Proof.
  unfold clause_eqb. intros H Hwf.
  apply andb_true_iff in H as [H H3]. apply andb_true_iff in H as [H1 H2].
  apply op_eqb_eq in H1. apply Bool.eqb_prop in H2.
  unfold clause_match. rewrite <- H1, <- H2.
  destruct (cwild a) eqn:Hw.
  - apply andb_true_iff in H3 as [He Hr]. apply N.eqb_eq in He. apply list_N_eqb_eq in Hr.
    assert (Hpm : prefix_match (cver a) v = prefix_match (cver b) v) by (unfold prefix_match; rewrite He, Hr; reflexivity).
    destruct (Hwf Hw) as [Ho|Ho]; rewrite Ho; rewrite Hpm; reflexivity.
  - destruct (cop a) eqn:Ho.
    all: try (apply veqb_vkey in H3; destruct (clause_match_vkey _ _ v H3) as [E1 [E2 [E3 [E4 E5]]]];
              rewrite ?E1, ?E2, ?E3, ?E4, ?E5; reflexivity).
    apply andb_true_iff in H3 as [Hv Hr]. apply veqb_vkey in Hv. apply list_N_eqb_eq in Hr.
    destruct (clause_match_vkey _ _ v Hv) as [_ [_ [_ [_ E5]]]]. rewrite E5.
    destruct (vkey_inj _ _ Hv) as [He _].
    unfold compat_prefix. rewrite He, Hr. reflexivity.
Qed.

Lemma subset_by_in {A} (eqb : A -> A -> bool) l1 l2 x :
  subset_by eqb l1 l2 = true -> In x l1 -> exists y, In y l2 /\ eqb x y = true.
Proof.
  unfold subset_by. intros H Hx. rewrite forallb_forall in H. specialize (H x Hx).
  apply existsb_exists in H. exact H.
Qed.

Lemma lower_norm a b : lower a = lower b -> norm a = norm b.
Proof. unfold norm. intros H. destruct norm_lower eqn:E; [rewrite H; reflexivity|]. vm_compute in E. discriminate E. Qed.

(* a requirement dropped by the set(...) of build_constraints is represented by an equal one: same project key,
   and (clause by clause) the same accepted versions *)
Lemma req_eqb_stronger m1 m0 :
  req_eqb m1 m0 = true -> Forall clause_wf (rspec m1) -> stronger m0 m1 /\ pkey (rname m0) = pkey (rname m1).
Proof.
  unfold req_eqb. intros H Hwf.
  apply andb_true_iff in H as [H _]. apply andb_true_iff in H as [H _]. apply andb_true_iff in H as [H _].
  apply andb_true_iff in H as [H _]. apply andb_true_iff in H as [H H3].
  split.
  - intros v f Ha. unfold accepts, spec_contains in *. apply andb_true_iff in Ha as [Hf Hall].
    rewrite Hf. cbn [andb]. apply forallb_forall. intros c1 Hc1.
    destruct (subset_by_in _ _ _ _ H3 Hc1) as [c0 [Hc0 He]].
    rewrite Forall_forall in Hwf. rewrite (clause_eqb_match _ _ v He (Hwf _ Hc1)).
    rewrite forallb_forall in Hall. apply Hall. exact Hc0.
  - apply String.eqb_eq in H. unfold pkey. symmetry. apply lower_norm. exact H.
Qed.

Lemma dedup_cover q rs : forall seen,
  In q rs ->
  (exists q0, In q0 (dedup_reqs rs seen) /\ (q0 = q \/ req_eqb q q0 = true)) \/
  (exists q0, In q0 seen /\ req_eqb q q0 = true).
Proof.
  induction rs as [|r rs IH]; intros seen Hin; [destruct Hin|].
  cbn [dedup_reqs]. destruct Hin as [->|Hin].
  - destruct (existsb (req_eqb q) seen) eqn:E.
    + right. apply existsb_exists in E. exact E.
    + left. exists q. split; [left; reflexivity|left; reflexivity].
  - destruct (existsb (req_eqb r) seen) eqn:E.
    + apply IH. exact Hin.
    + destruct (IH (r :: seen) Hin) as [[q0 [Hq0 Hc]]|[q0 [Hq0 Hc]]].
      * left. exists q0. split; [right; exact Hq0|exact Hc].
      * destruct Hq0 as [<-|Hq0].
        -- left. exists r. split; [left; reflexivity|right; exact Hc].
        -- right. exists q0. auto.
Qed.

Lemma dedup_sub rs : forall seen q, In q (dedup_reqs rs seen) -> In q rs.
Proof.
  induction rs as [|r rs IH]; intros seen q H; cbn [dedup_reqs] in H; [destruct H|].
  destruct (existsb (req_eqb r) seen); [right; eapply IH; exact H|].
  destruct H as [<-|H]; [left; reflexivity|right; eapply IH; exact H].
Qed.

(* ================================================================================================ *)
(* Part 0c: merging and reducing hygienic requirements                                              *)
(* ================================================================================================ *)

Definition req_ok (r : req) : Prop := name_ok (rname r) /\ Forall clause_wf (rspec r).
Definition dist_ok (d : dist) : Prop := forall r, In r (dreqs d) -> req_ok r.

Lemma merge_ok a b m :
  merge (Some a) (Some b) = Ok m -> req_ok a -> req_ok b ->
  req_ok m /\ pkey (rname m) = pkey (rname a).
Proof.
  intros H [Na Wa] [Nb Wb]. unfold merge in H. destruct (String.eqb _ _); [|discriminate]. injection H as <-.
  cbn [rname rspec]. destruct (name_ok_norm _ Na) as [N1 N2]. split; [|exact N2].
  split; [exact N1|]. apply Forall_app. split; assumption.
Qed.

Definition eok (kr : string * req) : Prop := req_ok (snd kr) /\ pkey (rname (snd kr)) = fst kr.

Lemma upsert_ok k r : forall acc acc',
  eok (k, r) -> Forall eok acc -> upsert k r acc = Ok acc' -> Forall eok acc'.
Proof.
  induction acc as [|[k' r'] acc IH]; intros acc' Hr Hacc H; cbn [upsert] in H.
  - injection H as <-. constructor; [exact Hr|constructor].
  - inversion Hacc as [|? ? Hh Ht]; subst.
    destruct (String.eqb_spec k k') as [->|Hne].
    + destruct (merge (Some r') (Some r)) as [m|] eqn:Hm; [|discriminate]. injection H as <-.
      constructor; [|exact Ht]. destruct Hh as [Hh1 Hh2]. destruct Hr as [Hr1 Hr2]. cbn [fst snd] in *.
      destruct (merge_ok _ _ _ Hm Hh1 Hr1) as [M1 M2]. split; cbn [fst snd]; [exact M1|congruence].
    + destruct (upsert k r acc) as [acc''|] eqn:Hu; [|discriminate]. injection H as <-.
      constructor; [exact Hh|]. eapply IH; [exact Hr|exact Ht|reflexivity].
Qed.

Lemma reduce_acc_ok rs : forall acc out,
  Forall req_ok rs -> Forall eok acc -> reduce_acc rs acc = Ok out -> Forall eok out.
Proof.
  induction rs as [|r rs IH]; intros acc out Hrs Hacc H; cbn [reduce_acc] in H.
  - injection H as <-. exact Hacc.
  - inversion Hrs as [|? ? Hr Hrs']; subst.
    destruct (upsert (norm (safe_name (rname r))) r acc) as [acc'|] eqn:Hu; [|discriminate].
    eapply IH; [exact Hrs'| |exact H]. eapply upsert_ok; [|exact Hacc|exact Hu]. split; [exact Hr|reflexivity].
Qed.

(* reduce: hygiene is kept, and every input requirement is represented by a stronger one of the same project *)
Lemma reduce_cover rs out :
  Forall req_ok rs -> reduce rs = Ok out ->
  Forall req_ok out /\
  forall q, In q rs -> exists m, In m out /\ stronger m q /\ pkey (rname m) = pkey (rname q).
Proof.
  unfold reduce. intros Hrs H. destruct (reduce_acc rs []) as [acc|] eqn:Ha; [|discriminate]. injection H as <-.
  pose proof (reduce_acc_ok rs [] acc Hrs (Forall_nil _) Ha) as Hg. rewrite Forall_forall in Hg.
  split.
  - apply Forall_forall. intros r Hr. apply in_map_iff in Hr as [[k r'] [<- Hin]]. exact (proj1 (Hg _ Hin)).
  - intros q Hq. destruct (reduce_one_per_project rs acc Ha) as [_ Hc].
    destruct (Hc q Hq) as [m [Hin Hs]]. exists m. split; [apply in_map_iff; exists (norm (safe_name (rname q)), m); auto|].
    split; [exact Hs|]. exact (proj2 (Hg _ Hin)).
Qed.

Lemma all_reqs_collect e d xs : all_reqs_of e d xs = collect_requires e d xs.
Proof. induction xs as [|x xs IH]; cbn [all_reqs_of collect_requires]; [reflexivity|]. rewrite IH. reflexivity. Qed.

Lemma requires_cover e d x rs :
  dist_ok d -> requires e d x = Rok rs ->
  Forall req_ok rs /\
  forall q, In q (dreqs d) -> req_uses_extra e q x = true ->
            exists m, In m rs /\ stronger m q /\ pkey (rname m) = pkey (rname q).
Proof.
  unfold requires, lift_merge. intros Hd H.
  destruct (reduce (filter (fun r => req_uses_extra e r x) (dreqs d))) as [out|] eqn:Hr; [|discriminate].
  injection H as <-.
  assert (Hf : Forall req_ok (filter (fun r => req_uses_extra e r x) (dreqs d))).
  { apply Forall_forall. intros r Hin. apply filter_In in Hin as [Hin _]. apply Hd. exact Hin. }
  destruct (reduce_cover _ _ Hf Hr) as [H1 H2]. split; [exact H1|].
  intros q Hq Hu. apply H2. apply filter_In. auto.
Qed.

Lemma collect_requires_cover e d : forall xs all,
  dist_ok d -> collect_requires e d xs = Rok all ->
  Forall req_ok all /\
  forall q x, In q (dreqs d) -> In x xs -> req_uses_extra e q x = true ->
              exists m, In m all /\ stronger m q /\ pkey (rname m) = pkey (rname q).
Proof.
  induction xs as [|x0 xs IH]; intros all Hd H; cbn [collect_requires] in H.
  - injection H as <-. split; [constructor|]. intros q x _ [].
  - apply bind_ok in H as [a [Ha H]]. apply bind_ok in H as [b [Hb H]]. injection H as <-.
    destruct (requires_cover _ _ _ _ Hd Ha) as [A1 A2]. destruct (IH _ Hd Hb) as [B1 B2].
    split; [apply Forall_app; split; assumption|].
    intros q x Hq [<-|Hx] Hu.
    + destruct (A2 q Hq Hu) as [m [Hm Hs]]. exists m. split; [apply in_or_app; left; exact Hm|exact Hs].
    + destruct (B2 q x Hq Hx Hu) as [m [Hm Hs]]. exists m. split; [apply in_or_app; right; exact Hm|exact Hs].
Qed.

(* ================================================================================================ *)
(* Part 0d: the extras requested of a node                                                          *)
(* ================================================================================================ *)

Definition link_extras (g : graph) (id rr : nat) : list string :=
  match alookup rr (heap g) with
  | Some rrn => match alookup id (ndeps rrn) with Some (Some r) => rextras r | _ => [] end
  | None => [] end.
(* the extras requested of node id by the reasons of the links of its registered requirers (total: no error cases) *)
Definition extras_tot (g : graph) (id : nat) : list string :=
  match alookup id (heap g) with Some n => flat_map (link_extras g id) (nrdeps n) | None => [] end.
(* requirement q of the metadata of node id applies: its marker holds under no extra or under a requested extra *)
Definition applies_b (e : env) (g : graph) (id : nat) (q : req) : bool :=
  req_uses_extra e q None || existsb (fun x => req_uses_extra e q (Some x)) (extras_tot g id).

Lemma applies_spec e g id q :
  applies_b e g id q = true <->
  exists x, In x (None :: map Some (extras_tot g id)) /\ req_uses_extra e q x = true.
Proof.
  unfold applies_b. rewrite orb_true_iff, existsb_exists. split.
  - intros [H|[x [Hx H]]]; [exists None; split; [left; reflexivity|exact H]|].
    exists (Some x). split; [right; apply in_map; exact Hx|exact H].
  - intros [x [[<-|Hx] H]]; [left; exact H|]. apply in_map_iff in Hx as [y [<- Hy]]. right. exists y. auto.
Qed.

Lemma applies_mono e g g' id id' q :
  (forall x, In x (extras_tot g' id') -> In x (extras_tot g id)) ->
  applies_b e g' id' q = true -> applies_b e g id q = true.
Proof.
  intros Hsub H. apply applies_spec in H as [x [Hx Hu]]. apply applies_spec. exists x. split; [|exact Hu].
  destruct Hx as [<-|Hx]; [left; reflexivity|]. right. apply in_map_iff in Hx as [y [<- Hy]]. apply in_map. apply Hsub. exact Hy.
Qed.

Lemma extras_from_eq g id rds : forall xs,
  extras_from g id rds = Rok xs -> xs = flat_map (link_extras g id) rds.
Proof.
  induction rds as [|rd rds IH]; intros xs H; cbn [extras_from] in H.
  - injection H as <-. reflexivity.
  - apply bind_ok in H as [n [Hn H]]. apply getn_some in Hn.
    destruct (nmeta n); [|discriminate]. destruct (alookup id (ndeps n)) as [reason|] eqn:Hl; [|discriminate].
    apply bind_ok in H as [rest [Hrest H]]. injection H as <-. cbn [flat_map]. unfold link_extras at 1. rewrite Hn, Hl.
    rewrite (IH _ Hrest). destruct reason; reflexivity.
Qed.

Lemma node_extras_tot g id ex : node_extras g id = Rok ex -> forall x, In x ex <-> In x (extras_tot g id).
Proof.
  unfold node_extras. intros H x. apply bind_ok in H as [n [Hn H]]. apply getn_some in Hn.
  apply bind_ok in H as [xs [Hxs H]]. injection H as <-. rewrite sort_set_in. unfold extras_tot. rewrite Hn.
  rewrite (extras_from_eq _ _ _ _ Hxs). tauto.
Qed.

Lemma opt_str_eqb_eq a b : opt_str_eqb a b = true -> a = b.
Proof. destruct a, b; cbn; try discriminate; [|reflexivity]. intros H. apply String.eqb_eq in H. congruence. Qed.
Lemma opt_str_eqb_refl a : opt_str_eqb a a = true.
Proof. destruct a; cbn; [apply String.eqb_refl|reflexivity]. Qed.

Lemma extras_iteration_in e ex x : In x (None :: map Some ex) -> In x (extras_iteration e ex).
Proof.
  intros Hx. unfold extras_iteration. apply in_or_app.
  destruct (existsb (opt_str_eqb x) (xorder e)) eqn:E.
  - left. apply existsb_exists in E as [y [Hy He]]. apply opt_str_eqb_eq in He. subst y.
    apply filter_In. split; [exact Hy|]. apply existsb_exists. exists x. split; [exact Hx|apply opt_str_eqb_refl].
  - right. apply filter_In. split; [exact Hx|]. rewrite E. reflexivity.
Qed.

(* the expansion of a solved node covers every requirement that applies under the extras it was computed for *)
Lemma expansion_cover e m ex all rs :
  dist_ok m -> collect_requires e m (extras_iteration e ex) = Rok all -> lift_merge (reduce all) = Rok rs ->
  Forall req_ok rs /\
  forall q x, In q (dreqs m) -> In x (None :: map Some ex) -> req_uses_extra e q x = true ->
              exists r, In r rs /\ norm (rname r) = pkey (rname q) /\ stronger r q.
Proof.
  intros Hd Hall Hrs. unfold lift_merge in Hrs. destruct (reduce all) as [out|] eqn:Hred; [|discriminate]. injection Hrs as <-.
  destruct (collect_requires_cover _ _ _ _ Hd Hall) as [A1 A2].
  destruct (reduce_cover _ _ A1 Hred) as [B1 B2]. split; [exact B1|].
  intros q x Hq Hx Hu. destruct (A2 q x Hq (extras_iteration_in _ _ _ Hx) Hu) as [m1 [Hm1 [S1 K1]]].
  destruct (B2 m1 Hm1) as [r [Hr [S2 K2]]]. exists r. split; [exact Hr|]. split.
  - rewrite Forall_forall in B1. destruct (B1 r Hr) as [[N _] _]. rewrite N. congruence.
  - eapply stronger_trans; eassumption.
Qed.

Lemma spec_contains_flag cs v f : spec_contains cs v f = true -> spec_contains cs v true = true.
Proof. unfold spec_contains. intros H. apply andb_true_iff in H as [_ H]. rewrite H. reflexivity. Qed.

Lemma slookup_app_old {A} k (v : A) l l' : slookup k l = Some v -> slookup k (l ++ l') = Some v.
Proof.
  induction l as [|[k0 v0] l IH]; cbn [app slookup]; [discriminate|].
  destruct (String.eqb k k0); [auto|exact IH].
Qed.
(* ================================================================================================ *)
(* Part 1: what remove_dists does to the graph                                                      *)
(* ================================================================================================ *)

(* every node's dependency dict has one entry per target *)
Definition ndnd (g : graph) : Prop := forall id n, alookup id (heap g) = Some n -> NoDup (map fst (ndeps n)).

(* only removals, metadata untouched: the index shrinks, node objects stay and keep key and metadata, requirer sets
   and dependency dicts shrink, and a dependency link is only lost if its target is in X *)
Record shrinkR (X : nat -> Prop) (g g' : graph) : Prop := mkShr {
  sr_idx : forall k id, slookup k (index g') = Some id -> slookup k (index g) = Some id;
  sr_dom : forall id n', alookup id (heap g') = Some n' -> exists n, alookup id (heap g) = Some n;
  sr_node : forall id n, alookup id (heap g) = Some n ->
            exists n', alookup id (heap g') = Some n' /\ nkey n' = nkey n /\ nmeta n' = nmeta n /\
                       (forall r, In r (nrdeps n') -> In r (nrdeps n)) /\
                       (forall t ro, alookup t (ndeps n') = Some ro -> alookup t (ndeps n) = Some ro) /\
                       (forall t ro, alookup t (ndeps n) = Some ro -> X t \/ alookup t (ndeps n') = Some ro)
}.

Lemma shrinkR_refl X g : shrinkR X g g.
Proof. constructor; eauto. intros id n H. exists n. repeat split; auto. Qed.

Lemma shrinkR_trans X g1 g2 g3 : shrinkR X g1 g2 -> shrinkR X g2 g3 -> shrinkR X g1 g3.
Proof.
  intros [A1 B1 C1] [A2 B2 C2]. constructor.
  - intros k id H. apply A1, A2, H.
  - intros id n3 H. destruct (B2 id n3 H) as [n2 H2]. eapply B1; exact H2.
  - intros id n H. destruct (C1 id n H) as [n2 [H2 [K2 [M2 [R2 [D2 E2]]]]]].
    destruct (C2 id n2 H2) as [n3 [H3 [K3 [M3 [R3 [D3 E3]]]]]].
    exists n3. split; [exact H3|]. split; [congruence|]. split; [congruence|]. split; [auto|]. split; [auto|].
    intros t ro Ht. destruct (E2 t ro Ht) as [Hx|Ht2]; [left; exact Hx|]. apply E3. exact Ht2.
Qed.

Lemma shrinkR_weaken (X X' : nat -> Prop) g g' : (forall t, X t -> X' t) -> shrinkR X g g' -> shrinkR X' g g'.
Proof.
  intros HX [A B C]. constructor; auto. intros id n H. destruct (C id n H) as [n' [H1 [H2 [H3 [H4 [H5 H6]]]]]].
  exists n'. repeat split; auto. intros t ro Ht. destruct (H6 t ro Ht) as [Hx|Hk]; [left; apply HX; exact Hx|right; exact Hk].
Qed.

Lemma shrink_setn X g id n n' :
  alookup id (heap g) = Some n -> nkey n' = nkey n -> nmeta n' = nmeta n ->
  (forall r, In r (nrdeps n') -> In r (nrdeps n)) ->
  (forall t ro, alookup t (ndeps n') = Some ro -> alookup t (ndeps n) = Some ro) ->
  (forall t ro, alookup t (ndeps n) = Some ro -> X t \/ alookup t (ndeps n') = Some ro) ->
  shrinkR X g (setn g id n').
Proof.
  intros Hn Hk Hm Hr Hd He. constructor.
  - cbn [setn index]. auto.
  - intros a na' Ha. rewrite heap_setn in Ha. destruct (Nat.eqb a id) eqn:E; [|eauto].
    apply Nat.eqb_eq in E; subst a. eauto.
  - intros a na Ha. rewrite heap_setn. destruct (Nat.eqb a id) eqn:E.
    + apply Nat.eqb_eq in E; subst a. rewrite Hn in Ha. injection Ha as <-. exists n'. repeat split; auto.
    + exists na. repeat split; auto.
Qed.

Lemma shrink_sdel X g k : wf g -> shrinkR X g (mkG (heap g) (sdel k (index g)) (next g) (glog g)).
Proof.
  intros [Hnd _]. constructor; cbn [heap index].
  - intros k' id H. eapply slookup_sdel_sub; eassumption.
  - intros id n H. exists n. exact H.
  - intros id n H. exists n. repeat split; auto.
Qed.

Lemma ndnd_setn g id n n' :
  ndnd g -> alookup id (heap g) = Some n -> NoDup (map fst (ndeps n')) -> ndnd (setn g id n').
Proof.
  intros Hnd Hn Hn' a na Ha. rewrite heap_setn in Ha. destruct (Nat.eqb a id); [injection Ha as <-; exact Hn'|eapply Hnd; exact Ha].
Qed.

Lemma alookup_adel_sub {A} k k' (l : list (nat * A)) v : NoDup (map fst l) -> alookup k (adel k' l) = Some v -> alookup k l = Some v.
Proof.
  intros Hnd H. destruct (Nat.eq_dec k k') as [->|Hne].
  - rewrite alookup_adel_same in H by exact Hnd. discriminate.
  - rewrite alookup_adel_other in H by exact Hne. exact H.
Qed.

Lemma del_dep_in_shrink m rds : forall g g',
  ndnd g -> del_dep_in g m rds = Rok g' -> shrinkR (eq m) g g' /\ ndnd g'.
Proof.
  induction rds as [|rd rds IH]; intros g g' Hnd H; cbn [del_dep_in] in H.
  - injection H as <-. split; [apply shrinkR_refl|exact Hnd].
  - apply bind_ok in H as [n [Hn H]]. apply getn_some in Hn. destruct (amem m (ndeps n)); [|discriminate].
    pose proof (Hnd rd n Hn) as Hndn.
    set (n' := mkNode (nkey n) (nmeta n) (adel m (ndeps n)) (nrdeps n) (ncomplete n)) in *.
    destruct (IH (setn g rd n') g') as [Hs Hnd']; [|exact H|].
    + eapply ndnd_setn; [exact Hnd|exact Hn|]. cbn [ndeps n']. apply adel_nodup. exact Hndn.
    + split; [|exact Hnd']. eapply shrinkR_trans; [|exact Hs].
      eapply shrink_setn; [exact Hn|reflexivity|reflexivity|auto| |]; cbn [ndeps n'].
      * intros t ro Ht. eapply alookup_adel_sub; eassumption.
      * intros t ro Ht. destruct (Nat.eq_dec t m) as [->|Hne]; [left; reflexivity|right].
        rewrite alookup_adel_other by exact Hne. exact Ht.
Qed.

Lemma In_nremove k m l : In k (nremove m l) -> In k l.
Proof. intros H. apply nmem_In. eapply nmem_nremove_mono. apply nmem_In. exact H. Qed.

(* the loop over the dependencies of the node being removed / invalidated *)
Lemma rm_loop f up m keyn X g0 :
  (forall g d g', wf g -> remove_dists f g d true = Rok g' ->
                  (forall n, alookup d (heap g) = Some n -> nrdeps n = []) -> shrinkR X g g') ->
  forall deps gc g2,
  shrinkR X g0 gc -> wf gc -> fold_left (loop_body f up m keyn) deps (Rok gc) = Rok g2 ->
  shrinkR X g0 g2 /\ wf g2.
Proof.
  intros IH. induction deps as [|dep deps IHd]; intros gc g2 Hs Hwf H; cbn [fold_left] in H.
  - injection H as <-. auto.
  - destruct (loop_body f up m keyn (Rok gc) dep) as [g3|er] eqn:Hb; [|rewrite loop_err in H; discriminate].
    enough (Hstep : shrinkR X g0 g3 /\ wf g3) by (destruct Hstep as [A B]; eapply IHd; eassumption).
    unfold loop_body in Hb. cbn [bind] in Hb. apply bind_ok in Hb as [d [Hd Hb]].
    destruct (up || negb (String.eqb (nkey d) keyn)); [|injection Hb as <-; auto].
    destruct (nmem m (nrdeps d)); [|discriminate].
    pose proof Hd as Hd0. apply getn_some in Hd0.
    set (d' := mkNode (nkey d) (nmeta d) (ndeps d) (nremove m (nrdeps d)) (ncomplete d)) in *.
    assert (Hs2 : shrinkR X gc (setn gc (fst dep) d')).
    { eapply shrink_setn; [exact Hd0|reflexivity|reflexivity| |auto|auto]. cbn [nrdeps d']. intros r Hr. eapply In_nremove. exact Hr. }
    assert (Hwf2 : wf (setn gc (fst dep) d')) by (eapply setn_wf; [exact Hwf|exact Hd|reflexivity]).
    cbv zeta in Hb. fold d' in Hb.
    destruct (nremove m (nrdeps d)) eqn:Hrd.
    + assert (Hs3 : shrinkR X (setn gc (fst dep) d') g3).
      { apply (IH _ _ _ Hwf2 Hb). intros n0 Hn0. rewrite heap_setn, Nat.eqb_refl in Hn0. injection Hn0 as <-. reflexivity. }
      split; [|eapply remove_dists_wf; [exact Hwf2|exact Hb]].
      eapply shrinkR_trans; [exact Hs|]. eapply shrinkR_trans; eassumption.
    + injection Hb as <-. split; [eapply shrinkR_trans; eassumption|auto].
Qed.

(* remove_dists(node, remove_upstream=True): a removal; links are only lost if they point at the removed node, and
   not even those when nothing requires it (every call of the cascade) *)
Lemma rm_up : forall fuel (X : nat -> Prop) g m g',
  wf g -> remove_dists fuel g m true = Rok g' ->
  (forall n, alookup m (heap g) = Some n -> nrdeps n = [] \/ (X m /\ ndnd g)) -> shrinkR X g g'.
Proof.
  induction fuel as [|f IH]; intros X g m g' Hwf H HX; [discriminate|].
  rewrite remove_dists_unfold in H.
  apply bind_ok in H as [n [Hn H]]. pose proof Hn as Hn0. apply getn_some in Hn0.
  destruct (negb (key_present g (nkey n))); [injection H as <-; apply shrinkR_refl|].
  apply bind_ok in H as [g1 [Hg1 H]].
  set (gs := mkG (heap g) (sdel (nkey n) (index g)) (next g) (glog g)) in *.
  assert (H1 : shrinkR X g g1 /\ wf g1).
  { assert (Hss : shrinkR X g gs) by (apply shrink_sdel; exact Hwf).
    assert (Hwfs : wf gs) by (apply sdel_wf; exact Hwf).
    split; [|eapply del_dep_in_wf; [exact Hwfs|exact Hg1]].
    destruct (HX n Hn0) as [Hnil|[Hx Hnd]].
    - rewrite Hnil in Hg1. cbn [del_dep_in] in Hg1. injection Hg1 as <-. exact Hss.
    - assert (Hnds : ndnd gs) by exact Hnd.
      destruct (del_dep_in_shrink _ _ _ _ Hnds Hg1) as [Hs _]. eapply shrinkR_trans; [exact Hss|].
      eapply shrinkR_weaken; [|exact Hs]. intros t <-. exact Hx. }
  destruct H1 as [Hs1 Hwf1].
  apply bind_ok in H as [n1 [Hn1 H]]. apply bind_ok in H as [g2 [Hg2 H]]. injection H as <-.
  destruct (rm_loop f true m (nkey n) X g1) with (deps := ndeps n1) (gc := g1) (g2 := g2) as [Hs2 _];
    [|apply shrinkR_refl|exact Hwf1|exact Hg2|].
  - intros g0 d g0' Hw0 Hr0 Hnil. eapply (IH X g0 d g0'); [exact Hw0|exact Hr0|].
    intros n0 Hl0. left. apply Hnil. exact Hl0.
  - eapply shrinkR_trans; eassumption.
Qed.

(* remove_dists(node, remove_upstream=False): the same loop (no link of any other node is lost), then the node's own
   metadata and dependency dict are cleared *)
Lemma rm_inval fuel g m g' :
  wf g -> remove_dists fuel g m false = Rok g' ->
  exists g2, shrinkR (fun _ => False) g g2 /\ wf g2 /\
             (g' = g2 \/ exists n2, alookup m (heap g2) = Some n2 /\ g' = setn g2 m (mkNode (nkey n2) None [] (nrdeps n2) false)).
Proof.
  destruct fuel as [|f]; intros Hwf H; [discriminate|].
  rewrite remove_dists_unfold in H.
  apply bind_ok in H as [n [Hn H]].
  destruct (negb (key_present g (nkey n))).
  { injection H as <-. exists g. split; [apply shrinkR_refl|]. auto. }
  cbn [bind] in H. apply bind_ok in H as [n1 [Hn1 H]]. apply bind_ok in H as [g2 [Hg2 H]].
  apply bind_ok in H as [n2 [Hn2 H]]. injection H as <-. apply getn_some in Hn2.
  destruct (rm_loop f false m (nkey n) (fun _ => False) g) with (deps := ndeps n1) (gc := g) (g2 := g2) as [Hs2 Hwf2];
    [|apply shrinkR_refl|exact Hwf|exact Hg2|].
  - intros g0 d g0' Hw0 Hr0 Hnil. eapply (rm_up f _ g0 d g0'); [exact Hw0|exact Hr0|].
    intros n0 Hl0. left. apply Hnil. exact Hl0.
  - exists g2. split; [exact Hs2|]. split; [exact Hwf2|]. right. exists n2. auto.
Qed.

Lemma discard_cases fuel g id reason g' :
  discard fuel g id reason = Rok g' ->
  g' = g \/ exists n d r v, getn g id = Rok n /\ nmeta n = Some d /\ reason = Some r /\ dmeta d = false /\ dversion d = Some v /\
                            spec_contains (rspec r) v true = false /\ remove_dists fuel g id false = Rok g'.
Proof.
  unfold discard. intros H. apply bind_ok in H as [n [Hn H]].
  destruct (nmeta n) as [d|] eqn:Hm; [|injection H as <-; left; reflexivity].
  destruct reason as [r|]; [|injection H as <-; left; reflexivity].
  destruct (dmeta d) eqn:Hd; [injection H as <-; left; reflexivity|].
  destruct (dversion d) as [v|] eqn:Hv; [|injection H as <-; left; reflexivity].
  destruct (spec_contains (rspec r) v true) eqn:Hs; [injection H as <-; left; reflexivity|].
  right. exists n, d, r, v. auto 10.
Qed.
(* ================================================================================================ *)
(* Part 2: the invariant                                                                            *)
(* ================================================================================================ *)

Lemma in_extras_tot g id y :
  In y (extras_tot g id) <->
  exists n rr rrn r, alookup id (heap g) = Some n /\ In rr (nrdeps n) /\ alookup rr (heap g) = Some rrn /\
                     alookup id (ndeps rrn) = Some (Some r) /\ In y (rextras r).
Proof.
  unfold extras_tot. split.
  - destruct (alookup id (heap g)) as [n|] eqn:Hn; [|intros []]. intros H. apply in_flat_map in H as [rr [Hrr Hy]].
    unfold link_extras in Hy. destruct (alookup rr (heap g)) as [rrn|] eqn:Hr; [|destruct Hy].
    destruct (alookup id (ndeps rrn)) as [[r|]|] eqn:Hl; try destruct Hy. exists n, rr, rrn, r. auto.
  - intros [n [rr [rrn [r [Hn [Hrr [Hr [Hl Hy]]]]]]]]. rewrite Hn. apply in_flat_map. exists rr. split; [exact Hrr|].
    unfold link_extras. rewrite Hr, Hl. exact Hy.
Qed.

Lemma aset_keeps {A} t id (v : A) l ro : alookup t l = Some ro -> exists ro', alookup t (aset id v l) = Some ro'.
Proof. intros H. rewrite alookup_aset. destruct (Nat.eqb t id); eauto. Qed.

Section Inv.
Variable e : env.

(* the target honours requirement q: unsolved, a container, version-less, or its version lies inside q *)
Definition tgt_ok (tn : node) (q : req) : Prop :=
  forall d v, nmeta tn = Some d -> dmeta d = false -> dversion d = Some v -> spec_contains (rspec q) v true = true.
Definition mver_ok (m : dist) (q : req) : Prop :=
  dmeta m = false -> forall v, dversion m = Some v -> spec_contains (rspec q) v true = true.
(* (s, r) pending: add_dist(r.name, source=s, reason=r) is still to be done / under way; it will take care of every
   requirement of s on r's project that r is at least as strong as *)
Definition cov (pend : list (nat * req)) (s : nat) (q : req) : Prop :=
  exists r, In (s, r) pend /\ norm (rname r) = pkey (rname q) /\ stronger r q.

(* every applicable requirement of an indexed, solved node - other than x, the node under construction, and other
   than what is pending - has a link to a node of the required project that honours it *)
Definition JQ (x : option nat) (pend : list (nat * req)) (g : graph) : Prop :=
  forall s sn ds q, alookup s (heap g) = Some sn -> slookup (nkey sn) (index g) = Some s -> nmeta sn = Some ds ->
    In q (dreqs ds) -> applies_b e g s q = true -> x <> Some s ->
    cov pend s q \/
    exists t tn ro, alookup t (ndeps sn) = Some ro /\ alookup t (heap g) = Some tn /\ nkey tn = pkey (rname q) /\ tgt_ok tn q.

Definition meta_ok (d : dist) : Prop := dist_ok d /\ (dmeta d = true \/ name_ok (dname d)).
Definition J2 (g : graph) : Prop := forall id n d, alookup id (heap g) = Some n -> nmeta n = Some d -> meta_ok d.
Definition J3 (g : graph) : Prop :=
  forall id n, alookup id (heap g) = Some n -> (exists d, nmeta n = Some d /\ dmeta d = true) \/ kgood (nkey n).
Definition J (x : option nat) (pend : list (nat * req)) (g : graph) : Prop :=
  inv None g /\ J2 g /\ J3 g /\ JQ x pend g.

Lemma cov_mono pend pend' s q : (forall p, In p pend -> In p pend') -> cov pend s q -> cov pend' s q.
Proof. intros H [r [Hin Hr]]. exists r. split; [apply H; exact Hin|exact Hr]. Qed.

Lemma JQ_weaken x x' pend pend' g :
  (forall p, In p pend -> In p pend') -> (forall s, x' <> Some s -> x <> Some s) -> JQ x pend g -> JQ x' pend' g.
Proof.
  intros Hp Hx H s sn ds q Hs Hl Hm Hq Ha Hxs.
  destruct (H s sn ds q Hs Hl Hm Hq Ha (Hx s Hxs)) as [Hc|Hk]; [left; eapply cov_mono; eassumption|right; exact Hk].
Qed.

Lemma tgt_ok_meta tn tn' q : (nmeta tn' = nmeta tn \/ nmeta tn' = None) -> tgt_ok tn q -> tgt_ok tn' q.
Proof. intros [H|H] Ht d v Hm; rewrite H in Hm; [apply Ht; exact Hm|discriminate]. Qed.

(* ---- simulation between two graphs: nodes keep key and metadata (or lose the metadata); an indexed solved node of
   the second graph (other than x') was one of the first (other than x), with at least the same requested extras, and
   its links to project nodes are kept ---- *)
Definition fw (g g' : graph) : Prop :=
  forall a na, alookup a (heap g) = Some na ->
    exists na', alookup a (heap g') = Some na' /\ nkey na' = nkey na /\ (nmeta na' = nmeta na \/ nmeta na' = None).
Definition bw (x x' : option nat) (g g' : graph) : Prop :=
  forall s sn', alookup s (heap g') = Some sn' -> slookup (nkey sn') (index g') = Some s -> nmeta sn' <> None -> x' <> Some s ->
     exists sn, alookup s (heap g) = Some sn /\ slookup (nkey sn) (index g) = Some s /\ x <> Some s /\
       (forall y, In y (extras_tot g' s) -> In y (extras_tot g s)) /\
       (forall t ro tn, alookup t (ndeps sn) = Some ro -> alookup t (heap g) = Some tn -> is_bad (nkey tn) = false ->
                        exists ro', alookup t (ndeps sn') = Some ro').
Definition sim (x x' : option nat) (g g' : graph) : Prop := fw g g' /\ bw x x' g g'.

Lemma sim_refl x g : sim x x g g.
Proof.
  split.
  - intros a na Ha. exists na. auto.
  - intros s sn' Hs Hl Hm Hx. exists sn'. split; [exact Hs|]. split; [exact Hl|]. split; [exact Hx|]. split; [auto|eauto].
Qed.

(* what the simulation gives for one requirer *)
Lemma sim_back x x' g g' s sn' ds :
  sim x x' g g' -> alookup s (heap g') = Some sn' -> slookup (nkey sn') (index g') = Some s -> nmeta sn' = Some ds -> x' <> Some s ->
  exists sn, alookup s (heap g) = Some sn /\ slookup (nkey sn) (index g) = Some s /\ nmeta sn = Some ds /\ nkey sn = nkey sn' /\ x <> Some s /\
    (forall q, applies_b e g' s q = true -> applies_b e g s q = true) /\
    (forall t ro tn, alookup t (ndeps sn) = Some ro -> alookup t (heap g) = Some tn -> is_bad (nkey tn) = false ->
                     exists ro', alookup t (ndeps sn') = Some ro').
Proof.
  intros [Hfw Hbw] Hs Hl Hm Hx.
  destruct (Hbw s sn' Hs Hl ltac:(rewrite Hm; discriminate) Hx) as [sn [Hsn [Hlg [Hxx [Hex Hlk]]]]].
  destruct (Hfw s sn Hsn) as [sn2 [Hsn2 [Hk2 Hm2]]]. rewrite Hs in Hsn2. injection Hsn2 as <-.
  exists sn. split; [exact Hsn|]. split; [exact Hlg|]. split; [destruct Hm2 as [Hm2|Hm2]; congruence|].
  split; [auto|]. split; [exact Hxx|]. split; [|exact Hlk].
  intros q Ha. eapply applies_mono; [exact Hex|exact Ha].
Qed.

Lemma sim_trans x x1 x2 g g1 g2 : sim x x1 g g1 -> sim x1 x2 g1 g2 -> sim x x2 g g2.
Proof.
  intros S1 S2. pose proof S1 as [F1 B1]. pose proof S2 as [F2 B2]. split.
  - intros a na Ha. destruct (F1 a na Ha) as [n1 [H1 [K1 M1]]]. destruct (F2 a n1 H1) as [n2 [H2 [K2 M2]]].
    exists n2. split; [exact H2|]. split; [congruence|]. destruct M2 as [M2|M2]; [|right; exact M2].
    destruct M1 as [M1|M1]; [left; congruence|right; congruence].
  - intros s sn2 Hs Hl Hm Hx. destruct (nmeta sn2) as [ds|] eqn:Hds; [|contradiction].
    destruct (sim_back _ _ _ _ _ _ _ S2 Hs Hl Hds Hx) as [sn1 [Hs1 [Hl1 [Hm1 [Hk1 [Hx1 [_ Hlk1]]]]]]].
    destruct (B2 s sn2 Hs Hl ltac:(rewrite Hds; discriminate) Hx) as [sn1' [Hs1' [_ [_ [Hex2 _]]]]]. rewrite Hs1 in Hs1'. injection Hs1' as <-.
    destruct (B1 s sn1 Hs1 Hl1 ltac:(rewrite Hm1; discriminate) Hx1) as [sn [Hsn [Hlg [Hxx [Hex1 Hlk]]]]].
    exists sn. split; [exact Hsn|]. split; [exact Hlg|]. split; [exact Hxx|]. split; [auto|].
    intros t ro tn Ht Htn Hb. destruct (Hlk t ro tn Ht Htn Hb) as [ro1 Hro1].
    destruct (F1 t tn Htn) as [tn1 [Htn1 [Hkt _]]]. eapply Hlk1; [exact Hro1|exact Htn1|congruence].
Qed.

Lemma sim_weaken x x' y y' g g' :
  (forall s, y' <> Some s -> x' <> Some s) -> (forall s, x <> Some s -> y <> Some s) -> sim x x' g g' -> sim y y' g g'.
Proof.
  intros H1 H2 [F B]. split; [exact F|]. intros s sn' Hs Hl Hm Hx.
  destruct (B s sn' Hs Hl Hm (H1 s Hx)) as [sn [A1 [A2 [A3 A4]]]]. exists sn. auto.
Qed.

Lemma tgt_ok_meta' tn tn' q : (nmeta tn' = nmeta tn \/ nmeta tn' = None) -> tgt_ok tn q -> tgt_ok tn' q.
Proof. apply tgt_ok_meta. Qed.

Lemma JQ_keep x x' pend g g' : sim x x' g g' -> JQ x pend g -> JQ x' pend g'.
Proof.
  intros S HJ s sn' ds q Hs Hl Hm Hq Ha Hxs.
  destruct (sim_back _ _ _ _ _ _ _ S Hs Hl Hm Hxs) as [sn [Hsn [Hlg [Hmg [_ [Hx [Hap Hlk]]]]]]].
  destruct (HJ s sn ds q Hsn Hlg Hmg Hq (Hap q Ha) Hx) as [Hc|[t [tn [ro [Ht [Htn [Hkt Hok]]]]]]];
    [left; exact Hc|right].
  destruct (Hlk t ro tn Ht Htn) as [ro' Hro']; [rewrite Hkt; apply pkey_not_bad|].
  destruct S as [Hfw _]. destruct (Hfw t tn Htn) as [tn' [Htn' [Hk' Hm']]].
  exists t, tn', ro'. split; [exact Hro'|]. split; [exact Htn'|]. split; [congruence|]. eapply tgt_ok_meta; eassumption.
Qed.

Lemma extras_sub_shrink X g g' s : shrinkR X g g' -> forall y, In y (extras_tot g' s) -> In y (extras_tot g s).
Proof.
  intros Hs y Hy. apply in_extras_tot in Hy as [n' [rr [rrn' [r [Hn' [Hrr [Hrrn' [Hl Hy]]]]]]]].
  destruct (sr_dom _ _ _ Hs _ _ Hn') as [n Hn]. destruct (sr_node _ _ _ Hs _ _ Hn) as [n2 [Hn2 [_ [_ [Hrd _]]]]].
  rewrite Hn' in Hn2. injection Hn2 as <-.
  destruct (sr_dom _ _ _ Hs _ _ Hrrn') as [rrn Hrrn]. destruct (sr_node _ _ _ Hs _ _ Hrrn) as [rrn2 [Hrrn2 [_ [_ [_ [Hdd _]]]]]].
  rewrite Hrrn' in Hrrn2. injection Hrrn2 as <-.
  apply in_extras_tot. exists n, rr, rrn, r. auto 10.
Qed.

Lemma sim_shrink X x g g' :
  shrinkR X g g' -> (forall t tn, X t -> alookup t (heap g) = Some tn -> is_bad (nkey tn) = true) -> sim x x g g'.
Proof.
  intros Hs HX. split.
  - intros a na Ha. destruct (sr_node _ _ _ Hs _ _ Ha) as [na' [H1 [H2 [H3 _]]]]. exists na'. auto.
  - intros s sn' Hsn' Hl Hm Hx.
    destruct (sr_dom _ _ _ Hs _ _ Hsn') as [sn Hsn]. destruct (sr_node _ _ _ Hs _ _ Hsn) as [sn2 [Hsn2 [Hk [_ [_ [_ Hlk]]]]]].
    rewrite Hsn' in Hsn2. injection Hsn2 as <-.
    exists sn. split; [exact Hsn|]. split; [rewrite <- Hk; apply (sr_idx _ _ _ Hs); exact Hl|]. split; [exact Hx|].
    split; [apply (extras_sub_shrink X); exact Hs|].
    intros t ro tn Ht Htn Hb. destruct (Hlk t ro Ht) as [Hxt|Hk2]; [|eauto].
    rewrite (HX t tn Hxt Htn) in Hb. discriminate.
Qed.

Lemma JQ_shrink X x pend g g' :
  shrinkR X g g' -> (forall t tn, X t -> alookup t (heap g) = Some tn -> is_bad (nkey tn) = true) ->
  JQ x pend g -> JQ x pend g'.
Proof. intros Hs HX. apply JQ_keep. eapply sim_shrink; eassumption. Qed.

(* clearing the metadata and the dependency dict of one node *)
Lemma sim_clear x g m n2 :
  alookup m (heap g) = Some n2 -> sim x x g (setn g m (mkNode (nkey n2) None [] (nrdeps n2) false)).
Proof.
  intros Hn2. split.
  - intros a na Ha. rewrite heap_setn. destruct (Nat.eqb a m) eqn:E.
    + apply Nat.eqb_eq in E; subst a. rewrite Hn2 in Ha. injection Ha as <-. eexists. split; [reflexivity|]. cbn. auto.
    + exists na. auto.
  - intros s sn' Hsn' Hl Hm Hx. rewrite heap_setn in Hsn'. destruct (Nat.eqb s m) eqn:E.
    + injection Hsn' as <-. cbn in Hm. contradiction.
    + exists sn'. split; [exact Hsn'|]. split; [exact Hl|]. split; [exact Hx|]. split; [|eauto].
      intros y Hy. apply in_extras_tot in Hy as [n' [rr [rrn' [r [Hn' [Hrr [Hrrn' [Hlk Hy]]]]]]]].
      rewrite heap_setn, E in Hn'. rewrite heap_setn in Hrrn'. destruct (Nat.eqb rr m) eqn:E2.
      * injection Hrrn' as <-. cbn in Hlk. discriminate.
      * apply in_extras_tot. exists n', rr, rrn', r. auto 10.
Qed.

Lemma JQ_clear x pend g m n2 :
  alookup m (heap g) = Some n2 -> JQ x pend g -> JQ x pend (setn g m (mkNode (nkey n2) None [] (nrdeps n2) false)).
Proof. intros Hn2. apply JQ_keep. apply sim_clear. exact Hn2. Qed.

Lemma extras_tot_setn_same g i n n' s :
  alookup i (heap g) = Some n -> ndeps n' = ndeps n -> nrdeps n' = nrdeps n ->
  forall y, In y (extras_tot (setn g i n') s) <-> In y (extras_tot g s).
Proof.
  intros Hn Hd Hr y. rewrite !in_extras_tot. split.
  - intros [n0 [rr [rrn [r [Hn0 [Hrr [Hrrn [Hl Hy]]]]]]]]. rewrite heap_setn in Hn0, Hrrn.
    assert (H1 : exists n1, alookup s (heap g) = Some n1 /\ nrdeps n1 = nrdeps n0).
    { destruct (Nat.eqb s i) eqn:E; [|eauto]. apply Nat.eqb_eq in E; subst s. injection Hn0 as <-. eauto. }
    assert (H2 : exists rrn1, alookup rr (heap g) = Some rrn1 /\ ndeps rrn1 = ndeps rrn).
    { destruct (Nat.eqb rr i) eqn:E; [|eauto]. apply Nat.eqb_eq in E; subst rr. injection Hrrn as <-. eauto. }
    destruct H1 as [n1 [Hn1 Hr1]]. destruct H2 as [rrn1 [Hrrn1 Hd1]]. exists n1, rr, rrn1, r.
    rewrite Hr1, Hd1. auto 10.
  - intros [n0 [rr [rrn [r [Hn0 [Hrr [Hrrn [Hl Hy]]]]]]]].
    assert (H1 : exists n1, alookup s (heap (setn g i n')) = Some n1 /\ nrdeps n1 = nrdeps n0).
    { rewrite heap_setn. destruct (Nat.eqb s i) eqn:E; [|eauto]. apply Nat.eqb_eq in E; subst s.
      rewrite Hn in Hn0. injection Hn0 as <-. eauto. }
    assert (H2 : exists rrn1, alookup rr (heap (setn g i n')) = Some rrn1 /\ ndeps rrn1 = ndeps rrn).
    { rewrite heap_setn. destruct (Nat.eqb rr i) eqn:E; [|eauto]. apply Nat.eqb_eq in E; subst rr.
      rewrite Hn in Hrrn. injection Hrrn as <-. eauto. }
    destruct H1 as [n1 [Hn1 Hr1]]. destruct H2 as [rrn1 [Hrrn1 Hd1]]. exists n1, rr, rrn1, r.
    rewrite Hr1, Hd1. auto 10.
Qed.

(* a change of flags only *)
Lemma sim_flag x g i n n' :
  alookup i (heap g) = Some n -> nkey n' = nkey n -> nmeta n' = nmeta n -> ndeps n' = ndeps n -> nrdeps n' = nrdeps n ->
  sim x x g (setn g i n').
Proof.
  intros Hn Hk Hm Hd Hr. split.
  - intros a na Ha. rewrite heap_setn. destruct (Nat.eqb a i) eqn:E; [|exists na; auto].
    apply Nat.eqb_eq in E; subst a. rewrite Hn in Ha. injection Ha as <-. exists n'. auto.
  - intros s sn' Hsn' Hl Hms Hx. rewrite heap_setn in Hsn'.
    assert (H1 : exists sn, alookup s (heap g) = Some sn /\ nkey sn = nkey sn' /\ ndeps sn = ndeps sn').
    { destruct (Nat.eqb s i) eqn:E; [|eauto]. apply Nat.eqb_eq in E; subst s. injection Hsn' as <-. exists n. auto. }
    destruct H1 as [sn [Hsn [Hks Hds]]]. exists sn. split; [exact Hsn|]. split; [rewrite Hks; exact Hl|]. split; [exact Hx|].
    split; [intros y Hy; apply (proj1 (extras_tot_setn_same g i n n' s Hn Hd Hr y)); exact Hy|].
    intros t ro tn Ht _ _. rewrite <- Hds. eauto.
Qed.

Lemma JQ_flag x pend g i n n' :
  alookup i (heap g) = Some n -> nkey n' = nkey n -> nmeta n' = nmeta n -> ndeps n' = ndeps n -> nrdeps n' = nrdeps n ->
  JQ x pend g -> JQ x pend (setn g i n').
Proof. intros Hn Hk Hm Hd Hr. apply JQ_keep. eapply sim_flag; eassumption. Qed.

(* a new node object: every other node is as before *)
Lemma sim_new g key md :
  wf g -> slookup key (index g) = None ->
  sim None (match md with Some _ => Some (next g) | None => None end) g
      (mkG (heap g ++ [(next g, mkNode key md [] [] false)]) (index g ++ [(key, next g)]) (S (next g)) (glog g)).
Proof.
  intros Hwf Hnone.
  assert (Hfresh : forall w, alookup (next g) (heap g) = Some w -> False).
  { intros w Hw. destruct Hwf as [_ [_ H3]]. apply H3 in Hw. lia. }
  split.
  - intros a na Ha. exists na. cbn [heap]. rewrite (alookup_app_new _ _ _ _ Hfresh).
    destruct (Nat.eqb a (next g)) eqn:E; [apply Nat.eqb_eq in E; subst a; exfalso; eapply Hfresh; exact Ha|auto].
  - intros s sn' Hs Hl Hm Hx. cbn [heap index] in Hs, Hl. rewrite (alookup_app_new _ _ _ _ Hfresh) in Hs.
    destruct (Nat.eqb s (next g)) eqn:E.
    + apply Nat.eqb_eq in E; subst s. injection Hs as <-. cbn [nmeta] in Hm. destruct md; [exfalso; apply Hx; reflexivity|contradiction].
    + exists sn'. split; [exact Hs|]. split.
      { rewrite (SolverP.slookup_app_new _ _ _ _ Hnone) in Hl. destruct (String.eqb (nkey sn') key); [|exact Hl].
        injection Hl as <-. rewrite Nat.eqb_refl in E. discriminate. }
      split; [discriminate|].
      split; [|eauto].
      intros y Hy. apply in_extras_tot in Hy as [n' [rr [rrn' [r [Hn' [Hrr [Hrrn' [Hlk Hy]]]]]]]].
      cbn [heap] in Hn', Hrrn'. rewrite (alookup_app_new _ _ _ s Hfresh) in Hn'. rewrite (alookup_app_new _ _ _ rr Hfresh) in Hrrn'. rewrite E in Hn'.
      destruct (Nat.eqb rr (next g)) eqn:E2; [injection Hrrn' as <-; cbn in Hlk; discriminate|].
      apply in_extras_tot. exists n', rr, rrn', r. auto 10.
Qed.

(* registering source s' as a requirer of id and storing the reason on the link s' -> id *)
Lemma sim_link x x' g2 id n2 s' sn' reason :
  alookup id (heap g2) = Some n2 ->
  alookup s' (heap (setn g2 id (mkNode (nkey n2) (nmeta n2) (ndeps n2) (nadd s' (nrdeps n2)) (ncomplete n2)))) = Some sn' ->
  (forall s, x' <> Some s -> x <> Some s) ->
  (x' = Some id \/ nmeta n2 = None \/
   forall y, In y (match reason with Some r => rextras r | None => [] end) -> In y (extras_tot g2 id)) ->
  sim x x' g2 (setn (setn g2 id (mkNode (nkey n2) (nmeta n2) (ndeps n2) (nadd s' (nrdeps n2)) (ncomplete n2))) s'
                    (mkNode (nkey sn') (nmeta sn') (aset id reason (ndeps sn')) (nrdeps sn') (ncomplete sn'))).
Proof.
  intros Hn2 Hsn' Hx Hid.
  set (n2' := mkNode (nkey n2) (nmeta n2) (ndeps n2) (nadd s' (nrdeps n2)) (ncomplete n2)) in *.
  set (sn'' := mkNode (nkey sn') (nmeta sn') (aset id reason (ndeps sn')) (nrdeps sn') (ncomplete sn')).
  set (g3 := setn (setn g2 id n2') s' sn'').
  (* the view of g3 from g2 *)
  assert (Hview : forall a na3, alookup a (heap g3) = Some na3 ->
            exists na, alookup a (heap g2) = Some na /\ nkey na3 = nkey na /\ nmeta na3 = nmeta na /\
                       nrdeps na3 = (if Nat.eqb a id then nadd s' (nrdeps na) else nrdeps na) /\
                       ndeps na3 = (if Nat.eqb a s' then aset id reason (ndeps na) else ndeps na)).
  { intros a na3 Ha. unfold g3 in Ha. rewrite heap_setn in Ha. destruct (Nat.eqb a s') eqn:Eas.
    - apply Nat.eqb_eq in Eas; subst a. injection Ha as <-. rewrite heap_setn in Hsn'. destruct (Nat.eqb s' id) eqn:Esi.
      + apply Nat.eqb_eq in Esi; subst s'. injection Hsn' as <-. exists n2. cbn. auto.
      + exists sn'. cbn. auto.
    - rewrite heap_setn in Ha. destruct (Nat.eqb a id) eqn:Eai.
      + apply Nat.eqb_eq in Eai; subst a. injection Ha as <-. exists n2. cbn. auto.
      + exists na3. auto. }
  assert (Hfwd : forall a na, alookup a (heap g2) = Some na -> exists na3, alookup a (heap g3) = Some na3 /\ nkey na3 = nkey na /\ nmeta na3 = nmeta na).
  { intros a na Ha. unfold g3. rewrite !heap_setn. destruct (Nat.eqb a s') eqn:Eas.
    - apply Nat.eqb_eq in Eas; subst a. exists sn''. split; [reflexivity|]. rewrite heap_setn in Hsn'. destruct (Nat.eqb s' id) eqn:Esi.
      + apply Nat.eqb_eq in Esi; subst s'. injection Hsn' as <-. rewrite Hn2 in Ha. injection Ha as <-. auto.
      + rewrite Ha in Hsn'. injection Hsn' as <-. auto.
    - destruct (Nat.eqb a id) eqn:Eai; [|exists na; auto].
      apply Nat.eqb_eq in Eai; subst a. rewrite Hn2 in Ha. injection Ha as <-. exists n2'. auto. }
  split.
  - intros a na Ha. destruct (Hfwd a na Ha) as [na3 [H1 [H2 H3]]]. exists na3. auto.
  - intros s sn3 Hs Hl Hm Hxs. destruct (Hview s sn3 Hs) as [sn [Hsn [Hk [Hmm [Hrd Hdd]]]]].
    exists sn. split; [exact Hsn|]. split; [rewrite <- Hk; exact Hl|]. split; [apply Hx; exact Hxs|]. split.
    + intros y Hy. apply in_extras_tot in Hy as [n' [rr [rrn3 [r [Hn' [Hrr [Hrrn3 [Hlk Hy]]]]]]]].
      rewrite Hs in Hn'. injection Hn' as <-.
      destruct (Hview rr rrn3 Hrrn3) as [rrn [Hrrn [_ [_ [_ Hdr]]]]]. rewrite Hdr in Hlk.
      destruct (Nat.eqb s id) eqn:Esid.
      * apply Nat.eqb_eq in Esid; subst s. rewrite Hn2 in Hsn. injection Hsn as <-.
        destruct (Nat.eqb rr s') eqn:Ers.
        -- rewrite alookup_aset, Nat.eqb_refl in Hlk. injection Hlk as Hlk.
           destruct Hid as [Hid|[Hid|Hid]]; [exfalso; apply Hxs; exact Hid|rewrite Hmm in Hm; contradiction|].
           apply Hid. rewrite Hlk. exact Hy.
        -- rewrite Hrd in Hrr. apply nmem_In in Hrr. rewrite nmem_nadd, Ers in Hrr. cbn [orb] in Hrr. apply nmem_In in Hrr.
           apply in_extras_tot. exists n2, rr, rrn, r. auto 10.
      * rewrite Hrd in Hrr.
        assert (Hlk2 : alookup s (ndeps rrn) = Some (Some r)).
        { destruct (Nat.eqb rr s'); [|exact Hlk]. rewrite alookup_aset, Esid in Hlk. exact Hlk. }
        apply in_extras_tot. exists sn, rr, rrn, r. auto 10.
    + intros t ro tn Ht _ _. rewrite Hdd. destruct (Nat.eqb s s'); [eapply aset_keeps; exact Ht|eauto].
Qed.

(* setting the metadata of node i: i's own requirements become pending, the others must accept the new version *)
Lemma JQ_meta x x' pend pend' g i n m :
  alookup i (heap g) = Some n -> JQ x pend g ->
  (forall s q, s <> i -> cov pend s q -> cov pend' s q) ->
  (x' <> Some i -> forall q, In q (dreqs m) -> applies_b e g i q = true -> cov pend' i q) ->
  (nmeta n = Some m \/
   forall s sn ds q, s <> i -> alookup s (heap g) = Some sn -> slookup (nkey sn) (index g) = Some s -> nmeta sn = Some ds ->
                     In q (dreqs ds) -> applies_b e g s q = true -> pkey (rname q) = nkey n -> mver_ok m q) ->
  (forall s, s <> i -> x' <> Some s -> x <> Some s) ->
  JQ x' pend' (setn g i (mkNode (nkey n) (Some m) (ndeps n) (nrdeps n) (ncomplete n))).
Proof.
  intros Hn HJ Hp Hi Ht Hx s sn' ds q Hs Hl Hm Hq Ha Hxs.
  set (n' := mkNode (nkey n) (Some m) (ndeps n) (nrdeps n) (ncomplete n)) in *.
  assert (Hag : applies_b e g s q = true).
  { eapply applies_mono; [|exact Ha]. intros y Hy. apply (proj1 (extras_tot_setn_same g i n n' s Hn eq_refl eq_refl y)). exact Hy. }
  rewrite heap_setn in Hs. cbn [setn index] in Hl. destruct (Nat.eqb s i) eqn:E.
  - apply Nat.eqb_eq in E; subst s. injection Hs as <-. cbn [nmeta n'] in Hm. injection Hm as <-.
    left. apply Hi; assumption.
  - apply Nat.eqb_neq in E.
    destruct (HJ s sn' ds q Hs Hl Hm Hq Hag (Hx s E Hxs)) as [Hc|[t [tn [ro [Hlk [Htn [Hk Hok]]]]]]]; [left; apply Hp; assumption|right].
    destruct (Nat.eq_dec t i) as [->|Hne].
    + rewrite Hn in Htn. injection Htn as <-. exists i, n', ro. split; [exact Hlk|]. split; [rewrite heap_setn, Nat.eqb_refl; reflexivity|].
      split; [exact Hk|]. destruct Ht as [Hsame|Hnew].
      * intros d v Hd. cbn [nmeta n'] in Hd. rewrite <- Hsame in Hd. apply Hok. exact Hd.
      * intros d v Hd Hdm Hv. cbn [nmeta n'] in Hd. injection Hd as <-.
        apply (Hnew s sn' ds q E Hs Hl Hm Hq Hag (eq_sym Hk) Hdm v Hv).
    + exists t, tn, ro. split; [exact Hlk|]. split; [|auto]. rewrite heap_setn.
      destruct (Nat.eqb t i) eqn:E2; [apply Nat.eqb_eq in E2; contradiction|exact Htn].
Qed.

(* J2 / J3 under the primitive updates *)
Lemma J2_setn g i n n' : J2 g -> alookup i (heap g) = Some n -> (forall d, nmeta n' = Some d -> meta_ok d) -> J2 (setn g i n').
Proof.
  intros H Hn Hm a na d Ha Hd. rewrite heap_setn in Ha. destruct (Nat.eqb a i); [injection Ha as <-; apply Hm; exact Hd|eapply H; eassumption].
Qed.

Lemma J3_setn g i n n' :
  J3 g -> alookup i (heap g) = Some n -> nkey n' = nkey n ->
  ((exists d, nmeta n' = Some d /\ dmeta d = true) \/ kgood (nkey n)) -> J3 (setn g i n').
Proof.
  intros H Hn Hk Hc a na Ha. rewrite heap_setn in Ha. destruct (Nat.eqb a i); [injection Ha as <-; rewrite Hk; exact Hc|eapply H; eassumption].
Qed.

Lemma J3_keep g i n n' : J3 g -> alookup i (heap g) = Some n -> nkey n' = nkey n -> nmeta n' = nmeta n -> J3 (setn g i n').
Proof. intros H Hn Hk Hm. eapply J3_setn; [exact H|exact Hn|exact Hk|]. rewrite Hm. eapply H; exact Hn. Qed.

Lemma J2_shrink X g g' : shrinkR X g g' -> J2 g -> J2 g'.
Proof.
  intros Hs H a na' d Ha Hd. destruct (sr_dom _ _ _ Hs _ _ Ha) as [na Hna].
  destruct (sr_node _ _ _ Hs _ _ Hna) as [na2 [Hna2 [_ [Hm _]]]]. rewrite Ha in Hna2. injection Hna2 as <-.
  eapply H; [exact Hna|]. rewrite <- Hm. exact Hd.
Qed.

Lemma J3_shrink X g g' : shrinkR X g g' -> J3 g -> J3 g'.
Proof.
  intros Hs H a na' Ha. destruct (sr_dom _ _ _ Hs _ _ Ha) as [na Hna].
  destruct (sr_node _ _ _ Hs _ _ Hna) as [na2 [Hna2 [Hk [Hm _]]]]. rewrite Ha in Hna2. injection Hna2 as <-.
  rewrite Hk, Hm. eapply H; exact Hna.
Qed.

Lemma inv_ndnd g : inv None g -> ndnd g.
Proof. intros H id n Hn. eapply (i_nd _ _ _ H); exact Hn. Qed.

(* ---- remove_dists(node, remove_upstream=False) keeps the invariant (the node must not be a container whose key is
   not a project key) ---- *)
Lemma J_inval fuel x pend g m g' :
  J x pend g -> remove_dists fuel g m false = Rok g' ->
  (forall n, alookup m (heap g) = Some n -> kgood (nkey n)) -> J x pend g'.
Proof.
  intros [Hinv [H2 [H3 HQ]]] H Hk.
  pose proof (rd_false _ _ _ _ Hinv H) as Hinv'.
  destruct (rm_inval _ _ _ _ (i_wf _ _ _ Hinv) H) as [g2 [Hs [Hwf2 Hcase]]].
  assert (HQ2 : JQ x pend g2) by (eapply JQ_shrink; [exact Hs| |exact HQ]; intros t tn []).
  pose proof (J2_shrink _ _ _ Hs H2) as H22. pose proof (J3_shrink _ _ _ Hs H3) as H32.
  destruct Hcase as [->|[n2 [Hn2 ->]]]; [split; [exact Hinv'|auto]|].
  split; [exact Hinv'|]. split; [|split].
  - eapply J2_setn; [exact H22|exact Hn2|]. cbn. discriminate.
  - eapply J3_setn; [exact H32|exact Hn2|reflexivity|]. right.
    destruct (sr_dom _ _ _ Hs _ _ Hn2) as [n Hn]. destruct (sr_node _ _ _ Hs _ _ Hn) as [n3 [Hn3 [Hk3 _]]].
    rewrite Hn2 in Hn3. injection Hn3 as <-. rewrite Hk3. apply Hk. exact Hn.
  - apply JQ_clear; assumption.
Qed.

Lemma J_discard fuel x pend g id reason g' : J x pend g -> discard fuel g id reason = Rok g' -> J x pend g'.
Proof.
  intros HJ H. destruct (discard_cases _ _ _ _ _ H) as [->|[n [d [r [v [Hn [Hm [_ [Hd [_ [_ Hr]]]]]]]]]]]; [exact HJ|].
  eapply J_inval; [exact HJ|exact Hr|]. intros n0 Hn0. apply getn_some in Hn. rewrite Hn in Hn0. injection Hn0 as <-.
  destruct HJ as [_ [_ [H3 _]]]. destruct (H3 id n Hn) as [[d0 [Hd0 Hdm]]|Hk]; [|exact Hk]. congruence.
Qed.

(* ---- remove_dists(container of the walk-back handler, remove_upstream=True) ---- *)
Lemma J_rm_bad fuel x pend g m g' :
  J x pend g -> safe g m -> (forall n, alookup m (heap g) = Some n -> is_bad (nkey n) = true) ->
  remove_dists fuel g m true = Rok g' -> J x pend g'.
Proof.
  intros [Hinv [H2 [H3 HQ]]] Hsafe Hbad H.
  destruct (rd_true _ _ _ _ _ Hinv Hsafe H) as [Hinv' _].
  pose proof (rm_up _ (eq m) _ _ _ (i_wf _ _ _ Hinv) H) as Hs. specialize (Hs ltac:(intros n _; right; split; [reflexivity|apply inv_ndnd; exact Hinv])).
  split; [exact Hinv'|]. split; [eapply J2_shrink; eassumption|]. split; [eapply J3_shrink; eassumption|].
  eapply JQ_shrink; [exact Hs| |exact HQ]. intros t tn <- Ht. apply Hbad. exact Ht.
Qed.

End Inv.
(* ================================================================================================ *)
(* Part 3a: what add_dist(name, None, source, reason) - no new metadata - leaves untouched          *)
(* ================================================================================================ *)

(* a node that is solved afterwards was solved before, with the same metadata, and kept all its links *)
Definition mono (g g' : graph) : Prop :=
  forall s sn, alookup s (heap g) = Some sn ->
    exists sn', alookup s (heap g') = Some sn' /\ nkey sn' = nkey sn /\
                (nmeta sn' = None \/
                 (nmeta sn' = nmeta sn /\ forall t ro, alookup t (ndeps sn) = Some ro -> exists ro', alookup t (ndeps sn') = Some ro')).
(* an index entry is an old one or names a new node object *)
Definition idx_frame (g g' : graph) : Prop :=
  forall k i, slookup k (index g') = Some i -> slookup k (index g) = Some i \/ alookup i (heap g) = None.
Definition fr (g g' : graph) : Prop := mono g g' /\ idx_frame g g'.

Lemma fr_refl g : fr g g.
Proof. split; [intros s sn H; exists sn; split; [exact H|]; split; [reflexivity|right; split; [reflexivity|eauto]]|intros k i H; left; exact H]. Qed.

Lemma fr_trans g1 g2 g3 : fr g1 g2 -> fr g2 g3 -> fr g1 g3.
Proof.
  intros [M1 I1] [M2 I2]. split.
  - intros s sn Hs. destruct (M1 s sn Hs) as [sn2 [Hs2 [K2 C2]]]. destruct (M2 s sn2 Hs2) as [sn3 [Hs3 [K3 C3]]].
    exists sn3. split; [exact Hs3|]. split; [congruence|].
    destruct C3 as [C3|[C3 L3]]; [left; exact C3|]. destruct C2 as [C2|[C2 L2]]; [left; congruence|].
    right. split; [congruence|]. intros t ro Ht. destruct (L2 t ro Ht) as [ro2 Hro2]. eapply L3; exact Hro2.
  - intros k i H. destruct (I2 k i H) as [H2|H2]; [apply I1; exact H2|]. right.
    destruct (alookup i (heap g1)) as [n1|] eqn:E; [|reflexivity]. destruct (M1 i n1 E) as [n2 [Hn2 _]]. congruence.
Qed.

Lemma fr_shrink g g' : shrinkR (fun _ => False) g g' -> fr g g'.
Proof.
  intros Hs. split.
  - intros s sn H. destruct (sr_node _ _ _ Hs _ _ H) as [sn' [H1 [H2 [H3 [_ [_ H6]]]]]]. exists sn'. split; [exact H1|]. split; [exact H2|].
    right. split; [exact H3|]. intros t ro Ht. destruct (H6 t ro Ht) as [[]|Hk]. eauto.
  - intros k i H. left. apply (sr_idx _ _ _ Hs). exact H.
Qed.

Lemma fr_setn g i n n' :
  alookup i (heap g) = Some n -> nkey n' = nkey n ->
  (nmeta n' = None \/ (nmeta n' = nmeta n /\ forall t ro, alookup t (ndeps n) = Some ro -> exists ro', alookup t (ndeps n') = Some ro')) ->
  fr g (setn g i n').
Proof.
  intros Hn Hk Hc. split.
  - intros s sn Hs. rewrite heap_setn. destruct (Nat.eqb s i) eqn:E.
    + apply Nat.eqb_eq in E; subst s. rewrite Hn in Hs. injection Hs as <-. exists n'. auto.
    + exists sn. split; [exact Hs|]. split; [reflexivity|]. right. split; [reflexivity|eauto].
  - intros k j H. left. exact H.
Qed.

Lemma fr_new g key md :
  wf g -> fr g (mkG (heap g ++ [(next g, mkNode key md [] [] false)]) (index g ++ [(key, next g)]) (S (next g)) (glog g)).
Proof.
  intros Hwf. assert (Hfresh : forall w, alookup (next g) (heap g) = Some w -> False).
  { intros w Hw. destruct Hwf as [_ [_ H3]]. apply H3 in Hw. lia. }
  split.
  - intros s sn Hs. exists sn. cbn [heap]. rewrite (alookup_app_new _ _ _ _ Hfresh).
    destruct (Nat.eqb s (next g)) eqn:E; [apply Nat.eqb_eq in E; subst s; exfalso; eapply Hfresh; exact Hs|].
    split; [exact Hs|]. split; [reflexivity|]. right. split; [reflexivity|eauto].
  - intros k i H. cbn [index] in H.
    destruct (slookup k (index g)) as [j|] eqn:E.
    + left. rewrite (slookup_app_old _ _ _ _ E) in H. exact H.
    + right. destruct (alookup i (heap g)) as [w|] eqn:Ew; [|reflexivity]. exfalso.
      assert (Hin : In (k, i) (index g ++ [(key, next g)])) by (apply slookup_in; exact H).
      apply in_app_iff in Hin as [Hin|[Heq|[]]].
      * apply (slookup_none _ _ E). apply (in_map fst) in Hin. exact Hin.
      * injection Heq as <- <-. eapply Hfresh; exact Ew.
Qed.

Lemma fr_clear g m n2 : alookup m (heap g) = Some n2 -> fr g (setn g m (mkNode (nkey n2) None [] (nrdeps n2) false)).
Proof. intros H. eapply fr_setn; [exact H|reflexivity|left; reflexivity]. Qed.

Lemma remove_false_fr fuel g m g' : wf g -> remove_dists fuel g m false = Rok g' -> fr g g'.
Proof.
  intros Hwf H. destruct (rm_inval _ _ _ _ Hwf H) as [g2 [Hs [_ [->|[n2 [Hn2 ->]]]]]]; [apply fr_shrink; exact Hs|].
  eapply fr_trans; [apply fr_shrink; exact Hs|apply fr_clear; exact Hn2].
Qed.

Lemma discard_fr fuel g id reason g' : wf g -> discard fuel g id reason = Rok g' -> fr g g'.
Proof.
  intros Hwf H. destruct (discard_cases _ _ _ _ _ H) as [->|[n [d [r [v [_ [_ [_ [_ [_ [_ Hr]]]]]]]]]]]; [apply fr_refl|].
  eapply remove_false_fr; eassumption.
Qed.

Definition metaat (g : graph) (id : nat) (mo : option dist) : Prop :=
  exists n, alookup id (heap g) = Some n /\ nmeta n = mo.

Lemma metaat_setn g i n n' id mo :
  alookup i (heap g) = Some n -> nmeta n' = nmeta n -> metaat g id mo -> metaat (setn g i n') id mo.
Proof.
  intros Hn Hm [x [Hx Hxm]]. unfold metaat. rewrite heap_setn. destruct (Nat.eqb id i) eqn:E; [|exists x; auto].
  apply Nat.eqb_eq in E; subst i. rewrite Hn in Hx. injection Hx as <-. exists n'. split; [reflexivity|congruence].
Qed.


Lemma add_dist_fr fuel : forall e g nm source reason g' ns,
  wf g -> add_dist fuel e g nm None source reason = Rok (g', ns) -> fr g g'.
Proof.
  induction fuel as [|f IH]; intros e g nm source reason g' ns Hwf H; cbn [add_dist] in H; [discriminate|].
  set (p := match slookup (norm nm) (index g) with
            | Some id => (g, id)
            | None => (mkG (heap g ++ [(next g, mkNode (norm nm) None [] [] false)])
                           (index g ++ [(norm nm, next g)]) (S (next g)) (glog g), next g)
            end) in H.
  assert (Hp : wf (fst p) /\ fr g (fst p)).
  { unfold p. destruct (slookup (norm nm) (index g)) eqn:E; cbn [fst]; split;
      [exact Hwf|apply fr_refl|apply new_node_wf; assumption|apply fr_new; assumption]. }
  destruct p as [g1 id]. cbn [fst] in Hp. destruct Hp as [Hw1 Hf1]. cbv beta iota in H.
  apply bind_ok in H as [n [Hn H]]. pose proof Hn as Hn0. apply getn_some in Hn0.
  apply bind_ok in H as [[md2 g2] [H2 H]]. cbv beta iota in H.
  assert (Hs2 : wf g2 /\ fr g g2 /\ (forall m, md2 = Some m -> metaat g2 id (Some m))).
  { assert (Hsame : wf g1 /\ fr g g1 /\ (forall m, @None dist = Some m -> metaat g1 id (Some m)))
      by (split; [exact Hw1|split; [exact Hf1|discriminate]]).
    destruct reason as [r|]; [|injection H2 as <- <-; exact Hsame].
    destruct (nmeta n) as [m|] eqn:Hm; [|injection H2 as <- <-; exact Hsame].
    destruct (rextras r) as [|x xs]; [injection H2 as <- <-; exact Hsame|].
    apply bind_ok in H2 as [ex [Hex H2]].
    destruct (existsb (fun x0 => negb (smem x0 ex)) (x :: xs)); injection H2 as <- <-; [|exact Hsame].
    split; [eapply setn_wf; [exact Hw1|exact Hn|reflexivity]|]. split.
    - eapply fr_trans; [exact Hf1|]. eapply fr_setn; [exact Hn0|reflexivity|]. right. split; [cbn [nmeta]; congruence|eauto].
    - intros m0 [= <-]. unfold metaat. rewrite heap_setn, Nat.eqb_refl. eexists. split; [reflexivity|reflexivity]. }
  destruct Hs2 as [Hw2 [Hf2 Hm2]].
  apply bind_ok in H as [g3 [H3 H]].
  assert (Hs3 : wf g3 /\ fr g g3 /\ (forall m, md2 = Some m -> metaat g3 id (Some m))).
  { destruct source as [s|]; [|injection H3 as <-; auto].
    apply bind_ok in H3 as [sn [Hsn H3]].
    destruct (key_present g2 (nkey sn)); [|injection H3 as <-; auto].
    apply bind_ok in H3 as [n2 [Hn2 H3]]. apply bind_ok in H3 as [sn' [Hsn' H3]]. injection H3 as <-.
    pose proof Hn2 as Hn20. apply getn_some in Hn20. pose proof Hsn' as Hsn'0. apply getn_some in Hsn'0.
    split; [eapply setn_wf; [|exact Hsn'|reflexivity]; eapply setn_wf; [exact Hw2|exact Hn2|reflexivity]|]. split.
    - eapply fr_trans; [exact Hf2|].
      eapply (fr_trans _ (setn g2 id (mkNode (nkey n2) (nmeta n2) (ndeps n2) (nadd s (nrdeps n2)) (ncomplete n2)))).
      + eapply fr_setn; [exact Hn20|reflexivity|]. right. split; [reflexivity|eauto].
      + eapply fr_setn; [exact Hsn'0|reflexivity|]. right. split; [reflexivity|]. cbn [ndeps]. intros t ro Ht. eapply aset_keeps. exact Ht.
    - intros m Hm. eapply metaat_setn; [exact Hsn'0|reflexivity|]. eapply metaat_setn; [exact Hn20|reflexivity|]. apply Hm2. exact Hm. }
  destruct Hs3 as [Hw3 [Hf3 Hm3]].
  apply bind_ok in H as [[g4 nodes] [H4 H]]. cbv beta iota in H.
  assert (Hs4 : wf g4 /\ fr g g4).
  { destruct md2 as [m|]; [|injection H4 as <- _; auto].
    apply bind_ok in H4 as [n3 [Hn3 H4]]. apply bind_ok in H4 as [ex [Hex H4]].
    apply bind_ok in H4 as [all [Hall H4]]. apply bind_ok in H4 as [rs [Hrs H4]].
    pose proof Hn3 as Hn30. apply getn_some in Hn30.
    destruct (Hm3 m eq_refl) as [n3' [Hn3' Hmeta3]]. rewrite Hn30 in Hn3'. injection Hn3' as <-.
    revert H4. apply (fold_res_pair_inv (fun gx => wf gx /\ fr g gx)).
    - intros acc2 r gc nc Hacc2 HF2. apply bind_ok in HF2 as [[gd nd] [-> HF2]]. cbv beta iota in HF2.
      specialize (Hacc2 gd nd eq_refl). apply bind_ok in HF2 as [[ge ne] [Hrec HF2]]. cbv beta iota in HF2.
      injection HF2 as <- _. destruct Hacc2 as [Hw He]. split; [eapply add_dist_wf; [exact Hw|exact Hrec]|].
      eapply fr_trans; [exact He|]. eapply IH; [exact Hw|exact Hrec].
    - intros g0 b0 [= <- _]. split; [eapply setn_wf; [exact Hw3|exact Hn3|reflexivity]|].
      eapply fr_trans; [exact Hf3|]. eapply fr_setn; [exact Hn30|reflexivity|]. right. cbn [nmeta ndeps]. split; [symmetry; exact Hmeta3|eauto]. }
  destruct Hs4 as [Hw4 Hf4].
  apply bind_ok in H as [g5 [H5 H]].
  apply bind_ok in H as [n5 [Hn5 H]].
  destruct (key_present g5 (nkey n5)); [|discriminate]. injection H as <- _.
  eapply fr_trans; [exact Hf4|]. eapply discard_fr; eassumption.
Qed.
(* ================================================================================================ *)
(* Part 3b: add_dist keeps the invariant                                                            *)
(* ================================================================================================ *)

Lemma smem_In x l : smem x l = true <-> In x l.
Proof.
  induction l as [|y l IH]; cbn [smem In]; [split; [discriminate|tauto]|].
  rewrite orb_true_iff, String.eqb_eq, IH. split; intros [H|H]; auto.
Qed.

(* the loop of add_dist over the reduced requirements of the metadata *)
Definition exp_step (f : nat) (e : env) (id : nat) (acc : res (graph * list nat)) (r : req) : res (graph * list nat) :=
  '(gb, nb) <- acc ;;
  '(gc, nc) <- add_dist f e gb (rname r) None (Some id) (Some r) ;;
  Rok (gc, nb ++ nc).

Lemma exp_step_err f e id rs er : fold_left (exp_step f e id) rs (Rer er) = Rer er.
Proof. induction rs as [|r rs IH]; cbn [fold_left]; [reflexivity|exact IH]. Qed.

Lemma exp_fr f e id rs : forall gb nb g4 nodes,
  wf gb -> fold_left (exp_step f e id) rs (Rok (gb, nb)) = Rok (g4, nodes) -> wf g4 /\ fr gb g4.
Proof.
  induction rs as [|r rs IH]; intros gb nb g4 nodes Hwf H; cbn [fold_left] in H.
  - injection H as <- _. split; [exact Hwf|apply fr_refl].
  - destruct (exp_step f e id (Rok (gb, nb)) r) as [[gc nc]|er] eqn:Hs; [|rewrite exp_step_err in H; discriminate].
    unfold exp_step in Hs. cbn [bind] in Hs. apply bind_ok in Hs as [[gd nd] [Hrec Hs]]. cbv beta iota in Hs. injection Hs as <- <-.
    destruct (IH _ _ _ _ (add_dist_wf _ _ _ _ _ _ _ _ _ Hwf Hrec) H) as [Hw4 Hf4]. split; [exact Hw4|].
    eapply fr_trans; [eapply add_dist_fr; eassumption|exact Hf4].
Qed.

Lemma edge_ok_tgt r q n' : stronger r q -> edge_ok r n' -> tgt_ok n' q.
Proof.
  intros Hs He d v Hm Hd Hv. unfold edge_ok in He. rewrite Hm in He.
  destruct He as [He|[He|[v' [Hv' Hc]]]]; [congruence|congruence|]. rewrite Hv in Hv'. injection Hv' as <-.
  apply (Hs v true). exact Hc.
Qed.

Section AddDist.
Variable e : env.

Lemma add_dist_J fuel : forall g nm md source reason g' ns pend0 pend,
  J e None (pend0 ++ pend) g ->
  (forall s r, In (s, r) pend0 -> source = Some s /\ reason = Some r /\ norm (rname r) = norm nm /\ md = None) ->
  (forall m, md = Some m -> meta_ok m /\ (dmeta m = true \/ kgood (norm nm)) /\
     forall s sn ds q, alookup s (heap g) = Some sn -> slookup (nkey sn) (index g) = Some s -> nmeta sn = Some ds ->
                       In q (dreqs ds) -> applies_b e g s q = true -> pkey (rname q) = norm nm -> mver_ok m q) ->
  (md = None -> kgood (norm nm)) ->
  add_dist fuel e g nm md source reason = Rok (g', ns) ->
  J e None pend g'.
Proof.
  induction fuel as [|f IH]; intros g nm md source reason g' ns pend0 pend HJ Hp0 Hmd Hmn H; cbn [add_dist] in H; [discriminate|].
  set (Pn := pend0 ++ pend) in *.
  set (p := match slookup (norm nm) (index g) with
            | Some id => (g, id)
            | None => (mkG (heap g ++ [(next g, mkNode (norm nm) md [] [] false)])
                           (index g ++ [(norm nm, next g)]) (S (next g)) (glog g), next g)
            end) in H.
  (* ---- stage 1: the node object ---- *)
  set (x1 := match slookup (norm nm) (index g), md with None, Some _ => Some (next g) | _, _ => None end).
  assert (Hp : J e x1 Pn (fst p) /\ idxd (fst p) (snd p) /\ sim None x1 g (fst p) /\ (x1 = None \/ (x1 = Some (snd p) /\ md <> None)) /\
               (forall n, alookup (snd p) (heap (fst p)) = Some n -> nkey n = norm nm /\ (x1 <> None -> nmeta n = md))).
  { destruct HJ as [Hinv [H2 [H3 HQ]]]. pose proof (i_wf _ _ _ Hinv) as Hwf.
    unfold p, x1. destruct (slookup (norm nm) (index g)) as [i|] eqn:E; cbn [fst snd].
    - split; [split; [exact Hinv|auto]|]. pose proof Hwf as [_ [Hix _]]. pose proof (slookup_in _ _ _ E) as Ein.
      destruct (Hix _ _ Ein) as [n [Hn Hk]]. split; [exists n; split; [exact Hn|rewrite Hk; exact E]|].
      split; [apply sim_refl|]. split; [left; reflexivity|]. intros n0 Hn0. rewrite Hn in Hn0. injection Hn0 as <-. split; [exact Hk|congruence].
    - pose proof Hwf as [_ [_ Hlt]].
      assert (Hfresh : forall w, alookup (next g) (heap g) = Some w -> False) by (intros w Hw; apply Hlt in Hw; lia).
      assert (Hlook : alookup (next g) (heap g ++ [(next g, mkNode (norm nm) md [] [] false)]) = Some (mkNode (norm nm) md [] [] false)).
      { rewrite (alookup_app_new _ _ _ _ Hfresh), Nat.eqb_refl. reflexivity. }
      split; [split; [apply inv_new_node; assumption|split; [|split]]|].
      + intros a na d Ha Hd. cbn [heap] in Ha. rewrite (alookup_app_new _ _ _ _ Hfresh) in Ha.
        destruct (Nat.eqb a (next g)); [injection Ha as <-; cbn [nmeta] in Hd; apply (Hmd d Hd)|eapply H2; eassumption].
      + intros a na Ha. cbn [heap] in Ha. rewrite (alookup_app_new _ _ _ _ Hfresh) in Ha.
        destruct (Nat.eqb a (next g)); [|eapply H3; eassumption]. injection Ha as <-. cbn [nmeta nkey].
        destruct md as [m|]; [destruct (Hmd m eq_refl) as [_ [[Hc|Hc] _]]; [left; exists m; auto|right; exact Hc]|right; apply Hmn; reflexivity].
      + eapply JQ_keep; [|exact HQ]. replace (match md with Some _ => Some (next g) | None => None end) with
          (match md with Some _ => Some (next g) | None => @None nat end) by reflexivity. apply sim_new; assumption.
      + split; [eexists; split; [exact Hlook|]; cbn [nkey index]; rewrite (SolverP.slookup_app_new _ _ _ _ E), String.eqb_refl; reflexivity|].
        split; [apply sim_new; assumption|]. split; [destruct md; [right; split; [reflexivity|discriminate]|left; reflexivity]|].
        intros n0 Hn0. cbn [heap] in Hn0. rewrite Hlook in Hn0. injection Hn0 as <-. auto. }
  destruct p as [g1 id]. cbn [fst snd] in Hp. destruct Hp as [HJ1 [Hid1 [Hsim1 [Hx1 Hkey1]]]]. cbv beta iota in H.
  apply bind_ok in H as [n [Hn H]]. pose proof Hn as Hn0. apply getn_some in Hn0.
  destruct (Hkey1 n Hn0) as [Hnk Hnm].
  (* ---- stage 2: more extras requested of a solved node: expand it again ---- *)
  apply bind_ok in H as [[md2 g2] [H2 H]]. cbv beta iota in H.
  set (x2 := match md2 with Some _ => Some id | None => @None nat end).
  set (rex := match reason with Some r => rextras r | None => [] end).
  assert (HS2 : J e x2 Pn g2 /\ idxd g2 id /\ sim None x2 g g2 /\
                (md2 = md \/ nmeta n = md2) /\
                (md2 = None -> nmeta n = None \/ forall y, In y rex -> In y (extras_tot g2 id)) /\
                (exists n2, alookup id (heap g2) = Some n2 /\ nkey n2 = norm nm /\ nmeta n2 = nmeta n)).
  { assert (Hx12 : forall mdx, (mdx = md \/ nmeta n = mdx) -> forall s, match mdx with Some _ => Some id | None => @None nat end <> Some s -> x1 <> Some s).
    { intros mdx Hmdx s Hs. destruct Hx1 as [Hx1e|[Hx1e Hmdn]]; rewrite Hx1e; [discriminate|]. destruct mdx; [exact Hs|].
      exfalso. destruct Hmdx as [Hm|Hm]; [apply Hmdn; symmetry; exact Hm|]. apply Hmdn. rewrite <- Hnm; [exact Hm|].
      rewrite Hx1e. discriminate. }
    assert (Hsame : forall mdx, (mdx = md \/ nmeta n = mdx) ->
                    (mdx = None -> nmeta n = None \/ forall y, In y rex -> In y (extras_tot g1 id)) ->
                    J e (match mdx with Some _ => Some id | None => @None nat end) Pn g1 /\ idxd g1 id /\
                    sim None (match mdx with Some _ => Some id | None => @None nat end) g g1 /\
                    (mdx = md \/ nmeta n = mdx) /\
                    (mdx = None -> nmeta n = None \/ forall y, In y rex -> In y (extras_tot g1 id)) /\
                    (exists n2, alookup id (heap g1) = Some n2 /\ nkey n2 = norm nm /\ nmeta n2 = nmeta n)).
    { intros mdx Hmdx Hex. destruct HJ1 as [A [B [C D]]].
      split; [split; [exact A|split; [exact B|split; [exact C|]]]|].
      - eapply JQ_weaken; [intros p0 Hp0'; exact Hp0'|apply (Hx12 mdx Hmdx)|exact D].
      - split; [exact Hid1|]. split; [eapply sim_weaken; [apply (Hx12 mdx Hmdx)|intros s Hs; exact Hs|exact Hsim1]|].
        split; [exact Hmdx|]. split; [exact Hex|]. exists n. auto. }
    unfold x2. destruct reason as [r|]; [|injection H2 as <- <-; apply Hsame; [left; reflexivity|intros _; right; intros y Hy; unfold rex in Hy; destruct Hy]].
    destruct (nmeta n) as [m|] eqn:Hm; [|injection H2 as <- <-; apply Hsame; [left; reflexivity|intros _; left; reflexivity]].
    destruct (rextras r) as [|x0 xs] eqn:Hrx; [injection H2 as <- <-; apply Hsame; [left; reflexivity|intros _; right; intros y Hy; unfold rex in Hy; cbv beta iota in Hy; try rewrite Hrx in Hy; destruct Hy]|].
    apply bind_ok in H2 as [ex [Hex H2]].
    destruct (existsb (fun x3 => negb (smem x3 ex)) (x0 :: xs)) eqn:Hmiss; injection H2 as <- <-.
    - (* expand again *)
      destruct (Hsame (Some m) (or_intror eq_refl) ltac:(discriminate)) as [[A [B [C D]]] [Hi [Hs [Hmm [_ _]]]]].
      set (nf := mkNode (nkey n) (Some m) (ndeps n) (nrdeps n) false).
      assert (Hfl : sim (Some id) (Some id) g1 (setn g1 id nf)) by (eapply sim_flag; [exact Hn0|reflexivity|cbn [nmeta nf]; auto|reflexivity|reflexivity]).
      split; [split; [eapply inv_setn_same; [exact A|exact Hn0|reflexivity|reflexivity|reflexivity]|split; [|split]]|].
      + eapply J2_setn; [exact B|exact Hn0|]. intros d Hd. cbn [nmeta nf] in Hd. eapply B; [exact Hn0|]. rewrite Hm. exact Hd.
      + eapply J3_keep; [exact C|exact Hn0|reflexivity|cbn [nmeta nf]; auto].
      + eapply JQ_keep; [exact Hfl|exact D].
      + split; [eapply idxd_setn; [exact Hn0|reflexivity|exact Hi]|]. split; [eapply (sim_trans e); [exact Hs|exact Hfl]|].
        split; [right; reflexivity|]. split; [discriminate|]. exists nf. rewrite heap_setn, Nat.eqb_refl. cbn [nkey nf nmeta]. auto.
    - apply Hsame; [left; reflexivity|]. intros _. right. intros y Hy. unfold rex in Hy. cbv beta iota in Hy. try rewrite Hrx in Hy.
      apply (node_extras_tot _ _ _ Hex). apply smem_In.
      destruct (smem y ex) eqn:Es; [reflexivity|]. exfalso.
      assert (Hc : existsb (fun x3 => negb (smem x3 ex)) (x0 :: xs) = true) by (apply existsb_exists; exists y; split; [exact Hy|rewrite Es; reflexivity]).
      congruence. }
  destruct HS2 as [HJ2 [Hid2 [Hsim2 [Hmd2 [Hex2 [n2i [Hn2i [Hn2k Hn2m]]]]]]]].
  (* ---- stage 3: the link from the source ---- *)
  apply bind_ok in H as [g3 [H3 H]].
  assert (HS3 : J e x2 Pn g3 /\ idxd g3 id /\ sim None x2 g g3 /\
                (exists n3, alookup id (heap g3) = Some n3 /\ nkey n3 = norm nm /\ nmeta n3 = nmeta n) /\
                (forall s, source = Some s -> forall sn3, alookup s (heap g3) = Some sn3 -> slookup (nkey sn3) (index g3) = Some s ->
                           exists ro, alookup id (ndeps sn3) = Some ro) /\
                (forall s, source = Some s -> exists sn3, alookup s (heap g3) = Some sn3)).
  { destruct source as [s|].
    2:{ injection H3 as <-. split; [exact HJ2|]. split; [exact Hid2|]. split; [exact Hsim2|]. split; [exists n2i; auto|].
        split; intros s0 Hs0; discriminate Hs0. }
    apply bind_ok in H3 as [sn [Hsn H3]]. pose proof Hsn as Hsn0. apply getn_some in Hsn0.
    destruct (key_present g2 (nkey sn)) eqn:Hkp.
    2:{ injection H3 as <-. split; [exact HJ2|]. split; [exact Hid2|]. split; [exact Hsim2|]. split; [exists n2i; auto|]. split.
        - intros s0 [= <-] sn3 Hsn3 Hl3. rewrite Hsn0 in Hsn3. injection Hsn3 as <-. unfold key_present in Hkp. rewrite Hl3 in Hkp. discriminate.
        - intros s0 [= <-]. eauto. }
    apply bind_ok in H3 as [n2 [Hn2 H3]]. apply bind_ok in H3 as [sn' [Hsn' H3]]. injection H3 as <-.
    pose proof Hn2 as Hn20. apply getn_some in Hn20. pose proof Hsn' as Hsn'0. apply getn_some in Hsn'0.
    rewrite Hn2i in Hn20. injection Hn20 as <-.
    destruct HJ2 as [A [B [C D]]]. destruct Hid2 as [nid [Hnid Hix]]. rewrite Hn2i in Hnid. injection Hnid as <-.
    set (n2' := mkNode (nkey n2i) (nmeta n2i) (ndeps n2i) (nadd s (nrdeps n2i)) (ncomplete n2i)) in *.
    set (sn'' := mkNode (nkey sn') (nmeta sn') (aset id reason (ndeps sn')) (nrdeps sn') (ncomplete sn')).
    assert (Hi : inv None (setn g2 id n2')) by (apply inv_grow_rdeps; assumption).
    assert (Hsl : sim x2 x2 g2 (setn (setn g2 id n2') s sn'')).
    { eapply sim_link; [exact Hn2i|exact Hsn'0|auto|]. fold rex. unfold x2. destruct md2 as [m2|]; [left; reflexivity|right].
      destruct (Hex2 eq_refl) as [Hnone|Hsub]; [left; congruence|right; exact Hsub]. }
    split; [split; [|split; [|split]]|].
    - eapply (inv_grow_deps _ s sn' id n2'); [exact Hi|exact Hsn'0| | |].
      + rewrite heap_setn, Nat.eqb_refl. reflexivity.
      + cbn [setn index nkey n2']. exact Hix.
      + cbn [nrdeps n2']. rewrite nmem_nadd, Nat.eqb_refl. reflexivity.
    - eapply J2_setn; [|exact Hsn'0|].
      + eapply J2_setn; [exact B|exact Hn2i|]. intros d Hd. eapply B; [exact Hn2i|exact Hd].
      + intros d Hd. cbn [nmeta sn''] in Hd. rewrite heap_setn in Hsn'0. destruct (Nat.eqb s id).
        * injection Hsn'0 as <-. eapply B; [exact Hn2i|exact Hd].
        * eapply B; [exact Hsn'0|exact Hd].
    - eapply J3_keep; [|exact Hsn'0|reflexivity|reflexivity]. eapply J3_keep; [exact C|exact Hn2i|reflexivity|reflexivity].
    - eapply JQ_keep; [exact Hsl|exact D].
    - assert (Hid3 : exists n3, alookup id (heap (setn (setn g2 id n2') s sn'')) = Some n3 /\ nkey n3 = nkey n2i /\ nmeta n3 = nmeta n2i).
      { rewrite heap_setn. destruct (Nat.eqb id s) eqn:E.
        - apply Nat.eqb_eq in E; subst s. rewrite heap_setn, Nat.eqb_refl in Hsn'0. injection Hsn'0 as <-. exists sn''. auto.
        - rewrite heap_setn, Nat.eqb_refl. exists n2'. auto. }
      destruct Hid3 as [n3 [Hn3 [Hk3 Hm3]]].
      split; [exists n3; split; [exact Hn3|]; cbn [setn index]; rewrite Hk3; exact Hix|].
      split; [eapply (sim_trans e); [exact Hsim2|exact Hsl]|].
      split; [exists n3; split; [exact Hn3|split; congruence]|]. split.
      + intros s0 [= <-] sn3 Hsn3 _. rewrite heap_setn, Nat.eqb_refl in Hsn3. injection Hsn3 as <-. cbn [ndeps sn''].
        exists reason. rewrite alookup_aset, Nat.eqb_refl. reflexivity.
      + intros s0 [= <-]. exists sn''. rewrite heap_setn, Nat.eqb_refl. reflexivity. }
  destruct HS3 as [HJ3 [Hid3 [Hsim3 [[n3i [Hn3i [Hn3k Hn3m]]] [Hlk3 Hsrc3]]]]].
  (* ---- stage 4: the expansion ---- *)
  apply bind_ok in H as [[g4 nodes] [H4 H]]. cbv beta iota in H.
  assert (HS4 : J e None Pn g4 /\ (md = None -> wf g3 -> fr g3 g4)).
  { destruct md2 as [m|]; [|injection H4 as <- _; split; [exact HJ3|intros _ _; apply fr_refl]].
    apply bind_ok in H4 as [n3 [Hn3 H4]]. apply getn_some in Hn3. rewrite Hn3i in Hn3. injection Hn3 as <-.
    apply bind_ok in H4 as [ex [Hex H4]]. apply bind_ok in H4 as [all [Hall H4]]. apply bind_ok in H4 as [rs [Hrs H4]].
    set (na := mkNode (nkey n3i) (Some m) (ndeps n3i) (nrdeps n3i) (ncomplete n3i)) in *.
    change (fold_left (exp_step f e id) rs (Rok (setn g3 id na, [id])) = Rok (g4, nodes)) in H4.
    destruct HJ3 as [A [B [C D]]]. unfold x2 in D, Hsim3.
    assert (Hmok : meta_ok m).
    { destruct Hmd2 as [Hm2|Hm2]; [apply (Hmd m); symmetry; exact Hm2|]. eapply B; [exact Hn3i|]. congruence. }
    destruct (expansion_cover e m ex all rs (proj1 Hmok) Hall Hrs) as [Hrsok Hcover].
    assert (Hextot : forall y, In y (extras_tot g3 id) -> In y ex).
    { intros y Hy. apply (node_extras_tot _ _ _ Hex). apply (extras_tot_setn_same g3 id n3i na id Hn3i eq_refl eq_refl). exact Hy. }
    assert (HJa : J e None (map (pair id) rs ++ Pn) (setn g3 id na)).
    { split; [eapply inv_setn_same; [exact A|exact Hn3i|reflexivity|reflexivity|reflexivity]|]. split; [|split].
      - eapply J2_setn; [exact B|exact Hn3i|]. intros d [= <-]. exact Hmok.
      - eapply J3_setn; [exact C|exact Hn3i|reflexivity|]. cbn [nmeta na].
        destruct Hmd2 as [Hm2|Hm2].
        + destruct (Hmd m (eq_sym Hm2)) as [_ [[Hc|Hc] _]]; [left; exists m; auto|right; rewrite Hn3k; exact Hc].
        + destruct (C id n3i Hn3i) as [[d [Hd Hdm]]|Hk]; [left; exists m; split; [reflexivity|congruence]|right; exact Hk].
      - eapply (JQ_meta e (Some id) None Pn); [exact Hn3i|exact D| | | |].
        + intros s q _ Hc. eapply cov_mono; [|exact Hc]. intros p0 Hp0'. apply in_or_app. right. exact Hp0'.
        + intros _ q Hq Ha. apply applies_spec in Ha as [x [Hx Hu]].
          assert (Hx' : In x (None :: map Some ex)).
          { destruct Hx as [<-|Hx]; [left; reflexivity|right]. apply in_map_iff in Hx as [y [<- Hy]]. apply in_map. apply Hextot. exact Hy. }
          destruct (Hcover q x Hq Hx' Hu) as [r [Hr [Hkr Hsr]]]. exists r. split; [|auto].
          apply in_or_app. left. apply in_map. exact Hr.
        + destruct Hmd2 as [Hm2|Hm2]; [right|left; congruence].
          destruct (Hmd m (eq_sym Hm2)) as [_ [_ Htg]].
          intros s sn ds q Hne Hs Hl Hm Hq Ha Hk.
          destruct (sim_back e _ _ _ _ _ _ _ Hsim3 Hs Hl Hm ltac:(intros [= Heq]; apply Hne; symmetry; exact Heq))
            as [sn0 [Hs0 [Hl0 [Hm0 [_ [_ [Hap _]]]]]]].
          eapply (Htg s sn0 ds q); [exact Hs0|exact Hl0|exact Hm0|exact Hq|apply Hap; exact Ha|congruence].
        + intros s Hne _ [= Heq]. apply Hne. symmetry. exact Heq. }
    assert (Hfold : forall rs0 gb nb, Forall req_ok rs0 -> J e None (map (pair id) rs0 ++ Pn) gb ->
                      fold_left (exp_step f e id) rs0 (Rok (gb, nb)) = Rok (g4, nodes) -> J e None Pn g4).
    { induction rs0 as [|r rs0 IHr]; intros gb nb Hok HJb Hf; cbn [fold_left] in Hf.
      - injection Hf as <- _. exact HJb.
      - inversion Hok as [|? ? Hr Hok']; subst.
        destruct (exp_step f e id (Rok (gb, nb)) r) as [[gc nc]|er] eqn:Hs; [|rewrite exp_step_err in Hf; discriminate].
        unfold exp_step in Hs. cbn [bind] in Hs. apply bind_ok in Hs as [[gd nd] [Hrec Hs]]. cbv beta iota in Hs. injection Hs as <- <-.
        eapply IHr; [exact Hok'| |exact Hf].
        eapply (IH gb (rname r) None (Some id) (Some r) gd nd [(id, r)] (map (pair id) rs0 ++ Pn)); [exact HJb| | | |exact Hrec].
        + intros s0 r0 [[= <- <-]|[]]. auto.
        + discriminate.
        + intros _. apply name_ok_kgood. apply Hr. }
    split; [eapply Hfold; [exact Hrsok|exact HJa|exact H4]|].
    intros Hmdn Hw3. destruct (exp_fr _ _ _ _ _ _ _ _ (setn_wf _ _ _ na Hw3 ltac:(apply getn_some; exact Hn3i) eq_refl) H4) as [_ Hfr].
    eapply fr_trans; [|exact Hfr]. eapply fr_setn; [exact Hn3i|reflexivity|]. right. split; [|eauto]. cbn [nmeta na].
    destruct Hmd2 as [Hm2|Hm2]; [congruence|congruence]. }
  destruct HS4 as [HJ4 Hfr4].
  (* ---- stage 5: the re-check of the node against the reason, and the pending obligation of the caller ---- *)
  apply bind_ok in H as [g5 [H5 H]].
  apply bind_ok in H as [n5 [Hn5 H]]. apply getn_some in Hn5.
  destruct (key_present g5 (nkey n5)) eqn:Hkp; [|discriminate]. injection H as <- _.
  pose proof (J_discard e _ _ _ _ _ _ _ HJ4 H5) as HJ5.
  destruct HJ5 as [A5 [B5 [C5 D5]]]. split; [exact A5|split; [exact B5|split; [exact C5|]]].
  intros s sn ds q Hs Hl Hm Hq Ha Hx.
  destruct (D5 s sn ds q Hs Hl Hm Hq Ha Hx) as [[r [Hin [Hkr Hsr]]]|Hk]; [|right; exact Hk].
  apply in_app_iff in Hin as [Hin|Hin]; [|left; exists r; auto].
  right. destruct (Hp0 s r Hin) as [Hsrc [Hrsn [Hnmr Hmdn]]].
  assert (Hw3 : wf g3) by (destruct HJ3 as [A3 _]; exact (i_wf _ _ _ A3)).
  assert (Hw4 : wf g4) by (destruct HJ4 as [A4 _]; exact (i_wf _ _ _ A4)).
  assert (Hfr : fr g3 g5) by (eapply fr_trans; [exact (Hfr4 Hmdn Hw3)|eapply discard_fr; eassumption]).
  destruct Hfr as [Hmono Hidx].
  destruct (Hsrc3 s Hsrc) as [sn3 Hsn3].
  destruct (Hmono s sn3 Hsn3) as [sn5 [Hsn5 [Hk5 Hc5]]]. rewrite Hs in Hsn5. injection Hsn5 as <-.
  destruct Hc5 as [Hc5|[_ Hlinks]]; [congruence|].
  assert (Hl3 : slookup (nkey sn3) (index g3) = Some s).
  { rewrite <- Hk5. destruct (Hidx _ _ Hl) as [Hi|Hi]; [exact Hi|congruence]. }
  destruct (Hlk3 s Hsrc sn3 Hsn3 Hl3) as [ro Hro]. destruct (Hlinks id ro Hro) as [ro' Hro'].
  destruct (Hmono id n3i Hn3i) as [n5' [Hn5' [Hk5' _]]]. rewrite Hn5 in Hn5'. injection Hn5' as <-.
  exists id, n5, ro'. split; [exact Hro'|]. split; [exact Hn5|]. split; [congruence|].
  subst reason. destruct (discard_checks _ _ _ _ _ H5) as [n4 [Hn4 [[n' [Hn' [_ Hedge]]]|[-> Habs]]]].
  - rewrite Hn5 in Hn'. injection Hn' as <-. eapply edge_ok_tgt; eassumption.
  - apply getn_some in Hn4. rewrite Hn5 in Hn4. injection Hn4 as <-. congruence.
Qed.
End AddDist.
(* ================================================================================================ *)
(* Part 3c: the node objects add_dist creates carry project keys (never a "#bad#" key), except the   *)
(* node of the name it was called with                                                              *)
(* ================================================================================================ *)

Definition fresh_ok (g g' : graph) (nm : string) : Prop :=
  forall i n', alookup i (heap g') = Some n' -> alookup i (heap g) = None ->
    (i = next g /\ slookup (norm nm) (index g) = None /\ nkey n' = norm nm) \/ is_bad (nkey n') = false.

(* no new node objects, keys unchanged *)
Definition domk (g g' : graph) : Prop :=
  forall i n', alookup i (heap g') = Some n' -> exists n, alookup i (heap g) = Some n /\ nkey n = nkey n'.

Lemma domk_refl g : domk g g.  Proof. intros i n' H. eauto. Qed.
Lemma domk_trans g1 g2 g3 : domk g1 g2 -> domk g2 g3 -> domk g1 g3.
Proof. intros H1 H2 i n3 H. destruct (H2 i n3 H) as [n2 [Hn2 K2]]. destruct (H1 i n2 Hn2) as [n1 [Hn1 K1]]. exists n1. split; [exact Hn1|congruence]. Qed.

Lemma domk_setn g a n n' : alookup a (heap g) = Some n -> nkey n' = nkey n -> domk g (setn g a n').
Proof.
  intros Hn Hk i x Hx. rewrite heap_setn in Hx. destruct (Nat.eqb i a) eqn:E; [|eauto].
  apply Nat.eqb_eq in E; subst i. injection Hx as <-. eauto.
Qed.

Lemma domk_shrink X g g' : shrinkR X g g' -> domk g g'.
Proof.
  intros Hs i n' H. destruct (sr_dom _ _ _ Hs _ _ H) as [n Hn]. destruct (sr_node _ _ _ Hs _ _ Hn) as [n2 [Hn2 [Hk _]]].
  rewrite H in Hn2. injection Hn2 as <-. eauto.
Qed.

Lemma discard_domk fuel g id reason g' : wf g -> discard fuel g id reason = Rok g' -> domk g g'.
Proof.
  intros Hwf H. destruct (discard_cases _ _ _ _ _ H) as [->|[n [d [r [v [_ [_ [_ [_ [_ [_ Hr]]]]]]]]]]]; [apply domk_refl|].
  destruct (rm_inval _ _ _ _ Hwf Hr) as [g2 [Hs [_ [->|[n2 [Hn2 ->]]]]]]; [eapply domk_shrink; exact Hs|].
  eapply domk_trans; [eapply domk_shrink; exact Hs|]. eapply domk_setn; [exact Hn2|reflexivity].
Qed.

Lemma fresh_domk g g1 g2 nm : fresh_ok g g1 nm -> domk g1 g2 -> fresh_ok g g2 nm.
Proof. intros H1 H2 i n2 Hn2 Hg. destruct (H2 i n2 Hn2) as [n1 [Hn1 Hk]]. rewrite <- Hk. eapply H1; eassumption. Qed.

Lemma fresh_step g gb gc nm :
  fresh_ok g gb nm -> ext gb gc ->
  (forall i n', alookup i (heap gc) = Some n' -> alookup i (heap gb) = None -> is_bad (nkey n') = false) ->
  fresh_ok g gc nm.
Proof.
  intros H1 He H2 i nc Hc Hg. destruct (alookup i (heap gb)) as [nb|] eqn:Hb.
  - destruct (He i nb Hb) as [nc' [Hc' Hk]]. rewrite Hc in Hc'. injection Hc' as <-. rewrite Hk. eapply H1; eassumption.
  - right. eapply H2; eassumption.
Qed.

Lemma J2_discard fuel g id reason g' : wf g -> J2 g -> discard fuel g id reason = Rok g' -> J2 g'.
Proof.
  intros Hwf H2 H. destruct (discard_cases _ _ _ _ _ H) as [->|[n [d [r [v [_ [_ [_ [_ [_ [_ Hr]]]]]]]]]]]; [exact H2|].
  destruct (rm_inval _ _ _ _ Hwf Hr) as [g2 [Hs [_ [->|[n2 [Hn2 ->]]]]]]; [eapply J2_shrink; eassumption|].
  eapply J2_setn; [eapply J2_shrink; eassumption|exact Hn2|]. cbn. discriminate.
Qed.

Lemma add_dist_fresh fuel : forall e g nm md source reason g' ns,
  wf g -> J2 g -> (forall m, md = Some m -> meta_ok m) ->
  add_dist fuel e g nm md source reason = Rok (g', ns) -> J2 g' /\ fresh_ok g g' nm.
Proof.
  induction fuel as [|f IH]; intros e g nm md source reason g' ns Hwf HJ2 Hmd H; cbn [add_dist] in H; [discriminate|].
  set (p := match slookup (norm nm) (index g) with
            | Some id => (g, id)
            | None => (mkG (heap g ++ [(next g, mkNode (norm nm) md [] [] false)])
                           (index g ++ [(norm nm, next g)]) (S (next g)) (glog g), next g)
            end) in H.
  assert (Hp : wf (fst p) /\ J2 (fst p) /\ fresh_ok g (fst p) nm).
  { unfold p. destruct (slookup (norm nm) (index g)) eqn:E; cbn [fst].
    - split; [exact Hwf|]. split; [exact HJ2|]. intros i n' Hi Hg. congruence.
    - pose proof Hwf as [_ [_ Hlt]].
      assert (Hfresh : forall w, alookup (next g) (heap g) = Some w -> False) by (intros w Hw; apply Hlt in Hw; lia).
      split; [apply new_node_wf; assumption|]. split.
      + intros a na d Ha Hd. cbn [heap] in Ha. rewrite (alookup_app_new _ _ _ _ Hfresh) in Ha.
        destruct (Nat.eqb a (next g)); [injection Ha as <-; cbn [nmeta] in Hd; apply (Hmd d Hd)|eapply HJ2; eassumption].
      + intros i n' Hi Hg. cbn [heap] in Hi. rewrite (alookup_app_new _ _ _ _ Hfresh) in Hi.
        destruct (Nat.eqb i (next g)) eqn:Ei; [|congruence]. apply Nat.eqb_eq in Ei. injection Hi as <-. left. auto. }
  destruct p as [g1 id]. cbn [fst] in Hp. destruct Hp as [Hw1 [H21 Hf1]]. cbv beta iota in H.
  apply bind_ok in H as [n [Hn H]]. pose proof Hn as Hn0. apply getn_some in Hn0.
  apply bind_ok in H as [[md2 g2] [H2 H]]. cbv beta iota in H.
  assert (Hs2 : wf g2 /\ J2 g2 /\ fresh_ok g g2 nm /\ (forall m, md2 = Some m -> meta_ok m)).
  { assert (Hsame : wf g1 /\ J2 g1 /\ fresh_ok g g1 nm /\ (forall m, md = Some m -> meta_ok m)) by auto.
    destruct reason as [r|]; [|injection H2 as <- <-; exact Hsame].
    destruct (nmeta n) as [m|] eqn:Hm; [|injection H2 as <- <-; exact Hsame].
    destruct (rextras r) as [|x xs]; [injection H2 as <- <-; exact Hsame|].
    apply bind_ok in H2 as [ex [Hex H2]].
    destruct (existsb (fun x0 => negb (smem x0 ex)) (x :: xs)); injection H2 as <- <-; [|exact Hsame].
    split; [eapply setn_wf; [exact Hw1|exact Hn|reflexivity]|]. split; [|split].
    - eapply J2_setn; [exact H21|exact Hn0|]. intros d Hd. cbn [nmeta] in Hd. eapply H21; [exact Hn0|]. congruence.
    - eapply fresh_domk; [exact Hf1|]. eapply domk_setn; [exact Hn0|reflexivity].
    - intros m0 [= <-]. eapply H21; [exact Hn0|exact Hm]. }
  destruct Hs2 as [Hw2 [H22 [Hf2 Hmd2]]].
  apply bind_ok in H as [g3 [H3 H]].
  assert (Hs3 : wf g3 /\ J2 g3 /\ fresh_ok g g3 nm).
  { destruct source as [s|]; [|injection H3 as <-; auto].
    apply bind_ok in H3 as [sn [Hsn H3]].
    destruct (key_present g2 (nkey sn)); [|injection H3 as <-; auto].
    apply bind_ok in H3 as [n2 [Hn2 H3]]. apply bind_ok in H3 as [sn' [Hsn' H3]]. injection H3 as <-.
    pose proof Hn2 as Hn20. apply getn_some in Hn20. pose proof Hsn' as Hsn'0. apply getn_some in Hsn'0.
    set (ga := setn g2 id (mkNode (nkey n2) (nmeta n2) (ndeps n2) (nadd s (nrdeps n2)) (ncomplete n2))) in *.
    assert (H2a : J2 ga) by (eapply J2_setn; [exact H22|exact Hn20|]; intros d Hd; eapply H22; [exact Hn20|exact Hd]).
    split; [eapply setn_wf; [|exact Hsn'|reflexivity]; eapply setn_wf; [exact Hw2|exact Hn2|reflexivity]|]. split.
    - eapply J2_setn; [exact H2a|exact Hsn'0|]. intros d Hd. eapply H2a; [exact Hsn'0|exact Hd].
    - eapply fresh_domk; [exact Hf2|]. eapply (domk_trans _ ga); [unfold ga; eapply domk_setn; [exact Hn20|reflexivity]|eapply domk_setn; [exact Hsn'0|reflexivity]]. }
  destruct Hs3 as [Hw3 [H23 Hf3]].
  apply bind_ok in H as [[g4 nodes] [H4 H]]. cbv beta iota in H.
  assert (Hs4 : wf g4 /\ J2 g4 /\ fresh_ok g g4 nm).
  { destruct md2 as [m|]; [|injection H4 as <- _; auto].
    apply bind_ok in H4 as [n3 [Hn3 H4]]. apply bind_ok in H4 as [ex [Hex H4]].
    apply bind_ok in H4 as [all [Hall H4]]. apply bind_ok in H4 as [rs [Hrs H4]].
    pose proof Hn3 as Hn30. apply getn_some in Hn30.
    destruct (expansion_cover e m ex all rs (proj1 (Hmd2 m eq_refl)) Hall Hrs) as [Hrsok _].
    set (na := mkNode (nkey n3) (Some m) (ndeps n3) (nrdeps n3) (ncomplete n3)) in *.
    change (fold_left (exp_step f e id) rs (Rok (setn g3 id na, [id])) = Rok (g4, nodes)) in H4.
    assert (Hfold : forall rs0 gb nb, Forall req_ok rs0 -> wf gb -> J2 gb -> fresh_ok g gb nm ->
                      fold_left (exp_step f e id) rs0 (Rok (gb, nb)) = Rok (g4, nodes) -> wf g4 /\ J2 g4 /\ fresh_ok g g4 nm).
    { induction rs0 as [|r rs0 IHr]; intros gb nb Hok Hwb H2b Hfb Hf; cbn [fold_left] in Hf.
      - injection Hf as <- _. auto.
      - inversion Hok as [|? ? Hr Hok']; subst.
        destruct (exp_step f e id (Rok (gb, nb)) r) as [[gc nc]|er] eqn:Hs; [|rewrite exp_step_err in Hf; discriminate].
        unfold exp_step in Hs. cbn [bind] in Hs. apply bind_ok in Hs as [[gd nd] [Hrec Hs]]. cbv beta iota in Hs. injection Hs as <- <-.
        destruct (IH e gb (rname r) None (Some id) (Some r) gd nd Hwb H2b ltac:(discriminate) Hrec) as [H2d Hfd].
        eapply IHr; [exact Hok'|eapply add_dist_wf; eassumption|exact H2d| |exact Hf].
        eapply fresh_step; [exact Hfb|eapply add_dist_wfx; eassumption|].
        intros i n' Hi Hb. destruct (Hfd i n' Hi Hb) as [[_ [_ Hk]]|Hk]; [|exact Hk].
        rewrite Hk. apply kgood_not_bad. apply name_ok_kgood. apply Hr. }
    eapply (Hfold rs (setn g3 id na) [id]); [exact Hrsok|eapply setn_wf; [exact Hw3|exact Hn3|reflexivity]| | |exact H4].
    - eapply J2_setn; [exact H23|exact Hn30|]. intros d [= <-]. apply Hmd2. reflexivity.
    - eapply fresh_domk; [exact Hf3|]. eapply domk_setn; [exact Hn30|reflexivity]. }
  destruct Hs4 as [Hw4 [H24 Hf4]].
  apply bind_ok in H as [g5 [H5 H]].
  apply bind_ok in H as [n5 [Hn5 H]].
  destruct (key_present g5 (nkey n5)); [|discriminate]. injection H as <- _.
  split; [eapply J2_discard; eassumption|]. eapply fresh_domk; [exact Hf4|]. eapply discard_domk; eassumption.
Qed.

(* ---- the list of node objects add_dist hands back, when no requirement of the metadata asks for an extra ---- *)
Lemma add_dist_nodes_nil fuel e g nm source r g' ns :
  rextras r = [] -> add_dist fuel e g nm None source (Some r) = Rok (g', ns) -> ns = [].
Proof.
  intros Hx H. destruct fuel as [|f]; cbn [add_dist] in H; [discriminate|].
  destruct (match slookup (norm nm) (index g) with
            | Some id => (g, id)
            | None => (mkG (heap g ++ [(next g, mkNode (norm nm) None [] [] false)])
                           (index g ++ [(norm nm, next g)]) (S (next g)) (glog g), next g)
            end) as [g1 id].
  apply bind_ok in H as [n [Hn H]]. rewrite Hx in H.
  assert (Hmd2 : (match nmeta n with Some _ => Rok (@None dist, g1) | None => Rok (None, g1) end) = Rok (@None dist, g1)) by (destruct (nmeta n); reflexivity).
  rewrite Hmd2 in H. cbn [bind] in H.
  apply bind_ok in H as [g3 [H3 H]]. cbn [bind] in H.
  apply bind_ok in H as [g5 [H5 H]]. apply bind_ok in H as [n5 [Hn5 H]].
  destruct (key_present g5 (nkey n5)); [|discriminate]. injection H as _ <-. reflexivity.
Qed.

Lemma exp_nodes_nil f e id rs : forall gb nb g4 nodes,
  Forall (fun r => rextras r = []) rs -> fold_left (exp_step f e id) rs (Rok (gb, nb)) = Rok (g4, nodes) -> nodes = nb.
Proof.
  induction rs as [|r rs IH]; intros gb nb g4 nodes Hrs H; cbn [fold_left] in H.
  - injection H as _ <-. reflexivity.
  - inversion Hrs as [|? ? Hr Hrs']; subst.
    destruct (exp_step f e id (Rok (gb, nb)) r) as [[gc nc]|er] eqn:Hs; [|rewrite exp_step_err in H; discriminate].
    unfold exp_step in Hs. cbn [bind] in Hs. apply bind_ok in Hs as [[gd nd] [Hrec Hs]]. cbv beta iota in Hs. injection Hs as <- <-.
    rewrite (add_dist_nodes_nil _ _ _ _ _ _ _ _ Hr Hrec) in H. rewrite app_nil_r in H. eapply IH; eassumption.
Qed.
(* ================================================================================================ *)
(* Part 4a: frames of the graph operations as the solver uses them                                  *)
(* ================================================================================================ *)

Lemma idx_frame_refl g : idx_frame g g.
Proof. intros k i H. left. exact H. Qed.

Lemma idx_frame_trans g g1 g2 : idx_frame g g1 -> ext g g1 -> idx_frame g1 g2 -> idx_frame g g2.
Proof.
  intros I1 E1 I2 k i H. destruct (I2 k i H) as [H2|H2]; [apply I1; exact H2|]. right.
  destruct (alookup i (heap g)) as [n|] eqn:E; [|reflexivity]. destruct (E1 i n E) as [n1 [Hn1 _]]. congruence.
Qed.

Lemma add_dist_idx fuel : forall e g nm md source reason g' ns,
  wf g -> add_dist fuel e g nm md source reason = Rok (g', ns) -> idx_frame g g'.
Proof.
  induction fuel as [|f IH]; intros e g nm md source reason g' ns Hwf H; cbn [add_dist] in H; [discriminate|].
  set (p := match slookup (norm nm) (index g) with
            | Some id => (g, id)
            | None => (mkG (heap g ++ [(next g, mkNode (norm nm) md [] [] false)])
                           (index g ++ [(norm nm, next g)]) (S (next g)) (glog g), next g)
            end) in H.
  assert (Hp : wf (fst p) /\ ext g (fst p) /\ idx_frame g (fst p)).
  { unfold p. destruct (slookup (norm nm) (index g)) eqn:E; cbn [fst].
    - split; [exact Hwf|]. split; [apply ext_refl|apply idx_frame_refl].
    - split; [apply new_node_wf; assumption|]. split; [apply new_node_ext; assumption|]. apply (fr_new g (norm nm) md Hwf). }
  destruct p as [g1 id]. cbn [fst] in Hp. destruct Hp as [Hw1 [He1 Hi1]]. cbv beta iota in H.
  apply bind_ok in H as [n [Hn H]].
  apply bind_ok in H as [[md2 g2] [H2 H]]. cbv beta iota in H.
  assert (Hs2 : wf g2 /\ ext g g2 /\ idx_frame g g2).
  { destruct reason as [r|]; [|injection H2 as _ <-; auto].
    destruct (nmeta n) as [m|]; [|injection H2 as _ <-; auto].
    destruct (rextras r) as [|x xs]; [injection H2 as _ <-; auto|].
    apply bind_ok in H2 as [ex [Hex H2]].
    destruct (existsb (fun x0 => negb (smem x0 ex)) (x :: xs)); injection H2 as _ <-; [|auto].
    split; [eapply setn_wf; [exact Hw1|exact Hn|reflexivity]|]. split; [eapply ext_trans; [exact He1|]; eapply setn_ext; [exact Hn|reflexivity]|].
    intros k i Hk. apply Hi1. exact Hk. }
  destruct Hs2 as [Hw2 [He2 Hi2]].
  apply bind_ok in H as [g3 [H3 H]].
  assert (Hs3 : wf g3 /\ ext g g3 /\ idx_frame g g3).
  { destruct source as [s|]; [|injection H3 as <-; auto].
    apply bind_ok in H3 as [sn [Hsn H3]].
    destruct (key_present g2 (nkey sn)); [|injection H3 as <-; auto].
    apply bind_ok in H3 as [n2 [Hn2 H3]]. apply bind_ok in H3 as [sn' [Hsn' H3]]. injection H3 as <-.
    split; [eapply setn_wf; [|exact Hsn'|reflexivity]; eapply setn_wf; [exact Hw2|exact Hn2|reflexivity]|]. split.
    - eapply ext_trans; [exact He2|]. eapply (ext_trans _ (setn g2 id (mkNode (nkey n2) (nmeta n2) (ndeps n2) (nadd s (nrdeps n2)) (ncomplete n2)))); [eapply setn_ext; [exact Hn2|reflexivity]|eapply setn_ext; [exact Hsn'|reflexivity]].
    - intros k i Hk. apply Hi2. exact Hk. }
  destruct Hs3 as [Hw3 [He3 Hi3]].
  apply bind_ok in H as [[g4 nodes] [H4 H]]. cbv beta iota in H.
  assert (Hs4 : wf g4 /\ ext g g4 /\ idx_frame g g4).
  { destruct md2 as [m|]; [|injection H4 as <- _; auto].
    apply bind_ok in H4 as [n3 [Hn3 H4]]. apply bind_ok in H4 as [ex [Hex H4]].
    apply bind_ok in H4 as [all [Hall H4]]. apply bind_ok in H4 as [rs [Hrs H4]].
    revert H4. apply (fold_res_pair_inv (fun gx => wf gx /\ ext g gx /\ idx_frame g gx)).
    - intros acc2 r gc nc Hacc2 HF2. apply bind_ok in HF2 as [[gd nd] [-> HF2]]. cbv beta iota in HF2.
      specialize (Hacc2 gd nd eq_refl). apply bind_ok in HF2 as [[ge ne] [Hrec HF2]]. cbv beta iota in HF2.
      injection HF2 as <- _. destruct Hacc2 as [Hw [He Hi]]. split; [eapply add_dist_wf; [exact Hw|exact Hrec]|].
      split; [eapply ext_trans; [exact He|]; eapply add_dist_wfx; [exact Hw|exact Hrec]|].
      eapply idx_frame_trans; [exact Hi|exact He|]. eapply IH; [exact Hw|exact Hrec].
    - intros g0 b0 [= <- _]. split; [eapply setn_wf; [exact Hw3|exact Hn3|reflexivity]|].
      split; [eapply ext_trans; [exact He3|]; eapply setn_ext; [exact Hn3|reflexivity]|]. intros k i Hk. apply Hi3. exact Hk. }
  destruct Hs4 as [Hw4 [He4 Hi4]].
  apply bind_ok in H as [g5 [H5 H]].
  apply bind_ok in H as [n5 [Hn5 H]].
  destruct (key_present g5 (nkey n5)); [|discriminate]. injection H as <- _.
  eapply idx_frame_trans; [exact Hi4|exact He4|]. apply (discard_fr _ _ _ _ _ Hw4 H5).
Qed.

(* index entries under "#bad#" keys are not created *)
Definition Bfr (g g' : graph) : Prop :=
  forall k i, is_bad k = true -> slookup k (index g') = Some i -> slookup k (index g) = Some i.

Lemma Bfr_refl g : Bfr g g.  Proof. intros k i _ H. exact H. Qed.
Lemma Bfr_trans g1 g2 g3 : Bfr g1 g2 -> Bfr g2 g3 -> Bfr g1 g3.
Proof. intros H1 H2 k i Hb H. apply (H1 k i Hb). apply (H2 k i Hb). exact H. Qed.

Lemma Bfr_sub g g' : (forall k i, slookup k (index g') = Some i -> slookup k (index g) = Some i) -> Bfr g g'.
Proof. intros H k i _ Hk. apply H. exact Hk. Qed.

(* add_dist under a project name creates no "#bad#" entry *)
Lemma add_dist_Bfr fuel e g nm md source reason g' ns :
  wf g -> J2 g -> (forall m, md = Some m -> meta_ok m) -> is_bad (norm nm) = false ->
  add_dist fuel e g nm md source reason = Rok (g', ns) -> Bfr g g'.
Proof.
  intros Hwf H2 Hmd Hnb H k i Hb Hk.
  destruct (add_dist_idx _ _ _ _ _ _ _ _ _ Hwf H k i Hk) as [Hold|Hnew]; [exact Hold|exfalso].
  destruct (add_dist_fresh _ _ _ _ _ _ _ _ _ Hwf H2 Hmd H) as [_ Hf].
  pose proof (add_dist_wf _ _ _ _ _ _ _ _ _ Hwf H) as [_ [Hix _]].
  destruct (Hix k i (slookup_in _ _ _ Hk)) as [n' [Hn' Hkey]].
  destruct (Hf i n' Hn' Hnew) as [[_ [_ Hkn]]|Hgood]; congruence.
Qed.

Lemma remove_false_Bfr fuel g m g' : wf g -> remove_dists fuel g m false = Rok g' -> Bfr g g'.
Proof.
  intros Hwf H. apply Bfr_sub. intros k i Hk.
  destruct (rm_inval _ _ _ _ Hwf H) as [g2 [Hs [_ [->|[n2 [Hn2 ->]]]]]]; apply (sr_idx _ _ _ Hs); exact Hk.
Qed.

Lemma del_dep_in_index id rds : forall g g', del_dep_in g id rds = Rok g' -> index g' = index g.
Proof.
  induction rds as [|rd rds IH]; intros g g' H; cbn [del_dep_in] in H; [injection H as <-; reflexivity|].
  apply bind_ok in H as [n [Hn H]]. destruct (amem id (ndeps n)); [|discriminate]. rewrite (IH _ _ H). reflexivity.
Qed.

(* after remove_dists(node) the node's key is no longer in the index *)
Lemma rm_up_absent fuel g m g' n :
  wf g -> remove_dists fuel g m true = Rok g' -> alookup m (heap g) = Some n -> slookup (nkey n) (index g') = None.
Proof.
  destruct fuel as [|f]; intros Hwf H Hn; [discriminate|].
  rewrite remove_dists_unfold in H. apply getn_some in Hn. rewrite Hn in H. cbn [bind] in H.
  unfold key_present in H. destruct (slookup (nkey n) (index g)) as [i0|] eqn:Ek; cbn [negb] in H; [|injection H as <-; exact Ek].
  apply bind_ok in H as [g1 [Hg1 H]]. apply bind_ok in H as [n1 [Hn1 H]]. apply bind_ok in H as [g2 [Hg2 H]]. injection H as <-.
  set (gs := mkG (heap g) (sdel (nkey n) (index g)) (next g) (glog g)) in *.
  assert (Hwf1 : wf g1) by (eapply del_dep_in_wf; [apply sdel_wf; exact Hwf|exact Hg1]).
  destruct (rm_loop f true m (nkey n) (fun _ => True) g1) with (deps := ndeps n1) (gc := g1) (g2 := g2) as [Hs2 _];
    [|apply shrinkR_refl|exact Hwf1|exact Hg2|].
  - intros g0 d g0' Hw0 Hr0 Hnil. eapply (rm_up f _ g0 d g0'); [exact Hw0|exact Hr0|]. intros n0 Hl0. left. apply Hnil. exact Hl0.
  - destruct (slookup (nkey n) (index g2)) as [i|] eqn:E; [|reflexivity]. apply (sr_idx _ _ _ Hs2) in E.
    rewrite (del_dep_in_index _ _ _ _ Hg1) in E. cbn [index gs] in E.
    rewrite slookup_sdel_same in E; [discriminate|]. destruct Hwf as [Hnd _]. exact Hnd.
Qed.

Lemma set_complete_ext g id b : ext g (set_complete g id b).
Proof.
  unfold set_complete. destruct (alookup id (heap g)) as [n|] eqn:E; [|apply ext_refl].
  eapply setn_ext; [apply getn_some; exact E|reflexivity].
Qed.

Lemma J_set_complete e x pend g id b : J e x pend g -> J e x pend (set_complete g id b).
Proof.
  intros [A [B [C D]]]. unfold set_complete. destruct (alookup id (heap g)) as [n|] eqn:E; [|split; auto].
  split; [eapply inv_setn_same; [exact A|exact E|reflexivity|reflexivity|reflexivity]|]. split; [|split].
  - eapply J2_setn; [exact B|exact E|]. intros d Hd. eapply B; [exact E|exact Hd].
  - eapply J3_keep; [exact C|exact E|reflexivity|reflexivity].
  - eapply JQ_flag; [exact E|reflexivity|reflexivity|reflexivity|reflexivity|exact D].
Qed.

Lemma inv_log g s : inv None g -> inv None (log_event g s).
Proof. intros [A B C D]. constructor; [exact A|exact B|exact C|exact D]. Qed.

Lemma J_log e x pend g s : J e x pend g -> J e x pend (log_event g s).
Proof. intros [A [B [C D]]]. split; [apply inv_log; exact A|]. split; [exact B|]. split; [exact C|exact D]. Qed.

(* ---- the container the walk-back handler adds: the list of nodes handed back is the container alone ---- *)
Lemma merge_extras_nil a b m : merge (Some a) (Some b) = Ok m -> rextras a = [] -> rextras b = [] -> rextras m = [].
Proof. unfold merge. destruct (String.eqb _ _); [|discriminate]. intros [= <-] Ha Hb. cbn [rextras]. rewrite Ha, Hb. reflexivity. Qed.

Lemma upsert_extras_nil k r : forall acc acc',
  rextras r = [] -> Forall (fun kr => rextras (snd kr) = []) acc -> upsert k r acc = Ok acc' -> Forall (fun kr => rextras (snd kr) = []) acc'.
Proof.
  induction acc as [|[k' r'] acc IH]; intros acc' Hr Hacc H; cbn [upsert] in H.
  - injection H as <-. constructor; [exact Hr|constructor].
  - inversion Hacc as [|? ? Hh Ht]; subst. destruct (String.eqb k k').
    + destruct (merge (Some r') (Some r)) as [m|] eqn:Hm; [|discriminate]. injection H as <-.
      constructor; [|exact Ht]. cbn [snd] in *. eapply merge_extras_nil; eassumption.
    + destruct (upsert k r acc) as [acc''|] eqn:Hu; [|discriminate]. injection H as <-. constructor; [exact Hh|]. eapply IH; eauto.
Qed.

Lemma reduce_extras_nil rs out : Forall (fun r => rextras r = []) rs -> reduce rs = Ok out -> Forall (fun r => rextras r = []) out.
Proof.
  unfold reduce. intros Hrs H. destruct (reduce_acc rs []) as [acc|] eqn:Ha; [|discriminate]. injection H as <-.
  assert (Hg : forall rs0 acc0 out0, Forall (fun r => rextras r = []) rs0 -> Forall (fun kr => rextras (snd kr) = []) acc0 ->
                reduce_acc rs0 acc0 = Ok out0 -> Forall (fun kr : string * req => rextras (snd kr) = []) out0).
  { induction rs0 as [|r rs0 IH]; intros acc0 out0 H1 H2 H3; cbn [reduce_acc] in H3; [injection H3 as <-; exact H2|].
    inversion H1 as [|? ? Hr Hrs']; subst. destruct (upsert _ r acc0) as [acc'|] eqn:Hu; [|discriminate].
    eapply IH; [exact Hrs'| |exact H3]. eapply upsert_extras_nil; eassumption. }
  specialize (Hg rs [] acc Hrs (Forall_nil _) Ha). apply Forall_forall. intros r Hr.
  apply in_map_iff in Hr as [[k r'] [<- Hin]]. rewrite Forall_forall in Hg. apply (Hg _ Hin).
Qed.

Lemma collect_extras_nil e d : forall xs all,
  Forall (fun r => rextras r = []) (dreqs d) -> collect_requires e d xs = Rok all -> Forall (fun r => rextras r = []) all.
Proof.
  induction xs as [|x xs IH]; intros all Hd H; cbn [collect_requires] in H; [injection H as <-; constructor|].
  apply bind_ok in H as [a [Ha H]]. apply bind_ok in H as [b [Hb H]]. injection H as <-. apply Forall_app. split; [|eapply IH; eassumption].
  unfold requires, lift_merge in Ha. destruct (reduce _) as [out|] eqn:Hr; [|discriminate]. injection Ha as <-.
  eapply reduce_extras_nil; [|exact Hr]. apply Forall_forall. intros r Hin. apply filter_In in Hin as [Hin _].
  rewrite Forall_forall in Hd. apply Hd. exact Hin.
Qed.

Lemma add_container_nodes fuel e g nm m g' ns :
  Forall (fun r => rextras r = []) (dreqs m) -> add_dist fuel e g nm (Some m) None None = Rok (g', ns) ->
  exists id, ns = [id] /\ (slookup (norm nm) (index g) = Some id \/ (slookup (norm nm) (index g) = None /\ id = next g)).
Proof.
  intros Hx H. destruct fuel as [|f]; cbn [add_dist] in H; [discriminate|].
  set (p := match slookup (norm nm) (index g) with
            | Some id => (g, id)
            | None => (mkG (heap g ++ [(next g, mkNode (norm nm) (Some m) [] [] false)])
                           (index g ++ [(norm nm, next g)]) (S (next g)) (glog g), next g)
            end) in H.
  assert (Hp : slookup (norm nm) (index g) = Some (snd p) \/ (slookup (norm nm) (index g) = None /\ snd p = next g)).
  { unfold p. destruct (slookup (norm nm) (index g)); cbn [snd]; auto. }
  destruct p as [g1 id]. cbn [snd] in Hp. cbv beta iota in H.
  apply bind_ok in H as [n [Hn H]]. cbn [bind] in H.
  apply bind_ok in H as [[g4 nodes] [H4 H]]. cbv beta iota in H.
  apply bind_ok in H4 as [n3 [Hn3 H4]]. apply bind_ok in H4 as [ex [Hex H4]].
  apply bind_ok in H4 as [all [Hall H4]]. apply bind_ok in H4 as [rs [Hrs H4]].
  change (fold_left (exp_step f e id) rs (Rok (setn g1 id (mkNode (nkey n3) (Some m) (ndeps n3) (nrdeps n3) (ncomplete n3)), [id])) = Rok (g4, nodes)) in H4.
  assert (Hrsx : Forall (fun r => rextras r = []) rs).
  { unfold lift_merge in Hrs. destruct (reduce all) as [out|] eqn:Hred; [|discriminate]. injection Hrs as <-.
    eapply reduce_extras_nil; [|exact Hred]. eapply collect_extras_nil; eassumption. }
  rewrite (exp_nodes_nil _ _ _ _ _ _ _ _ Hrsx H4) in H.
  apply bind_ok in H as [g5 [H5 H]]. apply bind_ok in H as [n5 [Hn5 H]].
  destruct (key_present g5 (nkey n5)); [|discriminate]. injection H as _ <-. exists id. split; [reflexivity|exact Hp].
Qed.
(* ================================================================================================ *)
(* Part 4b: one solving step                                                                        *)
(* ================================================================================================ *)

(* hypotheses on the repositories: the metadata of a candidate carries the (normalised) project name of the file it
   was read from, its name and the names of its requirements are hygienic, wildcards only with == and != *)
Definition cand_ok (c : ucand) : Prop :=
  norm (dname (cdist c)) = norm (cname c) /\ dist_ok (cdist c) /\ name_ok (dname (cdist c)).
Definition stack_ok (u : repo_stack) : Prop :=
  forall un ap k cands c, In (un, ap) u -> In (k, cands) un -> In c cands -> cand_ok c.

Lemma get_dist_stack_src_in allow rs r b d :
  get_dist_stack_src allow rs r b = Some d -> exists un ap, In (un, ap) rs /\ get_dist_src allow un ap r b = Some d.
Proof.
  induction rs as [|[un ap] rs IH]; cbn [get_dist_stack_src]; [discriminate|].
  destruct (get_dist_src allow un ap r b) as [d'|] eqn:E.
  - intros [= <-]. exists un, ap. split; [left; reflexivity|exact E].
  - intros H. destruct (IH H) as [un' [ap' [Hin Hg]]]. exists un', ap'. split; [right; exact Hin|exact Hg].
Qed.

Lemma merge_matching_name key rs : forall acc out,
  Forall req_ok rs -> (forall a, acc = Some a -> req_ok a /\ pkey (rname a) = key) ->
  merge_matching key acc rs = Rok out -> forall m, out = Some m -> req_ok m /\ pkey (rname m) = key.
Proof.
  induction rs as [|r rs IH]; intros acc out Hrs Hacc H m Hm; cbn [merge_matching] in H.
  - injection H as <-. apply Hacc; exact Hm.
  - inversion Hrs as [|? ? Hr Hrs']; subst.
    destruct (String.eqb_spec (norm (safe_name (rname r))) key) as [Hk|Hne].
    + apply bind_ok in H as [m1 [Hm1 H]]. eapply (IH (Some m1)); [exact Hrs'| |exact H|reflexivity].
      intros a [= <-]. unfold lift_merge in Hm1. destruct acc as [a0|].
      * destruct (merge (Some a0) (Some r)) as [mm|] eqn:Hmm; [|discriminate]. injection Hm1 as <-.
        destruct (Hacc a0 eq_refl) as [Ha0 Hk0]. destruct (merge_ok _ _ _ Hmm Ha0 Hr) as [M1 M2]. split; [exact M1|congruence].
      * cbn [merge] in Hm1. injection Hm1 as <-. split; [exact Hr|exact Hk].
    + eapply IH; [exact Hrs'|exact Hacc|exact H|reflexivity].
Qed.

Lemma constraints_from_name e g key rds : forall acc out,
  J2 g -> (forall a, acc = Some a -> req_ok a /\ pkey (rname a) = key) ->
  constraints_from e g key acc rds = Rok out -> forall m, out = Some m -> req_ok m /\ pkey (rname m) = key.
Proof.
  induction rds as [|rd rds IH]; intros acc out H2 Hacc H m Hm; cbn [constraints_from] in H.
  - injection H as <-. apply Hacc; exact Hm.
  - apply bind_ok in H as [n [Hn H]]. apply getn_some in Hn.
    destruct (nmeta n) as [d|] eqn:Hd; [|discriminate].
    apply bind_ok in H as [xs [Hxs H]]. apply bind_ok in H as [rs [Hrs H]]. apply bind_ok in H as [acc' [Hacc' H]].
    eapply (IH acc'); [exact H2| |exact H|exact Hm].
    intros a Ha. eapply merge_matching_name; [| |exact Hacc'|exact Ha]; [|exact Hacc].
    rewrite all_reqs_collect in Hrs. destruct (collect_requires_cover _ _ _ _ (proj1 (H2 rd n d Hn Hd)) Hrs) as [Hok _].
    apply Forall_forall. intros r Hr. apply dedup_sub in Hr. rewrite Forall_forall in Hok. apply Hok. exact Hr.
Qed.

Lemma constraints_from_ok e g key rds : forall acc out,
  constraints_from e g key acc rds = Rok out ->
  forall rd, In rd rds -> exists rn d xs all, alookup rd (heap g) = Some rn /\ nmeta rn = Some d /\ node_extras g rd = Rok xs /\
                                        all_reqs_of e d (None :: map Some xs) = Rok all.
Proof.
  induction rds as [|rd0 rds IH]; intros acc out H rd Hin; [destruct Hin|].
  cbn [constraints_from] in H. apply bind_ok in H as [n [Hn H]]. apply getn_some in Hn.
  destruct (nmeta n) as [d|] eqn:Hd; [|discriminate].
  apply bind_ok in H as [xs [Hxs H]]. apply bind_ok in H as [rs [Hrs H]]. apply bind_ok in H as [acc' [Hacc' H]].
  destruct Hin as [<-|Hin]; [exists n, d, xs, rs; auto|eapply IH; eassumption].
Qed.

(* the request built for a node is at least as strong as every applicable requirement line of every registered,
   solved requirer *)
Lemma build_constraints_raw e g id n spec0 s sn ds q :
  build_constraints e g id = Rok spec0 -> alookup id (heap g) = Some n -> In s (nrdeps n) ->
  alookup s (heap g) = Some sn -> nmeta sn = Some ds -> dist_ok ds -> In q (dreqs ds) -> applies_b e g s q = true ->
  pkey (rname q) = nkey n -> stronger spec0 q.
Proof.
  intros Hb Hn Hs Hsn Hm Hok Hq Ha Hk.
  pose proof Hb as Hb'. unfold build_constraints in Hb'. apply bind_ok in Hb' as [n0 [Hn0 Hb']]. apply getn_some in Hn0.
  rewrite Hn in Hn0. injection Hn0 as <-. apply bind_ok in Hb' as [o [Hc _]].
  destruct (constraints_from_ok _ _ _ _ _ _ Hc s Hs) as [rn [d [xs [all [Hrn [Hd [Hxs Hall]]]]]]].
  rewrite Hsn in Hrn. injection Hrn as <-. rewrite Hm in Hd. injection Hd as <-.
  apply applies_spec in Ha as [x [Hx Hu]].
  assert (Hx' : In x (None :: map Some xs)).
  { destruct Hx as [<-|Hx]; [left; reflexivity|right]. apply in_map_iff in Hx as [y [<- Hy]]. apply in_map.
    apply (node_extras_tot _ _ _ Hxs). exact Hy. }
  pose proof Hall as Hall'. rewrite all_reqs_collect in Hall'.
  destruct (collect_requires_cover _ _ _ _ Hok Hall') as [Hallok Hcov].
  destruct (Hcov q x Hq Hx' Hu) as [m1 [Hm1 [S1 K1]]].
  destruct (dedup_cover m1 all [] Hm1) as [[q0 [Hq0 Hc0]]|[q0 [[] _]]].
  assert (Hq0s : stronger q0 m1 /\ pkey (rname q0) = pkey (rname m1)).
  { destruct Hc0 as [->|He]; [split; [apply stronger_refl|reflexivity]|]. apply req_eqb_stronger; [exact He|].
    rewrite Forall_forall in Hallok. apply (Hallok m1 Hm1). }
  destruct Hq0s as [S0 K0].
  assert (Hreq : reqs_of_requirer e g s ds (dedup_reqs all [])).
  { exists sn, xs, all. split; [apply getn_some; exact Hsn|auto]. }
  pose proof (build_constraints_stronger _ _ _ _ Hb n s ds _ q0 ltac:(apply getn_some; exact Hn) Hs Hreq Hq0 ltac:(unfold pkey in *; congruence)) as S2.
  eapply stronger_trans; [exact S2|]. eapply stronger_trans; eassumption.
Qed.

Lemma first_blameable_spec g l b :
  first_blameable g l = Some b -> exists n d, alookup b (heap g) = Some n /\ nmeta n = Some d /\ dmeta d = false.
Proof.
  unfold first_blameable. destruct (filter _ l) as [|p l'] eqn:E; [discriminate|]. intros [= <-].
  assert (Hin : In p (p :: l')) by (left; reflexivity). rewrite <- E in Hin. apply filter_In in Hin as [_ Hp].
  destruct (alookup (fst p) (heap g)) as [n|]; [|discriminate]. destruct (nmeta n) as [d|] eqn:Hd; [|discriminate].
  exists n, d. split; [reflexivity|]. split; [exact Hd|]. destruct (dmeta d); [discriminate|reflexivity].
Qed.

Section Solver.
Variable e : env.
Variable u : repo_stack.
Hypothesis Hu : stack_ok u.

Lemma solve_ok pinned g id n spec0 spec_req allow maxdg md :
  J e None [] g -> alookup id (heap g) = Some n -> is_replaced g id n = false -> nmeta n = None ->
  build_constraints e g id = Rok spec0 ->
  (match pinned with
   | [] => Rok spec0
   | _ => lift_merge (merge (Some spec0)
                            (Some (match slookup (norm (safe_name (rname spec0))) pinned with Some p => p | None => spec0 end)))
   end) = Rok spec_req ->
  get_dist_stack_src allow u spec_req (Some maxdg) = Some md ->
  norm (dname md) = nkey n /\ meta_ok md /\
  (forall s sn ds q, alookup s (heap g) = Some sn -> slookup (nkey sn) (index g) = Some s -> nmeta sn = Some ds ->
                     In q (dreqs ds) -> applies_b e g s q = true -> pkey (rname q) = nkey n -> mver_ok md q).
Proof.
  intros [Hinv [H2 [H3 HQ]]] Hn Hrep Hmeta Hb Hsr Hget.
  (* the name of the request *)
  assert (Hname : name_ok (rname spec0) /\ pkey (rname spec0) = nkey n).
  { pose proof Hb as Hb'. unfold build_constraints in Hb'. apply bind_ok in Hb' as [n0 [Hn0 Hb']]. apply getn_some in Hn0.
    rewrite Hn in Hn0. injection Hn0 as <-. apply bind_ok in Hb' as [o [Hc Hb']]. destruct o as [r|].
    - injection Hb' as <-. destruct (constraints_from_name e g (nkey n) (nrdeps n) None (Some r) H2 ltac:(intros a0 Ha0; discriminate Ha0) Hc r eq_refl) as [[N _] K]. auto.
    - apply bind_ok in Hb' as [xs [_ Hb']]. injection Hb' as <-. rewrite Hmeta. cbn [rname].
      destruct (H3 id n Hn) as [[d [Hd _]]|Hk]; [congruence|]. split; [apply kgood_name_ok; exact Hk|apply Hk]. }
  destruct Hname as [Hnm0 Hk0].
  assert (Hreq : stronger spec_req spec0 /\ pkey (rname spec_req) = nkey n).
  { destruct pinned as [|p0 ps]; [injection Hsr as <-; split; [apply stronger_refl|exact Hk0]|].
    unfold lift_merge in Hsr. destruct (merge _ _) as [m|] eqn:Hm; [|discriminate]. injection Hsr as <-.
    split; [apply (merge_stronger _ _ _ Hm)|]. unfold merge in Hm. destruct (String.eqb _ _); [|discriminate]. injection Hm as <-.
    cbn [rname]. rewrite (proj2 (name_ok_norm _ Hnm0)). exact Hk0. }
  destruct Hreq as [Hsreq Hkreq].
  destruct (get_dist_stack_src_in _ _ _ _ _ Hget) as [un [ap [Hin Hg]]].
  destruct (get_dist_src_sound _ _ _ _ _ _ Hg) as [c [flag [Hoff [Hcd [Hel _]]]]].
  assert (Hcok : cand_ok c).
  { unfold offered in Hoff. destruct (slookup (norm (safe_name (rname spec_req))) un) as [l|] eqn:El; [|destruct Hoff].
    eapply Hu; [exact Hin|apply slookup_in; exact El|exact Hoff]. }
  destruct Hcok as [C1 [C2 C3]]. rewrite Hcd in C1, C2, C3.
  assert (Hkey : norm (dname md) = nkey n).
  { rewrite C1. destruct Hel as [_ [_ Hcn]]. rewrite Hcn. exact Hkreq. }
  split; [exact Hkey|]. split; [split; [exact C2|right; exact C3]|].
  intros s sn ds q Hs Hl Hm Hq Ha Hk Hdm v Hv.
  destruct (HQ s sn ds q Hs Hl Hm Hq Ha ltac:(discriminate)) as [[r [[] _]]|[t [tn [ro [Ht [Htn [Hkt _]]]]]]].
  (* the link leads to the indexed node of the key, which is id *)
  assert (Hmem : amem t (ndeps sn) = true) by (unfold amem; rewrite Ht; reflexivity).
  destruct (i_fwd _ _ _ Hinv s sn Hs Hl ltac:(discriminate) t Hmem) as [nd [Hnd Hr]].
  rewrite Htn in Hnd. injection Hnd as <-.
  destruct (i_mut _ _ _ Hinv s t sn tn Hs Htn Hmem Hr) as [Hlt|[]].
  assert (Hti : t = id).
  { unfold is_replaced in Hrep. rewrite <- Hk, <- Hkt, Hlt in Hrep. apply negb_false_iff in Hrep. apply Nat.eqb_eq in Hrep. auto. }
  subst t. rewrite Hn in Htn. injection Htn as <-.
  assert (Hs0 : stronger spec0 q).
  { eapply build_constraints_raw; try eassumption; [apply nmem_In; exact Hr|apply (H2 s sn ds Hs Hm)]. }
  pose proof (eligible_contains _ _ _ Hel) as Hc.
  assert (Hcv : cand_version c = v) by (unfold cand_version; rewrite Hcd, Hv; reflexivity).
  rewrite Hcv in Hc. eapply spec_contains_flag. apply (Hs0 v _). apply (Hsreq v _). exact Hc.
Qed.

End Solver.
(* ================================================================================================ *)
(* Part 4c: compile_roots, the walk-back handler included                                           *)
(* ================================================================================================ *)

Lemma log_ext g s : ext g (log_event g s).
Proof. intros id n H. exists n. auto. Qed.

Lemma set_complete_index g id b : index (set_complete g id b) = index g.
Proof. unfold set_complete. destruct (alookup id (heap g)); reflexivity. Qed.

(* add_dist on a name without node = add_dist on the graph that already holds the new node object *)
Lemma add_dist_new_node fuel e g nm md source reason :
  wf g -> slookup (norm nm) (index g) = None ->
  add_dist fuel e g nm md source reason =
  add_dist fuel e (mkG (heap g ++ [(next g, mkNode (norm nm) md [] [] false)]) (index g ++ [(norm nm, next g)]) (S (next g)) (glog g))
           nm md source reason.
Proof.
  intros Hwf Hn. destruct fuel as [|f]; [reflexivity|]. cbn [add_dist]. rewrite Hn. cbn [index].
  rewrite (SolverP.slookup_app_new _ _ _ _ Hn), String.eqb_refl. reflexivity.
Qed.

Lemma add_dist_node_exists fuel e g nm md source reason g' ns :
  wf g -> add_dist fuel e g nm md source reason = Rok (g', ns) ->
  forall id, (slookup (norm nm) (index g) = Some id \/ (slookup (norm nm) (index g) = None /\ id = next g)) ->
  exists n', alookup id (heap g') = Some n' /\ nkey n' = norm nm.
Proof.
  intros Hwf H id [Hsl|[Hsl ->]].
  - pose proof Hwf as [_ [Hix _]]. destruct (Hix _ _ (slookup_in _ _ _ Hsl)) as [n [Hn Hk]].
    destruct (add_dist_wfx _ _ _ _ _ _ _ _ _ Hwf H _ _ Hn) as [n' [Hn' Hk']]. exists n'. split; [exact Hn'|congruence].
  - rewrite (add_dist_new_node _ _ _ _ _ _ _ Hwf Hsl) in H.
    pose proof (new_node_wf g (norm nm) md Hwf Hsl) as Hw1.
    assert (Hl : alookup (next g) (heap g ++ [(next g, mkNode (norm nm) md [] [] false)]) = Some (mkNode (norm nm) md [] [] false)).
    { rewrite alookup_app_new; [rewrite Nat.eqb_refl; reflexivity|]. intros w Hw. destruct Hwf as [_ [_ Hlt]]. apply Hlt in Hw. lia. }
    destruct (add_dist_wfx _ _ _ _ _ _ _ _ _ Hw1 H _ _ Hl) as [n' [Hn' Hk']]. exists n'. split; [exact Hn'|exact Hk'].
Qed.

Section Compile.
Variable e : env.
Variable u : repo_stack.
Hypothesis Hu : stack_ok u.

Definition okres (g : graph) (r : sres) : Prop :=
  match r with
  | SOk g' => J e None [] g' /\ ext g g' /\ Bfr g g'
  | SNoCand g' _ _ => J e None [] g' /\ ext g g' /\ Bfr g g'
  | SFatal _ => True
  end.

Lemma okres_trans g g1 r : ext g g1 -> Bfr g g1 -> okres g1 r -> okres g r.
Proof.
  intros He Hb. destruct r as [g'|g' nm sp|er]; cbn [okres]; [| |auto];
    intros [A [B C]]; (split; [exact A|split; [eapply ext_trans; eassumption|eapply Bfr_trans; eassumption]]).
Qed.

Lemma okres_here g : J e None [] g -> J e None [] g /\ ext g g /\ Bfr g g.
Proof. intros H. split; [exact H|split; [apply ext_refl|apply Bfr_refl]]. Qed.

Lemma fold_okres {A} (F : sres -> A -> sres) (l : list A) :
  (forall ga a, J e None [] ga -> okres ga (F (SOk ga) a)) ->
  (forall g' nm sp a, F (SNoCand g' nm sp) a = SNoCand g' nm sp) ->
  (forall er a, F (SFatal er) a = SFatal er) ->
  forall g acc, okres g acc -> okres g (fold_left F l acc).
Proof.
  intros HF HN HE. induction l as [|a l IH]; intros g acc Hacc; cbn [fold_left]; [exact Hacc|].
  apply IH. destruct acc as [ga|ga nm sp|er].
  - destruct Hacc as [A1 [B1 C1]]. eapply okres_trans; [exact B1|exact C1|]. apply HF. exact A1.
  - rewrite HN. exact Hacc.
  - rewrite HE. exact I.
Qed.

Lemma liftA_ok {A} g (x : res A) k : (forall a, x = Rok a -> okres g (k a)) -> okres g (liftA x k).
Proof. intros H. unfold liftA. destruct x as [a|er]; [apply H; reflexivity|exact I]. Qed.
Lemma lift_ok g (x : res graph) k : (forall a, x = Rok a -> okres g (k a)) -> okres g (lift x k).
Proof. intros H. unfold lift. destruct x as [a|er]; [apply H; reflexivity|exact I]. Qed.

(* the container of the walk-back handler *)
Lemma bad_name_bad bstr k : is_bad (norm ("#bad#-" ++ bstr ++ "-" ++ k)%string) = true.
Proof. cbn [append]. apply norm_hash_bad. Qed.

Lemma remove_all_one g b : remove_all g [b] = remove_dists GFUEL g b true.
Proof. cbn [remove_all]. destruct (remove_dists GFUEL g b true); reflexivity. Qed.

(* removing the container again *)
Lemma remove_bad g2 g3 g5 bname bd bnodes :
  J e None [] g2 -> is_bad (norm bname) = true -> meta_ok bd -> Forall (fun r => rextras r = []) (dreqs bd) ->
  add_dist GFUEL e g2 bname (Some bd) None None = Rok (g3, bnodes) ->
  J e None [] g5 -> ext g3 g5 -> Bfr g3 g5 ->
  forall g6, remove_all g5 bnodes = Rok g6 -> J e None [] g6 /\ ext g5 g6 /\ Bfr g2 g6.
Proof.
  intros HJ2 Hbad Hmok Hx Hadd HJ5 He35 Hb35 g6 Hrm.
  destruct HJ2 as [Hinv2 [H22 _]]. pose proof (i_wf _ _ _ Hinv2) as Hw2.
  pose proof (add_dist_wf _ _ _ _ _ _ _ _ _ Hw2 Hadd) as Hw3.
  destruct (add_container_nodes _ _ _ _ _ _ _ Hx Hadd) as [bid [-> Hbid]].
  rewrite remove_all_one in Hrm.
  assert (Hmd : forall m, Some bd = Some m -> meta_ok m) by (intros m Hm; injection Hm as <-; exact Hmok).
  destruct (add_dist_fresh _ _ _ _ _ _ _ _ _ Hw2 H22 Hmd Hadd) as [_ Hfresh].
  pose proof (add_dist_idx _ _ _ _ _ _ _ _ _ Hw2 Hadd) as Hidx.
  pose proof (add_dist_wfx _ _ _ _ _ _ _ _ _ Hw2 Hadd) as He23.
  (* the node object of the container in g3: it carries the bad key *)
  assert (Hb3 : exists nb, alookup bid (heap g3) = Some nb /\ nkey nb = norm bname)
    by (eapply (add_dist_node_exists _ _ _ _ _ _ _ _ _ Hw2 Hadd); exact Hbid).
  destruct Hb3 as [nb [Hnb Hkb]].
  destruct (He35 _ _ Hnb) as [nb5 [Hnb5 Hkb5]].
  assert (Hsafe : safe g5 bid).
  { intros n5 Hn5. rewrite Hnb5 in Hn5. injection Hn5 as <-. rewrite Hkb5, Hkb.
    destruct (slookup (norm bname) (index g5)) as [i|] eqn:E5; [left|right; reflexivity]. f_equal.
    apply (Hb35 _ _ Hbad) in E5. destruct (Hidx _ _ E5) as [Hold|Hnew].
    - destruct Hbid as [Hsl|[Hsl _]]; congruence.
    - pose proof Hw3 as [_ [Hix3 _]]. destruct (Hix3 _ _ (slookup_in _ _ _ E5)) as [ni [Hni Hki]].
      destruct (Hfresh i ni Hni Hnew) as [[-> [Hsl _]]|Hg]; [|congruence].
      destruct Hbid as [Hsl'|[_ ->]]; [congruence|reflexivity]. }
  split; [|split].
  - eapply J_rm_bad; [exact HJ5|exact Hsafe| |exact Hrm]. intros n5 Hn5. rewrite Hnb5 in Hn5. injection Hn5 as <-. congruence.
  - eapply remove_dists_ext. exact Hrm.
  - (* bad keys of g6 were bad keys of g2: the container's key is gone *)
    destruct HJ5 as [Hinv5 _]. pose proof (i_wf _ _ _ Hinv5) as Hw5.
    pose proof (rm_up_absent _ _ _ _ _ Hw5 Hrm Hnb5) as Habs. rewrite Hkb5, Hkb in Habs.
    pose proof (rm_up _ (fun _ => True) _ _ _ Hw5 Hrm ltac:(intros n0 _; right; split; [exact I|apply inv_ndnd; exact Hinv5])) as Hs.
    intros k i Hkbad Hk6. pose proof (sr_idx _ _ _ Hs _ _ Hk6) as Hk5. apply (Hb35 _ _ Hkbad) in Hk5.
    destruct (Hidx _ _ Hk5) as [Hold|Hnew]; [exact Hold|exfalso].
    pose proof Hw3 as [_ [Hix3 _]]. destruct (Hix3 _ _ (slookup_in _ _ _ Hk5)) as [ni [Hni Hki]].
    destruct (Hfresh i ni Hni Hnew) as [[_ [_ Hkn]]|Hg]; [|congruence].
    assert (k = norm bname) by congruence. subst k. congruence.
Qed.

Lemma Bfr_log g s : Bfr g (log_event g s).
Proof. intros k i _ H. exact H. Qed.
Lemma Bfr_set_complete g id b : Bfr g (set_complete g id b).
Proof. intros k i _ H. rewrite set_complete_index in H. exact H. Qed.

Lemma J_wf x pend g : J e x pend g -> wf g.
Proof. intros [A _]. exact (i_wf _ _ _ A). Qed.

Lemma compile_roots_J fuel : forall o g id source depth maxdg path,
  J e None [] g -> okres g (compile_roots fuel e u o g id source depth maxdg path).
Proof.
  induction fuel as [|f IH]; intros o g id source depth maxdg path HJ; cbn [compile_roots]; [exact I|].
  apply liftA_ok. intros n Hn. apply getn_some in Hn.
  destruct (is_replaced g id n) eqn:Hrep; [apply okres_here; exact HJ|].
  destruct (nmeta n) as [md0|] eqn:Hmeta.
  - (* solved node: recurse into the dependencies *)
    destruct (ncomplete n); [apply okres_here; exact HJ|].
    destruct (max_compile_depth <? depth); [exact I|].
    match goal with
    | |- okres g (match ?body with _ => _ end) => assert (Hb : okres g body); [|destruct body as [g'|g' nm sp|er]]
    end.
    + apply fold_okres; [| | |apply okres_here; exact HJ].
      * intros ga d HJa. destruct (nmem d path); [destruct (o_allow_circular o); [apply okres_here; exact HJa|exact I]|].
        apply IH. exact HJa.
      * reflexivity.
      * reflexivity.
    + destruct Hb as [A [B C]]. split; [apply J_set_complete; exact A|].
      split; [eapply ext_trans; [exact B|apply set_complete_ext]|eapply Bfr_trans; [exact C|apply Bfr_set_complete]].
    + destruct maxdg; [exact Hb|]. destruct Hb as [A [B C]]. eapply okres_trans; [exact B|exact C|]. apply IH. exact A.
    + exact I.
  - (* unsolved node *)
    assert (Hkn : kgood (nkey n)).
    { destruct HJ as [_ [_ [H3 _]]]. destruct (H3 id n Hn) as [[d [Hd _]]|Hk]; [congruence|exact Hk]. }
    match goal with
    | |- okres g (match ?att with _ => _ end) => assert (Ha : okres g att); [|destruct att as [g'|g' nm sp|er]]
    end.
    + apply liftA_ok. intros spec0 Hs0. apply liftA_ok. intros spec_req Hsr.
      match goal with |- context [get_dist_stack_src ?a u spec_req (Some maxdg)] =>
        destruct (get_dist_stack_src a u spec_req (Some maxdg)) as [md|] eqn:Hget end.
      2:{ split; [apply J_log; apply J_log; exact HJ|]. split; [eapply ext_trans; apply log_ext|]. intros k i _ Hl. exact Hl. }
      apply liftA_ok. intros reason0 Hreason0. apply liftA_ok. intros reason Hreason. apply liftA_ok. intros [g1 nodes] Hadd.
      destruct (solve_ok e u Hu _ _ _ _ _ _ _ _ _ HJ Hn Hrep Hmeta Hs0 Hsr Hget) as [Hkey [Hmok Htg]].
      match type of Hadd with add_dist _ _ ?gl0 _ _ _ _ = _ => set (gl := gl0) in * end.
      assert (HJl : J e None [] gl) by (apply J_log; apply J_log; exact HJ).
      assert (Hegl : ext g gl) by (eapply ext_trans; apply log_ext).
      assert (HJ1 : J e None [] g1).
      { eapply (add_dist_J e GFUEL gl (dname md) (Some md) source reason g1 nodes [] []); [exact HJl|intros s r []| |discriminate|exact Hadd].
        intros m [= <-]. split; [exact Hmok|]. split; [right; rewrite Hkey; exact Hkn|].
        intros s sn ds q Hs Hl Hm Hq Hap Hk. apply (Htg s sn ds q Hs Hl Hm Hq Hap). congruence. }
      assert (He1 : ext g g1) by (eapply ext_trans; [exact Hegl|eapply add_dist_wfx; [exact (J_wf _ _ _ HJl)|exact Hadd]]).
      assert (Hb1 : Bfr g g1).
      { eapply Bfr_trans; [|eapply add_dist_Bfr; [exact (J_wf _ _ _ HJl)|exact (proj1 (proj2 HJl))| | |exact Hadd]].
        - intros k i _ Hl. exact Hl.
        - intros m [= <-]. exact Hmok.
        - rewrite Hkey. apply kgood_not_bad. exact Hkn. }
      apply fold_okres; [| | |split; [exact HJ1|split; assumption]].
      * intros ga rn HJa. apply IH. exact HJa.
      * reflexivity.
      * reflexivity.
    + exact Ha.
    + (* NoCandidate: walk back *)
      destruct maxdg as [|maxdg']; [exact Ha|]. destruct Ha as [A [B C]].
      apply liftA_ok. intros n' Hn'. apply liftA_ok. intros scores Hsc.
      destruct (first_blameable g' (sort_scores scores)) as [bad|] eqn:Hfb; [|split; [exact A|split; assumption]].
      apply liftA_ok. intros bn Hbn. apply getn_some in Hbn. destruct (nmeta bn) as [bm|] eqn:Hbm; [|exact I].
      apply liftA_ok. intros bstr Hbstr.
      destruct (first_blameable_spec _ _ _ Hfb) as [bn0 [bd0 [Hbn0 [Hbm0 Hbdm]]]].
      rewrite Hbn in Hbn0. injection Hbn0 as <-. rewrite Hbm in Hbm0. injection Hbm0 as <-.
      assert (Hkb : kgood (nkey bn)).
      { destruct A as [_ [_ [H3 _]]]. destruct (H3 bad bn Hbn) as [[d [Hd Hdm]]|Hk]; [congruence|exact Hk]. }
      assert (Hnb : name_ok (dname bm)).
      { destruct A as [_ [H2 _]]. destruct (H2 bad bn bm Hbn Hbm) as [_ [Hc|Hc]]; [congruence|exact Hc]. }
      match goal with |- context [remove_dists GFUEL ?gl0 bad false] => set (gl := gl0) in * end.
      assert (HJl : J e None [] gl) by (apply J_log; exact A).
      apply lift_ok. intros g1 Hg1.
      assert (HJ1 : J e None [] g1).
      { eapply J_inval; [exact HJl|exact Hg1|]. intros n0 Hn0. change (alookup bad (heap g') = Some n0) in Hn0. congruence. }
      assert (He1 : ext gl g1) by (eapply remove_dists_ext; exact Hg1).
      assert (Hb1 : Bfr gl g1) by (eapply remove_false_Bfr; [exact (J_wf _ _ _ HJl)|exact Hg1]).
      apply lift_ok. intros g2 Hg2.
      set (g1c := set_complete g1 bad false) in *.
      assert (HJ1c : J e None [] g1c) by (apply J_set_complete; exact HJ1).
      assert (Heg1c : ext g g1c).
      { eapply ext_trans; [exact B|]. eapply ext_trans; [apply (log_ext g')|]. eapply ext_trans; [exact He1|apply set_complete_ext]. }
      assert (HJ2 : J e None [] g2).
      { eapply J_inval; [exact HJ1c|exact Hg2|]. intros n0 Hn0. destruct (Heg1c id n Hn) as [n1 [Hn1 Hk1]]. congruence. }
      assert (He2 : ext g1c g2) by (eapply remove_dists_ext; exact Hg2).
      assert (Hb2 : Bfr g1c g2) by (eapply remove_false_Bfr; [exact (J_wf _ _ _ HJ1c)|exact Hg2]).
      set (g2c := set_complete g2 id false) in *.
      assert (HJ2c : J e None [] g2c) by (apply J_set_complete; exact HJ2).
      assert (Hegg2c : ext g g2c).
      { eapply ext_trans; [exact Heg1c|]. eapply ext_trans; [exact He2|apply set_complete_ext]. }
      assert (Hbg2c : Bfr g g2c).
      { eapply Bfr_trans; [exact C|]. eapply Bfr_trans; [apply (Bfr_log g')|]. eapply Bfr_trans; [exact Hb1|].
        eapply Bfr_trans; [apply Bfr_set_complete|]. eapply Bfr_trans; [exact Hb2|apply Bfr_set_complete]. }
      apply liftA_ok. intros [g3 bnodes] Hg3.
      match type of Hg3 with add_dist _ _ _ ?bn0 (Some ?bd0) _ _ = _ => set (bname := bn0) in *; set (bd := bd0) in * end.
      assert (Hbdok : meta_ok bd).
      { split; [|left; reflexivity]. intros r [<-|[]]. split; [exact Hnb|]. constructor; [|constructor]. intros Hw. discriminate Hw. }
      assert (Hbdx : Forall (fun r => rextras r = []) (dreqs bd)) by (constructor; [reflexivity|constructor]).
      assert (Hbad : is_bad (norm bname) = true) by apply bad_name_bad.
      assert (HJ3 : J e None [] g3).
      { eapply (add_dist_J e GFUEL g2c bname (Some bd) None None g3 bnodes [] []); [exact HJ2c|intros s r []| |discriminate|exact Hg3].
        intros m [= <-]. split; [exact Hbdok|]. split; [left; reflexivity|]. intros s sn ds q _ _ _ _ _ _ Hdm. discriminate Hdm. }
      assert (He3 : ext g2c g3) by (eapply add_dist_wfx; [exact (J_wf _ _ _ HJ2c)|exact Hg3]).
      match goal with
      | |- okres g (match ?body with _ => _ end) => assert (Hbody : okres g3 body); [|destruct body as [g5|g5 nm' sp'|er]]
      end.
      * pose proof (IH o g3 id None depth maxdg' path HJ3) as H1.
        destruct (compile_roots f e u o g3 id None depth maxdg' path) as [g4|g4 nm4 sp4|er4]; [|exact H1|exact I].
        destruct H1 as [A4 [B4 C4]]. eapply okres_trans; [exact B4|exact C4|]. apply IH. exact A4.
      * destruct Hbody as [A5 [B5 C5]]. apply lift_ok. intros g6 Hg6.
        destruct (remove_bad _ _ _ _ _ _ HJ2c Hbad Hbdok Hbdx Hg3 A5 B5 C5 g6 Hg6) as [A6 [B6 C6]].
        split; [exact A6|]. split; [|eapply Bfr_trans; [exact Hbg2c|exact C6]].
        eapply ext_trans; [exact Hegg2c|]. eapply ext_trans; [exact He3|]. eapply ext_trans; [exact B5|exact B6].
      * destruct Hbody as [A5 [B5 C5]]. apply lift_ok. intros g6 Hg6.
        destruct (remove_bad _ _ _ _ _ _ HJ2c Hbad Hbdok Hbdx Hg3 A5 B5 C5 g6 Hg6) as [A6 [B6 C6]].
        split; [exact A6|]. split; [|eapply Bfr_trans; [exact Hbg2c|exact C6]].
        eapply ext_trans; [exact Hegg2c|]. eapply ext_trans; [exact He3|]. eapply ext_trans; [exact B5|exact B6].
      * exact I.
    + exact I.
Qed.

End Compile.
(* ================================================================================================ *)
(* Part 5: perform_compile and the theorems                                                         *)
(* ================================================================================================ *)

(* requirements files (inputs and constraint files): containers whose requirement names are hygienic *)
Definition container_ok (c : dist) : Prop := dmeta c = true /\ dist_ok c.

Lemma In_slookup {A} k (v : A) l : NoDup (map fst l) -> In (k, v) l -> slookup k l = Some v.
Proof.
  induction l as [|[k0 v0] l IH]; cbn [map fst In slookup]; [tauto|]. intros Hnd Hin.
  inversion Hnd as [|? ? Hnin Hnd']; subst. destruct Hin as [Heq|Hin].
  - injection Heq as -> ->. rewrite String.eqb_refl. reflexivity.
  - destruct (String.eqb_spec k k0) as [->|Hne]; [|apply IH; assumption].
    exfalso. apply Hnin. apply (in_map fst) in Hin. exact Hin.
Qed.

Section Whole.
Variable e : env.
Variable u : repo_stack.
Hypothesis Hu : stack_ok u.

Lemma J_empty : J e None [] empty_graph.
Proof.
  split; [exact empty_inv|]. split; [|split].
  - intros id n d H. discriminate H.
  - intros id n H. discriminate H.
  - intros s sn ds q H. discriminate H.
Qed.

Lemma add_containers_J cs : forall g acc g' ns,
  (forall c, In c cs -> container_ok c) -> J e None [] g -> add_containers e g cs acc = Rok (g', ns) -> J e None [] g'.
Proof.
  induction cs as [|c cs IH]; intros g acc g' ns Hc HJ H; cbn [add_containers] in H.
  - injection H as <- _. exact HJ.
  - apply bind_ok in H as [[g1 ns1] [H1 H]]. cbv beta iota in H.
    eapply IH; [intros c' Hc'; apply Hc; right; exact Hc'| |exact H].
    destruct (Hc c (or_introl eq_refl)) as [Hm Hd].
    eapply (add_dist_J e GFUEL g (dname c) (Some c) None None g1 ns1 [] []); [exact HJ|intros s r []| |discriminate|exact H1].
    intros m [= <-]. split; [split; [exact Hd|left; exact Hm]|]. split; [left; exact Hm|].
    intros s sn ds q _ _ _ _ _ _ Hdm. congruence.
Qed.

Definition sJ (r : sres) : Prop :=
  match r with SOk g => J e None [] g | SNoCand g _ _ => J e None [] g | SFatal _ => True end.

Lemma okres_sJ g r : okres e g r -> sJ r.
Proof. destruct r as [g'|g' nm sp|er]; cbn; [intros [A _]; exact A|intros [A _]; exact A|auto]. Qed.

Lemma resolve_loop_J k : forall fuel o roots retried g, J e None [] g -> sJ (resolve_loop k fuel e u o roots retried g).
Proof.
  induction k as [|k IH]; intros fuel o roots retried g HJ; cbn [resolve_loop]; [exact I|].
  destruct (filter (fun nd => unsolved g nd && negb (nmem nd retried)) (sort_nodes g (visit_nodes g roots))) as [|nd rest]; [exact HJ|].
  pose proof (okres_sJ _ _ (compile_roots_J e u Hu fuel o g nd None 1 resolve_pass_budget [] HJ)) as H1.
  destruct (compile_roots fuel e u o g nd None 1 resolve_pass_budget []) as [g'|g' nm sp|er]; [|exact H1|exact I].
  apply IH. exact H1.
Qed.

Lemma check_solved_J roots r : sJ r -> sJ (check_solved e roots r).
Proof.
  intros Hr. unfold check_solved. destruct r as [g3|g3 nm sp|er]; [|exact Hr|exact I].
  destruct (filter (unsolved g3) (sort_nodes g3 (visit_nodes g3 roots))) as [|nd rest]; [exact Hr|].
  unfold liftA. destruct (build_constraints e g3 nd); [exact Hr|exact I].
Qed.

Definition cJ (r : cres) : Prop :=
  match r with COk g _ => J e None [] g | CNoCand g _ _ => J e None [] g | CFatal _ => True end.

(* the invariant holds on the result of a successful compile and on the graph attached to a NoCandidate failure *)
Theorem perform_compile_cJ fuel inputs cons rc md ob_all ob extras :
  (forall i, In i inputs -> container_ok i) ->
  (forall cs c, cons = Some cs -> In c cs -> container_ok c) ->
  cJ (perform_compile_stack_x fuel e u inputs cons rc md ob_all ob extras).
Proof.
  intros Hin Hcs. unfold perform_compile_stack_x.
  destruct (match cons with Some cs => collect_pins cs true [] | None => Rok (true, []) end) as [[all_pinned pins]|er]; [|exact I].
  destruct (match cons with
            | Some cs => if all_pinned then Rok (empty_graph, []) else add_containers e empty_graph cs []
            | None => Rok (empty_graph, []) end) as [[g0 cnodes]|er] eqn:E0; [|exact I].
  assert (HJ0 : J e None [] g0).
  { destruct cons as [cs|]; [|injection E0 as <- _; exact J_empty].
    destruct all_pinned; [injection E0 as <- _; exact J_empty|].
    eapply add_containers_J; [intros c Hc; eapply Hcs; [reflexivity|exact Hc]|exact J_empty|exact E0]. }
  destruct (add_containers e g0 inputs []) as [[g1 roots1]|er] eqn:E1; [|exact I].
  assert (HJ1 : J e None [] g1) by (eapply add_containers_J; [exact Hin|exact HJ0|exact E1]).
  cbv zeta.
  match goal with
  | |- cJ (match ?run with _ => _ end) => assert (Hr : sJ run); [|destruct run as [g2|g2 nm sp|er]]
  end.
  - apply check_solved_J. unfold resolve_unsolved.
    match goal with |- sJ (match ?r0 with _ => _ end) => assert (H0 : sJ r0); [|destruct r0 as [g2|g2 nm sp|er]; [apply resolve_loop_J; exact H0|exact H0|exact I]] end.
    apply (okres_sJ g1). apply fold_okres; [| | |apply okres_here; exact HJ1].
    + intros ga nd HJa. apply compile_roots_J; [exact Hu|exact HJa].
    + reflexivity.
    + reflexivity.
  - cbn [sJ] in Hr.
    destruct rc; [exact Hr|]. destruct cons as [cs|]; [|exact Hr]. destruct all_pinned; [|exact Hr].
    destruct (add_containers e g2 cs []) as [[g3 ns]|er] eqn:E3; cbn [bind cJ]; [|exact I].
    eapply add_containers_J; [intros c Hc; eapply Hcs; [reflexivity|exact Hc]|exact Hr|exact E3].
  - cbn [sJ] in Hr.
    destruct rc; [exact Hr|]. destruct cons as [cs|]; [|exact Hr]. destruct all_pinned; [|exact Hr].
    destruct (add_containers e g2 cs []) as [[g3 ns]|er] eqn:E3; cbn [bind cJ]; [|exact I].
    eapply add_containers_J; [intros c Hc; eapply Hcs; [reflexivity|exact Hc]|exact Hr|exact E3].
  - exact I.
Qed.

Theorem perform_compile_J fuel inputs cons rc md ob_all ob extras g roots :
  (forall i, In i inputs -> container_ok i) ->
  (forall cs c, cons = Some cs -> In c cs -> container_ok c) ->
  perform_compile_stack_x fuel e u inputs cons rc md ob_all ob extras = COk g roots -> J e None [] g.
Proof. intros Hin Hcs H. pose proof (perform_compile_cJ fuel inputs cons rc md ob_all ob extras Hin Hcs) as Hc. rewrite H in Hc. exact Hc. Qed.

Theorem perform_compile_J_nocand fuel inputs cons rc md ob_all ob extras g nm sp :
  (forall i, In i inputs -> container_ok i) ->
  (forall cs c, cons = Some cs -> In c cs -> container_ok c) ->
  perform_compile_stack_x fuel e u inputs cons rc md ob_all ob extras = CNoCand g nm sp -> J e None [] g.
Proof. intros Hin Hcs H. pose proof (perform_compile_cJ fuel inputs cons rc md ob_all ob extras Hin Hcs) as Hc. rewrite H in Hc. exact Hc. Qed.

End Whole.

(* ---- what the invariant says about a result graph ---- *)
(* For every indexed ("live") solved node s and every requirement line q of its metadata that applies (its marker holds
   under no extra or under one of the extras requested of s): the project q names is in the graph, its node lists s as a
   requirer, s has a link to it, and if it is solved to a version v (not a container) then v lies inside q. *)
Definition pins_sound (e : env) (g : graph) : Prop :=
  forall s sn ds q, alookup s (heap g) = Some sn -> slookup (nkey sn) (index g) = Some s -> nmeta sn = Some ds ->
    In q (dreqs ds) -> applies_b e g s q = true ->
    exists t tn, slookup (pkey (rname q)) (index g) = Some t /\ alookup t (heap g) = Some tn /\ In s (nrdeps tn) /\
                 alookup t (ndeps sn) <> None /\
                 forall d v, nmeta tn = Some d -> dmeta d = false -> dversion d = Some v -> spec_contains (rspec q) v true = true.

Lemma J_pins_sound e g : J e None [] g -> pins_sound e g.
Proof.
  intros [Hinv [_ [_ HQ]]] s sn ds q Hs Hl Hm Hq Ha.
  destruct (HQ s sn ds q Hs Hl Hm Hq Ha ltac:(discriminate)) as [[r [[] _]]|[t [tn [ro [Ht [Htn [Hk Hok]]]]]]].
  assert (Hmem : amem t (ndeps sn) = true) by (unfold amem; rewrite Ht; reflexivity).
  destruct (i_fwd _ _ _ Hinv s sn Hs Hl ltac:(discriminate) t Hmem) as [nd [Hnd Hr]].
  rewrite Htn in Hnd. injection Hnd as <-.
  destruct (i_mut _ _ _ Hinv s t sn tn Hs Htn Hmem Hr) as [Hlt|[]].
  exists t, tn. split; [rewrite <- Hk; exact Hlt|]. split; [exact Htn|]. split; [apply nmem_In; exact Hr|].
  split; [rewrite Ht; discriminate|exact Hok].
Qed.

(* the shape asked for (edges_ok), with the stored reason of the link replaced by the requirement lines of the requirer
   that apply NOW, and the requirer indexed: every link between two solved nodes is satisfied *)
Definition edges_ok_applicable (e : env) (g : graph) : Prop :=
  forall key id n d v, In (key, id) (index g) -> alookup id (heap g) = Some n -> nmeta n = Some d -> dmeta d = false ->
                       dversion d = Some v ->
  forall rd rn dr q, In rd (nrdeps n) -> alookup rd (heap g) = Some rn -> slookup (nkey rn) (index g) = Some rd ->
                     nmeta rn = Some dr -> In q (dreqs dr) -> applies_b e g rd q = true -> pkey (rname q) = key ->
                     spec_contains (rspec q) v true = true.

Lemma pins_sound_edges e g : wf g -> pins_sound e g -> edges_ok_applicable e g.
Proof.
  intros [Hnd _] H key id n d v Hin Hn Hm Hdm Hv rd rn dr q _ Hrn Hl Hmr Hq Ha Hk.
  destruct (H rd rn dr q Hrn Hl Hmr Hq Ha) as [t [tn [Hlt [Htn [_ [_ Hok]]]]]].
  rewrite Hk, (In_slookup _ _ _ Hnd Hin) in Hlt. injection Hlt as <-. rewrite Hn in Htn. injection Htn as <-.
  eapply Hok; eassumption.
Qed.
(* ================================================================================================ *)
(* Part 6: the theorems for ALL compiles, decidable hypotheses, the form of model/Check.v, and the   *)
(* refutation of the stored-reason form                                                             *)
(* ================================================================================================ *)

Theorem compile_pins_sound fuel e u inputs cons rc md ob_all ob extras g roots :
  stack_ok u ->
  (forall i, In i inputs -> container_ok i) ->
  (forall cs c, cons = Some cs -> In c cs -> container_ok c) ->
  perform_compile_stack_x fuel e u inputs cons rc md ob_all ob extras = COk g roots -> pins_sound e g.
Proof. intros Hu Hi Hc H. apply J_pins_sound. eapply perform_compile_J; eassumption. Qed.

Theorem compile_edges_ok_applicable fuel e u inputs cons rc md ob_all ob extras g roots :
  stack_ok u ->
  (forall i, In i inputs -> container_ok i) ->
  (forall cs c, cons = Some cs -> In c cs -> container_ok c) ->
  perform_compile_stack_x fuel e u inputs cons rc md ob_all ob extras = COk g roots -> edges_ok_applicable e g.
Proof.
  intros Hu Hi Hc H. pose proof (perform_compile_J e u Hu _ _ _ _ _ _ _ _ _ _ Hi Hc H) as HJ.
  apply pins_sound_edges; [exact (J_wf e _ _ _ HJ)|apply J_pins_sound; exact HJ].
Qed.

(* the same on the graph attached to a NoCandidate failure (the graph the failure report is drawn from) *)
Theorem nocand_pins_sound fuel e u inputs cons rc md ob_all ob extras g nm sp :
  stack_ok u ->
  (forall i, In i inputs -> container_ok i) ->
  (forall cs c, cons = Some cs -> In c cs -> container_ok c) ->
  perform_compile_stack_x fuel e u inputs cons rc md ob_all ob extras = CNoCand g nm sp -> pins_sound e g /\ edges_ok_applicable e g.
Proof.
  intros Hu Hi Hc H. pose proof (perform_compile_J_nocand e u Hu _ _ _ _ _ _ _ _ _ _ _ Hi Hc H) as HJ.
  split; [apply J_pins_sound; exact HJ|]. apply pins_sound_edges; [exact (J_wf e _ _ _ HJ)|apply J_pins_sound; exact HJ].
Qed.

(* ---- decidable forms of the hypotheses ---- *)
Definition name_okb (s : string) : bool :=
  String.eqb (norm s) (pkey s) && String.eqb (norm (pkey s)) (pkey s) && String.eqb (pkey (pkey s)) (pkey s).
Definition clause_wfb (c : clause) : bool :=
  negb (cwild c) || match cop c with OEq | ONe => true | _ => false end.
Definition req_okb (r : req) : bool := name_okb (rname r) && forallb clause_wfb (rspec r).
Definition dist_okb (d : dist) : bool := forallb req_okb (dreqs d).
Definition cand_okb (c : ucand) : bool :=
  String.eqb (norm (dname (cdist c))) (norm (cname c)) && dist_okb (cdist c) && name_okb (dname (cdist c)).
Definition stack_okb (u : repo_stack) : bool :=
  forallb (fun ua => forallb (fun kc => forallb cand_okb (snd kc)) (fst ua)) u.
Definition container_okb (c : dist) : bool := dmeta c && dist_okb c.
Definition hyps_okb (u : repo_stack) (inputs : list dist) (cons : option (list dist)) : bool :=
  stack_okb u && forallb container_okb inputs && forallb container_okb (match cons with Some cs => cs | None => [] end).

Lemma name_okb_sound s : name_okb s = true -> name_ok s.
Proof.
  unfold name_okb, name_ok, kgood. intros H. apply andb_true_iff in H as [H H3]. apply andb_true_iff in H as [H1 H2].
  apply String.eqb_eq in H1, H2, H3. auto.
Qed.
Lemma clause_wfb_sound c : clause_wfb c = true -> clause_wf c.
Proof.
  unfold clause_wfb, clause_wf. intros H Hw. rewrite Hw in H. cbn [negb orb] in H.
  destruct (cop c); try discriminate; auto.
Qed.
Lemma dist_okb_sound d : dist_okb d = true -> dist_ok d.
Proof.
  unfold dist_okb, dist_ok. intros H r Hr. rewrite forallb_forall in H. specialize (H r Hr). unfold req_okb in H.
  apply andb_true_iff in H as [H1 H2]. split; [apply name_okb_sound; exact H1|].
  apply Forall_forall. intros c Hc. rewrite forallb_forall in H2. apply clause_wfb_sound. apply H2. exact Hc.
Qed.
Lemma stack_okb_sound u : stack_okb u = true -> stack_ok u.
Proof.
  unfold stack_okb, stack_ok. intros H un ap k cands c Hu Hk Hc. rewrite forallb_forall in H. specialize (H _ Hu). cbn [fst] in H.
  rewrite forallb_forall in H. specialize (H _ Hk). cbn [snd] in H. rewrite forallb_forall in H. specialize (H _ Hc).
  unfold cand_okb in H. apply andb_true_iff in H as [H H3]. apply andb_true_iff in H as [H1 H2].
  split; [apply String.eqb_eq; exact H1|]. split; [apply dist_okb_sound; exact H2|apply name_okb_sound; exact H3].
Qed.
Lemma container_okb_sound c : container_okb c = true -> container_ok c.
Proof. unfold container_okb, container_ok. intros H. apply andb_true_iff in H as [H1 H2]. split; [exact H1|apply dist_okb_sound; exact H2]. Qed.

Lemma hyps_okb_sound u inputs cons :
  hyps_okb u inputs cons = true ->
  stack_ok u /\ (forall i, In i inputs -> container_ok i) /\ (forall cs c, cons = Some cs -> In c cs -> container_ok c).
Proof.
  unfold hyps_okb. intros H. apply andb_true_iff in H as [H H3]. apply andb_true_iff in H as [H1 H2].
  split; [apply stack_okb_sound; exact H1|]. split.
  - intros i Hi. rewrite forallb_forall in H2. apply container_okb_sound. apply H2. exact Hi.
  - intros cs c -> Hc. rewrite forallb_forall in H3. apply container_okb_sound. apply H3. exact Hc.
Qed.

Theorem compile_pins_sound_b fuel e u inputs cons rc md ob_all ob extras g roots :
  hyps_okb u inputs cons = true ->
  perform_compile_stack_x fuel e u inputs cons rc md ob_all ob extras = COk g roots ->
  pins_sound e g /\ edges_ok_applicable e g.
Proof.
  intros Hh H. destruct (hyps_okb_sound _ _ _ Hh) as [Hu [Hi Hc]].
  split; [eapply compile_pins_sound; eassumption|eapply compile_edges_ok_applicable; eassumption].
Qed.

(* ---- the form of model/Check.v (pins_ok, second half) for live requirers: the merged, de-duplicated requirements that
   build_constraints and the annotations see ---- *)
Lemma upsert_sound k r : forall acc acc',
  upsert k r acc = Ok acc' ->
  forall k0 m c, In (k0, m) acc' -> In c (rspec m) ->
    (exists m0, In (k0, m0) acc /\ In c (rspec m0)) \/ (k0 = k /\ In c (rspec r)).
Proof.
  induction acc as [|[k' r'] acc IH]; intros acc' H k0 m c Hin Hc; cbn [upsert] in H.
  - injection H as <-. destruct Hin as [[= <- <-]|[]]. right. auto.
  - destruct (String.eqb_spec k k') as [->|Hne].
    + destruct (merge (Some r') (Some r)) as [mm|] eqn:Hm; [|discriminate]. injection H as <-.
      destruct Hin as [[= <- <-]|Hin]; [|left; exists m; split; [right; exact Hin|exact Hc]].
      unfold merge in Hm. destruct (String.eqb _ _); [|discriminate]. injection Hm as <-. cbn [rspec] in Hc.
      apply in_app_iff in Hc as [Hc|Hc]; [left; exists r'; split; [left; reflexivity|exact Hc]|right; auto].
    + destruct (upsert k r acc) as [acc''|] eqn:Hu; [|discriminate]. injection H as <-.
      destruct Hin as [[= <- <-]|Hin]; [left; exists r'; split; [left; reflexivity|exact Hc]|].
      destruct (IH _ eq_refl k0 m c Hin Hc) as [[m0 [Hm0 Hc0]]|Hr]; [left; exists m0; split; [right; exact Hm0|exact Hc0]|right; exact Hr].
Qed.

Lemma reduce_acc_sound rs : forall acc out,
  reduce_acc rs acc = Ok out ->
  forall k0 m c, In (k0, m) out -> In c (rspec m) ->
    (exists m0, In (k0, m0) acc /\ In c (rspec m0)) \/ (exists r, In r rs /\ pkey (rname r) = k0 /\ In c (rspec r)).
Proof.
  induction rs as [|r rs IH]; intros acc out H k0 m c Hin Hc; cbn [reduce_acc] in H.
  - injection H as <-. left. exists m. auto.
  - destruct (upsert (norm (safe_name (rname r))) r acc) as [acc'|] eqn:Hu; [|discriminate].
    destruct (IH _ _ H k0 m c Hin Hc) as [[m0 [Hm0 Hc0]]|[r0 [Hr0 Hx]]]; [|right; exists r0; split; [right; exact Hr0|exact Hx]].
    destruct (upsert_sound _ _ _ _ Hu k0 m0 c Hm0 Hc0) as [Hold|[-> Hcr]]; [left; exact Hold|].
    right. exists r. split; [left; reflexivity|]. split; [reflexivity|exact Hcr].
Qed.

Lemma requires_sound e d x rs m c :
  dist_ok d -> requires e d x = Rok rs -> In m rs -> In c (rspec m) ->
  exists q, In q (dreqs d) /\ req_uses_extra e q x = true /\ pkey (rname q) = pkey (rname m) /\ In c (rspec q).
Proof.
  unfold requires, lift_merge. intros Hd H Hm Hc.
  destruct (reduce (filter (fun r => req_uses_extra e r x) (dreqs d))) as [out|] eqn:Hr; [|discriminate]. injection H as <-.
  unfold reduce in Hr. destruct (reduce_acc _ []) as [acc|] eqn:Ha; [|discriminate]. injection Hr as <-.
  apply in_map_iff in Hm as [[k0 m'] [Heq Hin]]. cbn [snd] in Heq. subst m'.
  assert (Hf : Forall req_ok (filter (fun r => req_uses_extra e r x) (dreqs d))).
  { apply Forall_forall. intros r Hr. apply filter_In in Hr as [Hr _]. apply Hd. exact Hr. }
  pose proof (reduce_acc_ok _ _ _ Hf (Forall_nil _) Ha) as Hg. rewrite Forall_forall in Hg. destruct (Hg _ Hin) as [_ Hk]. cbn [fst snd] in Hk.
  destruct (reduce_acc_sound _ _ _ Ha k0 m c Hin Hc) as [[m0 [[] _]]|[q [Hq [Hkq Hcq]]]].
  apply filter_In in Hq as [Hq Hu]. exists q. split; [exact Hq|]. split; [exact Hu|]. split; [congruence|exact Hcq].
Qed.

Lemma all_reqs_of_in e d : forall xs all m, all_reqs_of e d xs = Rok all -> In m all -> exists x rs, In x xs /\ requires e d x = Rok rs /\ In m rs.
Proof.
  induction xs as [|x xs IH]; intros all m H Hm; cbn [all_reqs_of] in H; [injection H as <-; destruct Hm|].
  apply bind_ok in H as [a [Ha H]]. apply bind_ok in H as [b [Hb H]]. injection H as <-. apply in_app_iff in Hm as [Hm|Hm].
  - exists x, a. split; [left; reflexivity|auto].
  - destruct (IH _ _ Hb Hm) as [x' [rs [Hx' Hr]]]. exists x', rs. split; [right; exact Hx'|exact Hr].
Qed.

Definition pins_ok_live (e : env) (g : graph) : Prop :=
  forall k id n d v, In (k, id) (index g) -> alookup id (heap g) = Some n -> nmeta n = Some d -> dmeta d = false -> dversion d = Some v ->
  forall rd rn dr rs q, In rd (nrdeps n) -> alookup rd (heap g) = Some rn -> slookup (nkey rn) (index g) = Some rd ->
                        requirer_reqs e g rd = Rok (dr, rs) -> In q rs -> norm (safe_name (rname q)) = k ->
                        spec_contains (rspec q) v true = true.

Lemma edges_pins_ok_live e g : J2 g -> edges_ok_applicable e g -> pins_ok_live e g.
Proof.
  intros H2 H k id n d v Hin Hn Hm Hdm Hv rd rn dr rs q Hrd Hrn Hl Hreq Hq Hk.
  unfold requirer_reqs in Hreq. apply bind_ok in Hreq as [rn0 [Hrn0 Hreq]]. apply getn_some in Hrn0. rewrite Hrn in Hrn0. injection Hrn0 as <-.
  destruct (nmeta rn) as [dr0|] eqn:Hmr; [|discriminate].
  apply bind_ok in Hreq as [xs [Hxs Hreq]]. apply bind_ok in Hreq as [all [Hall Hreq]]. injection Hreq as <- <-.
  apply dedup_sub in Hq. destruct (all_reqs_of_in _ _ _ _ _ Hall Hq) as [x [rsx [Hx [Hrsx Hqx]]]].
  unfold spec_contains. cbn [orb andb]. apply forallb_forall. intros c Hc.
  destruct (requires_sound _ _ _ _ _ _ (proj1 (H2 rd rn dr0 Hrn Hmr)) Hrsx Hqx Hc) as [q0 [Hq0 [Hu [Hk0 Hc0]]]].
  assert (Ha : applies_b e g rd q0 = true).
  { apply applies_spec. exists x. split; [|exact Hu]. destruct Hx as [<-|Hx]; [left; reflexivity|right].
    apply in_map_iff in Hx as [y [<- Hy]]. apply in_map. apply (node_extras_tot _ _ _ Hxs). exact Hy. }
  pose proof (H k id n d v Hin Hn Hm Hdm Hv rd rn dr0 q0 Hrd Hrn Hl Hmr Hq0 Ha ltac:(unfold pkey in *; congruence)) as Hs.
  unfold spec_contains in Hs. apply andb_true_iff in Hs as [_ Hs]. rewrite forallb_forall in Hs. apply Hs. exact Hc0.
Qed.

Theorem compile_pins_ok_live fuel e u inputs cons rc md ob_all ob extras g roots :
  stack_ok u ->
  (forall i, In i inputs -> container_ok i) ->
  (forall cs c, cons = Some cs -> In c cs -> container_ok c) ->
  perform_compile_stack_x fuel e u inputs cons rc md ob_all ob extras = COk g roots -> pins_ok_live e g.
Proof.
  intros Hu Hi Hc H. pose proof (perform_compile_J e u Hu _ _ _ _ _ _ _ _ _ _ Hi Hc H) as HJ.
  apply edges_pins_ok_live; [exact (proj1 (proj2 HJ))|]. apply pins_sound_edges; [exact (J_wf e _ _ _ HJ)|apply J_pins_sound; exact HJ].
Qed.
(* ================================================================================================ *)
(* Part 7: the stored-reason form (edges_ok, as first proposed) is FALSE of the model               *)
(* ================================================================================================ *)

(* every dependency link whose both ends are solved is satisfied: the version of the target lies inside the STORED reason *)
Definition edges_ok (g : graph) : Prop :=
  forall key id n d v, In (key, id) (index g) -> alookup id (heap g) = Some n -> nmeta n = Some d -> dmeta d = false ->
                       dversion d = Some v ->
  forall rd rn r, In rd (nrdeps n) -> alookup rd (heap g) = Some rn -> nmeta rn <> None ->
                  alookup id (ndeps rn) = Some (Some r) -> spec_contains (rspec r) v true = true.

Definition edges_ok_b (g : graph) : bool :=
  forallb (fun ki =>
    match alookup (snd ki) (heap g) with
    | None => true
    | Some n =>
      match nmeta n with
      | None => true
      | Some d => if dmeta d then true else
         match dversion d with None => true | Some v =>
           forallb (fun rd => match alookup rd (heap g) with None => true | Some rn =>
                       match nmeta rn with None => true | Some _ =>
                         match alookup (snd ki) (ndeps rn) with
                         | Some (Some r) => spec_contains (rspec r) v true
                         | _ => true end end end) (nrdeps n)
         end
      end
    end) (index g).

Lemma edges_ok_b_complete g : edges_ok g -> edges_ok_b g = true.
Proof.
  intros H. unfold edges_ok_b. apply forallb_forall. intros [key id] Hin. cbn [snd].
  destruct (alookup id (heap g)) as [n|] eqn:Hn; [|reflexivity]. destruct (nmeta n) as [d|] eqn:Hm; [|reflexivity].
  destruct (dmeta d) eqn:Hd; [reflexivity|]. destruct (dversion d) as [v|] eqn:Hv; [|reflexivity].
  apply forallb_forall. intros rd Hrd. destruct (alookup rd (heap g)) as [rn|] eqn:Hrn; [|reflexivity].
  destruct (nmeta rn) as [dr|] eqn:Hmr; [|reflexivity]. destruct (alookup id (ndeps rn)) as [[r|]|] eqn:Hl; try reflexivity.
  eapply (H key id n d v Hin Hn Hm Hd Hv rd rn r Hrd Hrn); [rewrite Hmr; discriminate|exact Hl].
Qed.

(* the same for the applicable-requirements form (used to show that each hypothesis is needed) *)
Definition edges_app_b (e : env) (g : graph) : bool :=
  forallb (fun ki =>
    match alookup (snd ki) (heap g) with
    | None => true
    | Some n =>
      match nmeta n with
      | None => true
      | Some d => if dmeta d then true else
         match dversion d with None => true | Some v =>
           forallb (fun rd =>
              match alookup rd (heap g) with None => true | Some rn =>
                match slookup (nkey rn) (index g) with
                | Some rd' => if Nat.eqb rd' rd then
                    match nmeta rn with None => true | Some dr =>
                      forallb (fun q => negb (applies_b e g rd q) || negb (String.eqb (pkey (rname q)) (fst ki))
                                        || spec_contains (rspec q) v true) (dreqs dr)
                    end else true
                | None => true end end) (nrdeps n)
         end
      end
    end) (index g).

Lemma edges_app_b_complete e g : edges_ok_applicable e g -> edges_app_b e g = true.
Proof.
  intros H. unfold edges_app_b. apply forallb_forall. intros [key id] Hin. cbn [fst snd].
  destruct (alookup id (heap g)) as [n|] eqn:Hn; [|reflexivity]. destruct (nmeta n) as [d|] eqn:Hm; [|reflexivity].
  destruct (dmeta d) eqn:Hd; [reflexivity|]. destruct (dversion d) as [v|] eqn:Hv; [|reflexivity].
  apply forallb_forall. intros rd Hrd. destruct (alookup rd (heap g)) as [rn|] eqn:Hrn; [|reflexivity].
  destruct (slookup (nkey rn) (index g)) as [rd'|] eqn:Hl; [|reflexivity]. destruct (Nat.eqb rd' rd) eqn:E; [|reflexivity].
  apply Nat.eqb_eq in E; subst rd'. destruct (nmeta rn) as [dr|] eqn:Hmr; [|reflexivity].
  apply forallb_forall. intros q Hq. destruct (applies_b e g rd q) eqn:Ha; [|reflexivity].
  destruct (String.eqb_spec (pkey (rname q)) key) as [Hk|Hne]; [|reflexivity]. cbn [negb orb].
  eapply (H key id n d v Hin Hn Hm Hd Hv rd rn dr q); eassumption.
Qed.

(* ---- the witness: a2 -> b, a -> b[x]; b requires c>=1, and c<2 under extra x; a-2.0 also requires e<1, a3 requires e>=1.
   The conflict on e walks back and blames a-2.0; a-1.0 requires c>=2 instead of b[x].  b keeps its link to c with the
   reason "c>=1,<2" computed while extra x was requested, although nothing requests b[x] any more, and c is pinned to 3.0. ---- *)
Open Scope string_scope.
Definition wq : string := String (Ascii.ascii_of_nat 34) EmptyString.
Definition w_mx : string := "extra == " ++ wq ++ "x" ++ wq.
Definition w_env : env :=
  mkEnv (fun m x => String.eqb m w_mx && opt_str_eqb x (Some "x"))
        (fun m => if String.eqb m w_mx then ["x"] else [])
        [None; Some "x"].
Definition wV (l : list N) : version := mkV 0%N l None None None [].
Definition wD (nm : string) (v : list N) (vt : string) (reqs : list req) : ucand :=
  mkCand nm (mkDist nm (Some (wV v)) vt reqs false false) true false.
Definition wR (nm : string) (spec : list clause) : req := mkReq nm [] spec None.
Definition wge (v : list N) : clause := mkC OGe (wV v) false.
Definition wlt (v : list N) : clause := mkC OLt (wV v) false.
Definition w_universe : universe :=
  [("a", [wD "a" [2;0]%N "2.0" [mkReq "b" ["x"] [] None; wR "e" [wlt [1%N]]];
          wD "a" [1;0]%N "1.0" [wR "c" [wge [2%N]]]]);
   ("a2", [wD "a2" [1;0]%N "1.0" [wR "b" []]]);
   ("a3", [wD "a3" [1;0]%N "1.0" [wR "e" [wge [1%N]]]]);
   ("b", [wD "b" [1;0]%N "1.0" [wR "c" [wge [1%N]]; mkReq "c" [] [wlt [2%N]] (Some w_mx)]]);
   ("c", [wD "c" [1;5]%N "1.5" []; wD "c" [3;0]%N "3.0" []]);
   ("e", [wD "e" [0;5]%N "0.5" []; wD "e" [1;0]%N "1.0" []])].
Definition w_inputs : list dist := [mkDist "in0.txt" None "None" [wR "a" []; wR "a2" []; wR "a3" []] true false].
Definition w_run : cres := perform_compile_stack_x 200 w_env [(w_universe, false)] w_inputs None false None false [] [].
Definition w_graph : graph := match w_run with COk g _ => g | _ => empty_graph end.
Definition w_roots : list nat := match w_run with COk _ r => r | _ => [] end.
Close Scope string_scope.

Lemma w_hyps : hyps_okb [(w_universe, false)] w_inputs None = true.
Proof. vm_compute. reflexivity. Qed.

Lemma w_run_ok :
  perform_compile_stack_x 200 w_env [(w_universe, false)] w_inputs None false None false [] [] = COk w_graph w_roots.
Proof. vm_compute. reflexivity. Qed.

Lemma w_edges_ok_false : edges_ok_b w_graph = false.
Proof. vm_compute. reflexivity. Qed.

(* The statement first proposed (stored reasons) does not hold for all compiles: on this universe, which satisfies every
   hypothesis of the theorems above, the compile succeeds and the result graph violates it ... *)
Theorem compile_edges_ok_refuted :
  exists fuel e u inputs g roots,
    hyps_okb u inputs None = true /\
    perform_compile_stack_x fuel e u inputs None false None false [] [] = COk g roots /\
    ~ edges_ok g.
Proof.
  exists 200, w_env, [(w_universe, false)], w_inputs, w_graph, w_roots.
  split; [exact w_hyps|]. split; [exact w_run_ok|].
  intros H. apply edges_ok_b_complete in H. rewrite w_edges_ok_false in H. discriminate H.
Qed.

(* ... while the applicable-requirements form holds there, by the general theorem *)
Corollary w_pins : pins_sound w_env w_graph /\ edges_ok_applicable w_env w_graph.
Proof. exact (compile_pins_sound_b _ _ _ _ _ _ _ _ _ _ _ _ w_hyps w_run_ok). Qed.

Print Assumptions compile_pins_sound.
Print Assumptions compile_edges_ok_applicable.
Print Assumptions compile_pins_ok_live.
Print Assumptions compile_pins_sound_b.
Print Assumptions nocand_pins_sound.
Print Assumptions compile_edges_ok_refuted.

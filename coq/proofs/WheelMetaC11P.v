(* C11 - proofs about model/WheelMetaC11.v.  Statements re-exported by props/C11.v. *)
From Coq Require Import List Bool String Ascii Arith Lia.
From RC Require Import lib.PyStr gen.WheelC11Consts model.WheelMetaC11.
Import ListNotations.
Open Scope string_scope.
Open Scope nat_scope.

(* ------------------------------------------------------------------------------------ *)
(* A. strings *)

Definition noc (c : ascii) (s : string) : bool := all_chars (fun d => negb (Ascii.eqb d c)) s.

Lemma app_assoc_s (a b c : string) : (a ++ b) ++ c = a ++ (b ++ c).
Proof. induction a as [|x a IH]; cbn; [reflexivity|now rewrite IH]. Qed.
Lemma app_nil_r_s (a : string) : a ++ "" = a.
Proof. induction a as [|x a IH]; cbn; [reflexivity|now rewrite IH]. Qed.

Lemma ppartition_found c s a b :
  ppartition c s = (a, true, b) -> s = a ++ String c b /\ noc c a = true.
Proof.
  revert a b; induction s as [|d s IH]; intros a b; cbn [ppartition].
  - discriminate.
  - destruct (Ascii.eqb d c) eqn:E.
    + intros H; inversion H; subst. apply Ascii.eqb_eq in E; subst. split; reflexivity.
    + destruct (ppartition c s) as [[a' f] b'] eqn:P. intros H; inversion H; subst.
      destruct (IH a' b eq_refl) as [-> N]. split; [reflexivity|].
      cbn. rewrite E. cbn. exact N.
Qed.

Lemma ppartition_app c a b : noc c a = true -> ppartition c (a ++ String c b) = (a, true, b).
Proof.
  induction a as [|d a IH]; cbn.
  - rewrite Ascii.eqb_refl. reflexivity.
  - intros H. apply andb_true_iff in H as [H1 H2]. apply negb_true_iff in H1. rewrite H1.
    rewrite (IH H2). reflexivity.
Qed.

Lemma psplit_noc c s : noc c s = true -> psplit c s = [s].
Proof.
  induction s as [|d s IH]; cbn; [reflexivity|].
  intros H. apply andb_true_iff in H as [H1 H2]. apply negb_true_iff in H1. rewrite H1.
  rewrite (IH H2). reflexivity.
Qed.

Lemma psplit_app c a b : noc c a = true -> psplit c (a ++ String c b) = a :: psplit c b.
Proof.
  induction a as [|d a IH]; cbn.
  - rewrite Ascii.eqb_refl. reflexivity.
  - intros H. apply andb_true_iff in H as [H1 H2]. apply negb_true_iff in H1. rewrite H1.
    rewrite (IH H2). reflexivity.
Qed.

Lemma noc_app c a b : noc c (a ++ b) = noc c a && noc c b.
Proof. unfold noc. induction a as [|d a IH]; cbn; [reflexivity|]. rewrite IH. now rewrite andb_assoc. Qed.

Lemma smap_app f a b : smap f (a ++ b) = smap f a ++ smap f b.
Proof. induction a as [|d a IH]; cbn; [reflexivity|now rewrite IH]. Qed.
Lemma lower_app a b : lower (a ++ b) = lower a ++ lower b.
Proof. apply smap_app. Qed.

Lemma lower_ascii_colon d : Ascii.eqb (lower_ascii d) colon = Ascii.eqb d colon.
Proof. destruct d as [[] [] [] [] [] [] [] []]; reflexivity. Qed.
Lemma noc_lower a : noc colon (lower a) = noc colon a.
Proof.
  unfold noc, lower. induction a as [|d a IH]; [reflexivity|].
  cbn [smap all_chars]. rewrite lower_ascii_colon, IH. reflexivity.
Qed.

(* prefixb (p ++ ":") (a ++ ":" ++ x) = (a =? p) when neither contains ':' *)
Lemma prefix_field p a x :
  noc colon p = true -> noc colon a = true ->
  prefixb (p ++ String colon "") (a ++ String colon x) = String.eqb a p.
Proof.
  unfold noc. revert a; induction p as [|c p IH]; intros a Hp Ha.
  - destruct a as [|d a]; cbn [append prefixb String.eqb].
    + rewrite Ascii.eqb_refl. reflexivity.
    + cbn [all_chars] in Ha. apply andb_true_iff in Ha as [H1 _]. apply negb_true_iff in H1.
      rewrite Ascii.eqb_sym, H1. reflexivity.
  - cbn [all_chars] in Hp. apply andb_true_iff in Hp as [Hc Hp]. apply negb_true_iff in Hc.
    destruct a as [|d a]; cbn [append prefixb String.eqb].
    + rewrite Hc. reflexivity.
    + cbn [all_chars] in Ha. apply andb_true_iff in Ha as [_ Ha].
      rewrite (IH a Hp Ha). rewrite (Ascii.eqb_sym c d). reflexivity.
Qed.


(* trailing CRs *)
Definition all_cr (s : string) : bool := all_chars (fun c => Ascii.eqb c cr) s.

Lemma chomp_split s : exists crs, s = chomp_cr s ++ crs /\ all_cr crs = true.
Proof.
  induction s as [|c s (crs & E & H)]; [exists ""; split; reflexivity|].
  cbn [chomp_cr]. destruct (chomp_cr s) as [|d r] eqn:Ec.
  - cbn [append] in E. destruct (Ascii.eqb c cr) eqn:Ecr.
    + exists (String c crs). split; [cbn [append]; rewrite <- E; reflexivity|].
      unfold all_cr in *. cbn [all_chars]. rewrite Ecr, H. reflexivity.
    + exists crs. split; [cbn [append]; rewrite <- E; reflexivity|exact H].
  - exists crs. split; [|exact H]. cbn [append]. cbn [append] in E. rewrite <- E. reflexivity.
Qed.

Lemma chomp_all_cr crs : all_cr crs = true -> chomp_cr crs = "".
Proof.
  unfold all_cr. induction crs as [|c crs IH]; [reflexivity|]. cbn [all_chars]. intros H.
  apply andb_true_iff in H as [Hc H]. cbn [chomp_cr]. rewrite (IH H), Hc. reflexivity.
Qed.
Lemma chomp_app_crs x crs : all_cr crs = true -> chomp_cr (x ++ crs) = chomp_cr x.
Proof.
  intros H. induction x as [|c x IH]; [apply chomp_all_cr; exact H|].
  cbn [append chomp_cr]. rewrite IH. reflexivity.
Qed.
Lemma chomp_idem s : chomp_cr (chomp_cr s) = chomp_cr s.
Proof.
  destruct (chomp_split s) as (crs & E & H).
  pose proof (chomp_app_crs (chomp_cr s) crs H) as P. rewrite <- E in P. symmetry. exact P.
Qed.
Lemma chomp_app_nonempty x y : chomp_cr y <> "" -> chomp_cr (x ++ y) = x ++ chomp_cr y.
Proof.
  intros Hy. induction x as [|c x IH]; [reflexivity|]. cbn [append chomp_cr]. rewrite IH.
  destruct (x ++ chomp_cr y) eqn:E; [|reflexivity].
  destruct x; cbn [append] in E; [contradiction|discriminate].
Qed.
Lemma chomp_head c r l : chomp_cr l = String c r -> exists l', l = String c l'.
Proof.
  destruct l as [|d l]; [discriminate|]. cbn [chomp_cr]. destruct (chomp_cr l).
  - destruct (Ascii.eqb d cr); [discriminate|]. intros H; inversion H; subst. eauto.
  - intros H; inversion H; subst. eauto.
Qed.

(* chars / py_strip and trailing CRs *)
Lemma chars_app_cr s : chars (s ++ String cr "") = (chars s ++ [String cr ""])%list.
Proof.
  induction s as [|c s IH]; [reflexivity|].
  cbn [append chars]. rewrite IH.
  destruct (chars s) as [|g gs]; [reflexivity|].
  cbn [app]. destruct (head_is_cont g); reflexivity.
Qed.

Lemma rstripl_snoc {A} (p : A -> bool) l x : p x = true -> rstripl p (l ++ [x])%list = rstripl p l.
Proof.
  intros Hx. induction l as [|y l IH]; cbn.
  - rewrite Hx. reflexivity.
  - rewrite IH. reflexivity.
Qed.

Lemma py_strip_cr s : py_strip (s ++ String cr "") = py_strip s.
Proof. unfold py_strip. rewrite chars_app_cr, rstripl_snoc; reflexivity. Qed.

Lemma py_strip_crs crs : forall v, all_cr crs = true -> py_strip (v ++ crs) = py_strip v.
Proof.
  unfold all_cr. induction crs as [|c crs IH]; intros v H; [rewrite app_nil_r_s; reflexivity|].
  cbn [all_chars] in H. apply andb_true_iff in H as [Hc H]. apply Ascii.eqb_eq in Hc; subst c.
  change (v ++ String cr crs) with (v ++ (String cr "" ++ crs)). rewrite <- app_assoc_s.
  rewrite (IH _ H). apply py_strip_cr.
Qed.

(* the code's rstrip("\r") and continuation test are the specification's *)
Lemma py_rstrip_cr s : py_rstrip_chars c11_unfold_rstrip s = chomp_cr s.
Proof.
  unfold py_rstrip_chars. change c11_unfold_rstrip with (String cr "").
  induction s as [|c s IH]; [reflexivity|]. cbn [ascii_list rstripl chomp_cr]. rewrite <- IH.
  destruct (rstripl _ (ascii_list s)) as [|a r]; cbn [of_ascii_list]; [|reflexivity].
  cbn [mem_ascii]. rewrite orb_false_r. destruct (Ascii.eqb c cr); reflexivity.
Qed.
Lemma code_is_cont_eq l : code_is_cont l = is_cont_line l.
Proof.
  destruct l as [|c l]; [reflexivity|]. unfold code_is_cont, is_cont_line, is_lwsp.
  change c11_cont_chars with [" "%char; ascii_of_nat 9]. cbn [existsb]. rewrite orb_false_r. reflexivity.
Qed.
Lemma lwsp_not_cr c : is_lwsp c = true -> Ascii.eqb c cr = false.
Proof.
  unfold is_lwsp. intros H. apply orb_true_iff in H as [H|H]; apply Ascii.eqb_eq in H; subst; reflexivity.
Qed.
Lemma cont_chomp_head l : is_cont_line l = true -> forall x, is_cont_line (chomp_cr l ++ x) = true.
Proof.
  destruct l as [|c l]; [discriminate|]. cbn [is_cont_line]. intros Hc x. cbn [chomp_cr].
  destruct (chomp_cr l); [rewrite (lwsp_not_cr c Hc)|]; cbn [append is_cont_line]; exact Hc.
Qed.
Lemma cont_of_chomp l : chomp_cr l <> "" -> is_cont_line (chomp_cr l) = is_cont_line l.
Proof.
  intros H. destruct (chomp_cr l) as [|c r] eqn:E; [contradiction|].
  destruct (chomp_head c r l E) as [l' ->]. reflexivity.
Qed.

(* ------------------------------------------------------------------------------------ *)
(* B. one iteration of the loop, on the shapes T1 generated *)

Definition br_name := mkBranch TName true "name:" (ExPartition colon 2) true.
Definition br_version := mkBranch TVersion true "version:" (ExPartition colon 2) true.
Definition br_req := mkBranch TReq false "requires-dist:" (ExPartition colon 2) true.

(* T1 obligation: the generated branch list is the one these proofs are about *)
Lemma branches_pinned : c11_branches = [br_name; br_version; br_req].
Proof. reflexivity. Qed.
Lemma line_sep_pinned : c11_line_sep = nl.
Proof. reflexivity. Qed.

Definition none_b {A} (o : option A) : bool := match o with None => true | Some _ => false end.
Definition prefix_like (l : string) : bool :=
  let ll := lower l in
  startswith ll "name:" || startswith ll "version:" || startswith ll "requires-dist:".
Lemma p_step_unfold s l :
  p_step s l =
  if p_index_error s then s else
  if none_b (p_name s) && startswith (lower l) "name:" then apply_branch s l br_name
  else if none_b (p_version s) && startswith (lower l) "version:" then apply_branch s l br_version
  else if startswith (lower l) "requires-dist:" then apply_branch s l br_req
  else s.
Proof.
  unfold p_step. rewrite branches_pinned. destruct (p_index_error s); [reflexivity|].
  cbn [run_chain]. unfold branch_fires. cbn [b_first_wins b_target b_prefix br_name br_version br_req].
  unfold none_b. destruct (p_name s), (p_version s); reflexivity.
Qed.

Lemma p_step_not_prefix s l : prefix_like l = false -> p_step s l = s.
Proof.
  unfold prefix_like. intros H. apply orb_false_iff in H as [H H3]. apply orb_false_iff in H as [H1 H2].
  rewrite p_step_unfold, H1, H2, H3, !andb_false_r. destruct (p_index_error s); reflexivity.
Qed.

Lemma startswith_field n w p :
  noc colon n = true -> noc colon p = true ->
  startswith (lower (n ++ String colon w)) (p ++ String colon "") = String.eqb (lower n) p.
Proof.
  intros Hn Hp. unfold startswith. rewrite lower_app.
  change (lower (String colon w)) with (String colon (lower w)).
  apply prefix_field; [exact Hp|]. rewrite noc_lower. exact Hn.
Qed.


Lemma p_step_field s n v crs :
  p_index_error s = false -> noc colon n = true -> all_cr crs = true ->
  p_step s (n ++ String colon (v ++ crs)) = sel_step s (lower n, py_strip v).
Proof.
  intros Hi Hn Hcr.
  rewrite p_step_unfold, Hi.
  change "name:" with ("name" ++ String colon "").
  change "version:" with ("version" ++ String colon "").
  change "requires-dist:" with ("requires-dist" ++ String colon "").
  rewrite !startswith_field by (exact Hn || reflexivity).
  unfold sel_step.
  assert (Hb : forall b, b_extr b = ExPartition colon 2 -> b_strip b = true ->
            apply_branch s (n ++ String colon (v ++ crs)) b =
            match b_target b with
            | TName => mkP (Some (py_strip v)) (p_version s) (p_reqs s) (p_index_error s)
            | TVersion => mkP (p_name s) (Some (py_strip v)) (p_reqs s) (p_index_error s)
            | TReq => mkP (p_name s) (p_version s) (p_reqs s ++ [py_strip v]) (p_index_error s)
            end).
  { intros b He Hs. unfold apply_branch. rewrite He, Hs. cbn [run_extr].
    rewrite ppartition_app by exact Hn. cbn [nth_error]. rewrite (py_strip_crs crs v Hcr). reflexivity. }
  destruct (String.eqb (lower n) "name") eqn:E1.
  - apply String.eqb_eq in E1. rewrite E1. cbn [String.eqb Ascii.eqb Bool.eqb andb].
    destruct (p_name s); cbn [none_b andb]; [rewrite andb_false_r; reflexivity|].
    rewrite Hb by reflexivity. reflexivity.
  - rewrite andb_false_r.
    destruct (String.eqb (lower n) "version") eqn:E2.
    + destruct (p_version s); cbn [none_b andb].
      * apply String.eqb_eq in E2. rewrite E2. reflexivity.
      * rewrite Hb by reflexivity. reflexivity.
    + rewrite andb_false_r.
      destruct (String.eqb (lower n) "requires-dist") eqn:E3; [|reflexivity].
      rewrite Hb by reflexivity. reflexivity.
Qed.

(* ------------------------------------------------------------------------------------ *)
(* C. the header block: unfolding + loop = selection over the RFC 822 fields *)

Lemma sel_step_index s f : p_index_error (sel_step s f) = p_index_error s.
Proof.
  destruct f as [n v]. unfold sel_step.
  destruct (String.eqb n "name"); [destruct (p_name s); reflexivity|].
  destruct (String.eqb n "version"); [destruct (p_version s); reflexivity|].
  destruct (String.eqb n "requires-dist"); reflexivity.
Qed.

Definition apply_cur (s : pstate) (cur : option (string * string)) : pstate :=
  fold_left sel_step (flush cur) s.

Lemma apply_cur_index s cur : p_index_error (apply_cur s cur) = p_index_error s.
Proof. destruct cur as [[n v]|]; unfold apply_cur; cbn [flush fold_left]; [apply sel_step_index|reflexivity]. Qed.

Lemma cont_not_prefix_like l : is_cont_line l = true -> prefix_like l = false.
Proof.
  destruct l as [|c l]; [discriminate|]. cbn [is_cont_line]. unfold is_lwsp. intros Hc.
  apply orb_true_iff in Hc as [Hc|Hc]; apply Ascii.eqb_eq in Hc; subst; reflexivity.
Qed.

Lemma field_split_spec l n v :
  field_split l = Some (n, v) -> l = n ++ String colon v /\ noc colon n = true.
Proof.
  unfold field_split. destruct (ppartition colon l) as [[a f] b] eqn:P.
  destruct f; [|discriminate]. destruct a as [|c a]; [discriminate|].
  destruct (all_chars ftext (String c a)); [|discriminate].
  intros H; inversion H; subst. apply ppartition_found. exact P.
Qed.

(* the code's current (last, still growing) unfolded line against the specification's current field *)
Definition inv (cur : option (string * string)) (cl : string) : Prop :=
  match cur with
  | Some (n, v) => noc colon n = true /\ chomp_cr (n ++ String colon v) = n ++ String colon v /\
                   exists crs, cl = n ++ String colon (v ++ crs) /\ all_cr crs = true
  | None => is_cont_line cl = true
  end.

Lemma step_cur s cur cl : p_index_error s = false -> inv cur cl -> p_step s cl = apply_cur s cur.
Proof.
  intros Hi H. destruct cur as [[n v]|]; cbn [inv] in H.
  - destruct H as (Hn & _ & crs & -> & Hcr). unfold apply_cur. cbn [flush fold_left].
    apply p_step_field; assumption.
  - unfold apply_cur. cbn [flush fold_left]. apply p_step_not_prefix, cont_not_prefix_like, H.
Qed.

Lemma inv_field l n v : field_split (chomp_cr l) = Some (n, v) -> inv (Some (n, v)) l.
Proof.
  intros Ef. destruct (field_split_spec _ _ _ Ef) as [El Hn]. cbn [inv]. split; [exact Hn|]. split.
  - rewrite <- El. apply chomp_idem.
  - destruct (chomp_split l) as (crs & E & Hcr). exists crs. split; [|exact Hcr].
    rewrite E at 1. rewrite El, app_assoc_s. reflexivity.
Qed.

Lemma main_hdr hl : forall cur cl s,
  p_index_error s = false -> inv cur cl ->
  forallb (fun l => hdr_line (chomp_cr l)) hl = true ->
  fold_left p_step (unfold_from cl hl) s = fold_left sel_step (fields_of hl cur) s.
Proof.
  induction hl as [|l hl IH]; intros cur cl s Hi Hinv Hh.
  - cbn [unfold_from fields_of fold_left]. rewrite (step_cur s cur cl Hi Hinv). reflexivity.
  - cbn [forallb] in Hh. apply andb_true_iff in Hh as [Hl Hh].
    assert (Hne : chomp_cr l <> "") by (intros E; rewrite E in Hl; discriminate).
    cbn [unfold_from fields_of]. rewrite code_is_cont_eq, py_rstrip_cr, (cont_of_chomp l Hne).
    destruct (is_cont_line l) eqn:Ec.
    + destruct cur as [[n v]|].
      * apply IH; [exact Hi| |exact Hh]. cbn [inv] in *. destruct Hinv as (Hn & Hch & crs & -> & Hcr).
        split; [exact Hn|].
        assert (E1 : chomp_cr (n ++ String colon (v ++ crs)) = n ++ String colon v).
        { change (n ++ String colon (v ++ crs)) with (n ++ (String colon v ++ crs)).
          rewrite <- app_assoc_s. rewrite (chomp_app_crs _ crs Hcr). exact Hch. }
        split.
        -- change (n ++ String colon (v ++ chomp_cr l)) with (n ++ (String colon v ++ chomp_cr l)).
           rewrite <- app_assoc_s.
           pose proof (chomp_app_nonempty (n ++ String colon v) (chomp_cr l)) as P.
           rewrite chomp_idem in P. apply P. exact Hne.
        -- destruct (chomp_split l) as (crs' & El & Hcr'). exists crs'. split; [|exact Hcr'].
           rewrite E1. rewrite El at 1.
           change (n ++ String colon ((v ++ chomp_cr l) ++ crs')) with (n ++ (String colon ((v ++ chomp_cr l) ++ crs'))).
           rewrite !app_assoc_s. cbn [append]. rewrite ?app_assoc_s. reflexivity.
      * apply IH; [exact Hi| |exact Hh]. cbn [inv] in *. apply cont_chomp_head. exact Hinv.
    + destruct (field_split (chomp_cr l)) as [[n v]|] eqn:Ef.
      * cbn [fold_left]. rewrite (step_cur s cur cl Hi Hinv). rewrite fold_left_app. fold (apply_cur s cur).
        apply IH; [rewrite apply_cur_index; exact Hi|apply inv_field; exact Ef|exact Hh].
      * unfold hdr_line in Hl. rewrite (cont_of_chomp l Hne), Ec, Ef in Hl. destruct (chomp_cr l); discriminate.
Qed.

Lemma hdr_block hl s :
  p_index_error s = false ->
  forallb (fun l => hdr_line (chomp_cr l)) hl = true ->
  fold_left p_step (unfold_lines hl) s = fold_left sel_step (fields_of hl None) s.
Proof.
  intros Hi Hh. destruct hl as [|l hl]; [reflexivity|].
  cbn [forallb] in Hh. apply andb_true_iff in Hh as [Hl Hh].
  assert (Hne : chomp_cr l <> "") by (intros E; rewrite E in Hl; discriminate).
  cbn [unfold_lines fields_of]. rewrite (cont_of_chomp l Hne).
  destruct (is_cont_line l) eqn:Ec.
  - apply main_hdr; [exact Hi|exact Ec|exact Hh].
  - destruct (field_split (chomp_cr l)) as [[n v]|] eqn:Ef.
    + cbn [flush app]. apply main_hdr; [exact Hi|apply inv_field; exact Ef|exact Hh].
    + unfold hdr_line in Hl. rewrite (cont_of_chomp l Hne), Ec, Ef in Hl. destruct (chomp_cr l); discriminate.
Qed.

Lemma span_hdr_spec ls :
  ls = (fst (span_hdr ls) ++ snd (span_hdr ls))%list /\
  forallb (fun l => hdr_line (chomp_cr l)) (fst (span_hdr ls)) = true /\
  match snd (span_hdr ls) with [] => True | b :: _ => is_cont_line b = false end.
Proof.
  induction ls as [|l ls (IH1 & IH2 & IH3)]; [repeat split|].
  cbn [span_hdr]. destruct (hdr_line (chomp_cr l)) eqn:E.
  - destruct (span_hdr ls) as [h b]. cbn [fst snd] in *. repeat split.
    + cbn [app]. f_equal. exact IH1.
    + cbn [forallb]. rewrite E, IH2. reflexivity.
    + exact IH3.
  - cbn [fst snd]. repeat split.
    destruct (is_cont_line l) eqn:Ec; [|reflexivity]. exfalso.
    destruct l as [|c l]; [discriminate|]. cbn [is_cont_line] in Ec.
    assert (Hh : exists r, chomp_cr (String c l) = String c r).
    { cbn [chomp_cr]. destruct (chomp_cr l); [rewrite (lwsp_not_cr c Ec)|]; eauto. }
    destruct Hh as [r Hr]. rewrite Hr in E. unfold hdr_line in E. cbn [is_cont_line] in E.
    rewrite Ec in E. discriminate.
Qed.

Lemma unfold_from_app ls1 : forall cur l ls2,
  is_cont_line l = false ->
  unfold_from cur (ls1 ++ l :: ls2)%list = (unfold_from cur ls1 ++ unfold_from l ls2)%list.
Proof.
  induction ls1 as [|x ls1 IH]; intros cur l ls2 Hl.
  - cbn [app unfold_from]. rewrite code_is_cont_eq, Hl. reflexivity.
  - cbn [app unfold_from]. destruct (code_is_cont x); [apply IH; exact Hl|].
    rewrite (IH x l ls2 Hl). reflexivity.
Qed.
Lemma unfold_lines_app hl bl :
  match bl with [] => True | b :: _ => is_cont_line b = false end ->
  unfold_lines (hl ++ bl)%list = (unfold_lines hl ++ unfold_lines bl)%list.
Proof.
  intros Hb. destruct hl as [|l hl]; [reflexivity|]. destruct bl as [|b bl].
  - rewrite !app_nil_r. reflexivity.
  - cbn [app unfold_lines]. apply unfold_from_app. exact Hb.
Qed.
Lemma p_step_harmless s l :
  startswith (lower l) "requires-dist:" = false ->
  (none_b (p_name s) = false \/ startswith (lower l) "name:" = false) ->
  (none_b (p_version s) = false \/ startswith (lower l) "version:" = false) ->
  p_step s l = s.
Proof.
  intros Hr Hn Hv. rewrite p_step_unfold, Hr. destruct (p_index_error s); [reflexivity|].
  assert (E1 : none_b (p_name s) && startswith (lower l) "name:" = false)
    by (destruct Hn as [-> | ->]; [reflexivity|apply andb_false_r]).
  assert (E2 : none_b (p_version s) && startswith (lower l) "version:" = false)
    by (destruct Hv as [-> | ->]; [reflexivity|apply andb_false_r]).
  rewrite E1, E2. reflexivity.
Qed.

Lemma sel_step_name_mono s f : none_b (p_name s) = false -> none_b (p_name (sel_step s f)) = false.
Proof.
  destruct f as [n v], s as [pn pv pr pe]. unfold sel_step. cbn [p_name p_version p_reqs p_index_error].
  intros H. destruct pn; [|discriminate].
  destruct (String.eqb n "name"); [reflexivity|].
  destruct (String.eqb n "version"); [destruct pv; reflexivity|].
  destruct (String.eqb n "requires-dist"); reflexivity.
Qed.
Lemma sel_step_version_mono s f : none_b (p_version s) = false -> none_b (p_version (sel_step s f)) = false.
Proof.
  destruct f as [n v], s as [pn pv pr pe]. unfold sel_step. cbn [p_name p_version p_reqs p_index_error].
  intros H. destruct pv; [|discriminate].
  destruct (String.eqb n "name"); [destruct pn; reflexivity|].
  destruct (String.eqb n "version"); [reflexivity|].
  destruct (String.eqb n "requires-dist"); reflexivity.
Qed.

Lemma fold_sel_name fs : forall s,
  (none_b (p_name s) = false \/ has_field "name" fs = true) ->
  none_b (p_name (fold_left sel_step fs s)) = false.
Proof.
  induction fs as [|f fs IH]; intros s H; cbn [fold_left].
  - destruct H as [H|H]; [exact H|discriminate].
  - apply IH. destruct H as [H|H]; [left; apply sel_step_name_mono; exact H|].
    unfold has_field in H. cbn [existsb] in H. apply orb_true_iff in H as [H|H]; [left|right; exact H].
    destruct f as [n v]. cbn [fst] in H. unfold sel_step. rewrite H.
    destruct (p_name s) eqn:E; [rewrite E|]; reflexivity.
Qed.
Lemma fold_sel_version fs : forall s,
  (none_b (p_version s) = false \/ has_field "version" fs = true) ->
  none_b (p_version (fold_left sel_step fs s)) = false.
Proof.
  induction fs as [|f fs IH]; intros s H; cbn [fold_left].
  - destruct H as [H|H]; [exact H|discriminate].
  - apply IH. destruct H as [H|H]; [left; apply sel_step_version_mono; exact H|].
    unfold has_field in H. cbn [existsb] in H. apply orb_true_iff in H as [H|H]; [left|right; exact H].
    destruct f as [n v]. cbn [fst] in H. apply String.eqb_eq in H; subst n. unfold sel_step.
    cbn [String.eqb Ascii.eqb Bool.eqb andb].
    destruct (p_version s) eqn:E; [rewrite E|]; reflexivity.
Qed.

Lemma fold_harmless bl : forall s (hn hv : bool),
  (hn = true -> none_b (p_name s) = false) -> (hv = true -> none_b (p_version s) = false) ->
  forallb (fun l => negb (startswith (lower l) "requires-dist:")
                    && (hn || negb (startswith (lower l) "name:"))
                    && (hv || negb (startswith (lower l) "version:"))) bl = true ->
  fold_left p_step bl s = s.
Proof.
  induction bl as [|l bl IH]; intros s hn hv Hn Hv H; [reflexivity|].
  cbn [forallb] in H. apply andb_true_iff in H as [Hl H].
  apply andb_true_iff in Hl as [Hl H3]. apply andb_true_iff in Hl as [H1 H2].
  apply negb_true_iff in H1. cbn [fold_left].
  rewrite (p_step_harmless s l H1).
  - apply (IH s hn hv Hn Hv H).
  - destruct hn; [left; apply Hn; reflexivity|right; apply negb_true_iff; exact H2].
  - destruct hv; [left; apply Hv; reflexivity|right; apply negb_true_iff; exact H3].
Qed.


(* the unguarded statement (FALSE of the code: see headers_refuted_body) *)
Definition C11_headers_full_statement : Prop :=
  forall t, parse_flat t = select_fields (rfc822_fields t).

(* proved part, for ALL texts with a harmless body.  Missing w.r.t. the full statement: texts
   whose body has a Requires-Dist:-looking line (or a Name:/Version:-looking one while the header
   block declares none) - the code deliberately keeps reading after a blank line. *)
Theorem headers_partial : forall t,
  body_harmless t = true -> parse_flat t = select_fields (rfc822_fields t).
Proof.
  intros t Hb.
  unfold parse_flat, select_fields, parse_loop. f_equal.
  rewrite line_sep_pinned. fold (text_lines t).
  unfold body_harmless, body_lines in Hb.
  destruct (span_hdr_spec (text_lines t)) as (E & Hh & Hhead).
  rewrite E at 1. rewrite (unfold_lines_app _ _ Hhead), fold_left_app.
  assert (M : fold_left p_step (unfold_lines (fst (span_hdr (text_lines t)))) p_init =
              fold_left sel_step (rfc822_fields t) p_init).
  { unfold rfc822_fields, header_lines. apply hdr_block; [reflexivity|exact Hh]. }
  rewrite M.
  apply (fold_harmless _ _ (has_field "name" (rfc822_fields t)) (has_field "version" (rfc822_fields t))).
  - intros H. apply fold_sel_name. right. exact H.
  - intros H. apply fold_sel_version. right. exact H.
  - exact Hb.
Qed.

(* non-trivial instance: CRLF, mixed case, folded License AND folded Requires-Dist, ':' in the
   Name-free values, Version:/Name:-looking body lines *)
Definition ex_text : string :=
  "Metadata-Version: 2.1" ++ String cr (String nl "") ++ "NAME: demo" ++ String nl "" ++
  "License: MIT" ++ String nl "" ++ "  continued: here" ++ String nl "" ++
  "Version: 1.0" ++ String cr (String nl "") ++
  "Requires-Dist: requests[security]" ++ String cr (String nl "") ++ "  (>=2.0) ; extra == 'net'" ++ String nl "" ++
  "requires-dist: pkg @ https://example.org/p:8080/pkg.whl" ++ String nl "" ++ String nl "" ++
  "Version: 0.9 was the first release" ++ String nl "" ++ "    Name: indented" ++ String nl "".
Example headers_partial_nonvacuous :
  body_harmless ex_text = true /\
  parse_flat ex_text = FlatOk "demo" (Some "1.0")
    ["requests[security]  (>=2.0) ; extra == 'net'"; "pkg @ https://example.org/p:8080/pkg.whl"].
Proof. vm_compute. repeat split. Qed.

Definition wit_body : string :=
  "Name: a" ++ String nl "" ++ "Version: 1" ++ String nl "" ++ String nl "" ++
  "Requires-Dist: evil" ++ String nl "".
Definition wit_folded : string :=
  "Name: a" ++ String nl "" ++ "Version: 1" ++ String nl "" ++
  "Requires-Dist: bar" ++ String nl "" ++ "  >=1.0" ++ String nl "".
Definition wit_colon : string :=
  "Name: a:b" ++ String nl "" ++ "Version: 1" ++ String nl "".

(* still refuted (known finding C11-body-requires-dist; the suite's METADATA-extra-space fixture
   requires a Requires-Dist after a blank line to be read) *)
Theorem headers_refuted_body :
  parse_flat wit_body = FlatOk "a" (Some "1") ["evil"] /\
  select_fields (rfc822_fields wit_body) = FlatOk "a" (Some "1") [].
Proof. vm_compute. split; reflexivity. Qed.
Corollary headers_full_statement_false : ~ C11_headers_full_statement.
Proof.
  intros H. specialize (H wit_body). destruct headers_refuted_body as [A B].
  rewrite A, B in H. discriminate.
Qed.
(* the former witnesses of the folded-header and colon findings are now read as declared *)
Theorem headers_folded_and_colon_read :
  parse_flat wit_folded = FlatOk "a" (Some "1") ["bar  >=1.0"] /\
  parse_flat wit_folded = select_fields (rfc822_fields wit_folded) /\
  parse_flat wit_colon = FlatOk "a:b" (Some "1") [] /\
  parse_flat wit_colon = select_fields (rfc822_fields wit_colon).
Proof. vm_compute. repeat split. Qed.

(* ------------------------------------------------------------------------------------ *)
(* E. choosing the dist-info entry *)

(* T1 obligation: the regex source texts are the three the string predicates were written for *)
Lemma regexes_pinned :
  c11_regexes = [(regex_root_text, true); (regex_own_text, true); (regex_any_text, false)].
Proof. reflexivity. Qed.

Definition find3 (p : string) (l : list string) : find_res :=
  match List.find (root_match p) l with
  | Some x => Found x
  | None =>
    match List.find (own_match p) l with
    | Some x => Found x
    | None => match List.find any_match l with Some x => Found x | None => NotFound end
    end
  end.
Lemma find_dist_info_eq p l : find_dist_info p l = find3 p l.
Proof.
  unfold find_dist_info. rewrite regexes_pinned. cbn [find_passes interp_regex].
  rewrite !String.eqb_refl.
  assert (E : String.eqb regex_own_text regex_root_text = false) by reflexivity. rewrite E.
  reflexivity.
Qed.
Lemma find_first {A} (f : A -> bool) l x :
  List.find f l = Some x <->
  exists l1 l2, l = (l1 ++ x :: l2)%list /\ f x = true /\ forall y, In y l1 -> f y = false.
Proof.
  split.
  - induction l as [|a l IH]; [discriminate|]. cbn [List.find].
    destruct (f a) eqn:E.
    + intros H; inversion H; subst. exists [], l. repeat split; [exact E|intros y []].
    + intros H. destruct (IH H) as (l1 & l2 & -> & Hx & Hl). exists (a :: l1), l2.
      repeat split; [exact Hx|]. intros y [<-|Hy]; [exact E|apply Hl; exact Hy].
  - intros (l1 & l2 & -> & Hx & Hl). induction l1 as [|a l1 IH]; cbn [app List.find].
    + rewrite Hx. reflexivity.
    + rewrite (Hl a (or_introl eq_refl)). apply IH. intros y Hy. apply Hl. right. exact Hy.
Qed.

Lemma find_none_all {A} (f : A -> bool) l : List.find f l = None -> forall y, In y l -> f y = false.
Proof. intros H y Hy. exact (List.find_none f l H y Hy). Qed.

Lemma find_unique (f : string -> bool) l x :
  In x l -> f x = true -> (forall y, In y l -> y <> x -> f y = false) -> List.find f l = Some x.
Proof.
  induction l as [|a l IH]; intros Hin Hx Hy; [destruct Hin|]. cbn [List.find].
  destruct (string_dec a x) as [->|Hne].
  - rewrite Hx. reflexivity.
  - rewrite (Hy a (or_introl eq_refl) Hne). apply IH; [|exact Hx|].
    + destruct Hin as [E|Hin]; [contradiction|exact Hin].
    + intros y Hyin. apply Hy. right. exact Hyin.
Qed.


Lemma strip_prefix_app p r : strip_prefix p (p ++ r) = Some r.
Proof. induction p as [|c p IH]; [reflexivity|]. cbn. rewrite Ascii.eqb_refl. exact IH. Qed.
Lemma strip_prefix_spec p : forall s r, strip_prefix p s = Some r -> s = p ++ r.
Proof.
  induction p as [|c p IH]; intros s r; cbn [strip_prefix append].
  - intros H; inversion H; reflexivity.
  - destruct s as [|d s]; [discriminate|]. destruct (Ascii.eqb d c) eqn:E; [|discriminate].
    apply Ascii.eqb_eq in E; subst. intros H. rewrite (IH s r H). reflexivity.
Qed.

Lemma root_suffix_unfold s started :
  root_suffix s started =
  (started && (String.eqb s dsuf || String.eqb s (dsuf ++ String nl "")))
  || match s with
     | EmptyString => false
     | String c s' => if Ascii.eqb c "/"%char then false else root_suffix s' true
     end.
Proof. destruct s; reflexivity. Qed.

Definition tail_ok_s (tail : string) : Prop := tail = "" \/ tail = String nl "".

Lemma root_suffix_intro mid : forall started tail,
  no_slash mid = true -> (started = true \/ mid <> "") -> tail_ok_s tail ->
  root_suffix (mid ++ dsuf ++ tail) started = true.
Proof.
  induction mid as [|c mid IH]; intros started tail Hn Hs Ht.
  - destruct Hs as [->|Hs]; [|contradiction]. cbn [append]. rewrite root_suffix_unfold.
    destruct Ht as [->| ->].
    + rewrite app_nil_r_s, String.eqb_refl. reflexivity.
    + rewrite String.eqb_refl, orb_true_r. reflexivity.
  - cbn [append]. rewrite root_suffix_unfold. unfold no_slash in Hn. cbn [all_chars] in Hn.
    apply andb_true_iff in Hn as [Hc Hn]. apply negb_true_iff in Hc. rewrite Hc.
    rewrite (IH true tail Hn (or_introl eq_refl) Ht). apply orb_true_r.
Qed.

Lemma root_suffix_elim s : forall started, root_suffix s started = true ->
  exists mid tail, s = mid ++ dsuf ++ tail /\ (started = true \/ mid <> "") /\
                   no_slash mid = true /\ tail_ok_s tail.
Proof.
  induction s as [|c s IH]; intros started; rewrite root_suffix_unfold; intros H;
  apply orb_true_iff in H as [H|H]; try discriminate.
  - apply andb_true_iff in H as [_ H]. apply orb_true_iff in H as [H|H]; apply String.eqb_eq in H; discriminate.
  - apply andb_true_iff in H as [Hs H]. exists "". apply orb_true_iff in H as [H|H]; apply String.eqb_eq in H.
    + exists "". rewrite H. repeat split; [left; exact Hs|left; reflexivity].
    + exists (String nl ""). rewrite H. repeat split; [left; exact Hs|right; reflexivity].
  - destruct (Ascii.eqb c "/"%char) eqn:Ec; [discriminate|].
    destruct (IH true H) as (mid & tail & -> & _ & Hn & Ht).
    exists (String c mid), tail. repeat split; [right; discriminate| |exact Ht].
    unfold no_slash in *. cbn [all_chars]. rewrite Ec, Hn. reflexivity.
Qed.

(* what `^{project}-[^/]+\.dist-info/METADATA$` accepts, as a statement about the member name *)
Theorem root_match_spec p e :
  root_match p e = true <->
  exists mid tail, e = p ++ "-" ++ mid ++ dsuf ++ tail /\ mid <> "" /\ no_slash mid = true /\ tail_ok_s tail.
Proof.
  unfold root_match. split.
  - destruct (strip_prefix p e) as [[|c r]|] eqn:S; try discriminate. intros H.
    apply andb_true_iff in H as [Hc H]. apply Ascii.eqb_eq in Hc; subst c.
    apply strip_prefix_spec in S. destruct (root_suffix_elim r false H) as (mid & tail & -> & Hs & Hn & Ht).
    exists mid, tail. repeat split; try assumption. destruct Hs as [Hs|Hs]; [discriminate|exact Hs].
  - intros (mid & tail & -> & Hm & Hn & Ht). rewrite strip_prefix_app. cbn [append]. rewrite Ascii.eqb_refl.
    apply root_suffix_intro; [exact Hn|right; exact Hm|exact Ht].
Qed.

Lemma own_entry_root p v : v <> "" -> no_slash v = true -> root_match p (own_entry p v) = true.
Proof.
  intros Hv Hn. apply root_match_spec. exists v, "". unfold own_entry.
  change ".dist-info/METADATA" with dsuf. rewrite app_nil_r_s. repeat split; [exact Hv|exact Hn|left; reflexivity].
Qed.

(* exact guard: the own entry is chosen iff no member AFTER its last occurrence in the archive is
   another root-level `<project>-*.dist-info/METADATA` (the name list is searched in reverse) *)
Theorem dist_info_own_exact p v names :
  v <> "" -> no_slash v = true ->
  (find_dist_info p (rev names) = Found (own_entry p v) <->
   exists before after, names = (before ++ own_entry p v :: after)%list /\
                        forall e, In e after -> root_match p e = false).
Proof.
  intros Hv Hn. pose proof (own_entry_root p v Hv Hn) as Hown.
  rewrite find_dist_info_eq. unfold find3. split.
  - destruct (List.find (root_match p) (rev names)) as [x|] eqn:F.
    + intros H; inversion H; subst x.
      apply find_first in F as (l1 & l2 & E & _ & Hl).
      exists (rev l2), (rev l1). split.
      * rewrite <- (rev_involutive names), E, rev_app_distr. cbn [rev]. rewrite <- app_assoc. reflexivity.
      * intros e He. apply Hl. apply in_rev in He. try rewrite rev_involutive in He. exact He.
    + assert (Hno : forall x, In x (rev names) -> x = own_entry p v -> False).
      { intros x Hin ->. rewrite (find_none_all _ _ F _ Hin) in Hown. discriminate. }
      destruct (List.find (own_match p) (rev names)) as [x|] eqn:F2.
      * intros H; inversion H; subst x. apply List.find_some in F2 as [Hin _]. exfalso. eapply Hno; eauto.
      * destruct (List.find any_match (rev names)) as [x|] eqn:F3; [|discriminate].
        intros H; inversion H; subst x. apply List.find_some in F3 as [Hin _]. exfalso. eapply Hno; eauto.
  - intros (before & after & -> & Ha).
    assert (F : List.find (root_match p) (rev (before ++ own_entry p v :: after)) = Some (own_entry p v)).
    { apply find_first. exists (rev after), (rev before). repeat split.
      - rewrite rev_app_distr. cbn [rev]. rewrite <- app_assoc. reflexivity.
      - exact Hown.
      - intros y Hy. apply Ha. apply in_rev in Hy. try rewrite rev_involutive in Hy. exact Hy. }
    rewrite F. reflexivity.
Qed.

(* spec-conformant wheel (exactly one root-level dist-info directory of the project): its METADATA
   is chosen whatever else is vendored anywhere below the root, wherever it sits in the archive *)
Theorem dist_info_own p v names :
  v <> "" -> no_slash v = true ->
  In (own_entry p v) names ->
  (forall e, In e names -> e <> own_entry p v -> root_match p e = false) ->
  find_dist_info p (rev names) = Found (own_entry p v).
Proof.
  intros Hv Hn Hin Hoth. pose proof (own_entry_root p v Hv Hn) as Hown.
  rewrite find_dist_info_eq. unfold find3.
  rewrite (find_unique (root_match p) (rev names) (own_entry p v)); [reflexivity| |exact Hown|].
  - apply in_rev in Hin. exact Hin.
  - intros y Hy. apply Hoth. apply in_rev in Hy. try rewrite rev_involutive in Hy. exact Hy.
Qed.

(* anything stored below a directory is not root-level: vendored copies can never be preferred *)
Lemma no_slash_app a b : no_slash (a ++ b) = no_slash a && no_slash b.
Proof. unfold no_slash. induction a as [|c a IH]; cbn; [reflexivity|]. rewrite IH. now rewrite andb_assoc. Qed.

Definition ex_names : list string :=
  ["foo/__init__.py"; "foo/_vendor/six-1.16.0.dist-info/METADATA";
   "foo/_vendor/foo-0.5.dist-info/METADATA"; "foo-1.0.dist-info/METADATA";
   "foo-1.0.dist-info/RECORD"; "foo-1.0.data/purelib/bar-2.0.dist-info/METADATA"; "zzz-3.dist-info/METADATA"].
Example dist_info_own_nonvacuous :
  In (own_entry "foo" "1.0") ex_names /\
  forallb (fun e => String.eqb e (own_entry "foo" "1.0") || negb (root_match "foo" e)) ex_names = true /\
  find_dist_info "foo" (rev ex_names) = Found "foo-1.0.dist-info/METADATA".
Proof. split; [cbn; auto 10|split; vm_compute; reflexivity]. Qed.

(* the former witnesses of C11-vendored-same-project and C11-data-dir-dist-info now read the own entry *)
Definition wit_names_same : list string :=
  ["vend/__init__.py"; "vend-1.0.dist-info/METADATA"; "vend-1.0.dist-info/RECORD";
   "vend/_vendor/vend-0.5.dist-info/METADATA"].
Definition wit_names_data : list string :=
  ["foo/__init__.py"; "foo-1.0.dist-info/METADATA"; "foo-1.0.dist-info/RECORD";
   "foo-1.0.data/purelib/bar-2.0.dist-info/METADATA"].
Theorem dist_info_vendored_read_own :
  find_dist_info "vend" (rev wit_names_same) = Found (own_entry "vend" "1.0") /\
  find_dist_info "foo" (rev wit_names_data) = Found (own_entry "foo" "1.0").
Proof. split; vm_compute; reflexivity. Qed.

(* whatever matches any of the regexes contains the text ".dist-info/METADATA" *)
Lemma containsb_app_l sub x r : containsb sub r = true -> containsb sub (x ++ r) = true.
Proof.
  intros H. induction x as [|c x IH]; [exact H|]. cbn [append containsb]. rewrite IH. apply orb_true_r.
Qed.
Lemma containsb_prefix sub s : prefixb sub s = true -> containsb sub s = true.
Proof. intros H. destruct s; cbn [containsb]; rewrite H; reflexivity. Qed.

Lemma any_match_contains s : any_match s = true -> containsb dsuf s = true.
Proof.
  induction s as [|c s IH]; cbn [any_match]; intros H; apply orb_true_iff in H as [H|H].
  - apply containsb_prefix. exact H.
  - discriminate.
  - apply containsb_prefix. exact H.
  - destruct (Ascii.eqb c nl); [discriminate|]. cbn [containsb]. rewrite (IH H). apply orb_true_r.
Qed.

Lemma mid_suffix_contains s : forall started, mid_suffix s started = true -> containsb dsuf s = true.
Proof.
  induction s as [|c s IH]; intros started; cbn [mid_suffix]; intros H; apply orb_true_iff in H as [H|H].
  - apply andb_true_iff in H as [_ H]. apply orb_true_iff in H as [H|H]; apply String.eqb_eq in H; discriminate.
  - discriminate.
  - apply andb_true_iff in H as [_ H]. apply orb_true_iff in H as [H|H]; apply String.eqb_eq in H; rewrite H; reflexivity.
  - destruct (Ascii.eqb c nl); [discriminate|]. cbn [containsb]. rewrite (IH true H). apply orb_true_r.
Qed.

Lemma root_suffix_contains s : forall started, root_suffix s started = true -> containsb dsuf s = true.
Proof.
  induction s as [|c s IH]; intros started; cbn [root_suffix]; intros H; apply orb_true_iff in H as [H|H].
  - apply andb_true_iff in H as [_ H]. apply orb_true_iff in H as [H|H]; apply String.eqb_eq in H; discriminate.
  - discriminate.
  - apply andb_true_iff in H as [_ H]. apply orb_true_iff in H as [H|H]; apply String.eqb_eq in H; rewrite H; reflexivity.
  - destruct (Ascii.eqb c "/"%char); [discriminate|]. cbn [containsb]. rewrite (IH true H). apply orb_true_r.
Qed.
Lemma root_match_contains p s : root_match p s = true -> containsb dsuf s = true.
Proof.
  unfold root_match. destruct (strip_prefix p s) as [[|c r]|] eqn:M; try discriminate.
  intros H. apply andb_true_iff in H as [_ H]. apply root_suffix_contains in H.
  apply strip_prefix_spec in M. subst s.
  apply containsb_app_l. cbn [containsb]. rewrite H. apply orb_true_r.
Qed.
Lemma tail_match_contains p s : tail_match p s = true -> containsb dsuf s = true.
Proof.
  unfold tail_match. destruct (strip_prefix p s) as [[|c r]|] eqn:M; try discriminate.
  intros H. apply andb_true_iff in H as [_ H]. apply mid_suffix_contains in H.
  apply strip_prefix_spec in M. subst s.
  apply containsb_app_l. cbn [containsb]. rewrite H. apply orb_true_r.
Qed.
Lemma own_scan_contains_dsuf p s : forall started, own_scan p s started = true -> containsb dsuf s = true.
Proof.
  induction s as [|c s IH]; intros started; cbn [own_scan]; [discriminate|].
  destruct (Ascii.eqb c nl); [discriminate|]. intros H. apply orb_true_iff in H as [H|H].
  - apply andb_true_iff in H as [_ H]. apply tail_match_contains in H.
    cbn [containsb]. rewrite H. apply orb_true_r.
  - cbn [containsb]. rewrite (IH true H). apply orb_true_r.
Qed.
Lemma own_match_contains p s : own_match p s = true -> containsb dsuf s = true.
Proof.
  unfold own_match. intros H. apply orb_true_iff in H as [H|H];
  [apply tail_match_contains in H|apply own_scan_contains_dsuf in H]; exact H.
Qed.

(* ------------------------------------------------------------------------------------ *)
(* F. unreadable wheels are errors; a distribution only ever comes from a declared METADATA *)

Lemma namelist_reversed_pinned : c11_namelist_reversed = true.
Proof. reflexivity. Qed.

Lemma psplit_nonempty c s : exists h t, psplit c s = h :: t.
Proof.
  induction s as [|d s (h & t & IH)]; cbn [psplit]; [eauto|].
  destruct (Ascii.eqb d c); [eauto|]. rewrite IH. eauto.
Qed.
(* the project name is always defined (first '-'-separated piece of the file name) *)
Lemma project_of_total basename : exists p, project_of basename = Some p.
Proof.
  unfold project_of. change c11_project_idx with 0.
  destruct (psplit_nonempty c11_project_sep basename) as (h & t & ->). exists h. reflexivity.
Qed.

Lemma fetch_unfold basename es p :
  project_of basename = Some p ->
  fetch_from_wheel basename (Zip es) =
  match find3 p (rev (map fst es)) with
  | Found entry => match read_last entry es with
                   | Some (Content text) => FetchFlat (parse_flat text)
                   | Some BadMember => FetchNone
                   | None => FetchUnmodelled
                   end
  | NotFound => FetchNone
  | RegexUnmodelled => FetchUnmodelled
  end.
Proof.
  intros Hp. unfold fetch_from_wheel. rewrite Hp, namelist_reversed_pinned.
  rewrite find_dist_info_eq. reflexivity.
Qed.

Lemma find3_none p l :
  (forall n, In n l -> containsb dsuf n = false) -> find3 p l = NotFound.
Proof.
  intros H. unfold find3.
  destruct (List.find (root_match p) l) as [x|] eqn:F0.
  { apply List.find_some in F0 as [Hin Hm]. apply root_match_contains in Hm.
    rewrite (H x Hin) in Hm. discriminate. }
  destruct (List.find (own_match p) l) as [x|] eqn:F.
  - apply List.find_some in F as [Hin Hm]. apply own_match_contains in Hm.
    rewrite (H x Hin) in Hm. discriminate.
  - destruct (List.find any_match l) as [x|] eqn:F2; [|reflexivity].
    apply List.find_some in F2 as [Hin Hm]. apply any_match_contains in Hm.
    rewrite (H x Hin) in Hm. discriminate.
Qed.

(* the four ways a wheel has no readable metadata *)
Inductive unreadable (basename : string) : archive -> Prop :=
  | U_not_zip : unreadable basename NotZip                                  (* corrupt / not a zip *)
  | U_no_metadata es :                                                      (* no .dist-info/METADATA member *)
      (forall n, In n (map fst es) -> containsb dsuf n = false) -> unreadable basename (Zip es)
  | U_bad_member es p entry :                                               (* the chosen member cannot be read *)
      project_of basename = Some p -> find_dist_info p (rev (map fst es)) = Found entry ->
      read_last entry es = Some BadMember -> unreadable basename (Zip es)
  | U_no_name es p entry text v :                                           (* the chosen METADATA declares no Name *)
      project_of basename = Some p -> find_dist_info p (rev (map fst es)) = Found entry ->
      read_last entry es = Some (Content text) -> parse_flat text = FlatErr (MissingName v) ->
      unreadable basename (Zip es).

Theorem unreadable_is_error vok rok basename a :
  unreadable basename a ->
  extract_whl vok rok basename a = Err MetadataError \/
  extract_whl vok rok basename a = Err InvalidVersion.
Proof.
  destruct (project_of_total basename) as [p Hp].
  intros U. unfold extract_whl. destruct U as [|es Hn|es p' entry Hp' Hf Hr|es p' entry text v Hp' Hf Hr Hpf].
  - left. reflexivity.
  - left. rewrite (fetch_unfold _ _ _ Hp).
    rewrite (find3_none p (rev (map fst es))); [reflexivity|].
    intros n Hin. apply Hn. apply in_rev in Hin. exact Hin.
  - left. rewrite Hp in Hp'. inversion Hp'; subst p'.
    rewrite find_dist_info_eq in Hf.
    rewrite (fetch_unfold _ _ _ Hp), Hf, Hr. reflexivity.
  - rewrite Hp in Hp'. inversion Hp'; subst p'.
    rewrite find_dist_info_eq in Hf.
    rewrite (fetch_unfold _ _ _ Hp), Hf, Hr, Hpf. unfold outcome.
    destruct v as [v|]; [|left; reflexivity].
    destruct (vok v); [left|right]; reflexivity.
Qed.

Example unreadable_nonvacuous :
  unreadable "foo-1.0-py3-none-any.whl" (Zip [("foo/__init__.py", Content "x"); ("foo-1.0.dist-info/RECORD", Content "")]) /\
  unreadable "foo-1.0-py3-none-any.whl"
    (Zip [("foo-1.0.dist-info/METADATA", Content ("Version: 1.0" ++ String nl ("Requires-Dist: x" ++ String nl "")))]).
Proof.
  split.
  - apply U_no_metadata. cbn [map fst In]. intros n [<-|[<-|[]]]; reflexivity.
  - eapply U_no_name; vm_compute; reflexivity.
Qed.
(* converse: a distribution is only ever produced from the text of a member the finder chose,
   with exactly the requirement texts post_reqs keeps; in particular an empty requirement list
   means the METADATA that was read declares none that survive *)
Theorem ok_only_from_declared vok rok basename a n v rs :
  extract_whl vok rok basename a = Ok (n, v, rs) ->
  exists es p entry text raw,
    a = Zip es /\ project_of basename = Some p /\
    find_dist_info p (rev (map fst es)) = Found entry /\
    read_last entry es = Some (Content text) /\
    parse_flat text = FlatOk n v raw /\ rs = post_reqs raw /\
    (match v with Some v' => vok v' = true | None => True end) /\ forallb rok rs = true.
Proof.
  unfold extract_whl, fetch_from_wheel. destruct a as [|es]; [discriminate|].
  destruct (project_of basename) as [p|]; [|discriminate].
  rewrite namelist_reversed_pinned.
  destruct (find_dist_info p (rev (map fst es))) as [entry| |] eqn:F; try discriminate.
  destruct (read_last entry es) as [[text|]|] eqn:R; try discriminate.
  unfold outcome. destruct (parse_flat text) as [n' v' raw|[v'|]] eqn:P.
  - destruct v' as [v'|].
    + destruct (vok v') eqn:V; cbn [negb]; [|discriminate].
      destruct (forallb rok (post_reqs raw)) eqn:Rk; [|discriminate].
      intros H; inversion H; subst. exists es, p, entry, text, raw. repeat split; assumption.
    + destruct (forallb rok (post_reqs raw)) eqn:Rk; [|discriminate].
      intros H; inversion H; subst. exists es, p, entry, text, raw. repeat split; assumption.
  - destruct v' as [v'|]; [destruct (vok v')|]; discriminate.
  - discriminate.
Qed.

(* the loop never takes the IndexError exit: a matching prefix guarantees a ':' in the line *)
Lemma prefix_has_colon l p :
  prefixb (p ++ String colon "") (lower l) = true -> exists n w, l = n ++ String colon w /\ noc colon n = true.
Proof.
  revert l; induction p as [|c p IH]; intros l; cbn [append prefixb].
  - destruct l as [|d l]; cbn [lower smap prefixb]; [discriminate|].
    intros H. apply andb_true_iff in H as [H _]. rewrite Ascii.eqb_sym, lower_ascii_colon in H.
    apply Ascii.eqb_eq in H; subst d. exists "", l. split; reflexivity.
  - destruct l as [|d l]; cbn [lower smap prefixb]; [discriminate|].
    intros H. apply andb_true_iff in H as [_ H]. fold (lower l) in H.
    destruct (Ascii.eqb d colon) eqn:E.
    + apply Ascii.eqb_eq in E; subst d. exists "", l. split; reflexivity.
    + destruct (IH l H) as (n & w & -> & Hn). exists (String d n), w. split; [reflexivity|].
      unfold noc in *. cbn [all_chars]. rewrite E. exact Hn.
Qed.


Lemma apply_branch_ok s n w b :
  noc colon n = true -> (b = br_name \/ b = br_version \/ b = br_req) ->
  p_index_error (apply_branch s (n ++ String colon w) b) = p_index_error s.
Proof.
  intros Hn Hb. unfold apply_branch.
  destruct Hb as [->|[->| ->]]; cbn [b_extr br_name br_version br_req run_extr b_target b_strip];
  rewrite ppartition_app by exact Hn; reflexivity.
Qed.

Lemma p_step_no_index_error s l : p_index_error s = false -> p_index_error (p_step s l) = false.
Proof.
  intros Hi. rewrite p_step_unfold, Hi.
  change "name:" with ("name" ++ String colon "").
  change "version:" with ("version" ++ String colon "").
  change "requires-dist:" with ("requires-dist" ++ String colon "").
  unfold startswith.
  destruct (none_b (p_name s) && prefixb ("name" ++ String colon "") (lower l)) eqn:E1.
  - apply andb_true_iff in E1 as [_ E1]. destruct (prefix_has_colon _ _ E1) as (n & w & -> & Hn).
    rewrite apply_branch_ok; auto.
  - destruct (none_b (p_version s) && prefixb ("version" ++ String colon "") (lower l)) eqn:E2.
    + apply andb_true_iff in E2 as [_ E2]. destruct (prefix_has_colon _ _ E2) as (n & w & -> & Hn).
      rewrite apply_branch_ok; auto.
    + destruct (prefixb ("requires-dist" ++ String colon "") (lower l)) eqn:E3; [|exact Hi].
      destruct (prefix_has_colon _ _ E3) as (n & w & -> & Hn). rewrite apply_branch_ok; auto.
Qed.

Theorem parse_never_index_error t : parse_flat t <> FlatErr FlatIndexError.
Proof.
  unfold parse_flat, finish.
  assert (H : p_index_error (parse_loop t) = false).
  { unfold parse_loop. generalize (unfold_lines (psplit c11_line_sep t)) as ls.
    assert (G : forall ls s, p_index_error s = false -> p_index_error (fold_left p_step ls s) = false).
    { induction ls as [|l ls IH]; intros s Hs; [exact Hs|]. cbn [fold_left]. apply IH.
      apply p_step_no_index_error. exact Hs. }
    intros ls. apply G. reflexivity. }
  rewrite H. destruct (p_name (parse_loop t)); discriminate.
Qed.

(* ------------------------------------------------------------------------------------ *)
(* G. the requirement texts handed to Requirement.parse *)

(* a Requires-Dist value that utils.parse_requirements passes on unchanged *)
Definition plain_req (r : string) : bool :=
  String.eqb (py_strip r) r && String.eqb (py_rstrip_chars c11_req_rstrip_chars r) r && req_kept r.

Definition C11_reqs_full_statement : Prop := forall raw, post_reqs raw = raw.

(* proved part; missing: values that are empty, start with '#' or '--', or end in a backslash
   (they are silently dropped / shortened instead of being refused) *)
Theorem reqs_intact_partial raw : forallb plain_req raw = true -> post_reqs raw = raw.
Proof.
  unfold post_reqs. induction raw as [|r raw IH]; [reflexivity|].
  cbn [forallb map]. intros H. apply andb_true_iff in H as [Hr H].
  unfold plain_req in Hr. apply andb_true_iff in Hr as [Hr Hk]. apply andb_true_iff in Hr as [Hs Hb].
  apply String.eqb_eq in Hs, Hb.
  assert (Ec : req_clean r = r) by (unfold req_clean; rewrite Hs; exact Hb).
  rewrite Ec. cbn [filter]. rewrite Hk. cbn [map]. rewrite Hs, (IH H). reflexivity.
Qed.

Example reqs_intact_nonvacuous :
  forallb plain_req ["requests[security] (>=2.0) ; extra == 'net'"; "pkg @ https://example.org/p:8080/pkg.whl"; "six"] = true.
Proof. vm_compute. reflexivity. Qed.

Theorem reqs_refuted_dropped :
  post_reqs ["six"; "# not a requirement"; "--option"; "six \"; ""] = ["six"; "six"].
Proof. vm_compute. reflexivity. Qed.
Corollary reqs_full_statement_false : ~ C11_reqs_full_statement.
Proof. intros H. pose proof (H ["# not a requirement"]) as E. vm_compute in E. discriminate. Qed.


(* ------------------------------------------------------------------------------------ *)
(* T1 obligations gathered: what the theorems above assume about the generated shapes *)
Theorem source_shape_pinned :
  c11_branches = [br_name; br_version; br_req] /\ c11_line_sep = nl /\
  c11_cont_chars = [" "%char; ascii_of_nat 9] /\ c11_unfold_rstrip = String cr "" /\
  c11_regexes = [(regex_root_text, true); (regex_own_text, true); (regex_any_text, false)] /\
  c11_project_sep = "-"%char /\ c11_project_idx = 0 /\ c11_namelist_reversed = true /\
  c11_decode_args = ["utf-8"; "ignore"] /\ c11_fetch_handlers = ["zipfile.BadZipfile"] /\
  c11_whl_ext = ".whl" /\ c11_ext_lowered = true /\
  c11_req_rstrip_chars = "\" /\ c11_req_comment_char = "#" /\ c11_req_skip_prefix = "--".
Proof. repeat split; reflexivity. Qed.

(* ------------------------------------------------------------------------------------ *)
(* H. end to end: the statement of the property on a whole wheel, inside the guards *)

Definition C11_wheel_full_statement : Prop :=
  forall vok rok basename p v es text,
    project_of basename = Some p -> v <> "" -> no_slash v = true ->
    In (own_entry p v) (map fst es) -> read_last (own_entry p v) es = Some (Content text) ->
    extract_whl vok rok basename (Zip es) = outcome vok rok (select_fields (rfc822_fields text)).

Theorem wheel_end_to_end_partial vok rok basename p v es text :
  project_of basename = Some p -> v <> "" -> no_slash v = true ->
  In (own_entry p v) (map fst es) ->
  (forall e, In e (map fst es) -> e <> own_entry p v -> root_match p e = false) ->
  read_last (own_entry p v) es = Some (Content text) ->
  body_harmless text = true ->
  extract_whl vok rok basename (Zip es) = outcome vok rok (select_fields (rfc822_fields text)).
Proof.
  intros Hp Hv Hn Hin Hoth Hr Gb.
  unfold extract_whl, fetch_from_wheel. rewrite Hp, namelist_reversed_pinned.
  rewrite (dist_info_own p v (map fst es) Hv Hn Hin Hoth), Hr.
  rewrite (headers_partial text Gb). reflexivity.
Qed.

Example wheel_end_to_end_nonvacuous :
  let es := [("demo/__init__.py", Content "x"); ("demo/_vendor/demo-0.1.dist-info/METADATA", Content "Name: vendored");
             ("demo-1.0.dist-info/METADATA", Content ex_text); ("demo-1.0.dist-info/RECORD", Content "");
             ("demo-1.0.data/purelib/six-1.16.0.dist-info/METADATA", Content "Name: six")] in
  extract_whl (fun _ => true) (fun _ => true) "demo-1.0-py3-none-any.whl" (Zip es) =
  Ok ("demo", Some "1.0", ["requests[security]  (>=2.0) ; extra == 'net'"; "pkg @ https://example.org/p:8080/pkg.whl"]).
Proof. vm_compute. reflexivity. Qed.

(* ------------------------------------------------------------------------------------ *)
(* I. str.strip is idempotent, hence every value parse_flat returns is already stripped *)

Definition all_cont (s : string) : bool := all_chars is_contb s.
(* a code-point group: one byte followed by continuation bytes only *)
Definition group_ok (g : string) : bool :=
  match g with EmptyString => false | String _ r => all_cont r end.
(* groups after the first start with a non-continuation byte *)
Fixpoint tail_ok (gs : list string) : bool :=
  match gs with [] => true | g :: gs' => group_ok g && negb (head_is_cont g) && tail_ok gs' end.
Definition wfg (gs : list string) : bool :=
  match gs with [] => true | g :: gs' => group_ok g && tail_ok gs' end.

Lemma tail_ok_wfg gs : tail_ok gs = true -> wfg gs = true.
Proof.
  destruct gs as [|g gs]; [reflexivity|]. cbn [tail_ok wfg]. intros H.
  apply andb_true_iff in H as [H Ht]. apply andb_true_iff in H as [Hg _]. rewrite Hg, Ht. reflexivity.
Qed.

Lemma chars_wfg s : wfg (chars s) = true.
Proof.
  induction s as [|c s IH]; [reflexivity|]. cbn [chars].
  destruct (chars s) as [|g gs]; [reflexivity|].
  destruct (head_is_cont g) eqn:E.
  - cbn [wfg group_ok] in *. apply andb_true_iff in IH as [Hg Ht]. rewrite Ht.
    destruct g as [|d r]; [discriminate|]. cbn [group_ok] in Hg. cbn [head_is_cont] in E.
    unfold all_cont. cbn [all_chars]. rewrite E. fold (all_cont r). rewrite Hg. reflexivity.
  - cbn [wfg group_ok all_cont all_chars tail_ok] in *. apply andb_true_iff in IH as [Hg Ht].
    rewrite Hg, E, Ht. reflexivity.
Qed.

(* prepending continuation bytes / a lead byte to an already chunked string *)
Lemma chars_cont_prefix r : all_cont r = true -> forall rest,
  (match chars rest with g :: _ => head_is_cont g = false | [] => True end) ->
  chars (r ++ rest) = match r with EmptyString => chars rest | _ => r :: chars rest end.
Proof.
  induction r as [|d r IH]; intros Hr rest Hrest; [reflexivity|].
  unfold all_cont in Hr. cbn [all_chars] in Hr. apply andb_true_iff in Hr as [Hd Hr].
  cbn [append chars]. rewrite (IH Hr rest Hrest).
  destruct r as [|e r].
  - destruct (chars rest) as [|g gs]; [reflexivity|]. rewrite Hrest. reflexivity.
  - cbn [all_chars] in Hr. apply andb_true_iff in Hr as [He _]. cbn [head_is_cont]. rewrite He. reflexivity.
Qed.

Lemma chars_sconcat_tail gs : tail_ok gs = true -> chars (sconcat gs) = gs.
Proof.
  induction gs as [|g gs IH]; [reflexivity|]. cbn [tail_ok sconcat]. intros H.
  apply andb_true_iff in H as [H Ht]. apply andb_true_iff in H as [Hg Hh]. apply negb_true_iff in Hh.
  destruct g as [|c r]; [discriminate|]. cbn [group_ok] in Hg. cbn [head_is_cont] in Hh.
  cbn [append chars].
  assert (Hrest : match chars (sconcat gs) with g :: _ => head_is_cont g = false | [] => True end).
  { rewrite (IH Ht). destruct gs as [|g' gs']; [exact I|]. cbn [tail_ok] in Ht.
    apply andb_true_iff in Ht as [Ht _]. apply andb_true_iff in Ht as [_ Ht]. apply negb_true_iff in Ht. exact Ht. }
  rewrite (chars_cont_prefix r Hg _ Hrest), (IH Ht).
  destruct r as [|e r].
  - destruct gs as [|g' gs']; [reflexivity|]. cbn [tail_ok] in Ht.
    apply andb_true_iff in Ht as [Ht _]. apply andb_true_iff in Ht as [_ Ht]. apply negb_true_iff in Ht.
    rewrite Ht. reflexivity.
  - unfold all_cont in Hg. cbn [all_chars] in Hg. apply andb_true_iff in Hg as [He _].
    cbn [head_is_cont]. rewrite He. reflexivity.
Qed.

Lemma chars_sconcat gs : wfg gs = true -> chars (sconcat gs) = gs.
Proof.
  destruct gs as [|g gs]; [reflexivity|]. cbn [wfg sconcat]. intros H.
  apply andb_true_iff in H as [Hg Ht]. destruct g as [|c r]; [discriminate|]. cbn [group_ok] in Hg.
  cbn [append chars].
  assert (Hrest : match chars (sconcat gs) with g :: _ => head_is_cont g = false | [] => True end).
  { rewrite (chars_sconcat_tail gs Ht). destruct gs as [|g' gs']; [exact I|]. cbn [tail_ok] in Ht.
    apply andb_true_iff in Ht as [Ht _]. apply andb_true_iff in Ht as [_ Ht]. apply negb_true_iff in Ht. exact Ht. }
  rewrite (chars_cont_prefix r Hg _ Hrest), (chars_sconcat_tail gs Ht).
  destruct r as [|e r].
  - destruct gs as [|g' gs']; [reflexivity|]. cbn [tail_ok] in Ht.
    apply andb_true_iff in Ht as [Ht _]. apply andb_true_iff in Ht as [_ Ht]. apply negb_true_iff in Ht.
    rewrite Ht. reflexivity.
  - unfold all_cont in Hg. cbn [all_chars] in Hg. apply andb_true_iff in Hg as [He _].
    cbn [head_is_cont]. rewrite He. reflexivity.
Qed.

Lemma wfg_tail g gs : wfg (g :: gs) = true -> tail_ok gs = true.
Proof. cbn [wfg]. intros H. apply andb_true_iff in H as [_ H]. exact H. Qed.

Lemma dropwhile_wfg p gs : wfg gs = true -> wfg (dropwhile p gs) = true.
Proof.
  intros H. destruct gs as [|g gs]; [reflexivity|]. cbn [dropwhile].
  destruct (p g); [|exact H]. apply tail_ok_wfg.
  apply wfg_tail in H. clear g. induction gs as [|g gs IH]; [reflexivity|]. cbn [dropwhile].
  destruct (p g); [|exact H]. apply IH. cbn [tail_ok] in H. apply andb_true_iff in H as [_ H]. exact H.
Qed.

Lemma rstripl_tail_ok p gs : tail_ok gs = true -> tail_ok (rstripl p gs) = true.
Proof.
  induction gs as [|g gs IH]; [reflexivity|]. cbn [tail_ok rstripl]. intros H.
  apply andb_true_iff in H as [Hg Ht]. specialize (IH Ht).
  destruct (rstripl p gs) as [|r rs].
  - destruct (p g); [reflexivity|]. cbn [tail_ok]. rewrite Hg. reflexivity.
  - cbn [tail_ok] in *. rewrite Hg, IH. reflexivity.
Qed.
Lemma rstripl_wfg p gs : wfg gs = true -> wfg (rstripl p gs) = true.
Proof.
  destruct gs as [|g gs]; [reflexivity|]. cbn [wfg rstripl]. intros H.
  apply andb_true_iff in H as [Hg Ht]. pose proof (rstripl_tail_ok p gs Ht) as Hr.
  destruct (rstripl p gs) as [|r rs].
  - destruct (p g); [reflexivity|]. cbn [wfg]. rewrite Hg. reflexivity.
  - cbn [wfg]. rewrite Hg, Hr. reflexivity.
Qed.

Lemma rstripl_idem {A} (p : A -> bool) l : rstripl p (rstripl p l) = rstripl p l.
Proof.
  induction l as [|x l IH]; [reflexivity|]. cbn [rstripl].
  destruct (rstripl p l) as [|r rs] eqn:E.
  - destruct (p x) eqn:Ex; [reflexivity|]. cbn [rstripl]. rewrite Ex. reflexivity.
  - cbn [rstripl]. cbn [rstripl] in IH. rewrite IH. reflexivity.
Qed.
Lemma dropwhile_idem {A} (p : A -> bool) l : dropwhile p (dropwhile p l) = dropwhile p l.
Proof.
  induction l as [|x l IH]; [reflexivity|]. cbn [dropwhile]. destruct (p x) eqn:E; [exact IH|].
  cbn [dropwhile]. rewrite E. reflexivity.
Qed.
(* dropping a prefix keeps a right-clean list right-clean *)
Lemma rclean_dropwhile {A} (p : A -> bool) l :
  rstripl p l = l -> rstripl p (dropwhile p l) = dropwhile p l.
Proof.
  induction l as [|x l IH]; [reflexivity|]. cbn [dropwhile]. intros H.
  destruct (p x) eqn:E; [|exact H]. apply IH.
  cbn [rstripl] in H. destruct (rstripl p l) as [|r rs].
  - rewrite E in H. discriminate.
  - inversion H. reflexivity.
Qed.

Theorem py_strip_idem s : py_strip (py_strip s) = py_strip s.
Proof.
  unfold py_strip.
  set (gs := dropwhile is_ws_cp (rstripl is_ws_cp (chars s))).
  assert (W : wfg gs = true) by (apply dropwhile_wfg, rstripl_wfg, chars_wfg).
  rewrite (chars_sconcat gs W). unfold gs.
  rewrite rclean_dropwhile by apply rstripl_idem. rewrite dropwhile_idem. reflexivity.
Qed.

(* every Requires-Dist text the parser produces is stripped *)
Lemma apply_branch_stripped s l b :
  b_strip b = true -> Forall (fun r => py_strip r = r) (p_reqs s) ->
  Forall (fun r => py_strip r = r) (p_reqs (apply_branch s l b)).
Proof.
  intros Hb H. unfold apply_branch. destruct (run_extr (b_extr b) l); [|exact H].
  rewrite Hb. destruct (b_target b); cbn [p_reqs]; try exact H.
  apply Forall_app. split; [exact H|]. constructor; [apply py_strip_idem|constructor].
Qed.
Lemma p_step_stripped s l :
  Forall (fun r => py_strip r = r) (p_reqs s) -> Forall (fun r => py_strip r = r) (p_reqs (p_step s l)).
Proof.
  intros H. rewrite p_step_unfold. destruct (p_index_error s); [exact H|].
  destruct (none_b (p_name s) && _); [apply apply_branch_stripped; [reflexivity|exact H]|].
  destruct (none_b (p_version s) && _); [apply apply_branch_stripped; [reflexivity|exact H]|].
  destruct (startswith _ _); [apply apply_branch_stripped; [reflexivity|exact H]|exact H].
Qed.
Theorem parse_flat_reqs_stripped t n v raw :
  parse_flat t = FlatOk n v raw -> Forall (fun r => py_strip r = r) raw.
Proof.
  unfold parse_flat, finish.
  assert (H : Forall (fun r => py_strip r = r) (p_reqs (parse_loop t))).
  { unfold parse_loop. generalize (unfold_lines (psplit c11_line_sep t)) as ls.
    assert (G : forall ls s, Forall (fun r => py_strip r = r) (p_reqs s) ->
                             Forall (fun r => py_strip r = r) (p_reqs (fold_left p_step ls s))).
    { induction ls as [|l ls IH]; intros s Hs; [exact Hs|]. cbn [fold_left]. apply IH, p_step_stripped, Hs. }
    intros ls. apply G. constructor. }
  destruct (p_index_error (parse_loop t)); [discriminate|].
  destruct (p_name (parse_loop t)); [|discriminate]. intros E; inversion E; subst. exact H.
Qed.

(* so, for the values the parser itself produced, "plain" needs no strip condition *)
Definition plain_value (r : string) : bool :=
  String.eqb (py_rstrip_chars c11_req_rstrip_chars r) r && req_kept r.
Theorem reqs_intact_parsed t n v raw :
  parse_flat t = FlatOk n v raw -> forallb plain_value raw = true -> post_reqs raw = raw.
Proof.
  intros P H. apply reqs_intact_partial. pose proof (parse_flat_reqs_stripped t n v raw P) as S.
  clear P. induction raw as [|r raw IH]; [reflexivity|].
  cbn [forallb] in *. apply andb_true_iff in H as [Hr H]. inversion S as [|? ? Sr S']; subst.
  rewrite (IH H S'), andb_true_r. unfold plain_req. unfold plain_value in Hr.
  apply andb_true_iff in Hr as [Hb Hk]. rewrite Sr, String.eqb_refl, Hb, Hk. reflexivity.
Qed.


(* ------------------------------------------------------------------------------------ *)
(* K. sanity of the specification: a METADATA written out from a list of fields is read back
   as those fields, and (with L below) the code returns exactly the declared ones *)

Definition field_line (f : string * string) : string := fst f ++ ": " ++ snd f.
Fixpoint render_lines (ls : list string) (rest : string) : string :=
  match ls with [] => rest | l :: ls' => l ++ String nl (render_lines ls' rest) end.
(* header block, empty line, body *)
Definition render (fs : list (string * string)) (body : string) : string :=
  render_lines (map field_line fs) (String nl body).

(* a field as a writer emits it: RFC 822 field name; one-line value that is already stripped *)
Definition wf_field (f : string * string) : bool :=
  let (n, v) := f in
  negb (String.eqb n "") && all_chars ftext n && no_newline v
  && String.eqb (py_strip (" " ++ v)) v && String.eqb (chomp_cr (field_line f)) (field_line f).

Lemma ftext_noc n : all_chars ftext n = true -> noc colon n = true.
Proof.
  unfold noc. induction n as [|c n IH]; [reflexivity|]. cbn [all_chars]. intros H.
  apply andb_true_iff in H as [Hc Hn]. rewrite (IH Hn), andb_true_r.
  unfold ftext in Hc. apply andb_true_iff in Hc as [_ Hc]. exact Hc.
Qed.
Lemma ftext_not_lwsp c : ftext c = true -> is_lwsp c = false.
Proof. destruct c as [[] [] [] [] [] [] [] []]; cbn; intros H; try discriminate H; reflexivity. Qed.
Lemma ftext_not_nl c : ftext c = true -> negb (Ascii.eqb c nl) = true.
Proof. destruct c as [[] [] [] [] [] [] [] []]; cbn; intros H; try discriminate H; reflexivity. Qed.
Lemma ftext_no_newline n : all_chars ftext n = true -> noc nl n = true.
Proof.
  unfold noc. induction n as [|c n IH]; [reflexivity|]. cbn [all_chars]. intros H.
  apply andb_true_iff in H as [Hc Hn]. rewrite (IH Hn), (ftext_not_nl c Hc). reflexivity.
Qed.

Lemma wf_field_line n v : wf_field (n, v) = true ->
  noc nl (field_line (n, v)) = true /\ chomp_cr (field_line (n, v)) = field_line (n, v) /\
  is_cont_line (field_line (n, v)) = false /\ field_split (field_line (n, v)) = Some (n, " " ++ v) /\
  py_strip (" " ++ v) = v /\ field_line (n, v) <> "".
Proof.
  unfold wf_field. intros H. apply andb_true_iff in H as [H Hch]. apply andb_true_iff in H as [H Hs].
  apply andb_true_iff in H as [H Hv]. apply andb_true_iff in H as [Hne Hn].
  apply String.eqb_eq in Hch, Hs. apply negb_true_iff in Hne. apply String.eqb_neq in Hne.
  destruct n as [|c n]; [contradiction|].
  assert (Hc : ftext c = true) by (cbn [all_chars] in Hn; apply andb_true_iff in Hn as [Hc _]; exact Hc).
  repeat split.
  - unfold field_line. cbn [fst snd]. rewrite !noc_app, (ftext_no_newline _ Hn). exact Hv.
  - exact Hch.
  - unfold field_line. cbn [fst snd append is_cont_line]. apply ftext_not_lwsp. exact Hc.
  - unfold field_split, field_line. cbn [fst snd].
    change (String c n ++ ": " ++ v) with (String c n ++ String colon (" " ++ v)).
    rewrite (ppartition_app colon _ _ (ftext_noc _ Hn)). rewrite Hn. reflexivity.
  - exact Hs.
  - discriminate.
Qed.

Lemma text_lines_render ls rest :
  forallb (noc nl) ls = true -> text_lines (render_lines ls rest) = (ls ++ text_lines rest)%list.
Proof.
  induction ls as [|l ls IH]; [reflexivity|]. cbn [forallb render_lines app]. intros H.
  apply andb_true_iff in H as [Hl H]. unfold text_lines. rewrite (psplit_app nl l _ Hl).
  f_equal. apply IH. exact H.
Qed.

Lemma span_hdr_fields fs rest :
  forallb wf_field fs = true ->
  span_hdr (map field_line fs ++ "" :: rest)%list = (map field_line fs, "" :: rest).
Proof.
  induction fs as [|[n v] fs IH]; [reflexivity|]. cbn [forallb map app span_hdr]. intros H.
  apply andb_true_iff in H as [Hf H].
  destruct (wf_field_line n v Hf) as (_ & Hch & Hcont & Hsplit & _ & Hne).
  rewrite Hch. unfold hdr_line. rewrite Hcont, Hsplit.
  destruct (field_line (n, v)) eqn:E; [contradiction|]. rewrite (IH H). reflexivity.
Qed.

Definition norm_field (f : string * string) : string * string := (lower (fst f), snd f).

Lemma fields_of_fields fs : forall cur,
  forallb wf_field fs = true ->
  fields_of (map field_line fs) cur = (flush cur ++ map norm_field fs)%list.
Proof.
  induction fs as [|[n v] fs IH]; intros cur H.
  - cbn [map fields_of]. rewrite app_nil_r. reflexivity.
  - cbn [forallb map] in *. apply andb_true_iff in H as [Hf H].
    destruct (wf_field_line n v Hf) as (_ & Hch & Hcont & Hsplit & Hs & _).
    cbn [fields_of]. rewrite Hch, Hcont, Hsplit. rewrite (IH _ H).
    cbn [flush]. rewrite Hs. reflexivity.
Qed.

Theorem spec_reads_rendered fs body :
  forallb wf_field fs = true -> rfc822_fields (render fs body) = map norm_field fs.
Proof.
  intros H. unfold rfc822_fields, header_lines, render.
  assert (Hl : forallb (noc nl) (map field_line fs) = true).
  { clear body. induction fs as [|[n v] fs IH]; [reflexivity|]. cbn [forallb map] in *.
    apply andb_true_iff in H as [Hf H]. rewrite (proj1 (wf_field_line n v Hf)), (IH H). reflexivity. }
  rewrite (text_lines_render _ _ Hl).
  change (text_lines (String nl body)) with ("" :: text_lines body).
  rewrite (span_hdr_fields fs _ H). cbn [fst]. rewrite (fields_of_fields fs None H). reflexivity.
Qed.


(* L. ... and the code reads back exactly what was declared, whatever harmless body follows:
   hypotheses only on what the writer emitted (folded values and ':' inside values are fine: the
   value of a field may be any one-line text) *)
Definition body_ok (fs : list (string * string)) (body : string) : bool :=
  forallb (fun l =>
    let ll := lower l in
    negb (startswith ll "requires-dist:")
    && (has_field "name" (map norm_field fs) || negb (startswith ll "name:"))
    && (has_field "version" (map norm_field fs) || negb (startswith ll "version:")))
    (unfold_lines ("" :: text_lines body)).

Theorem rendered_metadata_read_back fs body :
  forallb wf_field fs = true -> body_ok fs body = true ->
  parse_flat (render fs body) = select_fields (map norm_field fs).
Proof.
  intros Hw Hb. rewrite <- (spec_reads_rendered fs body Hw).
  assert (Hl : forallb (noc nl) (map field_line fs) = true).
  { clear - Hw. induction fs as [|[n v] fs IH]; [reflexivity|]. cbn [forallb map] in *.
    apply andb_true_iff in Hw as [Hf H]. rewrite (proj1 (wf_field_line n v Hf)), (IH H). reflexivity. }
  assert (Hspan : span_hdr (text_lines (render fs body)) = (map field_line fs, "" :: text_lines body)).
  { unfold render. rewrite (text_lines_render _ _ Hl).
    change (text_lines (String nl body)) with ("" :: text_lines body). apply span_hdr_fields. exact Hw. }
  apply headers_partial.
  unfold body_harmless, body_lines. rewrite Hspan. cbn [snd].
  rewrite (spec_reads_rendered fs body Hw). exact Hb.
Qed.

Definition ex_fields : list (string * string) :=
  [("Metadata-Version", "2.1"); ("Name", "demo:colon"); ("VERSION", "1.0"); ("Summary", "a: b");
   ("Requires-Dist", "requests[security] (>=2.0) ; extra == 'net'"); ("requires-dist", "six")].
Example rendered_nonvacuous :
  forallb wf_field ex_fields = true /\
  body_ok ex_fields ("Usage" ++ String nl ("Version: see above" ++ String nl ("   Requires-Dist: indented" ++ String nl ""))) = true /\
  select_fields (map norm_field ex_fields) =
    FlatOk "demo:colon" (Some "1.0") ["requests[security] (>=2.0) ; extra == 'net'"; "six"].
Proof. vm_compute. repeat split. Qed.

(* ------------------------------------------------------------------------------------ *)
(* M. reads depend on the archive's content NOW, whatever was read or written before *)

Lemma run_ops_app vok rok ops1 : forall st ops2,
  run_ops vok rok st (ops1 ++ ops2)%list =
  (run_ops vok rok st ops1 ++ run_ops vok rok (fs_after st ops1) ops2)%list.
Proof.
  induction ops1 as [|o ops1 IH]; intros st ops2; [reflexivity|].
  destruct o as [p a|p]; cbn [app run_ops fs_after]; [apply IH|].
  rewrite IH. reflexivity.
Qed.
Lemma fs_after_app ops1 : forall st ops2, fs_after st (ops1 ++ ops2)%list = fs_after (fs_after st ops1) ops2.
Proof.
  induction ops1 as [|o ops1 IH]; intros st ops2; [reflexivity|].
  destruct o as [p a|p]; cbn [app fs_after]; apply IH.
Qed.
Lemma lookup_after_no_write p mid : forall st,
  forallb (fun o => negb (writes_to p o)) mid = true ->
  lookup_file p (fs_after st mid) = lookup_file p st.
Proof.
  induction mid as [|o mid IH]; intros st H; [reflexivity|].
  cbn [forallb] in H. apply andb_true_iff in H as [Ho H].
  destruct o as [q a|q]; cbn [fs_after]; [|apply IH; exact H].
  rewrite (IH _ H). unfold lookup_file. cbn [List.find fst].
  cbn [writes_to] in Ho. apply negb_true_iff in Ho. rewrite Ho. reflexivity.
Qed.

(* the last read of [p] answers from the archive most recently written to [p] *)
Theorem read_sees_current_content vok rok st pre p a mid :
  forallb (fun o => negb (writes_to p o)) mid = true ->
  exists front,
    run_ops vok rok st (pre ++ WriteFile p a :: mid ++ [ReadWheel p])%list =
    (front ++ [Answer (extract_whl vok rok p a)])%list.
Proof.
  intros H.
  exists (run_ops vok rok st pre ++ run_ops vok rok ((p, a) :: fs_after st pre) mid)%list.
  rewrite run_ops_app. cbn [run_ops]. rewrite run_ops_app. cbn [run_ops].
  rewrite <- app_assoc. do 2 f_equal.
  unfold answer_now. rewrite (lookup_after_no_write p mid _ H).
  unfold lookup_file. cbn [List.find fst snd]. rewrite String.eqb_refl. reflexivity.
Qed.

(* two processes with different pasts but the same file at [p] now get the same answer *)
Theorem read_history_independent vok rok st1 st2 ops1 ops2 p :
  lookup_file p (fs_after st1 ops1) = lookup_file p (fs_after st2 ops2) ->
  run_ops vok rok (fs_after st1 ops1) [ReadWheel p] = run_ops vok rok (fs_after st2 ops2) [ReadWheel p].
Proof. intros H. cbn [run_ops]. unfold answer_now. rewrite H. reflexivity. Qed.

Example read_sequence_nonvacuous :
  let good v := Zip [("a-1.dist-info/METADATA", Content ("Name: a" ++ String nl ("Version: " ++ v ++ String nl "")))] in
  run_ops (fun _ => true) (fun _ => true) []
    [ReadWheel "a-1-py3-none-any.whl"; WriteFile "a-1-py3-none-any.whl" NotZip; ReadWheel "a-1-py3-none-any.whl";
     WriteFile "a-1-py3-none-any.whl" (good "1"); ReadWheel "a-1-py3-none-any.whl";
     WriteFile "a-1-py3-none-any.whl" (good "2"); ReadWheel "a-1-py3-none-any.whl"; ReadWheel "a-1-py3-none-any.whl"] =
  [NoSuchFile; Answer (Err MetadataError); Answer (Ok ("a", Some "1", [])); Answer (Ok ("a", Some "2", []));
   Answer (Ok ("a", Some "2", []))].
Proof. vm_compute. reflexivity. Qed.


(* C11 - proofs about model/WheelMetaC11.v.  Statements re-exported by props/C11.v. *)
From Coq Require Import List Bool String Ascii Arith Lia.
From RC Require Import lib.PyStr gen.WheelC11Consts model.WheelMetaC11.
Import ListNotations.
Open Scope string_scope.
Open Scope nat_scope.

(* ------------------------------------------------------------------------------------ *)
(* A. strings *)

Definition noc (c : ascii) (s : string) : bool := all_chars (fun d => negb (Ascii.eqb d c)) s.

Lemma app_assoc_s (a b c : string) : (a ++ b) ++ c = a ++ (b ++ c).
Proof. induction a as [|x a IH]; cbn; [reflexivity|now rewrite IH]. Qed.
Lemma app_nil_r_s (a : string) : a ++ "" = a.
Proof. induction a as [|x a IH]; cbn; [reflexivity|now rewrite IH]. Qed.

Lemma ppartition_found c s a b :
  ppartition c s = (a, true, b) -> s = a ++ String c b /\ noc c a = true.
Proof.
  revert a b; induction s as [|d s IH]; intros a b; cbn [ppartition].
  - discriminate.
  - destruct (Ascii.eqb d c) eqn:E.
    + intros H; inversion H; subst. apply Ascii.eqb_eq in E; subst. split; reflexivity.
    + destruct (ppartition c s) as [[a' f] b'] eqn:P. intros H; inversion H; subst.
      destruct (IH a' b eq_refl) as [-> N]. split; [reflexivity|].
      cbn. rewrite E. cbn. exact N.
Qed.

Lemma ppartition_app c a b : noc c a = true -> ppartition c (a ++ String c b) = (a, true, b).
Proof.
  induction a as [|d a IH]; cbn.
  - rewrite Ascii.eqb_refl. reflexivity.
  - intros H. apply andb_true_iff in H as [H1 H2]. apply negb_true_iff in H1. rewrite H1.
    rewrite (IH H2). reflexivity.
Qed.

Lemma psplit_noc c s : noc c s = true -> psplit c s = [s].
Proof.
  induction s as [|d s IH]; cbn; [reflexivity|].
  intros H. apply andb_true_iff in H as [H1 H2]. apply negb_true_iff in H1. rewrite H1.
  rewrite (IH H2). reflexivity.
Qed.

Lemma psplit_app c a b : noc c a = true -> psplit c (a ++ String c b) = a :: psplit c b.
Proof.
  induction a as [|d a IH]; cbn.
  - rewrite Ascii.eqb_refl. reflexivity.
  - intros H. apply andb_true_iff in H as [H1 H2]. apply negb_true_iff in H1. rewrite H1.
    rewrite (IH H2). reflexivity.
Qed.

Lemma noc_app c a b : noc c (a ++ b) = noc c a && noc c b.
Proof. unfold noc. induction a as [|d a IH]; cbn; [reflexivity|]. rewrite IH. now rewrite andb_assoc. Qed.

Lemma smap_app f a b : smap f (a ++ b) = smap f a ++ smap f b.
Proof. induction a as [|d a IH]; cbn; [reflexivity|now rewrite IH]. Qed.
Lemma lower_app a b : lower (a ++ b) = lower a ++ lower b.
Proof. apply smap_app. Qed.

Lemma lower_ascii_colon d : Ascii.eqb (lower_ascii d) colon = Ascii.eqb d colon.
Proof. destruct d as [[] [] [] [] [] [] [] []]; reflexivity. Qed.
Lemma noc_lower a : noc colon (lower a) = noc colon a.
Proof.
  unfold noc, lower. induction a as [|d a IH]; [reflexivity|].
  cbn [smap all_chars]. rewrite lower_ascii_colon, IH. reflexivity.
Qed.

(* prefixb (p ++ ":") (a ++ ":" ++ x) = (a =? p) when neither contains ':' *)
Lemma prefix_field p a x :
  noc colon p = true -> noc colon a = true ->
  prefixb (p ++ String colon "") (a ++ String colon x) = String.eqb a p.
Proof.
  unfold noc. revert a; induction p as [|c p IH]; intros a Hp Ha.
  - destruct a as [|d a]; cbn [append prefixb String.eqb].
    + rewrite Ascii.eqb_refl. reflexivity.
    + cbn [all_chars] in Ha. apply andb_true_iff in Ha as [H1 _]. apply negb_true_iff in H1.
      rewrite Ascii.eqb_sym, H1. reflexivity.
  - cbn [all_chars] in Hp. apply andb_true_iff in Hp as [Hc Hp]. apply negb_true_iff in Hc.
    destruct a as [|d a]; cbn [append prefixb String.eqb].
    + rewrite Hc. reflexivity.
    + cbn [all_chars] in Ha. apply andb_true_iff in Ha as [_ Ha].
      rewrite (IH a Hp Ha). rewrite (Ascii.eqb_sym c d). reflexivity.
Qed.

Lemma chomp_cr_spec s : s = chomp_cr s \/ s = chomp_cr s ++ String cr "".
Proof.
  induction s as [|c s IH]; [left; reflexivity|].
  destruct s as [|d s].
  - cbn [chomp_cr]. destruct (Ascii.eqb c cr) eqn:E; [right|left]; [|reflexivity].
    apply Ascii.eqb_eq in E; subst; reflexivity.
  - change (chomp_cr (String c (String d s))) with (String c (chomp_cr (String d s))).
    destruct IH as [IH|IH]; [left|right]; cbn [append]; rewrite <- IH; reflexivity.
Qed.

(* chars / py_strip and a trailing CR *)
Lemma chars_app_cr s : chars (s ++ String cr "") = (chars s ++ [String cr ""])%list.
Proof.
  induction s as [|c s IH]; [reflexivity|].
  cbn [append chars]. rewrite IH.
  destruct (chars s) as [|g gs]; [reflexivity|].
  cbn [app]. destruct (head_is_cont g); reflexivity.
Qed.

Lemma rstripl_snoc {A} (p : A -> bool) l x : p x = true -> rstripl p (l ++ [x])%list = rstripl p l.
Proof.
  intros Hx. induction l as [|y l IH]; cbn.
  - rewrite Hx. reflexivity.
  - rewrite IH. reflexivity.
Qed.

Lemma py_strip_cr s : py_strip (s ++ String cr "") = py_strip s.
Proof. unfold py_strip. rewrite chars_app_cr, rstripl_snoc; reflexivity. Qed.

Lemma py_strip_chomp l v : (l = v \/ l = v ++ String cr "") -> py_strip l = py_strip v.
Proof. intros [->| ->]; [reflexivity|apply py_strip_cr]. Qed.

(* ------------------------------------------------------------------------------------ *)
(* B. one iteration of the loop, on the shapes T1 generated *)

Definition br_name := mkBranch TName true "name:" (ExSplit colon 1) true.
Definition br_version := mkBranch TVersion true "version:" (ExSplit colon 1) true.
Definition br_req := mkBranch TReq false "requires-dist:" (ExPartition colon 2) true.

(* T1 obligation: the generated branch list is the one these proofs are about *)
Lemma branches_pinned : c11_branches = [br_name; br_version; br_req].
Proof. reflexivity. Qed.
Lemma line_sep_pinned : c11_line_sep = nl.
Proof. reflexivity. Qed.

Definition none_b {A} (o : option A) : bool := match o with None => true | Some _ => false end.

Lemma p_step_unfold s l :
  p_step s l =
  if p_index_error s then s else
  if none_b (p_name s) && startswith (lower l) "name:" then apply_branch s l br_name
  else if none_b (p_version s) && startswith (lower l) "version:" then apply_branch s l br_version
  else if startswith (lower l) "requires-dist:" then apply_branch s l br_req
  else s.
Proof.
  unfold p_step. rewrite branches_pinned. destruct (p_index_error s); [reflexivity|].
  cbn [run_chain]. unfold branch_fires. cbn [b_first_wins b_target b_prefix br_name br_version br_req].
  unfold none_b. destruct (p_name s), (p_version s); reflexivity.
Qed.

Lemma p_step_not_prefix s l : prefix_like l = false -> p_step s l = s.
Proof.
  unfold prefix_like. intros H. apply orb_false_iff in H as [H H3]. apply orb_false_iff in H as [H1 H2].
  rewrite p_step_unfold, H1, H2, H3, !andb_false_r. destruct (p_index_error s); reflexivity.
Qed.

Lemma startswith_field n w p :
  noc colon n = true -> noc colon p = true ->
  startswith (lower (n ++ String colon w)) (p ++ String colon "") = String.eqb (lower n) p.
Proof.
  intros Hn Hp. unfold startswith. rewrite lower_app.
  change (lower (String colon w)) with (String colon (lower w)).
  apply prefix_field; [exact Hp|]. rewrite noc_lower. exact Hn.
Qed.

Lemma noc_cr v : noc colon v = true -> noc colon (v ++ String cr "") = true.
Proof. intros H. rewrite noc_app, H. reflexivity. Qed.

Lemma p_step_field s n w v :
  p_index_error s = false -> noc colon n = true ->
  (w = v \/ w = v ++ String cr "") ->
  (String.eqb (lower n) "name" || String.eqb (lower n) "version" = true -> noc colon v = true) ->
  p_step s (n ++ String colon w) = sel_step s (lower n, py_strip v).
Proof.
  intros Hi Hn Hw Hc.
  assert (Hs : forall q, q = v \/ q = v ++ String cr "" -> noc colon v = true -> noc colon q = true).
  { intros q [->| ->] Hv; [exact Hv|apply noc_cr; exact Hv]. }
  rewrite p_step_unfold, Hi.
  change "name:" with ("name" ++ String colon "").
  change "version:" with ("version" ++ String colon "").
  change "requires-dist:" with ("requires-dist" ++ String colon "").
  rewrite !startswith_field by (exact Hn || reflexivity).
  unfold sel_step.
  destruct (String.eqb (lower n) "name") eqn:E1.
  - assert (Hv : noc colon v = true) by (apply Hc; reflexivity).
    apply String.eqb_eq in E1. rewrite E1. cbn [String.eqb Ascii.eqb Bool.eqb andb].
    destruct (p_name s); cbn [none_b andb]; [rewrite andb_false_r; reflexivity|].
    unfold apply_branch, br_name. cbn [b_extr b_strip b_target run_extr].
    rewrite psplit_app by exact Hn. rewrite (psplit_noc colon w) by (apply Hs; assumption).
    cbn [nth_error]. rewrite (py_strip_chomp w v Hw). reflexivity.
  - rewrite andb_false_r.
    destruct (String.eqb (lower n) "version") eqn:E2.
    + assert (Hv : noc colon v = true) by (apply Hc; reflexivity).
      destruct (p_version s); cbn [none_b andb].
      * apply String.eqb_eq in E2. rewrite E2. reflexivity.
      * unfold apply_branch, br_version. cbn [b_extr b_strip b_target run_extr].
        rewrite psplit_app by exact Hn. rewrite (psplit_noc colon w) by (apply Hs; assumption).
        cbn [nth_error]. rewrite (py_strip_chomp w v Hw). reflexivity.
    + rewrite andb_false_r.
      destruct (String.eqb (lower n) "requires-dist") eqn:E3; [|reflexivity].
      unfold apply_branch, br_req. cbn [b_extr b_strip b_target run_extr].
      rewrite ppartition_app by exact Hn. cbn [nth_error].
      rewrite (py_strip_chomp w v Hw). reflexivity.
Qed.

(* ------------------------------------------------------------------------------------ *)
(* C. the header block: loop = selection over the RFC 822 fields *)

Lemma sel_step_index s f : p_index_error (sel_step s f) = p_index_error s.
Proof.
  destruct f as [n v]. unfold sel_step.
  destruct (String.eqb n "name"); [destruct (p_name s); reflexivity|].
  destruct (String.eqb n "version"); [destruct (p_version s); reflexivity|].
  destruct (String.eqb n "requires-dist"); reflexivity.
Qed.

Lemma sel_step_unselected s n v : selected_name n = false -> sel_step s (n, v) = s.
Proof.
  unfold selected_name, sel_step. intros H.
  apply orb_false_iff in H as [H H3]. apply orb_false_iff in H as [H1 H2].
  rewrite H1, H2, H3. reflexivity.
Qed.

Definition cur_sel (cur : option (string * string)) : bool :=
  match cur with Some (n, _) => selected_name (lower n) | None => false end.
Definition apply_cur (s : pstate) (cur : option (string * string)) : pstate :=
  fold_left sel_step (flush cur) s.

Lemma apply_cur_index s cur : p_index_error (apply_cur s cur) = p_index_error s.
Proof. destruct cur as [[n v]|]; unfold apply_cur; cbn [flush fold_left]; [apply sel_step_index|reflexivity]. Qed.

Lemma cont_not_prefix_like l : is_cont_line (chomp_cr l) = true -> prefix_like l = false.
Proof.
  intros H. destruct l as [|c l]; [discriminate|].
  assert (Hc : is_lwsp c = true).
  { destruct l as [|d l].
    - cbn [chomp_cr] in H. destruct (Ascii.eqb c cr); [discriminate|exact H].
    - exact H. }
  unfold is_lwsp in Hc. apply orb_true_iff in Hc as [Hc|Hc]; apply Ascii.eqb_eq in Hc; subst; reflexivity.
Qed.

Lemma field_split_spec l n v :
  field_split l = Some (n, v) -> l = n ++ String colon v /\ noc colon n = true.
Proof.
  unfold field_split. destruct (ppartition colon l) as [[a f] b] eqn:P.
  destruct f; [|discriminate]. destruct a as [|c a]; [discriminate|].
  destruct (all_chars ftext (String c a)); [|discriminate].
  intros H; inversion H; subst. apply ppartition_found. exact P.
Qed.

Lemma has_colon_noc v : has_colon v = false -> noc colon v = true.
Proof.
  unfold has_colon, noc. induction v as [|c v IH]; [reflexivity|].
  cbn [ascii_list existsb all_chars]. intros H. apply orb_false_iff in H as [H1 H2].
  rewrite (Ascii.eqb_sym c colon), H1. cbn. apply IH. exact H2.
Qed.

Lemma main_hdr hl : forall cur s,
  p_index_error s = false ->
  forallb (fun l => hdr_line (chomp_cr l)) hl = true ->
  no_folded_in hl (cur_sel cur) = true ->
  forallb single_colon_line hl = true ->
  fold_left p_step hl (apply_cur s cur) = fold_left sel_step (fields_of hl cur) s.
Proof.
  induction hl as [|l hl IH]; intros cur s Hi Hh Hf Hc.
  - reflexivity.
  - cbn [forallb] in Hh, Hc. apply andb_true_iff in Hh as [Hl Hh]. apply andb_true_iff in Hc as [Hcl Hc].
    cbn [no_folded_in] in Hf. cbn [fields_of fold_left].
    destruct (is_cont_line (chomp_cr l)) eqn:Ec.
    + apply andb_true_iff in Hf as [Hns Hf]. apply negb_true_iff in Hns.
      rewrite (p_step_not_prefix _ l (cont_not_prefix_like l Ec)).
      destruct cur as [[n v]|].
      * assert (Ha : forall v', apply_cur s (Some (n, v')) = s).
        { intros v'. unfold apply_cur. cbn [flush fold_left]. apply sel_step_unselected. exact Hns. }
        pose proof (IH (Some (n, v ++ chomp_cr l)) s Hi Hh Hf Hc) as IH'.
        rewrite Ha in IH'. rewrite Ha. exact IH'.
      * apply IH; assumption.
    + destruct (field_split (chomp_cr l)) as [[n v]|] eqn:Ef.
      * destruct (field_split_spec _ _ _ Ef) as [El Hn].
        rewrite fold_left_app. fold (apply_cur s cur).
        assert (Hstep : p_step (apply_cur s cur) l = apply_cur (apply_cur s cur) (Some (n, v))).
        { unfold apply_cur at 2. cbn [flush fold_left].
          destruct (chomp_cr_spec l) as [E|E]; rewrite E, El.
          - apply p_step_field; [rewrite apply_cur_index; exact Hi|exact Hn|left; reflexivity|].
            intros Hnv. unfold single_colon_line in Hcl. rewrite Ef, Hnv in Hcl.
            apply negb_true_iff in Hcl. apply has_colon_noc. exact Hcl.
          - rewrite app_assoc_s. cbn [append].
            apply p_step_field; [rewrite apply_cur_index; exact Hi|exact Hn|right; reflexivity|].
            intros Hnv. unfold single_colon_line in Hcl. rewrite Ef, Hnv in Hcl.
            apply negb_true_iff in Hcl. apply has_colon_noc. exact Hcl. }
        rewrite Hstep. apply IH; [rewrite apply_cur_index; exact Hi|exact Hh|exact Hf|exact Hc].
      * unfold hdr_line in Hl. rewrite Ec, Ef in Hl. destruct (chomp_cr l); discriminate.
Qed.

Lemma span_hdr_spec ls :
  ls = (fst (span_hdr ls) ++ snd (span_hdr ls))%list /\
  forallb (fun l => hdr_line (chomp_cr l)) (fst (span_hdr ls)) = true.
Proof.
  induction ls as [|l ls [IH1 IH2]]; [split; reflexivity|].
  cbn [span_hdr]. destruct (hdr_line (chomp_cr l)) eqn:E; [|split; reflexivity].
  destruct (span_hdr ls) as [h b]. cbn [fst snd] in *. split.
  - cbn [app]. f_equal. exact IH1.
  - cbn [forallb]. rewrite E, IH2. reflexivity.
Qed.

Lemma fold_not_prefix bl : forall s,
  forallb (fun l => negb (prefix_like l)) bl = true -> fold_left p_step bl s = s.
Proof.
  induction bl as [|l bl IH]; intros s H; [reflexivity|].
  cbn [forallb] in H. apply andb_true_iff in H as [H1 H2]. apply negb_true_iff in H1.
  cbn [fold_left]. rewrite (p_step_not_prefix s l H1). apply IH. exact H2.
Qed.

(* the unguarded statement (FALSE of the unchanged code: see the refutations below) *)
Definition C11_headers_full_statement : Prop :=
  forall t, parse_flat t = select_fields (rfc822_fields t).

(* proved part: inside the three decidable guards, for ALL texts.  Missing w.r.t. the full
   statement: texts whose body has Name:/Version:/Requires-Dist:-looking lines, folded
   Name/Version/Requires-Dist headers, ':' inside a Name/Version value. *)
Theorem headers_partial : forall t,
  no_headerlike_body t = true -> no_folded t = true -> single_colon_nv t = true ->
  parse_flat t = select_fields (rfc822_fields t).
Proof.
  intros t Hb Hf Hc.
  unfold parse_flat, select_fields, rfc822_fields, parse_loop. f_equal.
  rewrite line_sep_pinned. fold (text_lines t).
  unfold no_headerlike_body, body_lines in Hb. unfold no_folded, header_lines in Hf.
  unfold single_colon_nv, header_lines in Hc. unfold header_lines.
  destruct (span_hdr_spec (text_lines t)) as [E Hh].
  rewrite E at 1. rewrite fold_left_app.
  rewrite (fold_not_prefix _ _ Hb).
  apply (main_hdr _ None p_init); try assumption; reflexivity.
Qed.

(* the guards are satisfiable by a non-trivial text (CRLF, mixed case, folded License, body) *)
Definition ex_text : string :=
  "Metadata-Version: 2.1" ++ String cr (String nl "") ++ "NAME: demo" ++ String nl "" ++
  "License: MIT" ++ String nl "" ++ "  continued: here" ++ String nl "" ++
  "Version: 1.0" ++ String cr (String nl "") ++
  "Requires-Dist: requests[security] (>=2.0) ; extra == 'net'" ++ String nl "" ++
  "requires-dist: pkg @ https://example.org/p:8080/pkg.whl" ++ String nl "" ++ String nl "" ++
  "Description: with a colon" ++ String nl "".
Example headers_partial_nonvacuous :
  no_headerlike_body ex_text = true /\ no_folded ex_text = true /\ single_colon_nv ex_text = true /\
  parse_flat ex_text = FlatOk "demo" (Some "1.0")
    ["requests[security] (>=2.0) ; extra == 'net'"; "pkg @ https://example.org/p:8080/pkg.whl"].
Proof. vm_compute. repeat split. Qed.

(* refutations of the full statement: concrete METADATA texts (replayed on /repo by T2/known findings) *)
Definition wit_body : string :=
  "Name: a" ++ String nl "" ++ "Version: 1" ++ String nl "" ++ String nl "" ++
  "Requires-Dist: evil" ++ String nl "".
Definition wit_folded : string :=
  "Name: a" ++ String nl "" ++ "Version: 1" ++ String nl "" ++
  "Requires-Dist: bar" ++ String nl "" ++ "  >=1.0" ++ String nl "".
Definition wit_colon : string :=
  "Name: a:b" ++ String nl "" ++ "Version: 1" ++ String nl "".

Theorem headers_refuted_body :
  parse_flat wit_body = FlatOk "a" (Some "1") ["evil"] /\
  select_fields (rfc822_fields wit_body) = FlatOk "a" (Some "1") [].
Proof. vm_compute. split; reflexivity. Qed.
Theorem headers_refuted_folded :
  parse_flat wit_folded = FlatOk "a" (Some "1") ["bar"] /\
  select_fields (rfc822_fields wit_folded) = FlatOk "a" (Some "1") ["bar  >=1.0"].
Proof. vm_compute. split; reflexivity. Qed.
Theorem headers_refuted_colon :
  parse_flat wit_colon = FlatOk "a" (Some "1") [] /\
  select_fields (rfc822_fields wit_colon) = FlatOk "a:b" (Some "1") [].
Proof. vm_compute. split; reflexivity. Qed.
Corollary headers_full_statement_false : ~ C11_headers_full_statement.
Proof.
  intros H. specialize (H wit_body). destruct headers_refuted_body as [A B].
  rewrite A, B in H. discriminate.
Qed.

(* ------------------------------------------------------------------------------------ *)
(* E. choosing the dist-info entry *)

(* T1 obligation: the regex source texts are the two the string predicates were written for *)
Lemma regexes_pinned : c11_regexes = [(regex_own_text, true); (regex_any_text, false)].
Proof. reflexivity. Qed.

Definition find2 (pat : list pitem) (l : list string) : find_res :=
  match List.find (own_match pat) l with
  | Some x => Found x
  | None => match List.find any_match l with Some x => Found x | None => NotFound end
  end.
Lemma find_dist_info_eq p l :
  find_dist_info p l = match pat_of_project p with Some pat => find2 pat l | None => RegexUnmodelled end.
Proof.
  unfold find_dist_info. rewrite regexes_pinned. cbn [find_passes interp_regex].
  rewrite !String.eqb_refl. destruct (pat_of_project p); reflexivity.
Qed.

Lemma find_first {A} (f : A -> bool) l x :
  List.find f l = Some x <->
  exists l1 l2, l = (l1 ++ x :: l2)%list /\ f x = true /\ forall y, In y l1 -> f y = false.
Proof.
  split.
  - induction l as [|a l IH]; [discriminate|]. cbn [List.find].
    destruct (f a) eqn:E.
    + intros H; inversion H; subst. exists [], l. repeat split; [exact E|intros y []].
    + intros H. destruct (IH H) as (l1 & l2 & -> & Hx & Hl). exists (a :: l1), l2.
      repeat split; [exact Hx|]. intros y [<-|Hy]; [exact E|apply Hl; exact Hy].
  - intros (l1 & l2 & -> & Hx & Hl). induction l1 as [|a l1 IH]; cbn [app List.find].
    + rewrite Hx. reflexivity.
    + rewrite (Hl a (or_introl eq_refl)). apply IH. intros y Hy. apply Hl. right. exact Hy.
Qed.

Lemma find_none_all {A} (f : A -> bool) l : List.find f l = None -> forall y, In y l -> f y = false.
Proof. intros H y Hy. exact (List.find_none f l H y Hy). Qed.

Lemma find_unique (f : string -> bool) l x :
  In x l -> f x = true -> (forall y, In y l -> y <> x -> f y = false) -> List.find f l = Some x.
Proof.
  induction l as [|a l IH]; intros Hin Hx Hy; [destruct Hin|]. cbn [List.find].
  destruct (string_dec a x) as [->|Hne].
  - rewrite Hx. reflexivity.
  - rewrite (Hy a (or_introl eq_refl) Hne). apply IH; [|exact Hx|].
    + destruct Hin as [E|Hin]; [contradiction|exact Hin].
    + intros y Hyin. apply Hy. right. exact Hyin.
Qed.

(* the wheel's own entry matches its project regex *)
Lemma name_char_not_meta c : name_char c = true -> mem_ascii c regex_meta = false.
Proof. destruct c as [[] [] [] [] [] [] [] []]; cbn; intros H; try discriminate H; reflexivity. Qed.
Lemma name_char_not_cont c : name_char c = true -> is_contb c = false.
Proof. destruct c as [[] [] [] [] [] [] [] []]; cbn; intros H; try discriminate H; reflexivity. Qed.
Lemma name_char_not_nl c : name_char c = true -> Ascii.eqb c nl = false.
Proof. destruct c as [[] [] [] [] [] [] [] []]; cbn; intros H; try discriminate H; reflexivity. Qed.

Lemma skip_cont_id s : head_is_cont s = false -> skip_cont s = s.
Proof. destruct s as [|c s]; [reflexivity|]. cbn. intros ->. reflexivity. Qed.

Lemma match_self p : all_chars name_char p = true ->
  exists pat, pat_of_project p = Some pat /\
              forall rest, head_is_cont rest = false -> match_name pat (p ++ rest) = Some rest.
Proof.
  induction p as [|c p IH]; intros H.
  - exists []. split; [reflexivity|]. intros rest _. reflexivity.
  - cbn [all_chars] in H. apply andb_true_iff in H as [Hc Hp].
    destruct (IH Hp) as (pat & Epat & Hm).
    cbn [pat_of_project]. rewrite (name_char_not_meta c Hc), Epat.
    eexists. split; [reflexivity|]. intros rest Hr. cbn [append].
    destruct (Ascii.eqb c ".") eqn:Edot; cbn [match_name].
    + rewrite (name_char_not_nl c Hc). rewrite skip_cont_id; [apply Hm; exact Hr|].
      destruct p as [|d p]; [exact Hr|]. cbn [append head_is_cont].
      cbn [all_chars] in Hp. apply andb_true_iff in Hp as [Hd _]. apply name_char_not_cont. exact Hd.
    + rewrite Ascii.eqb_refl. apply Hm. exact Hr.
Qed.

Lemma mid_suffix_own v : forall started,
  no_newline v = true -> (started = true \/ v <> "") -> mid_suffix (v ++ dsuf) started = true.
Proof.
  induction v as [|c v IH]; intros started Hn Hs.
  - destruct Hs as [->|Hs]; [reflexivity|contradiction].
  - cbn [append mid_suffix]. unfold no_newline in Hn. cbn [all_chars] in Hn.
    apply andb_true_iff in Hn as [Hc Hn]. apply negb_true_iff in Hc. rewrite Hc.
    rewrite (IH true Hn (or_introl eq_refl)). apply orb_true_r.
Qed.

Definition own_match_p (p e : string) : bool :=
  match pat_of_project p with Some pat => own_match pat e | None => false end.

Lemma own_entry_matches p v :
  conformant_name p = true -> v <> "" -> no_newline v = true ->
  exists pat, pat_of_project p = Some pat /\ own_match pat (own_entry p v) = true.
Proof.
  intros Hp Hv Hn. unfold conformant_name in Hp. destruct p as [|c p]; [discriminate|].
  destruct (match_self _ Hp) as (pat & Epat & Hm). exists pat. split; [exact Epat|].
  unfold own_match, tail_match, own_entry.
  change (String c p ++ "-" ++ v ++ ".dist-info/METADATA") with (String c p ++ String "-" (v ++ dsuf)).
  rewrite Hm by reflexivity. rewrite Ascii.eqb_refl.
  rewrite (mid_suffix_own v false Hn (or_intror Hv)). reflexivity.
Qed.

(* exact guard: the own entry is chosen iff no member AFTER its last occurrence in the archive
   matches the project regex (the name list is searched in reverse archive order) *)
Theorem dist_info_own_exact p v names :
  conformant_name p = true -> v <> "" -> no_newline v = true ->
  (find_dist_info p (rev names) = Found (own_entry p v) <->
   exists before after, names = (before ++ own_entry p v :: after)%list /\
                        forall e, In e after -> own_match_p p e = false).
Proof.
  intros Hp Hv Hn. destruct (own_entry_matches p v Hp Hv Hn) as (pat & Epat & Hown).
  rewrite find_dist_info_eq. unfold own_match_p. rewrite Epat. unfold find2. split.
  - destruct (List.find (own_match pat) (rev names)) as [x|] eqn:F.
    + intros H; inversion H; subst x.
      apply find_first in F as (l1 & l2 & E & _ & Hl).
      exists (rev l2), (rev l1). split.
      * rewrite <- (rev_involutive names), E, rev_app_distr. cbn [rev]. rewrite <- app_assoc. reflexivity.
      * intros e He. apply Hl. apply in_rev in He. try rewrite rev_involutive in He. exact He.
    + destruct (List.find any_match (rev names)) as [x|] eqn:F2; [|discriminate].
      intros H; inversion H; subst x. apply List.find_some in F2 as [Hin _].
      rewrite (find_none_all _ _ F _ Hin) in Hown. discriminate.
  - intros (before & after & -> & Ha).
    assert (F : List.find (own_match pat) (rev (before ++ own_entry p v :: after)) = Some (own_entry p v)).
    { apply find_first. exists (rev after), (rev before). repeat split.
      - rewrite rev_app_distr. cbn [rev]. rewrite <- app_assoc. reflexivity.
      - exact Hown.
      - intros y Hy. apply Ha. apply in_rev in Hy. try rewrite rev_involutive in Hy. exact Hy. }
    rewrite F. reflexivity.
Qed.

(* spec-conformant wheel: its own dist-info is there and no other member looks like a dist-info
   of this project -> chosen whatever else is vendored, wherever it sits in the archive *)
Theorem dist_info_own p v names :
  conformant_name p = true -> v <> "" -> no_newline v = true ->
  In (own_entry p v) names ->
  (forall e, In e names -> e <> own_entry p v -> own_match_p p e = false) ->
  find_dist_info p (rev names) = Found (own_entry p v).
Proof.
  intros Hp Hv Hn Hin Hoth. destruct (own_entry_matches p v Hp Hv Hn) as (pat & Epat & Hown).
  rewrite find_dist_info_eq, Epat. unfold find2.
  unfold own_match_p in Hoth. rewrite Epat in Hoth.
  rewrite (find_unique (own_match pat) (rev names) (own_entry p v)); [reflexivity| |exact Hown|].
  - apply in_rev in Hin. exact Hin.
  - intros y Hy. apply Hoth. apply in_rev in Hy. try rewrite rev_involutive in Hy. exact Hy.
Qed.

(* a syntactic sufficient condition, for project names without '.':
   no other member starts with "<project>-" or contains "/<project>-" *)
Definition plain_char (c : ascii) : bool := is_alpha_ascii c || is_digit c || Ascii.eqb c "_".
Lemma plain_char_facts c : plain_char c = true ->
  name_char c = true /\ Ascii.eqb c "." = false.
Proof. destruct c as [[] [] [] [] [] [] [] []]; cbn; intros H; try discriminate H; split; reflexivity. Qed.

Lemma pat_plain p : all_chars plain_char p = true ->
  pat_of_project p = Some (map PLit (ascii_list p)).
Proof.
  induction p as [|c p IH]; [reflexivity|]. cbn [all_chars]. intros H.
  apply andb_true_iff in H as [Hc Hp]. destruct (plain_char_facts c Hc) as [Hn Hd].
  cbn [pat_of_project ascii_list map]. rewrite (name_char_not_meta c Hn), (IH Hp), Hd. reflexivity.
Qed.

Lemma match_lits cs : forall s r, match_name (map PLit cs) s = Some r -> s = of_ascii_list cs ++ r.
Proof.
  induction cs as [|c cs IH]; intros s r; cbn [map match_name of_ascii_list append].
  - intros H; inversion H; reflexivity.
  - destruct s as [|d s]; [discriminate|]. destruct (Ascii.eqb d c) eqn:E; [|discriminate].
    apply Ascii.eqb_eq in E; subst. intros H. rewrite (IH s r H). reflexivity.
Qed.
Lemma of_ascii_list_id p : of_ascii_list (ascii_list p) = p.
Proof. induction p as [|c p IH]; [reflexivity|]. cbn. now rewrite IH. Qed.

Lemma prefixb_app x y : prefixb x (x ++ y) = true.
Proof. induction x as [|c x IH]; [destruct y; reflexivity|]. cbn. rewrite Ascii.eqb_refl. exact IH. Qed.

Lemma tail_match_prefix p s :
  tail_match (map PLit (ascii_list p)) s = true -> prefixb (p ++ "-") s = true.
Proof.
  unfold tail_match. destruct (match_name _ s) as [[|c r]|] eqn:M; try discriminate.
  intros H. apply andb_true_iff in H as [Hc _]. apply Ascii.eqb_eq in Hc; subst c.
  apply match_lits in M. rewrite of_ascii_list_id in M. subst s.
  change (String "-" r) with ("-" ++ r). rewrite <- app_assoc_s. apply prefixb_app.
Qed.

Lemma own_scan_contains p s : forall started,
  own_scan (map PLit (ascii_list p)) s started = true -> containsb ("/" ++ p ++ "-") s = true.
Proof.
  induction s as [|c s IH]; intros started; cbn [own_scan]; [discriminate|].
  destruct (Ascii.eqb c nl); [discriminate|]. intros H. apply orb_true_iff in H as [H|H].
  - apply andb_true_iff in H as [H Ht]. apply andb_true_iff in H as [Hc _].
    apply Ascii.eqb_eq in Hc; subst c. cbn [containsb append prefixb]. rewrite Ascii.eqb_refl.
    cbn [andb]. rewrite (tail_match_prefix p s Ht). reflexivity.
  - cbn [containsb]. rewrite (IH true H). apply orb_true_r.
Qed.

(* whatever matches either regex contains the text ".dist-info/METADATA" *)
Lemma containsb_app_l sub x r : containsb sub r = true -> containsb sub (x ++ r) = true.
Proof.
  intros H. induction x as [|c x IH]; [exact H|]. cbn [append containsb]. rewrite IH. apply orb_true_r.
Qed.
Lemma containsb_prefix sub s : prefixb sub s = true -> containsb sub s = true.
Proof. intros H. destruct s; cbn [containsb]; rewrite H; reflexivity. Qed.

Lemma any_match_contains s : any_match s = true -> containsb dsuf s = true.
Proof.
  induction s as [|c s IH]; cbn [any_match]; intros H; apply orb_true_iff in H as [H|H].
  - apply containsb_prefix. exact H.
  - discriminate.
  - apply containsb_prefix. exact H.
  - destruct (Ascii.eqb c nl); [discriminate|]. cbn [containsb]. rewrite (IH H). apply orb_true_r.
Qed.

Lemma mid_suffix_contains s : forall started, mid_suffix s started = true -> containsb dsuf s = true.
Proof.
  induction s as [|c s IH]; intros started; cbn [mid_suffix]; intros H; apply orb_true_iff in H as [H|H].
  - apply andb_true_iff in H as [_ H]. apply orb_true_iff in H as [H|H]; apply String.eqb_eq in H; discriminate.
  - discriminate.
  - apply andb_true_iff in H as [_ H]. apply orb_true_iff in H as [H|H]; apply String.eqb_eq in H; rewrite H; reflexivity.
  - destruct (Ascii.eqb c nl); [discriminate|]. cbn [containsb]. rewrite (IH true H). apply orb_true_r.
Qed.

Lemma skip_cont_suffix s : exists x, s = x ++ skip_cont s.
Proof.
  induction s as [|c s [x IH]]; [exists ""; reflexivity|]. cbn [skip_cont].
  destruct (is_contb c); [|exists ""; reflexivity].
  exists (String c x). cbn [append]. rewrite <- IH. reflexivity.
Qed.
Lemma match_name_suffix pat : forall s r, match_name pat s = Some r -> exists x, s = x ++ r.
Proof.
  induction pat as [|it pat IH]; intros s r; cbn [match_name].
  - intros H; inversion H. exists "". reflexivity.
  - destruct s as [|c s]; [discriminate|]. destruct it as [d|].
    + destruct (Ascii.eqb c d); [|discriminate]. intros H. destruct (IH _ _ H) as [x ->].
      exists (String c x). reflexivity.
    + destruct (Ascii.eqb c nl); [discriminate|]. intros H. destruct (IH _ _ H) as [x E].
      destruct (skip_cont_suffix s) as [y Ey]. exists (String c (y ++ x)).
      cbn [append]. rewrite app_assoc_s, <- E, <- Ey. reflexivity.
Qed.
Lemma tail_match_contains pat s : tail_match pat s = true -> containsb dsuf s = true.
Proof.
  unfold tail_match. destruct (match_name pat s) as [[|c r]|] eqn:M; try discriminate.
  intros H. apply andb_true_iff in H as [_ H]. apply mid_suffix_contains in H.
  destruct (match_name_suffix _ _ _ M) as [x ->].
  apply containsb_app_l. cbn [containsb]. rewrite H. apply orb_true_r.
Qed.
Lemma own_scan_contains_dsuf pat s : forall started, own_scan pat s started = true -> containsb dsuf s = true.
Proof.
  induction s as [|c s IH]; intros started; cbn [own_scan]; [discriminate|].
  destruct (Ascii.eqb c nl); [discriminate|]. intros H. apply orb_true_iff in H as [H|H].
  - apply andb_true_iff in H as [_ H]. apply tail_match_contains in H.
    cbn [containsb]. rewrite H. apply orb_true_r.
  - cbn [containsb]. rewrite (IH true H). apply orb_true_r.
Qed.
Lemma own_match_contains pat s : own_match pat s = true -> containsb dsuf s = true.
Proof.
  unfold own_match. intros H. apply orb_true_iff in H as [H|H];
  [apply tail_match_contains in H|apply own_scan_contains_dsuf in H]; exact H.
Qed.

(* every OTHER member either is no METADATA path at all, or sits in a directory that is not
   named like this project *)
Definition elsewhere (p e : string) : bool :=
  negb (containsb dsuf e) || (negb (prefixb (p ++ "-") e) && negb (containsb ("/" ++ p ++ "-") e)).

Theorem dist_info_vendored_elsewhere p v names :
  p <> "" -> all_chars plain_char p = true -> v <> "" -> no_newline v = true ->
  In (own_entry p v) names ->
  (forall e, In e names -> e <> own_entry p v -> elsewhere p e = true) ->
  find_dist_info p (rev names) = Found (own_entry p v).
Proof.
  intros Hne Hp Hv Hn Hin Hoth.
  assert (Hc : conformant_name p = true).
  { unfold conformant_name. destruct p as [|c p]; [contradiction|].
    clear - Hp. revert Hp. generalize (String c p) as q.
    induction q as [|d q IH]; [reflexivity|]. cbn [all_chars]. intros H.
    apply andb_true_iff in H as [Hd Hq]. rewrite (proj1 (plain_char_facts d Hd)), (IH Hq). reflexivity. }
  apply dist_info_own; try assumption.
  intros e He Hne'. pose proof (Hoth e He Hne') as H. unfold elsewhere in H.
  unfold own_match_p. rewrite (pat_plain p Hp).
  destruct (own_match _ e) eqn:M; [|reflexivity]. exfalso.
  apply orb_true_iff in H as [H|H].
  - apply own_match_contains in M. rewrite M in H. discriminate.
  - apply andb_true_iff in H as [H1 H2]. apply negb_true_iff in H1, H2.
    unfold own_match in M. apply orb_true_iff in M as [T|S].
    + apply tail_match_prefix in T. rewrite T in H1. discriminate.
    + apply own_scan_contains in S. rewrite S in H2. discriminate.
Qed.

Definition ex_names : list string :=
  ["foo/__init__.py"; "foo/_vendor/six-1.16.0.dist-info/METADATA";
   "foo/_vendor/foobar-2.dist-info/METADATA"; "foo-1.0.dist-info/METADATA";
   "foo-1.0.dist-info/RECORD"; "zzz-3.dist-info/METADATA"].
Example dist_info_own_nonvacuous :
  In (own_entry "foo" "1.0") ex_names /\
  forallb (fun e => String.eqb e (own_entry "foo" "1.0") || elsewhere "foo" e) ex_names = true /\
  find_dist_info "foo" (rev ex_names) = Found "foo-1.0.dist-info/METADATA".
Proof. split; [cbn; auto 10|split; vm_compute; reflexivity]. Qed.

(* the unguarded statement is false: (1) a vendored copy of the SAME project stored after the
   own dist-info; (2) another project's dist-info under the wheel's own `.data/` directory *)
Definition C11_dist_info_full_statement : Prop :=
  forall p v names, conformant_name p = true -> v <> "" -> no_newline v = true ->
    In (own_entry p v) names -> find_dist_info p (rev names) = Found (own_entry p v).
Definition wit_names_same : list string :=
  ["vend/__init__.py"; "vend-1.0.dist-info/METADATA"; "vend-1.0.dist-info/RECORD";
   "vend/_vendor/vend-0.5.dist-info/METADATA"].
Definition wit_names_data : list string :=
  ["foo/__init__.py"; "foo-1.0.dist-info/METADATA"; "foo-1.0.dist-info/RECORD";
   "foo-1.0.data/purelib/bar-2.0.dist-info/METADATA"].
Theorem dist_info_own_refuted :
  (In (own_entry "vend" "1.0") wit_names_same /\
   find_dist_info "vend" (rev wit_names_same) = Found "vend/_vendor/vend-0.5.dist-info/METADATA") /\
  (In (own_entry "foo" "1.0") wit_names_data /\
   find_dist_info "foo" (rev wit_names_data) = Found "foo-1.0.data/purelib/bar-2.0.dist-info/METADATA").
Proof. split; (split; [cbn; auto|vm_compute; reflexivity]). Qed.
Corollary dist_info_full_statement_false : ~ C11_dist_info_full_statement.
Proof.
  intros H. destruct dist_info_own_refuted as [[Hin E] _].
  rewrite (H "vend" "1.0" wit_names_same) in E; try reflexivity; try exact Hin; discriminate.
Qed.

(* ------------------------------------------------------------------------------------ *)
(* F. unreadable wheels are errors; a distribution only ever comes from a declared METADATA *)

(* the part of the file-name the model depends on is inside the modelled fragment *)
Definition modelled (basename : string) : Prop :=
  exists p pat, project_of basename = Some p /\ pat_of_project p = Some pat.

Lemma namelist_reversed_pinned : c11_namelist_reversed = true.
Proof. reflexivity. Qed.

Lemma fetch_unfold basename es p pat :
  project_of basename = Some p -> pat_of_project p = Some pat ->
  fetch_from_wheel basename (Zip es) =
  match find2 pat (rev (map fst es)) with
  | Found entry => match read_last entry es with
                   | Some (Content text) => FetchFlat (parse_flat text)
                   | Some BadMember => FetchNone
                   | None => FetchUnmodelled
                   end
  | NotFound => FetchNone
  | RegexUnmodelled => FetchUnmodelled
  end.
Proof.
  intros Hp Hpat. unfold fetch_from_wheel. rewrite Hp, namelist_reversed_pinned.
  rewrite find_dist_info_eq, Hpat. reflexivity.
Qed.

Lemma find2_not_unmodelled pat l : find2 pat l <> RegexUnmodelled.
Proof.
  unfold find2. destruct (List.find (own_match pat) l); [discriminate|].
  destruct (List.find any_match l); discriminate.
Qed.

Lemma find2_none pat l :
  (forall n, In n l -> containsb dsuf n = false) -> find2 pat l = NotFound.
Proof.
  intros H. unfold find2.
  destruct (List.find (own_match pat) l) as [x|] eqn:F.
  - apply List.find_some in F as [Hin Hm]. apply own_match_contains in Hm.
    rewrite (H x Hin) in Hm. discriminate.
  - destruct (List.find any_match l) as [x|] eqn:F2; [|reflexivity].
    apply List.find_some in F2 as [Hin Hm]. apply any_match_contains in Hm.
    rewrite (H x Hin) in Hm. discriminate.
Qed.

(* the four ways a wheel has no readable metadata *)
Inductive unreadable (basename : string) : archive -> Prop :=
  | U_not_zip : unreadable basename NotZip                                  (* corrupt / not a zip *)
  | U_no_metadata es :                                                      (* no .dist-info/METADATA member *)
      (forall n, In n (map fst es) -> containsb dsuf n = false) -> unreadable basename (Zip es)
  | U_bad_member es p entry :                                               (* the chosen member cannot be read *)
      project_of basename = Some p -> find_dist_info p (rev (map fst es)) = Found entry ->
      read_last entry es = Some BadMember -> unreadable basename (Zip es)
  | U_no_name es p entry text v :                                           (* the chosen METADATA declares no Name *)
      project_of basename = Some p -> find_dist_info p (rev (map fst es)) = Found entry ->
      read_last entry es = Some (Content text) -> parse_flat text = FlatErr (MissingName v) ->
      unreadable basename (Zip es).

Theorem unreadable_is_error vok rok basename a :
  modelled basename -> unreadable basename a ->
  extract_whl vok rok basename a = Err MetadataError \/
  extract_whl vok rok basename a = Err InvalidVersion.
Proof.
  intros (p & pat & Hp & Hpat) U. unfold extract_whl. destruct U as [|es Hn|es p' entry Hp' Hf Hr|es p' entry text v Hp' Hf Hr Hpf].
  - left. reflexivity.
  - left. rewrite (fetch_unfold _ _ _ _ Hp Hpat).
    rewrite (find2_none pat (rev (map fst es))); [reflexivity|].
    intros n Hin. apply Hn. apply in_rev in Hin. exact Hin.
  - left. rewrite Hp in Hp'. inversion Hp'; subst p'.
    rewrite find_dist_info_eq, Hpat in Hf.
    rewrite (fetch_unfold _ _ _ _ Hp Hpat), Hf, Hr. reflexivity.
  - rewrite Hp in Hp'. inversion Hp'; subst p'.
    rewrite find_dist_info_eq, Hpat in Hf.
    rewrite (fetch_unfold _ _ _ _ Hp Hpat), Hf, Hr, Hpf. unfold outcome.
    destruct v as [v|]; [|left; reflexivity].
    destruct (vok v); [left|right]; reflexivity.
Qed.

Example unreadable_nonvacuous :
  modelled "foo-1.0-py3-none-any.whl" /\
  unreadable "foo-1.0-py3-none-any.whl" (Zip [("foo/__init__.py", Content "x"); ("foo-1.0.dist-info/RECORD", Content "")]) /\
  unreadable "foo-1.0-py3-none-any.whl"
    (Zip [("foo-1.0.dist-info/METADATA", Content ("Version: 1.0" ++ String nl ("Requires-Dist: x" ++ String nl "")))]).
Proof.
  split; [exists "foo"; eexists; split; reflexivity|]. split.
  - apply U_no_metadata. cbn [map fst In]. intros n [<-|[<-|[]]]; reflexivity.
  - eapply U_no_name; vm_compute; reflexivity.
Qed.

(* converse: a distribution is only ever produced from the text of a member the finder chose,
   with exactly the requirement texts post_reqs keeps; in particular an empty requirement list
   means the METADATA that was read declares none that survive *)
Theorem ok_only_from_declared vok rok basename a n v rs :
  extract_whl vok rok basename a = Ok (n, v, rs) ->
  exists es p entry text raw,
    a = Zip es /\ project_of basename = Some p /\
    find_dist_info p (rev (map fst es)) = Found entry /\
    read_last entry es = Some (Content text) /\
    parse_flat text = FlatOk n v raw /\ rs = post_reqs raw /\
    (match v with Some v' => vok v' = true | None => True end) /\ forallb rok rs = true.
Proof.
  unfold extract_whl, fetch_from_wheel. destruct a as [|es]; [discriminate|].
  destruct (project_of basename) as [p|]; [|discriminate].
  rewrite namelist_reversed_pinned.
  destruct (find_dist_info p (rev (map fst es))) as [entry| |] eqn:F; try discriminate.
  destruct (read_last entry es) as [[text|]|] eqn:R; try discriminate.
  unfold outcome. destruct (parse_flat text) as [n' v' raw|[v'|]] eqn:P.
  - destruct v' as [v'|].
    + destruct (vok v') eqn:V; cbn [negb]; [|discriminate].
      destruct (forallb rok (post_reqs raw)) eqn:Rk; [|discriminate].
      intros H; inversion H; subst. exists es, p, entry, text, raw. repeat split; assumption.
    + destruct (forallb rok (post_reqs raw)) eqn:Rk; [|discriminate].
      intros H; inversion H; subst. exists es, p, entry, text, raw. repeat split; assumption.
  - destruct v' as [v'|]; [destruct (vok v')|]; discriminate.
  - discriminate.
Qed.

(* the loop never takes the IndexError exit: a matching prefix guarantees a ':' in the line *)
Lemma prefix_has_colon l p :
  prefixb (p ++ String colon "") (lower l) = true -> exists n w, l = n ++ String colon w /\ noc colon n = true.
Proof.
  revert l; induction p as [|c p IH]; intros l; cbn [append prefixb].
  - destruct l as [|d l]; cbn [lower smap prefixb]; [discriminate|].
    intros H. apply andb_true_iff in H as [H _]. rewrite Ascii.eqb_sym, lower_ascii_colon in H.
    apply Ascii.eqb_eq in H; subst d. exists "", l. split; reflexivity.
  - destruct l as [|d l]; cbn [lower smap prefixb]; [discriminate|].
    intros H. apply andb_true_iff in H as [_ H]. fold (lower l) in H.
    destruct (Ascii.eqb d colon) eqn:E.
    + apply Ascii.eqb_eq in E; subst d. exists "", l. split; reflexivity.
    + destruct (IH l H) as (n & w & -> & Hn). exists (String d n), w. split; [reflexivity|].
      unfold noc in *. cbn [all_chars]. rewrite E. exact Hn.
Qed.

Lemma psplit_nonempty c s : exists h t, psplit c s = h :: t.
Proof.
  induction s as [|d s (h & t & IH)]; cbn [psplit]; [eauto|].
  destruct (Ascii.eqb d c); [eauto|]. rewrite IH. eauto.
Qed.

Lemma apply_branch_ok s n w b :
  noc colon n = true -> (b = br_name \/ b = br_version \/ b = br_req) ->
  p_index_error (apply_branch s (n ++ String colon w) b) = p_index_error s.
Proof.
  intros Hn Hb. unfold apply_branch. destruct (psplit_nonempty colon w) as (h & t & E).
  destruct Hb as [->|[->| ->]]; cbn [b_extr br_name br_version br_req run_extr b_target b_strip].
  - rewrite psplit_app by exact Hn. rewrite E. reflexivity.
  - rewrite psplit_app by exact Hn. rewrite E. reflexivity.
  - rewrite ppartition_app by exact Hn. reflexivity.
Qed.

Lemma p_step_no_index_error s l : p_index_error s = false -> p_index_error (p_step s l) = false.
Proof.
  intros Hi. rewrite p_step_unfold, Hi.
  change "name:" with ("name" ++ String colon "").
  change "version:" with ("version" ++ String colon "").
  change "requires-dist:" with ("requires-dist" ++ String colon "").
  unfold startswith.
  destruct (none_b (p_name s) && prefixb ("name" ++ String colon "") (lower l)) eqn:E1.
  - apply andb_true_iff in E1 as [_ E1]. destruct (prefix_has_colon _ _ E1) as (n & w & -> & Hn).
    rewrite apply_branch_ok; auto.
  - destruct (none_b (p_version s) && prefixb ("version" ++ String colon "") (lower l)) eqn:E2.
    + apply andb_true_iff in E2 as [_ E2]. destruct (prefix_has_colon _ _ E2) as (n & w & -> & Hn).
      rewrite apply_branch_ok; auto.
    + destruct (prefixb ("requires-dist" ++ String colon "") (lower l)) eqn:E3; [|exact Hi].
      destruct (prefix_has_colon _ _ E3) as (n & w & -> & Hn). rewrite apply_branch_ok; auto.
Qed.

Theorem parse_never_index_error t : parse_flat t <> FlatErr FlatIndexError.
Proof.
  unfold parse_flat, finish.
  assert (H : p_index_error (parse_loop t) = false).
  { unfold parse_loop. generalize (psplit c11_line_sep t) as ls.
    assert (G : forall ls s, p_index_error s = false -> p_index_error (fold_left p_step ls s) = false).
    { induction ls as [|l ls IH]; intros s Hs; [exact Hs|]. cbn [fold_left]. apply IH.
      apply p_step_no_index_error. exact Hs. }
    intros ls. apply G. reflexivity. }
  rewrite H. destruct (p_name (parse_loop t)); discriminate.
Qed.

(* ------------------------------------------------------------------------------------ *)
(* G. the requirement texts handed to Requirement.parse *)

(* a Requires-Dist value that utils.parse_requirements passes on unchanged *)
Definition plain_req (r : string) : bool :=
  String.eqb (py_strip r) r && String.eqb (py_rstrip_chars c11_req_rstrip_chars r) r && req_kept r.

Definition C11_reqs_full_statement : Prop := forall raw, post_reqs raw = raw.

(* proved part; missing: values that are empty, start with '#' or '--', or end in a backslash
   (they are silently dropped / shortened instead of being refused) *)
Theorem reqs_intact_partial raw : forallb plain_req raw = true -> post_reqs raw = raw.
Proof.
  unfold post_reqs. induction raw as [|r raw IH]; [reflexivity|].
  cbn [forallb map]. intros H. apply andb_true_iff in H as [Hr H].
  unfold plain_req in Hr. apply andb_true_iff in Hr as [Hr Hk]. apply andb_true_iff in Hr as [Hs Hb].
  apply String.eqb_eq in Hs, Hb.
  assert (Ec : req_clean r = r) by (unfold req_clean; rewrite Hs; exact Hb).
  rewrite Ec. cbn [filter]. rewrite Hk. cbn [map]. rewrite Hs, (IH H). reflexivity.
Qed.

Example reqs_intact_nonvacuous :
  forallb plain_req ["requests[security] (>=2.0) ; extra == 'net'"; "pkg @ https://example.org/p:8080/pkg.whl"; "six"] = true.
Proof. vm_compute. reflexivity. Qed.

Theorem reqs_refuted_dropped :
  post_reqs ["six"; "# not a requirement"; "--option"; "six \"; ""] = ["six"; "six"].
Proof. vm_compute. reflexivity. Qed.
Corollary reqs_full_statement_false : ~ C11_reqs_full_statement.
Proof. intros H. pose proof (H ["# not a requirement"]) as E. vm_compute in E. discriminate. Qed.

(* ------------------------------------------------------------------------------------ *)
(* T1 obligations gathered: what the theorems above assume about the generated shapes *)
Theorem source_shape_pinned :
  c11_branches = [br_name; br_version; br_req] /\ c11_line_sep = nl /\
  c11_regexes = [(regex_own_text, true); (regex_any_text, false)] /\
  c11_project_sep = "-"%char /\ c11_project_idx = 0 /\ c11_namelist_reversed = true /\
  c11_decode_args = ["utf-8"; "ignore"] /\ c11_fetch_handlers = ["zipfile.BadZipfile"] /\
  c11_whl_ext = ".whl" /\ c11_ext_lowered = true /\
  c11_req_rstrip_chars = "\" /\ c11_req_comment_char = "#" /\ c11_req_skip_prefix = "--".
Proof. repeat split; reflexivity. Qed.

(* ------------------------------------------------------------------------------------ *)
(* H. end to end: the statement of the property on a whole wheel, inside the guards *)

Definition C11_wheel_full_statement : Prop :=
  forall vok rok basename p v es text,
    project_of basename = Some p -> conformant_name p = true -> v <> "" -> no_newline v = true ->
    In (own_entry p v) (map fst es) -> read_last (own_entry p v) es = Some (Content text) ->
    extract_whl vok rok basename (Zip es) = outcome vok rok (select_fields (rfc822_fields text)).

Theorem wheel_end_to_end_partial vok rok basename p v es text :
  project_of basename = Some p -> conformant_name p = true -> v <> "" -> no_newline v = true ->
  In (own_entry p v) (map fst es) ->
  (forall e, In e (map fst es) -> e <> own_entry p v -> own_match_p p e = false) ->
  read_last (own_entry p v) es = Some (Content text) ->
  no_headerlike_body text = true -> no_folded text = true -> single_colon_nv text = true ->
  extract_whl vok rok basename (Zip es) = outcome vok rok (select_fields (rfc822_fields text)).
Proof.
  intros Hp Hc Hv Hn Hin Hoth Hr Gb Gf Gc.
  unfold extract_whl, fetch_from_wheel. rewrite Hp, namelist_reversed_pinned.
  rewrite (dist_info_own p v (map fst es) Hc Hv Hn Hin Hoth), Hr.
  rewrite (headers_partial text Gb Gf Gc). reflexivity.
Qed.

Example wheel_end_to_end_nonvacuous :
  let es := [("demo/__init__.py", Content "x"); ("demo/_vendor/six-1.16.0.dist-info/METADATA", Content "Name: six");
             ("demo-1.0.dist-info/METADATA", Content ex_text); ("demo-1.0.dist-info/RECORD", Content "")] in
  extract_whl (fun _ => true) (fun _ => true) "demo-1.0-py3-none-any.whl" (Zip es) =
  Ok ("demo", Some "1.0", ["requests[security] (>=2.0) ; extra == 'net'"; "pkg @ https://example.org/p:8080/pkg.whl"]).
Proof. vm_compute. reflexivity. Qed.

(* ------------------------------------------------------------------------------------ *)
(* I. str.strip is idempotent, hence every value parse_flat returns is already stripped *)

Definition all_cont (s : string) : bool := all_chars is_contb s.
(* a code-point group: one byte followed by continuation bytes only *)
Definition group_ok (g : string) : bool :=
  match g with EmptyString => false | String _ r => all_cont r end.
(* groups after the first start with a non-continuation byte *)
Fixpoint tail_ok (gs : list string) : bool :=
  match gs with [] => true | g :: gs' => group_ok g && negb (head_is_cont g) && tail_ok gs' end.
Definition wfg (gs : list string) : bool :=
  match gs with [] => true | g :: gs' => group_ok g && tail_ok gs' end.

Lemma tail_ok_wfg gs : tail_ok gs = true -> wfg gs = true.
Proof.
  destruct gs as [|g gs]; [reflexivity|]. cbn [tail_ok wfg]. intros H.
  apply andb_true_iff in H as [H Ht]. apply andb_true_iff in H as [Hg _]. rewrite Hg, Ht. reflexivity.
Qed.

Lemma chars_wfg s : wfg (chars s) = true.
Proof.
  induction s as [|c s IH]; [reflexivity|]. cbn [chars].
  destruct (chars s) as [|g gs]; [reflexivity|].
  destruct (head_is_cont g) eqn:E.
  - cbn [wfg group_ok] in *. apply andb_true_iff in IH as [Hg Ht]. rewrite Ht.
    destruct g as [|d r]; [discriminate|]. cbn [group_ok] in Hg. cbn [head_is_cont] in E.
    unfold all_cont. cbn [all_chars]. rewrite E. fold (all_cont r). rewrite Hg. reflexivity.
  - cbn [wfg group_ok all_cont all_chars tail_ok] in *. apply andb_true_iff in IH as [Hg Ht].
    rewrite Hg, E, Ht. reflexivity.
Qed.

(* prepending continuation bytes / a lead byte to an already chunked string *)
Lemma chars_cont_prefix r : all_cont r = true -> forall rest,
  (match chars rest with g :: _ => head_is_cont g = false | [] => True end) ->
  chars (r ++ rest) = match r with EmptyString => chars rest | _ => r :: chars rest end.
Proof.
  induction r as [|d r IH]; intros Hr rest Hrest; [reflexivity|].
  unfold all_cont in Hr. cbn [all_chars] in Hr. apply andb_true_iff in Hr as [Hd Hr].
  cbn [append chars]. rewrite (IH Hr rest Hrest).
  destruct r as [|e r].
  - destruct (chars rest) as [|g gs]; [reflexivity|]. rewrite Hrest. reflexivity.
  - cbn [all_chars] in Hr. apply andb_true_iff in Hr as [He _]. cbn [head_is_cont]. rewrite He. reflexivity.
Qed.

Lemma chars_sconcat_tail gs : tail_ok gs = true -> chars (sconcat gs) = gs.
Proof.
  induction gs as [|g gs IH]; [reflexivity|]. cbn [tail_ok sconcat]. intros H.
  apply andb_true_iff in H as [H Ht]. apply andb_true_iff in H as [Hg Hh]. apply negb_true_iff in Hh.
  destruct g as [|c r]; [discriminate|]. cbn [group_ok] in Hg. cbn [head_is_cont] in Hh.
  cbn [append chars].
  assert (Hrest : match chars (sconcat gs) with g :: _ => head_is_cont g = false | [] => True end).
  { rewrite (IH Ht). destruct gs as [|g' gs']; [exact I|]. cbn [tail_ok] in Ht.
    apply andb_true_iff in Ht as [Ht _]. apply andb_true_iff in Ht as [_ Ht]. apply negb_true_iff in Ht. exact Ht. }
  rewrite (chars_cont_prefix r Hg _ Hrest), (IH Ht).
  destruct r as [|e r].
  - destruct gs as [|g' gs']; [reflexivity|]. cbn [tail_ok] in Ht.
    apply andb_true_iff in Ht as [Ht _]. apply andb_true_iff in Ht as [_ Ht]. apply negb_true_iff in Ht.
    rewrite Ht. reflexivity.
  - unfold all_cont in Hg. cbn [all_chars] in Hg. apply andb_true_iff in Hg as [He _].
    cbn [head_is_cont]. rewrite He. reflexivity.
Qed.

Lemma chars_sconcat gs : wfg gs = true -> chars (sconcat gs) = gs.
Proof.
  destruct gs as [|g gs]; [reflexivity|]. cbn [wfg sconcat]. intros H.
  apply andb_true_iff in H as [Hg Ht]. destruct g as [|c r]; [discriminate|]. cbn [group_ok] in Hg.
  cbn [append chars].
  assert (Hrest : match chars (sconcat gs) with g :: _ => head_is_cont g = false | [] => True end).
  { rewrite (chars_sconcat_tail gs Ht). destruct gs as [|g' gs']; [exact I|]. cbn [tail_ok] in Ht.
    apply andb_true_iff in Ht as [Ht _]. apply andb_true_iff in Ht as [_ Ht]. apply negb_true_iff in Ht. exact Ht. }
  rewrite (chars_cont_prefix r Hg _ Hrest), (chars_sconcat_tail gs Ht).
  destruct r as [|e r].
  - destruct gs as [|g' gs']; [reflexivity|]. cbn [tail_ok] in Ht.
    apply andb_true_iff in Ht as [Ht _]. apply andb_true_iff in Ht as [_ Ht]. apply negb_true_iff in Ht.
    rewrite Ht. reflexivity.
  - unfold all_cont in Hg. cbn [all_chars] in Hg. apply andb_true_iff in Hg as [He _].
    cbn [head_is_cont]. rewrite He. reflexivity.
Qed.

Lemma wfg_tail g gs : wfg (g :: gs) = true -> tail_ok gs = true.
Proof. cbn [wfg]. intros H. apply andb_true_iff in H as [_ H]. exact H. Qed.

Lemma dropwhile_wfg p gs : wfg gs = true -> wfg (dropwhile p gs) = true.
Proof.
  intros H. destruct gs as [|g gs]; [reflexivity|]. cbn [dropwhile].
  destruct (p g); [|exact H]. apply tail_ok_wfg.
  apply wfg_tail in H. clear g. induction gs as [|g gs IH]; [reflexivity|]. cbn [dropwhile].
  destruct (p g); [|exact H]. apply IH. cbn [tail_ok] in H. apply andb_true_iff in H as [_ H]. exact H.
Qed.

Lemma rstripl_tail_ok p gs : tail_ok gs = true -> tail_ok (rstripl p gs) = true.
Proof.
  induction gs as [|g gs IH]; [reflexivity|]. cbn [tail_ok rstripl]. intros H.
  apply andb_true_iff in H as [Hg Ht]. specialize (IH Ht).
  destruct (rstripl p gs) as [|r rs].
  - destruct (p g); [reflexivity|]. cbn [tail_ok]. rewrite Hg. reflexivity.
  - cbn [tail_ok] in *. rewrite Hg, IH. reflexivity.
Qed.
Lemma rstripl_wfg p gs : wfg gs = true -> wfg (rstripl p gs) = true.
Proof.
  destruct gs as [|g gs]; [reflexivity|]. cbn [wfg rstripl]. intros H.
  apply andb_true_iff in H as [Hg Ht]. pose proof (rstripl_tail_ok p gs Ht) as Hr.
  destruct (rstripl p gs) as [|r rs].
  - destruct (p g); [reflexivity|]. cbn [wfg]. rewrite Hg. reflexivity.
  - cbn [wfg]. rewrite Hg, Hr. reflexivity.
Qed.

Lemma rstripl_idem {A} (p : A -> bool) l : rstripl p (rstripl p l) = rstripl p l.
Proof.
  induction l as [|x l IH]; [reflexivity|]. cbn [rstripl].
  destruct (rstripl p l) as [|r rs] eqn:E.
  - destruct (p x) eqn:Ex; [reflexivity|]. cbn [rstripl]. rewrite Ex. reflexivity.
  - cbn [rstripl]. cbn [rstripl] in IH. rewrite IH. reflexivity.
Qed.
Lemma dropwhile_idem {A} (p : A -> bool) l : dropwhile p (dropwhile p l) = dropwhile p l.
Proof.
  induction l as [|x l IH]; [reflexivity|]. cbn [dropwhile]. destruct (p x) eqn:E; [exact IH|].
  cbn [dropwhile]. rewrite E. reflexivity.
Qed.
(* dropping a prefix keeps a right-clean list right-clean *)
Lemma rclean_dropwhile {A} (p : A -> bool) l :
  rstripl p l = l -> rstripl p (dropwhile p l) = dropwhile p l.
Proof.
  induction l as [|x l IH]; [reflexivity|]. cbn [dropwhile]. intros H.
  destruct (p x) eqn:E; [|exact H]. apply IH.
  cbn [rstripl] in H. destruct (rstripl p l) as [|r rs].
  - rewrite E in H. discriminate.
  - inversion H. reflexivity.
Qed.

Theorem py_strip_idem s : py_strip (py_strip s) = py_strip s.
Proof.
  unfold py_strip.
  set (gs := dropwhile is_ws_cp (rstripl is_ws_cp (chars s))).
  assert (W : wfg gs = true) by (apply dropwhile_wfg, rstripl_wfg, chars_wfg).
  rewrite (chars_sconcat gs W). unfold gs.
  rewrite rclean_dropwhile by apply rstripl_idem. rewrite dropwhile_idem. reflexivity.
Qed.

(* every Requires-Dist text the parser produces is stripped *)
Lemma apply_branch_stripped s l b :
  b_strip b = true -> Forall (fun r => py_strip r = r) (p_reqs s) ->
  Forall (fun r => py_strip r = r) (p_reqs (apply_branch s l b)).
Proof.
  intros Hb H. unfold apply_branch. destruct (run_extr (b_extr b) l); [|exact H].
  rewrite Hb. destruct (b_target b); cbn [p_reqs]; try exact H.
  apply Forall_app. split; [exact H|]. constructor; [apply py_strip_idem|constructor].
Qed.
Lemma p_step_stripped s l :
  Forall (fun r => py_strip r = r) (p_reqs s) -> Forall (fun r => py_strip r = r) (p_reqs (p_step s l)).
Proof.
  intros H. rewrite p_step_unfold. destruct (p_index_error s); [exact H|].
  destruct (none_b (p_name s) && _); [apply apply_branch_stripped; [reflexivity|exact H]|].
  destruct (none_b (p_version s) && _); [apply apply_branch_stripped; [reflexivity|exact H]|].
  destruct (startswith _ _); [apply apply_branch_stripped; [reflexivity|exact H]|exact H].
Qed.
Theorem parse_flat_reqs_stripped t n v raw :
  parse_flat t = FlatOk n v raw -> Forall (fun r => py_strip r = r) raw.
Proof.
  unfold parse_flat, finish.
  assert (H : Forall (fun r => py_strip r = r) (p_reqs (parse_loop t))).
  { unfold parse_loop. generalize (psplit c11_line_sep t) as ls.
    assert (G : forall ls s, Forall (fun r => py_strip r = r) (p_reqs s) ->
                             Forall (fun r => py_strip r = r) (p_reqs (fold_left p_step ls s))).
    { induction ls as [|l ls IH]; intros s Hs; [exact Hs|]. cbn [fold_left]. apply IH, p_step_stripped, Hs. }
    intros ls. apply G. constructor. }
  destruct (p_index_error (parse_loop t)); [discriminate|].
  destruct (p_name (parse_loop t)); [|discriminate]. intros E; inversion E; subst. exact H.
Qed.

(* so, for the values the parser itself produced, "plain" needs no strip condition *)
Definition plain_value (r : string) : bool :=
  String.eqb (py_rstrip_chars c11_req_rstrip_chars r) r && req_kept r.
Theorem reqs_intact_parsed t n v raw :
  parse_flat t = FlatOk n v raw -> forallb plain_value raw = true -> post_reqs raw = raw.
Proof.
  intros P H. apply reqs_intact_partial. pose proof (parse_flat_reqs_stripped t n v raw P) as S.
  clear P. induction raw as [|r raw IH]; [reflexivity|].
  cbn [forallb] in *. apply andb_true_iff in H as [Hr H]. inversion S as [|? ? Sr S']; subst.
  rewrite (IH H S'), andb_true_r. unfold plain_req. unfold plain_value in Hr.
  apply andb_true_iff in Hr as [Hb Hk]. rewrite Sr, String.eqb_refl, Hb, Hk. reflexivity.
Qed.

(* ------------------------------------------------------------------------------------ *)
(* J. the sharper body guard *)

Lemma p_step_harmless s l :
  startswith (lower l) "requires-dist:" = false ->
  (none_b (p_name s) = false \/ startswith (lower l) "name:" = false) ->
  (none_b (p_version s) = false \/ startswith (lower l) "version:" = false) ->
  p_step s l = s.
Proof.
  intros Hr Hn Hv. rewrite p_step_unfold, Hr. destruct (p_index_error s); [reflexivity|].
  assert (E1 : none_b (p_name s) && startswith (lower l) "name:" = false)
    by (destruct Hn as [-> | ->]; [reflexivity|apply andb_false_r]).
  assert (E2 : none_b (p_version s) && startswith (lower l) "version:" = false)
    by (destruct Hv as [-> | ->]; [reflexivity|apply andb_false_r]).
  rewrite E1, E2. reflexivity.
Qed.

Lemma sel_step_name_mono s f : none_b (p_name s) = false -> none_b (p_name (sel_step s f)) = false.
Proof.
  destruct f as [n v], s as [pn pv pr pe]. unfold sel_step. cbn [p_name p_version p_reqs p_index_error].
  intros H. destruct pn; [|discriminate].
  destruct (String.eqb n "name"); [reflexivity|].
  destruct (String.eqb n "version"); [destruct pv; reflexivity|].
  destruct (String.eqb n "requires-dist"); reflexivity.
Qed.
Lemma sel_step_version_mono s f : none_b (p_version s) = false -> none_b (p_version (sel_step s f)) = false.
Proof.
  destruct f as [n v], s as [pn pv pr pe]. unfold sel_step. cbn [p_name p_version p_reqs p_index_error].
  intros H. destruct pv; [|discriminate].
  destruct (String.eqb n "name"); [destruct pn; reflexivity|].
  destruct (String.eqb n "version"); [reflexivity|].
  destruct (String.eqb n "requires-dist"); reflexivity.
Qed.

Lemma fold_sel_name fs : forall s,
  (none_b (p_name s) = false \/ has_field "name" fs = true) ->
  none_b (p_name (fold_left sel_step fs s)) = false.
Proof.
  induction fs as [|f fs IH]; intros s H; cbn [fold_left].
  - destruct H as [H|H]; [exact H|discriminate].
  - apply IH. destruct H as [H|H]; [left; apply sel_step_name_mono; exact H|].
    unfold has_field in H. cbn [existsb] in H. apply orb_true_iff in H as [H|H]; [left|right; exact H].
    destruct f as [n v]. cbn [fst] in H. unfold sel_step. rewrite H.
    destruct (p_name s) eqn:E; [rewrite E|]; reflexivity.
Qed.
Lemma fold_sel_version fs : forall s,
  (none_b (p_version s) = false \/ has_field "version" fs = true) ->
  none_b (p_version (fold_left sel_step fs s)) = false.
Proof.
  induction fs as [|f fs IH]; intros s H; cbn [fold_left].
  - destruct H as [H|H]; [exact H|discriminate].
  - apply IH. destruct H as [H|H]; [left; apply sel_step_version_mono; exact H|].
    unfold has_field in H. cbn [existsb] in H. apply orb_true_iff in H as [H|H]; [left|right; exact H].
    destruct f as [n v]. cbn [fst] in H. apply String.eqb_eq in H; subst n. unfold sel_step.
    cbn [String.eqb Ascii.eqb Bool.eqb andb].
    destruct (p_version s) eqn:E; [rewrite E|]; reflexivity.
Qed.

Lemma fold_harmless bl : forall s (hn hv : bool),
  (hn = true -> none_b (p_name s) = false) -> (hv = true -> none_b (p_version s) = false) ->
  forallb (fun l => negb (startswith (lower l) "requires-dist:")
                    && (hn || negb (startswith (lower l) "name:"))
                    && (hv || negb (startswith (lower l) "version:"))) bl = true ->
  fold_left p_step bl s = s.
Proof.
  induction bl as [|l bl IH]; intros s hn hv Hn Hv H; [reflexivity|].
  cbn [forallb] in H. apply andb_true_iff in H as [Hl H].
  apply andb_true_iff in Hl as [Hl H3]. apply andb_true_iff in Hl as [H1 H2].
  apply negb_true_iff in H1. cbn [fold_left].
  rewrite (p_step_harmless s l H1).
  - apply (IH s hn hv Hn Hv H).
  - destruct hn; [left; apply Hn; reflexivity|right; apply negb_true_iff; exact H2].
  - destruct hv; [left; apply Hv; reflexivity|right; apply negb_true_iff; exact H3].
Qed.

(* stronger than headers_partial: bodies may contain Name:/Version:-looking lines *)
Theorem headers_partial_sharp : forall t,
  body_harmless t = true -> no_folded t = true -> single_colon_nv t = true ->
  parse_flat t = select_fields (rfc822_fields t).
Proof.
  intros t Hb Hf Hc.
  unfold parse_flat, select_fields, parse_loop. f_equal.
  rewrite line_sep_pinned. fold (text_lines t).
  unfold body_harmless, body_lines in Hb. unfold no_folded, header_lines in Hf.
  unfold single_colon_nv, header_lines in Hc.
  destruct (span_hdr_spec (text_lines t)) as [E Hh].
  rewrite E at 1. rewrite fold_left_app.
  assert (M : fold_left p_step (fst (span_hdr (text_lines t))) p_init =
              fold_left sel_step (rfc822_fields t) p_init).
  { unfold rfc822_fields, header_lines. apply (main_hdr _ None p_init); try assumption; reflexivity. }
  rewrite M.
  apply (fold_harmless _ _ (has_field "name" (rfc822_fields t)) (has_field "version" (rfc822_fields t))).
  - intros H. apply fold_sel_name. right. exact H.
  - intros H. apply fold_sel_version. right. exact H.
  - exact Hb.
Qed.

Definition ex_text_sharp : string :=
  "Name: demo" ++ String nl "" ++ "Version: 1.0" ++ String nl "" ++ "Requires-Dist: six" ++ String nl "" ++
  String nl "" ++ "Changelog" ++ String nl "" ++ "Version: 0.9 was the first release" ++ String nl "" ++
  "Name: the old name was demo2" ++ String nl "".
Example headers_partial_sharp_nonvacuous :
  no_headerlike_body ex_text_sharp = false /\ body_harmless ex_text_sharp = true /\
  no_folded ex_text_sharp = true /\ single_colon_nv ex_text_sharp = true /\
  parse_flat ex_text_sharp = FlatOk "demo" (Some "1.0") ["six"].
Proof. vm_compute. repeat split. Qed.

(* ------------------------------------------------------------------------------------ *)
(* K. sanity of the specification: a METADATA written out from a list of fields is read back
   as those fields, and (with L below) the code returns exactly the declared ones *)

Definition field_line (f : string * string) : string := fst f ++ ": " ++ snd f.
Fixpoint render_lines (ls : list string) (rest : string) : string :=
  match ls with [] => rest | l :: ls' => l ++ String nl (render_lines ls' rest) end.
(* header block, empty line, body *)
Definition render (fs : list (string * string)) (body : string) : string :=
  render_lines (map field_line fs) (String nl body).

(* a field as a writer emits it: RFC 822 field name; one-line value that is already stripped *)
Definition wf_field (f : string * string) : bool :=
  let (n, v) := f in
  negb (String.eqb n "") && all_chars ftext n && no_newline v
  && String.eqb (py_strip (" " ++ v)) v && String.eqb (chomp_cr (field_line f)) (field_line f).

Lemma ftext_noc n : all_chars ftext n = true -> noc colon n = true.
Proof.
  unfold noc. induction n as [|c n IH]; [reflexivity|]. cbn [all_chars]. intros H.
  apply andb_true_iff in H as [Hc Hn]. rewrite (IH Hn), andb_true_r.
  unfold ftext in Hc. apply andb_true_iff in Hc as [_ Hc]. exact Hc.
Qed.
Lemma ftext_not_lwsp c : ftext c = true -> is_lwsp c = false.
Proof. destruct c as [[] [] [] [] [] [] [] []]; cbn; intros H; try discriminate H; reflexivity. Qed.
Lemma ftext_not_nl c : ftext c = true -> negb (Ascii.eqb c nl) = true.
Proof. destruct c as [[] [] [] [] [] [] [] []]; cbn; intros H; try discriminate H; reflexivity. Qed.
Lemma ftext_no_newline n : all_chars ftext n = true -> noc nl n = true.
Proof.
  unfold noc. induction n as [|c n IH]; [reflexivity|]. cbn [all_chars]. intros H.
  apply andb_true_iff in H as [Hc Hn]. rewrite (IH Hn), (ftext_not_nl c Hc). reflexivity.
Qed.

Lemma wf_field_line n v : wf_field (n, v) = true ->
  noc nl (field_line (n, v)) = true /\ chomp_cr (field_line (n, v)) = field_line (n, v) /\
  is_cont_line (field_line (n, v)) = false /\ field_split (field_line (n, v)) = Some (n, " " ++ v) /\
  py_strip (" " ++ v) = v /\ field_line (n, v) <> "".
Proof.
  unfold wf_field. intros H. apply andb_true_iff in H as [H Hch]. apply andb_true_iff in H as [H Hs].
  apply andb_true_iff in H as [H Hv]. apply andb_true_iff in H as [Hne Hn].
  apply String.eqb_eq in Hch, Hs. apply negb_true_iff in Hne. apply String.eqb_neq in Hne.
  destruct n as [|c n]; [contradiction|].
  assert (Hc : ftext c = true) by (cbn [all_chars] in Hn; apply andb_true_iff in Hn as [Hc _]; exact Hc).
  repeat split.
  - unfold field_line. cbn [fst snd]. rewrite !noc_app, (ftext_no_newline _ Hn). exact Hv.
  - exact Hch.
  - unfold field_line. cbn [fst snd append is_cont_line]. apply ftext_not_lwsp. exact Hc.
  - unfold field_split, field_line. cbn [fst snd].
    change (String c n ++ ": " ++ v) with (String c n ++ String colon (" " ++ v)).
    rewrite (ppartition_app colon _ _ (ftext_noc _ Hn)). rewrite Hn. reflexivity.
  - exact Hs.
  - discriminate.
Qed.

Lemma text_lines_render ls rest :
  forallb (noc nl) ls = true -> text_lines (render_lines ls rest) = (ls ++ text_lines rest)%list.
Proof.
  induction ls as [|l ls IH]; [reflexivity|]. cbn [forallb render_lines app]. intros H.
  apply andb_true_iff in H as [Hl H]. unfold text_lines. rewrite (psplit_app nl l _ Hl).
  f_equal. apply IH. exact H.
Qed.

Lemma span_hdr_fields fs rest :
  forallb wf_field fs = true ->
  span_hdr (map field_line fs ++ "" :: rest)%list = (map field_line fs, "" :: rest).
Proof.
  induction fs as [|[n v] fs IH]; [reflexivity|]. cbn [forallb map app span_hdr]. intros H.
  apply andb_true_iff in H as [Hf H].
  destruct (wf_field_line n v Hf) as (_ & Hch & Hcont & Hsplit & _ & Hne).
  rewrite Hch. unfold hdr_line. rewrite Hcont, Hsplit.
  destruct (field_line (n, v)) eqn:E; [contradiction|]. rewrite (IH H). reflexivity.
Qed.

Definition norm_field (f : string * string) : string * string := (lower (fst f), snd f).

Lemma fields_of_fields fs : forall cur,
  forallb wf_field fs = true ->
  fields_of (map field_line fs) cur = (flush cur ++ map norm_field fs)%list.
Proof.
  induction fs as [|[n v] fs IH]; intros cur H.
  - cbn [map fields_of]. rewrite app_nil_r. reflexivity.
  - cbn [forallb map] in *. apply andb_true_iff in H as [Hf H].
    destruct (wf_field_line n v Hf) as (_ & Hch & Hcont & Hsplit & Hs & _).
    cbn [fields_of]. rewrite Hch, Hcont, Hsplit. rewrite (IH _ H).
    cbn [flush]. rewrite Hs. reflexivity.
Qed.

Theorem spec_reads_rendered fs body :
  forallb wf_field fs = true -> rfc822_fields (render fs body) = map norm_field fs.
Proof.
  intros H. unfold rfc822_fields, header_lines, render.
  assert (Hl : forallb (noc nl) (map field_line fs) = true).
  { clear body. induction fs as [|[n v] fs IH]; [reflexivity|]. cbn [forallb map] in *.
    apply andb_true_iff in H as [Hf H]. rewrite (proj1 (wf_field_line n v Hf)), (IH H). reflexivity. }
  rewrite (text_lines_render _ _ Hl).
  change (text_lines (String nl body)) with ("" :: text_lines body).
  rewrite (span_hdr_fields fs _ H). cbn [fst]. rewrite (fields_of_fields fs None H). reflexivity.
Qed.

(* L. ... and the code reads back exactly what was declared, whatever harmless body follows:
   no hypothesis on the model's own guards is left, only on what the writer emitted *)
Definition nv_colon_free (f : string * string) : bool :=
  if String.eqb (lower (fst f)) "name" || String.eqb (lower (fst f)) "version" then negb (has_colon (snd f)) else true.
Definition body_ok (fs : list (string * string)) (body : string) : bool :=
  forallb (fun l =>
    let ll := lower l in
    negb (startswith ll "requires-dist:")
    && (has_field "name" (map norm_field fs) || negb (startswith ll "name:"))
    && (has_field "version" (map norm_field fs) || negb (startswith ll "version:"))) (text_lines body).

Theorem rendered_metadata_read_back fs body :
  forallb wf_field fs = true -> forallb nv_colon_free fs = true -> body_ok fs body = true ->
  parse_flat (render fs body) = select_fields (map norm_field fs).
Proof.
  intros Hw Hc Hb. rewrite <- (spec_reads_rendered fs body Hw).
  assert (Hl : forallb (noc nl) (map field_line fs) = true).
  { clear - Hw. induction fs as [|[n v] fs IH]; [reflexivity|]. cbn [forallb map] in *.
    apply andb_true_iff in Hw as [Hf H]. rewrite (proj1 (wf_field_line n v Hf)), (IH H). reflexivity. }
  assert (Hspan : span_hdr (text_lines (render fs body)) = (map field_line fs, "" :: text_lines body)).
  { unfold render. rewrite (text_lines_render _ _ Hl).
    change (text_lines (String nl body)) with ("" :: text_lines body). apply span_hdr_fields. exact Hw. }
  apply headers_partial_sharp.
  - unfold body_harmless, body_lines. rewrite Hspan. cbn [snd forallb].
    rewrite (spec_reads_rendered fs body Hw).
    assert (E : forall b1 b2 : bool, negb false && (b1 || negb false) && (b2 || negb false) = true)
      by (intros [] []; reflexivity).
    change (startswith (lower "") "requires-dist:") with false.
    change (startswith (lower "") "name:") with false.
    change (startswith (lower "") "version:") with false.
    rewrite E. exact Hb.
  - unfold no_folded, header_lines. rewrite Hspan. cbn [fst].
    clear - Hw. generalize false as b. induction fs as [|[n v] fs IH]; intros b; [reflexivity|].
    cbn [forallb map no_folded_in] in *. apply andb_true_iff in Hw as [Hf H].
    destruct (wf_field_line n v Hf) as (_ & Hch & Hcont & Hsplit & _ & _).
    rewrite Hch, Hcont, Hsplit. apply IH. exact H.
  - unfold single_colon_nv, header_lines. rewrite Hspan. cbn [fst].
    clear - Hw Hc. induction fs as [|[n v] fs IH]; [reflexivity|].
    cbn [forallb map] in *. apply andb_true_iff in Hw as [Hf H]. apply andb_true_iff in Hc as [Hcf Hc].
    rewrite (IH H Hc), andb_true_r.
    destruct (wf_field_line n v Hf) as (_ & Hch & _ & Hsplit & _ & _).
    unfold single_colon_line. rewrite Hch, Hsplit. unfold nv_colon_free in Hcf. cbn [fst snd] in Hcf.
    destruct (String.eqb (lower n) "name" || String.eqb (lower n) "version"); [|reflexivity].
    unfold has_colon in *. cbn [append ascii_list existsb]. exact Hcf.
Qed.

Definition ex_fields : list (string * string) :=
  [("Metadata-Version", "2.1"); ("Name", "demo"); ("VERSION", "1.0"); ("Summary", "a: b");
   ("Requires-Dist", "requests[security] (>=2.0) ; extra == 'net'"); ("requires-dist", "six")].
Example rendered_nonvacuous :
  forallb wf_field ex_fields = true /\ forallb nv_colon_free ex_fields = true /\
  body_ok ex_fields ("Usage" ++ String nl ("Version: see above" ++ String nl "")) = true /\
  select_fields (map norm_field ex_fields) =
    FlatOk "demo" (Some "1.0") ["requests[security] (>=2.0) ; extra == 'net'"; "six"].
Proof. vm_compute. repeat split. Qed.

(* ------------------------------------------------------------------------------------ *)
(* M. reads depend on the archive's content NOW, whatever was read or written before *)

Lemma run_ops_app vok rok ops1 : forall st ops2,
  run_ops vok rok st (ops1 ++ ops2)%list =
  (run_ops vok rok st ops1 ++ run_ops vok rok (fs_after st ops1) ops2)%list.
Proof.
  induction ops1 as [|o ops1 IH]; intros st ops2; [reflexivity|].
  destruct o as [p a|p]; cbn [app run_ops fs_after]; [apply IH|].
  rewrite IH. reflexivity.
Qed.
Lemma fs_after_app ops1 : forall st ops2, fs_after st (ops1 ++ ops2)%list = fs_after (fs_after st ops1) ops2.
Proof.
  induction ops1 as [|o ops1 IH]; intros st ops2; [reflexivity|].
  destruct o as [p a|p]; cbn [app fs_after]; apply IH.
Qed.
Lemma lookup_after_no_write p mid : forall st,
  forallb (fun o => negb (writes_to p o)) mid = true ->
  lookup_file p (fs_after st mid) = lookup_file p st.
Proof.
  induction mid as [|o mid IH]; intros st H; [reflexivity|].
  cbn [forallb] in H. apply andb_true_iff in H as [Ho H].
  destruct o as [q a|q]; cbn [fs_after]; [|apply IH; exact H].
  rewrite (IH _ H). unfold lookup_file. cbn [List.find fst].
  cbn [writes_to] in Ho. apply negb_true_iff in Ho. rewrite Ho. reflexivity.
Qed.

(* the last read of [p] answers from the archive most recently written to [p] *)
Theorem read_sees_current_content vok rok st pre p a mid :
  forallb (fun o => negb (writes_to p o)) mid = true ->
  exists front,
    run_ops vok rok st (pre ++ WriteFile p a :: mid ++ [ReadWheel p])%list =
    (front ++ [Answer (extract_whl vok rok p a)])%list.
Proof.
  intros H.
  exists (run_ops vok rok st pre ++ run_ops vok rok ((p, a) :: fs_after st pre) mid)%list.
  rewrite run_ops_app. cbn [run_ops]. rewrite run_ops_app. cbn [run_ops].
  rewrite <- app_assoc. do 2 f_equal.
  unfold answer_now. rewrite (lookup_after_no_write p mid _ H).
  unfold lookup_file. cbn [List.find fst snd]. rewrite String.eqb_refl. reflexivity.
Qed.

(* two processes with different pasts but the same file at [p] now get the same answer *)
Theorem read_history_independent vok rok st1 st2 ops1 ops2 p :
  lookup_file p (fs_after st1 ops1) = lookup_file p (fs_after st2 ops2) ->
  run_ops vok rok (fs_after st1 ops1) [ReadWheel p] = run_ops vok rok (fs_after st2 ops2) [ReadWheel p].
Proof. intros H. cbn [run_ops]. unfold answer_now. rewrite H. reflexivity. Qed.

Example read_sequence_nonvacuous :
  let good v := Zip [("a-1.dist-info/METADATA", Content ("Name: a" ++ String nl ("Version: " ++ v ++ String nl "")))] in
  run_ops (fun _ => true) (fun _ => true) []
    [ReadWheel "a-1-py3-none-any.whl"; WriteFile "a-1-py3-none-any.whl" NotZip; ReadWheel "a-1-py3-none-any.whl";
     WriteFile "a-1-py3-none-any.whl" (good "1"); ReadWheel "a-1-py3-none-any.whl";
     WriteFile "a-1-py3-none-any.whl" (good "2"); ReadWheel "a-1-py3-none-any.whl"; ReadWheel "a-1-py3-none-any.whl"] =
  [NoSuchFile; Answer (Err MetadataError); Answer (Ok ("a", Some "1", [])); Answer (Ok ("a", Some "2", []));
   Answer (Ok ("a", Some "2", []))].
Proof. vm_compute. reflexivity. Qed.

(* C16 proofs, part 4: facts about the reader that hold for ALL inputs (any lines, any file
   map, any fuel): the `continuation or not full_line` guard never decides anything, no
   text handed to the requirement parser starts with an option token, `line_parts[0]` never
   raises, and the newline readlines() leaves on the lines does not matter. *)
From Coq Require Import List String Ascii Bool Arith Lia.
From RC Require Import lib.PyStr gen.ReqFileConstsC16 model.ReqFileC16 proofs.ReqFileC16P proofs.ReqFileC16Main.
Import ListNotations.
Open Scope string_scope.
Open Scope nat_scope.

Section Guard.
  Variable valid : string -> bool.
  Variable dir : string.

  Lemma classify_parts_ext rec1 rec2 k1 k2 fl parts acc :
    (forall p a, rec1 p a = rec2 p a) -> (forall a, k1 a = k2 a) ->
    classify_parts valid rec1 dir k1 fl parts acc = classify_parts valid rec2 dir k2 fl parts acc.
  Proof.
    intros Hr H. unfold classify_parts. destruct parts as [|p0 ps]; [reflexivity|].
    destruct (existsb (String.eqb p0) c16_include_flags).
    - destruct (nth_error (p0 :: ps) c16_include_arg_index); [|reflexivity].
      rewrite Hr. destruct (rec2 _ acc); [apply H|reflexivity].
    - destruct (startswith p0 c16_option_prefix); [apply H|].
      destruct (valid _); [apply H|reflexivity].
  Qed.
  Lemma classify_line_ext rec1 rec2 k1 k2 fl acc :
    (forall p a, rec1 p a = rec2 p a) -> (forall a, k1 a = k2 a) ->
    classify_line valid rec1 dir k1 fl acc = classify_line valid rec2 dir k2 fl acc.
  Proof.
    intros Hr H. unfold classify_line. destruct (split_ws fl) as [|p0 ps]; [reflexivity|].
    destruct (startswith p0 c16_option_prefix); [|apply classify_parts_ext; assumption].
    destruct (option_parts fl); [apply classify_parts_ext; assumption|reflexivity].
  Qed.

  Variable rec_file : string -> out -> res.
  (* every state the loop reaches satisfies `continuation \/ full_line = ""`, so the guarded
     append is always taken: the loop equals the loop without the guard *)
  Lemma guard_never_decides : forall lines s acc, appending s ->
    iter_lines valid rec_file dir lines s acc = iter_lines_ng valid rec_file dir lines s acc.
  Proof.
    induction lines as [|raw rest IH]; intros s acc Hs; [reflexivity|].
    cbn [iter_lines iter_lines_ng].
    destruct (String.eqb (strip raw) ""); [apply IH; exact Hs|].
    destruct (startswith (strip raw) c16_comment_prefix); [apply IH; exact Hs|].
    rewrite appending_cond by exact Hs.
    destruct (has_char c16_cont (strip raw)).
    - destruct (negb (last_is c16_cont (strip raw))); [reflexivity|]. apply IH. left; reflexivity.
    - apply classify_line_ext; [reflexivity|]. intros a. apply IH. right; reflexivity.
  Qed.
End Guard.

(* ------------------------------------------------------------------ the joined line never starts with white space *)
Definition fl_ok (fl : string) : Prop := fl = "" \/ starts_np is_space fl = true.
Definition st_ok (s : st) : Prop := fl_ok (full s).

Lemma lstrip_shape p s : lstrip_by p s = "" \/ exists c x, lstrip_by p s = String c x /\ p c = false.
Proof.
  induction s as [|c s IH]; cbn [lstrip_by]; [left; reflexivity|].
  destruct (p c) eqn:E; [exact IH|right; eauto].
Qed.
Lemma strip_nonempty_head raw : strip raw <> "" -> exists c x, strip raw = String c x /\ is_space c = false.
Proof.
  unfold strip. intros H. destruct (lstrip_shape is_space raw) as [E | (c & x & E & Hc)]; rewrite E in *.
  - exfalso. apply H. reflexivity.
  - destruct (rstrip_keeps_head is_space c x Hc) as (y & Ey). exists c, y. split; assumption.
Qed.
Lemma lstrip_snoc p A c : lstrip_by p (A ++ String c "") = "" \/ exists B, lstrip_by p (A ++ String c "") = B ++ String c "".
Proof.
  induction A as [|d A IH]; cbn [append lstrip_by].
  - destruct (p c); [left; reflexivity|right; exists ""; reflexivity].
  - destruct (p d); [exact IH|right; exists (String d A); reflexivity].
Qed.
Lemma rstrip_head_or_nil p c x : rstrip_by p (String c x) = "" \/ exists y, rstrip_by p (String c x) = String c y.
Proof.
  unfold rstrip_by. rewrite rev_cons. destruct (lstrip_snoc p (rev_str x) c) as [E | (B & E)]; rewrite E.
  - left; reflexivity.
  - right. rewrite rev_app. cbn. eexists; reflexivity.
Qed.

Lemma next_fl_ok s raw : st_ok s -> strip raw <> "" ->
  fl_ok (if cont s || String.eqb (full s) "" then full s ++ rstrip_chars cont_str (strip raw) else full s).
Proof.
  intros Hs Hne. destruct (cont s || String.eqb (full s) ""); [|exact Hs].
  destruct (strip_nonempty_head raw Hne) as (c & x & E & Hc). rewrite E, rstrip_cont_ext.
  destruct Hs as [Hs | Hs].
  - rewrite Hs. cbn [append]. destruct (rstrip_head_or_nil (fun d => Ascii.eqb d bs) c x) as [E2 | (y & E2)]; rewrite E2.
    + left; reflexivity.
    + right. cbn. rewrite Hc. reflexivity.
  - right. apply starts_np_app. exact Hs.
Qed.

Lemma fl_head fl p0 ps : fl_ok fl -> split_ws fl = p0 :: ps -> startswith p0 "-" = true -> exists r, fl = String "-"%char r.
Proof.
  intros [-> | Hs] Hp Hd; [discriminate|]. destruct fl as [|c x]; [discriminate|]. cbn in Hs. apply negb_true_iff in Hs.
  destruct (split_head c x Hs) as (y & r & E). rewrite E in Hp. injection Hp as <- _.
  unfold startswith in Hd. cbn [prefixb] in Hd. rewrite andb_true_r in Hd. apply Ascii.eqb_eq in Hd. subst c. eauto.
Qed.

(* ---- the first token of an option line starts with '-' *)
Lemma snoc_nonempty t : t ++ "-" <> "".
Proof. destruct t; discriminate. Qed.
Lemma sh_first_dash : forall s st tok' quoted l, st <> SW ->
  shlex_go s st (tok' ++ "-") quoted = Some l -> exists q0 r, l = q0 :: r /\ startswith q0 "-" = true.
Proof.
  assert (Hemit : forall tok' quoted X l, sh_emit (tok' ++ "-") quoted X = Some l ->
                  exists q0 r, l = q0 :: r /\ startswith q0 "-" = true).
  { intros tok' quoted X l. unfold sh_emit.
    replace (String.eqb (tok' ++ "-") "") with false by (destruct tok'; reflexivity). cbn [negb orb].
    destruct X as [x|]; [|discriminate]. cbn [option_map]. intros E. injection E as <-.
    eexists; eexists; split; [reflexivity|]. rewrite rev_app. reflexivity. }
  induction s as [|c s IH]; intros st tok' quoted l Hst H.
  - destruct st; cbn [shlex_go] in H; try discriminate; [congruence|]. eapply Hemit; exact H.
  - destruct st as [| |q|[q|]]; cbn [shlex_go] in H; [congruence| | | |].
    + destruct (shlex_ws c); [eapply Hemit; exact H|].
      destruct (is_quote c); [eapply IH; [|exact H]; discriminate|].
      destruct (Ascii.eqb c bslash); [eapply IH; [|exact H]; discriminate|].
      change (String c (tok' ++ "-")) with (String c tok' ++ "-") in H. eapply IH; [|exact H]; discriminate.
    + destruct (Ascii.eqb c q); [eapply IH; [|exact H]; discriminate|].
      destruct (Ascii.eqb c bslash && Ascii.eqb q dquote); [eapply IH; [|exact H]; discriminate|].
      change (String c (tok' ++ "-")) with (String c tok' ++ "-") in H. eapply IH; [|exact H]; discriminate.
    + destruct (negb (Ascii.eqb c bslash) && negb (Ascii.eqb c q)).
      * change (String c (String bslash (tok' ++ "-"))) with (String c (String bslash tok') ++ "-") in H.
        eapply IH; [|exact H]; discriminate.
      * change (String c (tok' ++ "-")) with (String c tok' ++ "-") in H. eapply IH; [|exact H]; discriminate.
    + change (String c (tok' ++ "-")) with (String c tok' ++ "-") in H. eapply IH; [|exact H]; discriminate.
Qed.

Lemma include_eq_dash q0 t : startswith q0 "-" = true ->
  exists q0' t', include_eq (q0 :: t) = q0' :: t' /\ startswith q0' "-" = true.
Proof.
  intros H. unfold include_eq. destruct (partition_char "="%char q0) as [[flag found] value].
  destruct found; [|eauto]. destruct gen_ok as (_ & _ & -> & _). cbn [existsb].
  destruct (String.eqb flag "-r") eqn:E1; [apply String.eqb_eq in E1; subst; cbn [orb]; eauto|].
  destruct (String.eqb flag "--requirement") eqn:E2; [apply String.eqb_eq in E2; subst; cbn [orb]; eauto|].
  cbn [orb]. eauto.
Qed.

Lemma option_parts_dash r parts : option_parts (String "-"%char r) = Some parts ->
  exists q0 t, parts = q0 :: t /\ startswith q0 "-" = true.
Proof.
  unfold option_parts, drop_comment. cbn [drop_comment_go].
  replace (Ascii.eqb "-"%char hash_char) with false by reflexivity. cbn [andb].
  replace (is_space "-"%char) with false by reflexivity. cbn [rev_str rev_str_acc append].
  unfold shlex_split. cbn [shlex_go].
  replace (shlex_ws "-"%char) with false by reflexivity.
  replace (Ascii.eqb "-"%char bslash) with false by reflexivity.
  replace (is_quote "-"%char) with false by reflexivity.
  destruct (shlex_go _ SA "-" false) as [l|] eqn:E; [|discriminate]. cbn [option_map]. intros H. injection H as <-.
  destruct (sh_first_dash _ SA "" false l ltac:(discriminate) E) as (q0 & t & -> & Hd).
  destruct (include_eq_dash q0 t Hd) as (q0' & t' & -> & Hd'). eauto.
Qed.

(* ------------------------------------------------------------------ texts are never options *)
Definition good_text (t : string) : Prop :=
  exists p0 r, split_ws t = p0 :: r /\ startswith p0 "-" = false.
Definition res_out (r : res) : out := match r with Ok o => o | Err _ o => o end.
Definition inv (o : out) : Prop := Forall good_text (fst o).

Lemma hash_is_dash p : startswith p "--hash" = true -> startswith p "-" = true.
Proof.
  unfold startswith. destruct p as [|c p]; cbn; [discriminate|].
  intros H. apply andb_true_iff in H as [H _]. rewrite H. reflexivity.
Qed.

Lemma req_text_good fl p0 ps : split_ws fl = p0 :: ps -> startswith p0 "-" = false ->
  good_text (req_text fl (p0 :: ps)).
Proof.
  intros Hs Hd. unfold req_text. rewrite hash_pred_eq.
  destruct gen_ok as (_ & _ & _ & _ & _ & _ & _ & _ & ->).
  destruct (c16_hash_min_parts <? List.length (p0 :: ps)); [|exists p0, ps; split; assumption].
  cbn [find_idx]. destruct (is_hash p0) eqn:Eh.
  - apply hash_is_dash in Eh. congruence.
  - destruct (find_idx is_hash ps) as [i|]; cbn [option_map]; [|exists p0, ps; split; assumption].
    cbn [firstn]. exists p0, (firstn i ps). split; [|exact Hd].
    apply split_join. pose proof (split_tokens fl) as Ht. rewrite Hs in Ht.
    inversion Ht as [|? ? H1 H2]; subst. constructor; [exact H1|]. apply Forall_firstn; exact H2.
Qed.

Section Texts.
  Variable valid : string -> bool.

  Lemma inv_snoc o t : inv o -> good_text t -> inv ((fst o ++ [t])%list, snd o).
  Proof. unfold inv. cbn [fst]. intros H1 H2. apply Forall_app; split; [exact H1|constructor; [exact H2|constructor]]. Qed.

  Lemma classify_parts_inv rec_file dir k fl parts acc :
    (parts = split_ws fl \/ exists q0 t, parts = q0 :: t /\ startswith q0 "-" = true) ->
    (forall p a, inv a -> inv (res_out (rec_file p a))) ->
    (forall a, inv a -> inv (res_out (k a))) ->
    inv acc -> inv (res_out (classify_parts valid rec_file dir k fl parts acc)).
  Proof.
    intros Hparts Hrec Hk Hacc. unfold classify_parts.
    destruct parts as [|p0 ps]; [exact Hacc|].
    destruct (existsb (String.eqb p0) c16_include_flags).
    - destruct (nth_error (p0 :: ps) c16_include_arg_index) as [p1|]; [|exact Hacc].
      specialize (Hrec (path_join (dir_or_default dir) (strip p1)) acc Hacc).
      destruct (rec_file _ acc) as [acc'|e o]; [apply Hk; exact Hrec|exact Hrec].
    - destruct gen_ok as (_ & _ & _ & _ & _ & Eo & _). rewrite Eo.
      destruct (startswith p0 "-") eqn:Ed; [apply Hk; exact Hacc|].
      destruct Hparts as [Es | (q0 & t & E & Hd)]; [|injection E as -> _; congruence].
      pose proof (req_text_good fl p0 ps (eq_sym Es) Ed) as Hg.
      destruct (valid _); [apply Hk|]; apply inv_snoc; assumption.
  Qed.

  Lemma classify_inv rec_file dir k fl acc : fl_ok fl ->
    (forall p a, inv a -> inv (res_out (rec_file p a))) ->
    (forall a, inv a -> inv (res_out (k a))) ->
    inv acc -> inv (res_out (classify_line valid rec_file dir k fl acc)).
  Proof.
    intros Hfl Hrec Hk Hacc. unfold classify_line.
    destruct (split_ws fl) as [|p0 ps] eqn:Es; [exact Hacc|].
    destruct gen_ok as (_ & _ & _ & _ & _ & Eo & _). rewrite Eo.
    destruct (startswith p0 "-") eqn:Ed.
    - destruct (fl_head fl p0 ps Hfl Es Ed) as (r & ->).
      destruct (option_parts (String "-"%char r)) as [parts|] eqn:Eo2; [|exact Hacc].
      apply classify_parts_inv; try assumption. right. eapply option_parts_dash; exact Eo2.
    - apply classify_parts_inv; try assumption. left. symmetry; exact Es.
  Qed.

  Lemma iter_lines_inv rec_file dir :
    (forall p a, inv a -> inv (res_out (rec_file p a))) ->
    forall lines s acc, st_ok s -> inv acc -> inv (res_out (iter_lines valid rec_file dir lines s acc)).
  Proof.
    intros Hrec. induction lines as [|raw rest IH]; intros s acc Hs Hacc; [exact Hacc|].
    cbn [iter_lines].
    destruct (String.eqb (strip raw) "") eqn:Ee; [apply IH; assumption|].
    destruct (startswith (strip raw) c16_comment_prefix); [apply IH; assumption|].
    assert (Hne : strip raw <> "") by (intros E; rewrite E in Ee; discriminate).
    pose proof (next_fl_ok s raw Hs Hne) as Hfl.
    destruct (has_char c16_cont (strip raw)).
    - destruct (negb (last_is c16_cont (strip raw))); [exact Hacc|apply IH; [exact Hfl|exact Hacc]].
    - apply classify_inv; [exact Hfl|exact Hrec| |exact Hacc]. intros a Ha. apply IH; [left; reflexivity|exact Ha].
  Qed.

  Variable fs : string -> option (list string).
  Lemma iter_file_inv : forall fuel p a, inv a -> inv (res_out (iter_file valid fs fuel p a)).
  Proof.
    induction fuel as [|f IH]; intros p a Ha; cbn [iter_file]; [exact Ha|].
    destruct (fs p) as [lines|]; [|exact Ha]. apply iter_lines_inv; [exact IH|left; reflexivity|exact Ha].
  Qed.

  (* whatever the files contain, and whether or not the read ends in an error: every text
     handed to the requirement parser has a first token, and it does not start with '-' *)
  Theorem options_never_requirements : forall fuel path,
    Forall good_text (fst (res_out (req_iter valid fs fuel path))).
  Proof. intros fuel path. apply iter_file_inv. constructor. Qed.
End Texts.

(* ------------------------------------------------------------------ utils.parse_requirements *)
Lemma pr_ready_in r t : In t (pr_ready r) -> t <> "" /\ startswith t "#" = false /\ startswith t "--" = false.
Proof.
  unfold pr_ready. destruct (String.eqb r "") eqn:E; [intros []|].
  destruct (startswith r "#" || startswith r "--") eqn:E2; [intros []|].
  intros [<- | []]. apply orb_false_iff in E2 as [E2 E3]. repeat split; try assumption.
  intros ->. discriminate E.
Qed.

(* comment entries, option entries and empty entries of a `requires` list are skipped,
   also inside a multi-line entry *)
Theorem parse_requirements_skips : forall reqs t, In t (parse_requirements_texts reqs) ->
  t <> "" /\ startswith t "#" = false /\ startswith t "--" = false.
Proof.
  intros reqs t H. unfold parse_requirements_texts in H. apply in_flat_map in H as (r & _ & H).
  unfold pr_entry in H. destruct (has_char nl (pr_clean r)).
  - apply in_flat_map in H as (p & _ & H). eapply pr_ready_in; exact H.
  - eapply pr_ready_in; exact H.
Qed.

(* ------------------------------------------------------------------ line_parts[0] never fails *)
Lemma split_acc_nonempty s : forall acc, (acc <> "" \/ all_chars is_space s = false) -> split_ws_acc s acc <> [].
Proof.
  induction s as [|c s IH]; intros acc H; cbn [split_ws_acc].
  - destruct H as [H|H]; [|discriminate]. destruct acc; [congruence|discriminate].
  - destruct (is_space c) eqn:Ec.
    + destruct acc as [|a acc]; [|discriminate]. apply IH. right.
      destruct H as [H|H]; [congruence|]. cbn in H. rewrite Ec in H. exact H.
    + apply IH. left. discriminate.
Qed.

Definition no_head (r : res) : Prop := forall o, r <> Err IndexErrorHead o.

Section Head.
  Variable valid : string -> bool.

  Lemma classify_parts_no_head rec_file dir k fl parts acc :
    parts <> [] -> (forall p a, no_head (rec_file p a)) -> (forall a, no_head (k a)) ->
    no_head (classify_parts valid rec_file dir k fl parts acc).
  Proof.
    intros Hne Hrec Hk. unfold classify_parts. destruct parts as [|p0 ps]; [congruence|].
    destruct (existsb (String.eqb p0) c16_include_flags).
    - destruct (nth_error (p0 :: ps) c16_include_arg_index) as [p1|]; [|intros o; discriminate].
      pose proof (Hrec (path_join (dir_or_default dir) (strip p1)) acc) as Hr.
      destruct (rec_file _ acc); [apply Hk|exact Hr].
    - destruct (startswith p0 c16_option_prefix); [apply Hk|].
      destruct (valid _); [apply Hk|intros o; discriminate].
  Qed.

  Lemma classify_no_head rec_file dir k fl acc : fl_ok fl ->
    split_ws fl <> [] -> (forall p a, no_head (rec_file p a)) -> (forall a, no_head (k a)) ->
    no_head (classify_line valid rec_file dir k fl acc).
  Proof.
    intros Hfl Hne Hrec Hk. unfold classify_line. destruct (split_ws fl) as [|p0 ps] eqn:Es; [congruence|].
    destruct gen_ok as (_ & _ & _ & _ & _ & Eo & _). rewrite Eo.
    destruct (startswith p0 "-") eqn:Ed.
    - destruct (fl_head fl p0 ps Hfl Es Ed) as (r & ->).
      destruct (option_parts (String "-"%char r)) as [parts|] eqn:Eo2; [|intros o; discriminate].
      destruct (option_parts_dash r parts Eo2) as (q0 & t & -> & _).
      apply classify_parts_no_head; [discriminate|assumption|assumption].
    - apply classify_parts_no_head; [discriminate|assumption|assumption].
  Qed.

  Lemma iter_lines_no_head rec_file dir : (forall p a, no_head (rec_file p a)) ->
    forall lines s acc, appending s -> st_ok s -> no_head (iter_lines valid rec_file dir lines s acc).
  Proof.
    intros Hrec. induction lines as [|raw rest IH]; intros s acc Hs Hok; [intros o; discriminate|].
    cbn [iter_lines].
    destruct (String.eqb (strip raw) "") eqn:Ee; [apply IH; assumption|].
    destruct (startswith (strip raw) c16_comment_prefix); [apply IH; assumption|].
    assert (Hne : strip raw <> "") by (intros E; rewrite E in Ee; discriminate).
    pose proof (next_fl_ok s raw Hok Hne) as Hfl.
    rewrite appending_cond in * by exact Hs.
    destruct (has_char c16_cont (strip raw)) eqn:Eh.
    - destruct (negb (last_is c16_cont (strip raw))); [intros o; discriminate|]. apply IH; [left; reflexivity|exact Hfl].
    - apply classify_no_head; [exact Hfl| |exact Hrec|intros a; apply IH; [right; reflexivity|left; reflexivity]].
      destruct (strip_nonempty_head raw Hne) as (c & x & E & Hc). rewrite E in *.
      destruct gen_ok as (_ & Eb & _). rewrite Eb in Eh.
      rewrite rstrip_cont_ext, rstrip_noop by (apply has_false_all; exact Eh).
      unfold split_ws. apply split_acc_nonempty. right. rewrite all_app. cbn [all_chars]. rewrite Hc.
      cbn [andb]. apply andb_false_r.
  Qed.

  Variable fs : string -> option (list string).
  Lemma iter_file_no_head : forall fuel p a, no_head (iter_file valid fs fuel p a).
  Proof.
    induction fuel as [|f IH]; intros p a; cbn [iter_file]; [intros o; discriminate|].
    destruct (fs p); [|intros o; discriminate]. apply iter_lines_no_head; [exact IH|right; reflexivity|left; reflexivity].
  Qed.

  (* `line_parts[0]` never raises, neither on the white-space split nor on the shlex tokens of
     an option line: whenever a logical line is complete it has a first token *)
  Theorem first_part_exists : forall fuel path o, req_iter valid fs fuel path <> Err IndexErrorHead o.
  Proof. intros fuel path. apply iter_file_no_head. Qed.
End Head.

(* ------------------------------------------------------------------ readlines() keeps the newline *)
Lemma lstrip_app_gen p l y :
  lstrip_by p (l ++ y) = if String.eqb (lstrip_by p l) "" then lstrip_by p y else lstrip_by p l ++ y.
Proof.
  induction l as [|c l IH]; cbn [append lstrip_by]; [reflexivity|].
  destruct (p c); [exact IH|reflexivity].
Qed.
Lemma rstrip_app_all p X W : all_chars p W = true -> rstrip_by p (X ++ W) = rstrip_by p X.
Proof. intros H. unfold rstrip_by. rewrite rev_app, lstrip_all by (rewrite all_rev; exact H). reflexivity. Qed.

Definition add_nl (l : string) : string := l ++ String nl "".

Lemma strip_add_nl l : strip (add_nl l) = strip l.
Proof.
  unfold strip, add_nl. rewrite lstrip_app_gen.
  destruct (String.eqb (lstrip_by is_space l) "") eqn:E.
  - apply String.eqb_eq in E. rewrite E. reflexivity.
  - apply rstrip_app_all. reflexivity.
Qed.

Section Newlines.
  Variable valid : string -> bool.

  Lemma iter_lines_strip_ext rec1 rec2 dir : (forall p a, rec1 p a = rec2 p a) ->
    forall l1 l2, map strip l1 = map strip l2 ->
    forall s acc, iter_lines valid rec1 dir l1 s acc = iter_lines valid rec2 dir l2 s acc.
  Proof.
    intros Hrec. induction l1 as [|a l1 IH]; intros [|b l2] Hm s acc; try discriminate; [reflexivity|].
    cbn [map] in Hm. injection Hm as Hab Hm. cbn [iter_lines]. rewrite Hab.
    destruct (String.eqb (strip b) ""); [apply IH; exact Hm|].
    destruct (startswith (strip b) c16_comment_prefix); [apply IH; exact Hm|].
    destruct (has_char c16_cont (strip b)).
    - destruct (negb (last_is c16_cont (strip b))); [reflexivity|apply IH; exact Hm].
    - apply classify_line_ext; [exact Hrec|]. intros a0. apply IH; exact Hm.
  Qed.

  Variables fs1 fs2 : string -> option (list string).
  Hypothesis Hfs : forall p, option_map (map strip) (fs1 p) = option_map (map strip) (fs2 p).

  Lemma iter_file_strip_ext : forall fuel p a, iter_file valid fs1 fuel p a = iter_file valid fs2 fuel p a.
  Proof.
    induction fuel as [|f IH]; intros p a; cbn [iter_file]; [reflexivity|].
    specialize (Hfs p). destruct (fs1 p) as [l1|], (fs2 p) as [l2|]; cbn [option_map] in Hfs; try discriminate; [|reflexivity].
    injection Hfs as Hm. apply iter_lines_strip_ext; [exact IH|exact Hm].
  Qed.
End Newlines.

(* the reader only looks at the stripped physical lines: a file map whose lines carry the
   newline readlines() leaves on them is read exactly like the one without *)
Theorem newlines_do_not_matter (valid : string -> bool) (fs : string -> option (list string)) :
  forall fuel path,
    req_iter valid (fun p => option_map (map add_nl) (fs p)) fuel path = req_iter valid fs fuel path.
Proof.
  intros fuel path. unfold req_iter. apply iter_file_strip_ext. intros p.
  destruct (fs p) as [l|]; cbn [option_map]; [|reflexivity]. f_equal.
  rewrite map_map. apply map_ext. intros a. apply strip_add_nl.
Qed.

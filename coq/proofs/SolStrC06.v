(* C06 - lemmas about the Python string functions of lib/PyStr.v (and the small helpers of
   model/SolFileC06.v) used by the round-trip proofs: strip / rstrip, partition, split on a
   character and on a string, containment, prefixes, replace, readlines, span, stable sort. *)
From Coq Require Import List Bool String Ascii Arith Lia.
From RC Require Import lib.PyStr lib.StrSort model.SolFileC06.
Import ListNotations.
Open Scope string_scope.
Open Scope nat_scope.

(* ---------------------------------------------------------------- characters *)

Definition neqc (c : ascii) : ascii -> bool := fun x => negb (Ascii.eqb x c).
Definition nonspace (c : ascii) : bool := negb (is_space c).

Lemma forall_chars_app p a b : forall_chars p (a ++ b) = forall_chars p a && forall_chars p b.
Proof.
  induction a as [|c a IH]; simpl; auto. rewrite IH. apply andb_assoc.
Qed.

Lemma forall_chars_impl (p q : ascii -> bool) s :
  (forall c, p c = true -> q c = true) -> forall_chars p s = true -> forall_chars q s = true.
Proof.
  intros H. induction s as [|c s IH]; simpl; auto. intros E.
  apply andb_prop in E as [E1 E2]. rewrite (H _ E1), (IH E2). reflexivity.
Qed.

Lemma append_nil_r s : s ++ "" = s.
Proof.
  induction s; simpl; congruence.
Qed.

Lemma append_assoc (a b c : string) : (a ++ b) ++ c = a ++ (b ++ c).
Proof.
  induction a; simpl; congruence.
Qed.

Lemma length_append a b : String.length (a ++ b) = String.length a + String.length b.
Proof.
  induction a; simpl; auto.
Qed.

(* ---------------------------------------------------------------- rev_str *)

Lemma rev_str_acc_eq s : forall acc, rev_str_acc s acc = rev_str s ++ acc.
Proof.
  unfold rev_str. induction s as [|c s IH]; intros acc; simpl; auto.
  rewrite IH. rewrite (IH (String c "")). rewrite append_assoc. reflexivity.
Qed.

Lemma rev_str_nil : rev_str "" = "".
Proof. reflexivity. Qed.

Lemma rev_str_cons c s : rev_str (String c s) = rev_str s ++ String c "".
Proof. unfold rev_str at 1. simpl. apply rev_str_acc_eq. Qed.

Lemma rev_str_app a b : rev_str (a ++ b) = rev_str b ++ rev_str a.
Proof.
  induction a as [|c a IH].
  - simpl. rewrite rev_str_nil, append_nil_r. reflexivity.
  - cbn [append]. rewrite !rev_str_cons, IH, append_assoc. reflexivity.
Qed.

Lemma rev_str_involutive s : rev_str (rev_str s) = s.
Proof.
  induction s as [|c s IH]; auto.
  rewrite rev_str_cons, rev_str_app, IH. reflexivity.
Qed.

(* ---------------------------------------------------------------- first / last *)

Lemma last_char_app_cons a c b : last_char (a ++ String c b) = last_char (String c b).
Proof.
  induction a as [|d a IH]; auto.
  cbn [append]. destruct a as [|e a]; [reflexivity|].
  cbn [append] in *. exact IH.
Qed.

Lemma last_ok_app p a b : nonempty b = true -> last_ok p (a ++ b) = last_ok p b.
Proof.
  destruct b as [|c b]; [discriminate|]. intros _.
  unfold last_ok. rewrite last_char_app_cons. reflexivity.
Qed.

Lemma first_ok_app p a b : nonempty a = true -> first_ok p (a ++ b) = first_ok p a.
Proof.
  destruct a; [discriminate|reflexivity].
Qed.

(* ---------------------------------------------------------------- strip family *)

Lemma lstrip_by_all p a s : forall_chars p a = true -> lstrip_by p (a ++ s) = lstrip_by p s.
Proof.
  induction a as [|c a IH]; simpl; auto. intros E.
  apply andb_prop in E as [E1 E2]. rewrite E1. auto.
Qed.

Lemma lstrip_by_id p s : first_ok p s = false -> lstrip_by p s = s.
Proof.
  destruct s as [|c s]; simpl; auto. intros ->. reflexivity.
Qed.

Lemma forall_chars_rev p s : forall_chars p (rev_str s) = forall_chars p s.
Proof.
  induction s as [|c s IH]; auto.
  rewrite rev_str_cons, forall_chars_app, IH. simpl. rewrite andb_true_r. apply andb_comm.
Qed.

Lemma last_ok_rev p s : last_ok p (rev_str s) = first_ok p s.
Proof.
  destruct s as [|c s]; auto.
  rewrite rev_str_cons, last_ok_app; auto.
Qed.

Lemma first_ok_rev p s : first_ok p (rev_str s) = last_ok p s.
Proof. rewrite <- (rev_str_involutive s) at 2. rewrite last_ok_rev. reflexivity. Qed.

Lemma nonempty_rev s : nonempty (rev_str s) = nonempty s.
Proof.
  destruct s as [|c s]; auto. rewrite rev_str_cons.
  destruct (rev_str s); reflexivity.
Qed.

(* lstrip of a concatenation *)
Lemma lstrip_by_app p s b :
  lstrip_by p (s ++ b) = if forall_chars p s then lstrip_by p b else lstrip_by p s ++ b.
Proof.
  induction s as [|c s IH]; simpl; auto.
  destruct (p c); simpl; auto.
Qed.

Lemma rstrip_by_all p s b : forall_chars p b = true -> rstrip_by p (s ++ b) = rstrip_by p s.
Proof.
  intros H. unfold rstrip_by. rewrite rev_str_app, lstrip_by_all; auto.
  rewrite forall_chars_rev. exact H.
Qed.

Lemma rstrip_by_id p s : last_ok p s = false -> rstrip_by p s = s.
Proof.
  intros H. unfold rstrip_by. rewrite lstrip_by_id.
  - apply rev_str_involutive.
  - rewrite first_ok_rev. exact H.
Qed.

(* s has a non-blank first and last character *)
Definition tight (s : string) : bool := first_ok nonspace s && last_ok nonspace s.

Lemma strip_tight s : tight s = true -> strip s = s.
Proof.
  unfold tight, strip. intros H. apply andb_prop in H as [H1 H2].
  rewrite lstrip_by_id.
  - apply rstrip_by_id. unfold nonspace in H2. unfold last_ok in *.
    destruct (last_char s); [|discriminate]. destruct (is_space a); [discriminate|reflexivity].
  - unfold first_ok, nonspace in *. destruct s; [discriminate|].
    destruct (is_space a); [discriminate|reflexivity].
Qed.

Lemma strip_ws_l a s : forall_chars is_space a = true -> strip (a ++ s) = strip s.
Proof.
  intros H. unfold strip. rewrite lstrip_by_all; auto.
Qed.

Lemma strip_ws_r s b : forall_chars is_space b = true -> strip (s ++ b) = strip s.
Proof.
  intros H. unfold strip. rewrite lstrip_by_app.
  destruct (forall_chars is_space s) eqn:E.
  - rewrite <- (append_nil_r b), lstrip_by_all by exact H.
    rewrite <- (append_nil_r s) at 1. rewrite lstrip_by_all by exact E. reflexivity.
  - apply rstrip_by_all. exact H.
Qed.

Lemma strip_all_ws a : forall_chars is_space a = true -> strip a = "".
Proof.
  intros H. unfold strip. rewrite <- (append_nil_r a), lstrip_by_all by exact H. reflexivity.
Qed.

Lemma strip_pad a s b :
  forall_chars is_space a = true -> forall_chars is_space b = true -> tight s = true ->
  strip (a ++ s ++ b) = s.
Proof.
  intros Ha Hb Hs. rewrite strip_ws_l, strip_ws_r by assumption. apply strip_tight. exact Hs.
Qed.

Lemma lstrip_tight s : first_ok nonspace s = true -> lstrip s = s.
Proof.
  intros H. unfold lstrip. apply lstrip_by_id. unfold first_ok, nonspace in *.
  destruct s; [discriminate|]. destruct (is_space a); [discriminate|reflexivity].
Qed.

Lemma rstrip_chars_id cs s : last_ok (fun c => mem_ascii c cs) s = false -> rstrip_chars cs s = s.
Proof.
  apply rstrip_by_id.
Qed.

Lemma rstrip_chars_all cs s b :
  forall_chars (fun c => mem_ascii c cs) b = true -> rstrip_chars cs (s ++ b) = rstrip_chars cs s.
Proof.
  apply rstrip_by_all.
Qed.

Lemma lstrip_by_keeps p c s :
  p c = false -> forall_chars (neqc c) s = false -> forall_chars (neqc c) (lstrip_by p s) = false.
Proof.
  intros Hc. induction s as [|d s IH]; simpl; auto.
  destruct (p d) eqn:Hd; simpl; auto.
  unfold neqc at 1. destruct (Ascii.eqb_spec d c) as [->|N]; simpl; auto. congruence.
Qed.

Lemma has_char_nonempty c s : forall_chars (neqc c) s = false -> nonempty s = true.
Proof. destruct s; [discriminate|reflexivity]. Qed.

Lemma strip_chars_nonempty cs s c :
  mem_ascii c cs = false -> forall_chars (neqc c) s = false -> nonempty (strip_chars cs s) = true.
Proof.
  intros Hc Hs. unfold strip_chars, rstrip_chars, lstrip_chars, rstrip_by.
  rewrite nonempty_rev.
  apply (has_char_nonempty c). apply lstrip_by_keeps; auto.
  rewrite forall_chars_rev. apply lstrip_by_keeps; auto.
Qed.

(* ---------------------------------------------------------------- partition / split on a character *)

Lemma neqc_true c d : neqc c d = true -> Ascii.eqb d c = false.
Proof. unfold neqc. destruct (Ascii.eqb d c); simpl; congruence. Qed.

Lemma forall_chars_cons p c s : forall_chars p (String c s) = p c && forall_chars p s.
Proof. reflexivity. Qed.

Lemma partition_char_acc_hit c a b : forall acc,
  forall_chars (neqc c) a = true ->
  partition_char_acc c (a ++ String c b) acc = (rev_str acc ++ a, true, b).
Proof.
  induction a as [|d a IH]; intros acc H.
  - cbn [append partition_char_acc]. rewrite Ascii.eqb_refl, append_nil_r. reflexivity.
  - rewrite forall_chars_cons in H. apply andb_prop in H as [H1 H2]. apply neqc_true in H1.
    cbn [append partition_char_acc]. rewrite H1, IH by exact H2.
    rewrite rev_str_cons, append_assoc. reflexivity.
Qed.

Lemma partition_char_acc_miss c a : forall acc,
  forall_chars (neqc c) a = true ->
  partition_char_acc c a acc = (rev_str acc ++ a, false, "").
Proof.
  induction a as [|d a IH]; intros acc H.
  - cbn [partition_char_acc]. rewrite append_nil_r. reflexivity.
  - rewrite forall_chars_cons in H. apply andb_prop in H as [H1 H2]. apply neqc_true in H1.
    cbn [partition_char_acc]. rewrite H1, IH by exact H2.
    rewrite rev_str_cons, append_assoc. reflexivity.
Qed.

Lemma split_char_acc_hit c a b : forall acc,
  forall_chars (neqc c) a = true ->
  split_char_acc c (a ++ String c b) acc = (rev_str acc ++ a) :: split_char c b.
Proof.
  induction a as [|d a IH]; intros acc H.
  - cbn [append split_char_acc]. rewrite Ascii.eqb_refl, append_nil_r. reflexivity.
  - rewrite forall_chars_cons in H. apply andb_prop in H as [H1 H2]. apply neqc_true in H1.
    cbn [append split_char_acc]. rewrite H1, IH by exact H2.
    rewrite rev_str_cons, append_assoc. reflexivity.
Qed.

Lemma split_char_acc_miss c a : forall acc,
  forall_chars (neqc c) a = true ->
  split_char_acc c a acc = [rev_str acc ++ a].
Proof.
  induction a as [|d a IH]; intros acc H.
  - cbn [split_char_acc]. rewrite append_nil_r. reflexivity.
  - rewrite forall_chars_cons in H. apply andb_prop in H as [H1 H2]. apply neqc_true in H1.
    cbn [split_char_acc]. rewrite H1, IH by exact H2.
    rewrite rev_str_cons, append_assoc. reflexivity.
Qed.

Lemma partition_char_hit c a b :
  forall_chars (neqc c) a = true -> partition_char c (a ++ String c b) = (a, true, b).
Proof.
  intros H. unfold partition_char. rewrite partition_char_acc_hit by exact H. reflexivity.
Qed.

Lemma partition_char_miss c a :
  forall_chars (neqc c) a = true -> partition_char c a = (a, false, "").
Proof.
  intros H. unfold partition_char. rewrite partition_char_acc_miss by exact H. reflexivity.
Qed.

Lemma split_char_hit c a b :
  forall_chars (neqc c) a = true -> split_char c (a ++ String c b) = a :: split_char c b.
Proof.
  intros H. unfold split_char at 1. rewrite split_char_acc_hit by exact H. reflexivity.
Qed.

Lemma split_char_miss c a :
  forall_chars (neqc c) a = true -> split_char c a = [a].
Proof.
  intros H. unfold split_char. rewrite split_char_acc_miss by exact H. reflexivity.
Qed.

Lemma join_cons2 sep x y l : join sep (x :: y :: l) = x ++ sep ++ join sep (y :: l).
Proof. reflexivity. Qed.

Lemma split_char_join c l :
  l <> [] -> Forall (fun x => forall_chars (neqc c) x = true) l ->
  split_char c (join (String c "") l) = l.
Proof.
  intros Hne HF. induction l as [|x l IH]; [congruence|].
  inversion HF as [|? ? Hx Hl]; subst. destruct l as [|y l].
  - cbn [join]. apply split_char_miss; exact Hx.
  - rewrite join_cons2. cbn [append]. rewrite split_char_hit by exact Hx.
    rewrite IH; auto. discriminate.
Qed.

(* ---------------------------------------------------------------- prefixes, containment *)

Lemma prefixb_app p s : prefixb p (p ++ s) = true.
Proof.
  induction p as [|c p IH]; simpl; auto. rewrite Ascii.eqb_refl. exact IH.
Qed.

Lemma prefixb_refl p : prefixb p p = true.
Proof.
  induction p as [|c p IH]; simpl; auto. rewrite Ascii.eqb_refl. exact IH.
Qed.

Lemma prefixb_app_l p a b : prefixb p a = true -> prefixb p (a ++ b) = true.
Proof.
  revert a. induction p as [|c p IH]; intros a; simpl; auto.
  destruct a as [|d a]; simpl; [discriminate|]. intros H. apply andb_prop in H as [H1 H2].
  rewrite H1, (IH _ H2). reflexivity.
Qed.

(* a prefix test is decided inside [a] as soon as [a] is at least as long as the prefix *)
Lemma prefixb_app_long p a b :
  String.length p <= String.length a -> prefixb p (a ++ b) = prefixb p a.
Proof.
  revert a. induction p as [|c p IH]; intros a H; [reflexivity|].
  destruct a as [|d a]; simpl in H; [lia|]. simpl. f_equal. apply IH. lia.
Qed.

Lemma drop_app_length a b : drop (String.length a) (a ++ b) = b.
Proof.
  induction a; simpl; auto.
Qed.

Lemma take_app_length a b : take (String.length a) (a ++ b) = a.
Proof.
  induction a; simpl; [destruct b; reflexivity|congruence].
Qed.

Lemma containsb_cons x c s : containsb x (String c s) = prefixb x (String c s) || containsb x s.
Proof. reflexivity. Qed.

Lemma containsb_nil x : containsb x "" = prefixb x "".
Proof. simpl. apply orb_false_r. Qed.

Lemma containsb_prefix x s : prefixb x s = true -> containsb x s = true.
Proof. destruct s; simpl; intros ->; reflexivity. Qed.

Lemma containsb_app_mid x a b : containsb x (a ++ x ++ b) = true.
Proof.
  induction a as [|c a IH].
  - cbn [append]. apply containsb_prefix, prefixb_app.
  - cbn [append]. rewrite containsb_cons, IH. apply orb_true_r.
Qed.

Lemma containsb_app_r x a b : containsb x b = true -> containsb x (a ++ b) = true.
Proof.
  intros H. induction a as [|c a IH]; auto.
  cbn [append]. rewrite containsb_cons, IH. apply orb_true_r.
Qed.

Lemma containsb_app_l x a b : containsb x a = true -> containsb x (a ++ b) = true.
Proof.
  induction a as [|c a IH]; intros H.
  - rewrite containsb_nil in H. apply containsb_prefix. apply (prefixb_app_l x "" b H).
  - rewrite containsb_cons in H. cbn [append]. apply orb_prop in H as [H|H].
    + apply containsb_prefix. apply (prefixb_app_l x (String c a) b H).
    + rewrite containsb_cons, (IH H). apply orb_true_r.
Qed.

Lemma containsb_char c s : containsb (String c "") s = negb (forall_chars (neqc c) s).
Proof.
  induction s as [|d s IH]; [reflexivity|].
  rewrite containsb_cons, IH, forall_chars_cons. unfold neqc. cbn [prefixb].
  destruct (Ascii.eqb_spec c d) as [E|N], (Ascii.eqb_spec d c) as [E'|N']; subst; simpl; congruence.
Qed.

(* [x] does not occur in [a ++ b] when it occurs in neither part and cannot straddle the seam
   because the last character of [a] is not a character of [x] *)
Lemma mem_self x : forall_chars (fun c => mem_ascii c x) x = true.
Proof.
  induction x as [|d x IH]; [reflexivity|].
  rewrite forall_chars_cons. cbn [mem_ascii]. rewrite Ascii.eqb_refl. cbn [orb andb].
  eapply forall_chars_impl; [|exact IH]. intros c H. cbn beta. rewrite H. apply orb_true_r.
Qed.

Lemma last_ok_tail p c a : last_ok p (String c a) = false -> last_ok p a = false.
Proof. destruct a; auto. Qed.

(* an occurrence of x cannot start inside a non-empty [a] and run past its end when the last
   character of [a] is not a character of x *)
Lemma prefixb_seam p : forall x a rest,
  nonempty a = true -> forall_chars p x = true -> last_ok p a = false ->
  prefixb x a = false -> prefixb x (a ++ rest) = false.
Proof.
  induction x as [|d x IH]; intros a rest Ha Hx Hl Hp; [discriminate|].
  destruct a as [|c a]; [discriminate|].
  rewrite forall_chars_cons in Hx. apply andb_prop in Hx as [Hd Hx].
  cbn [append prefixb] in *.
  destruct (Ascii.eqb_spec d c) as [->|N]; cbn [andb] in *; [|reflexivity].
  destruct a as [|e a].
  - unfold last_ok in Hl. cbn [last_char] in Hl. congruence.
  - apply (IH (String e a) rest); auto.
Qed.

Lemma containsb_app_false x a b :
  containsb x a = false -> containsb x b = false -> nonempty x = true ->
  last_ok (fun c => mem_ascii c x) a = false ->
  containsb x (a ++ b) = false.
Proof.
  intros Ha Hb Hx. induction a as [|c a IH]; intros Hl; [exact Hb|].
  rewrite containsb_cons in Ha. apply orb_false_elim in Ha as [Hp Ha].
  cbn [append]. rewrite containsb_cons.
  change (String c (a ++ b)) with (String c a ++ b).
  rewrite (prefixb_seam (fun c => mem_ascii c x)); auto using mem_self.
  cbn [orb]. apply IH; auto. eapply last_ok_tail; exact Hl.
Qed.

Lemma endswith_app a p : endswith (a ++ p) p = true.
Proof.
  unfold endswith. cbv zeta. rewrite length_append.
  replace (String.length a + String.length p - String.length p) with (String.length a) by lia.
  rewrite drop_app_length, String.eqb_refl, andb_true_r. apply Nat.leb_le. lia.
Qed.

(* ---------------------------------------------------------------- split on a string *)

Lemma split_str_fuel_S f sep c s acc :
  split_str_fuel (S f) sep (String c s) acc =
  if prefixb sep (String c s)
  then rev_str acc :: split_str_fuel f sep (drop (String.length sep) (String c s)) ""
  else split_str_fuel f sep s (String c acc).
Proof. reflexivity. Qed.

Lemma length_drop_le n : forall s, String.length (drop n s) <= String.length s.
Proof.
  induction n as [|n IH]; intros s; destruct s as [|c s]; simpl; auto.
Qed.

(* with a non-empty separator the result does not depend on the fuel once it exceeds the length *)
Lemma split_str_fuel_indep sep :
  nonempty sep = true -> forall f1 f2 s acc,
  String.length s < f1 -> String.length s < f2 ->
  split_str_fuel f1 sep s acc = split_str_fuel f2 sep s acc.
Proof.
  intros Hs. destruct sep as [|d sep]; [discriminate|].
  induction f1 as [|f1 IH]; intros f2 s acc H1 H2; [lia|].
  destruct f2 as [|f2]; [lia|]. destruct s as [|c s]; [reflexivity|].
  rewrite !split_str_fuel_S. simpl in H1, H2.
  destruct (prefixb (String d sep) (String c s)).
  - f_equal. pose proof (length_drop_le (String.length sep) s).
    apply IH; simpl; lia.
  - apply IH; lia.
Qed.

Lemma split_str_fuel_miss sep : forall s fuel acc,
  containsb sep s = false -> split_str_fuel fuel sep s acc = [rev_str acc ++ s].
Proof.
  induction s as [|c s IH]; intros fuel acc H.
  - destruct fuel; cbn [split_str_fuel]; rewrite ?append_nil_r; reflexivity.
  - destruct fuel as [|f]; [reflexivity|].
    rewrite containsb_cons in H. apply orb_false_elim in H as [Hp H].
    rewrite split_str_fuel_S, Hp, IH by exact H.
    rewrite rev_str_cons, append_assoc. reflexivity.
Qed.

Lemma split_str_fuel_hit sep b :
  nonempty sep = true -> forall a fuel acc,
  String.length (a ++ sep ++ b) < fuel ->
  containsb sep a = false -> last_ok (fun c => mem_ascii c sep) a = false ->
  split_str_fuel fuel sep (a ++ sep ++ b) acc = (rev_str acc ++ a) :: split_str sep b.
Proof.
  intros Hs. induction a as [|c a IH]; intros fuel acc Hf Hc Hl.
  - cbn [append] in *. rewrite append_nil_r. destruct fuel as [|f]; [lia|].
    destruct sep as [|d sep]; [discriminate|]. cbn [append] in *.
    rewrite split_str_fuel_S.
    change (String d (sep ++ b)) with (String d sep ++ b).
    rewrite prefixb_app, drop_app_length. f_equal. unfold split_str.
    apply split_str_fuel_indep; auto.
    simpl in Hf. rewrite length_append in Hf. lia.
  - destruct fuel as [|f]; [lia|]. cbn [append] in *. rewrite split_str_fuel_S.
    rewrite containsb_cons in Hc. apply orb_false_elim in Hc as [Hp Hc].
    change (String c (a ++ sep ++ b)) with (String c a ++ sep ++ b).
    rewrite (prefixb_seam (fun c => mem_ascii c sep)); auto using mem_self.
    rewrite IH.
    + rewrite rev_str_cons, append_assoc. reflexivity.
    + simpl in Hf. lia.
    + exact Hc.
    + eapply last_ok_tail; exact Hl.
Qed.

Lemma split_str_miss sep s :
  nonempty sep = true -> containsb sep s = false -> split_str sep s = [s].
Proof.
  intros _ H. unfold split_str. rewrite split_str_fuel_miss by exact H. reflexivity.
Qed.

(* the first occurrence of sep in a ++ sep ++ b is the one written: sep does not occur in a and
   cannot start inside a (the last character of a is not a character of sep) *)
Lemma split_str_hit sep a b :
  nonempty sep = true -> containsb sep a = false ->
  last_ok (fun c => mem_ascii c sep) a = false ->
  split_str sep (a ++ sep ++ b) = a :: split_str sep b.
Proof.
  intros Hs Hc Hl. unfold split_str at 1. rewrite (split_str_fuel_hit sep b Hs); auto.
Qed.

Lemma split_str_join sep l :
  nonempty sep = true -> l <> [] ->
  Forall (fun x => containsb sep x = false /\ last_ok (fun c => mem_ascii c sep) x = false) l ->
  split_str sep (join sep l) = l.
Proof.
  intros Hs Hne HF. induction l as [|x l IH]; [congruence|].
  inversion HF as [|? ? [Hx1 Hx2] Hl]; subst. destruct l as [|y l].
  - cbn [join]. apply split_str_miss; assumption.
  - rewrite join_cons2, split_str_hit by assumption.
    rewrite IH; auto. discriminate.
Qed.

Lemma find_from_unfold sub s i :
  find_from sub s i =
  if prefixb sub s then Some i else
  match s with EmptyString => None | String _ s' => find_from sub s' (S i) end.
Proof. destruct s; reflexivity. Qed.

Lemma find_from_hit sep b :
  nonempty sep = true -> forall a i,
  containsb sep a = false -> last_ok (fun c => mem_ascii c sep) a = false ->
  find_from sep (a ++ sep ++ b) i = Some (i + String.length a).
Proof.
  intros Hs. induction a as [|c a IH]; intros i Hc Hl.
  - cbn [append]. rewrite find_from_unfold, prefixb_app. simpl. f_equal. lia.
  - rewrite containsb_cons in Hc. apply orb_false_elim in Hc as [Hp Hc].
    rewrite find_from_unfold.
    rewrite (prefixb_seam (fun c => mem_ascii c sep)); auto using mem_self.
    cbn [append]. rewrite IH.
    + simpl. f_equal. lia.
    + exact Hc.
    + eapply last_ok_tail; exact Hl.
Qed.

Lemma find_hit sep a b :
  nonempty sep = true -> containsb sep a = false ->
  last_ok (fun c => mem_ascii c sep) a = false ->
  find (a ++ sep ++ b) sep = Some (String.length a).
Proof.
  intros Hs Hc Hl. unfold find. rewrite (find_from_hit sep b Hs); auto.
Qed.

Lemma partition_str_hit sep a b :
  nonempty sep = true -> containsb sep a = false ->
  last_ok (fun c => mem_ascii c sep) a = false ->
  partition_str sep (a ++ sep ++ b) = (a, true, b).
Proof.
  intros Hs Hc Hl. unfold partition_str. rewrite find_hit by assumption.
  rewrite take_app_length, <- length_append, <- append_assoc, drop_app_length. reflexivity.
Qed.

(* ---------------------------------------------------------------- replace of one character by nothing *)

Fixpoint remove_char (c : ascii) (s : string) : string :=
  match s with
  | EmptyString => EmptyString
  | String x s' => if Ascii.eqb x c then remove_char c s' else String x (remove_char c s')
  end.

Lemma replace_fuel_char c : forall s fuel,
  String.length s < fuel -> replace_fuel fuel (String c "") "" s = remove_char c s.
Proof.
  induction s as [|d s IH]; intros fuel H; (destruct fuel as [|f]; [simpl in H; lia|]).
  - reflexivity.
  - simpl in H. cbn [replace_fuel prefixb remove_char].
    destruct (Ascii.eqb_spec c d) as [E|N], (Ascii.eqb_spec d c) as [E'|N']; subst; try congruence;
      cbn [andb String.length drop append]; rewrite IH by lia; reflexivity.
Qed.

Lemma replace_char_empty c s : replace (String c "") "" s = remove_char c s.
Proof.
  unfold replace. apply replace_fuel_char. lia.
Qed.

Lemma remove_char_app c a b : remove_char c (a ++ b) = remove_char c a ++ remove_char c b.
Proof.
  induction a as [|d a IH]; [reflexivity|]. cbn [append remove_char].
  destruct (Ascii.eqb d c); [exact IH|]. cbn [append]. rewrite IH. reflexivity.
Qed.

Lemma remove_char_id c s : forall_chars (neqc c) s = true -> remove_char c s = s.
Proof.
  induction s as [|d s IH]; [reflexivity|]. rewrite forall_chars_cons. intros H.
  apply andb_prop in H as [H1 H2]. apply neqc_true in H1. cbn [remove_char].
  rewrite H1, (IH H2). reflexivity.
Qed.

(* ---------------------------------------------------------------- readlines, span *)

Definition oneline_b (s : string) : bool := forall_chars (neqc nlc) s.

Lemma readlines_nil : readlines "" = [].
Proof.
  reflexivity.
Qed.

Lemma readlines_acc_line rest : forall l acc,
  oneline_b l = true ->
  readlines_acc (l ++ nl ++ rest) acc = (rev_str acc ++ l ++ nl) :: readlines rest.
Proof.
  unfold oneline_b. induction l as [|c l IH]; intros acc H.
  - change ("" ++ nl ++ rest) with (String nlc rest). cbn [readlines_acc].
    rewrite Ascii.eqb_refl, rev_str_cons. reflexivity.
  - rewrite forall_chars_cons in H. apply andb_prop in H as [H1 H2]. apply neqc_true in H1.
    cbn [append readlines_acc]. rewrite H1, IH by exact H2.
    rewrite rev_str_cons, append_assoc. reflexivity.
Qed.

Lemma readlines_line l rest :
  oneline_b l = true -> readlines (l ++ nl ++ rest) = (l ++ nl) :: readlines rest.
Proof.
  intros H. unfold readlines at 1. rewrite readlines_acc_line by exact H. reflexivity.
Qed.

Lemma span_app p a b :
  forall_chars p a = true -> first_ok p b = false -> span p (a ++ b) = (a, b).
Proof.
  intros Ha Hb. induction a as [|c a IH].
  - cbn [append]. destruct b as [|d b]; [reflexivity|]. cbn [first_ok] in Hb. cbn [span].
    rewrite Hb. reflexivity.
  - rewrite forall_chars_cons in Ha. apply andb_prop in Ha as [H1 H2].
    cbn [append span]. rewrite H1, (IH H2). reflexivity.
Qed.

(* ---------------------------------------------------------------- stable sort *)

Lemma sorted_by_cons2 {A} (key : A -> string) x y l :
  sorted_by key (x :: y :: l) = str_leb (key x) (key y) && sorted_by key (y :: l).
Proof. reflexivity. Qed.

Lemma sort_by_cons {A} (key : A -> string) x l :
  sort_by key (x :: l) = insert_by key x (sort_by key l).
Proof. reflexivity. Qed.

Lemma insert_by_map {A B} (f : A -> B) (key : B -> string) x l :
  map f (insert_by (fun x => key (f x)) x l) = insert_by key (f x) (map f l).
Proof.
  induction l as [|y l IH]; [reflexivity|]. cbn [insert_by map].
  destruct (str_leb (key (f x)) (key (f y))); cbn [map]; [reflexivity|]. rewrite IH. reflexivity.
Qed.

Lemma insert_by_sorted {A} (key : A -> string) x l :
  sorted_by key l = true -> sorted_by key (insert_by key x l) = true.
Proof.
  induction l as [|y l IH]; intros H; [reflexivity|].
  cbn [insert_by]. destruct (str_leb (key x) (key y)) eqn:E.
  - rewrite sorted_by_cons2, E, H. reflexivity.
  - assert (str_leb (key y) (key x) = true) as E'
      by (destruct (str_leb_total (key x) (key y)); congruence).
    destruct l as [|z l].
    + cbn [insert_by]. rewrite sorted_by_cons2, E'. reflexivity.
    + rewrite sorted_by_cons2 in H. apply andb_prop in H as [H1 H2]. specialize (IH H2).
      cbn [insert_by] in *. destruct (str_leb (key x) (key z)).
      * rewrite sorted_by_cons2, E', IH. reflexivity.
      * rewrite sorted_by_cons2, H1, IH. reflexivity.
Qed.

Lemma sort_by_sorted {A} (key : A -> string) (l : list A) :
  sorted_by key l = true -> sort_by key l = l.
Proof.
  induction l as [|x l IH]; [reflexivity|]. intros H.
  assert (sorted_by key l = true) as Hl.
  { destruct l as [|y l]; [reflexivity|]. rewrite sorted_by_cons2 in H.
    apply andb_prop in H as [_ H]. exact H. }
  rewrite sort_by_cons, (IH Hl). destruct l as [|y l]; [reflexivity|].
  rewrite sorted_by_cons2 in H. apply andb_prop in H as [H _].
  cbn [insert_by]. rewrite H. reflexivity.
Qed.

Lemma sort_by_map {A B} (f : A -> B) (key : B -> string) (l : list A) :
  map f (sort_by (fun x => key (f x)) l) = sort_by key (map f l).
Proof.
  induction l as [|x l IH]; [reflexivity|].
  cbn [map]. rewrite !sort_by_cons, insert_by_map, IH. reflexivity.
Qed.

Lemma sorted_by_sort_by {A} (key : A -> string) (l : list A) : sorted_by key (sort_by key l) = true.
Proof.
  induction l as [|x l IH]; [reflexivity|].
  rewrite sort_by_cons. apply insert_by_sorted. exact IH.
Qed.

(* C06 - satisfiability examples for the hypotheses, and the refuted statements (witnesses by vm_compute;
   each is replayed on the real code by harness/c06.py, see corpus/C06 and known_findings.d/C06.json). *)
From Coq Require Import List Bool String Ascii Arith.
From RC Require Import lib.PyStr lib.StrSort lib.Name gen.SolConstsC06 model.SolFileC06 model.SolWfC06.
Import ListNotations.
Open Scope string_scope.

Definition ex_hash : string := "sha256:0123456789abcdef0123456789abcdef0123456789abcdef0123456789abcdef".
Definition ex_view : view := [
  mkPin "A.b" "1!2.0+loc.1" (Some ex_hash)
        (Some "https://files.example.org/packages/ab/cd/A.b-2.0.tar.gz#sha256=00ff")
        [mkVia "-" [] "" []; mkVia "reqs/in.txt" [] ">=1" ["x"]];
  mkPin "foo-bar" "2.0rc1.post2.dev3" (Some "sha512:abcdef") (Some "../wheels/foo_bar-2.0rc1-py3-none-any.whl")
        [mkVia "A.b" [] "<3,>=1" []; mkVia "A.b" ["x"] "!=2.5.*" ["docs"; "test"]; mkVia "C:\proj\requirements.txt" [] "==2.0rc1.post2.dev3" []];
  mkPin "zope.interface" "5.4" None None
        [mkVia "foo-bar" [] "" ["e_f"]; mkVia "myproject" [] "~=5.4" []]
].
Definition ex_annot : annot :=
  mkAnnot "1.0.0rc30" "2026-01-02 03:04:05.678901" ["reqs/in.txt"; "-"]
          ["--index-url https://idx.example/simple"; "--find-links ../wheels"] [("A.b", "0"); ("foo-bar", "1")].
Definition ex_opts_f (fmt : option bool) (hashes urls annotate : bool) : opts :=
  mkOpts fmt hashes urls (if annotate then Some ex_annot else None)
         ["--index-url https://idx.example/simple"] ["--find-links ../wheels"].

Definition ex_opts (multi hashes urls annotate : bool) : opts := ex_opts_f (Some multi) hashes urls annotate.

(* the side conditions of the multi-line theorem hold of a rich view, in all eight option sets *)
Example wf_multi_example :
  forallb (fun h => forallb (fun u => forallb (fun a => wf_multi (ex_opts true h u a) ex_view) [true; false]) [true; false]) [true; false] = true.
Proof. vm_compute. reflexivity. Qed.

(* ... and so do those of the one-line theorem, URLs included *)
Example wf_single_example :
  forallb (fun h => forallb (fun u => forallb (fun a => wf_single (ex_opts false h u a) ex_view) [true; false]) [true; false]) [true; false] = true.
Proof. vm_compute. reflexivity. Qed.

(* ... and with the format left to the tool (multiline = None), in all eight option sets *)
Example wf_auto_example :
  forallb (fun h => forallb (fun u => forallb (fun a => wf_auto (ex_opts_f None h u a) ex_view) [true; false]) [true; false]) [true; false] = true.
Proof. vm_compute. reflexivity. Qed.
Example roundtrip_default_example :
  load (write (ex_opts_f None false true true) ex_view) = Ok (erase (ex_opts_f None false true true) ex_view).
Proof. vm_compute. reflexivity. Qed.

(* a second run under any other option set: all 24 x 24 pairs *)
Definition all_opts : list opts :=
  flat_map (fun f => flat_map (fun h => flat_map (fun u => map (fun a => ex_opts_f f h u a) [true; false]) [true; false]) [true; false])
           [Some true; Some false; None].
Example wf_second_run_example :
  forallb (fun o1 => forallb (fun o2 => wf_auto o1 ex_view && wf_auto o2 (erase o1 ex_view)) all_opts) all_opts = true.
Proof. vm_compute. reflexivity. Qed.

(* a project with a self-referential "everything" extra, listed among its own requirers *)
Definition self_view : view := [
  mkPin "Frame" "2.4.0" None None [mkVia "Frame" ["all"] "" ["io"; "viz"]; mkVia "requirements.txt" [] ">=2" ["all"]];
  mkPin "numpy" "1.0" None None [mkVia "Frame" ["io"] "" []]
].
Example self_edge_example :
  forallb (fun o => wf_auto o self_view) all_opts = true /\
  In ("frame", "Frame", ["io"; "viz"], "", ["all"]) (edges self_view).
Proof. split; [vm_compute; reflexivity|left; reflexivity]. Qed.

(* the round trip itself, computed *)
Example roundtrip_example :
  load (write (ex_opts true true true true) ex_view) = Ok ex_view.
Proof. vm_compute. reflexivity. Qed.

(* one-line output with URLs, a requirer starting with "via", a version equal to the former placeholder
   0+missing: all inside the theorems now (they were refuted before the repairs of the loader) *)
Definition via_view : view := [mkPin "c" "2.0" None None [mkVia "viaduct" [] ">1" []; mkVia "zlib" [] "" []]].
Definition missing_view : view := [mkPin "a" "0+missing" None None [mkVia "reqs.txt" [] "" []]].
Example former_findings_example :
  wf_single (ex_opts false true true false) ex_view = true /\
  wf_single (mkOpts (Some false) false false None [] []) via_view = true /\
  wf_multi (mkOpts (Some true) false false None [] []) missing_view = true /\
  load (write (mkOpts (Some true) false false None [] []) missing_view) = Ok missing_view.
Proof. vm_compute. repeat split; reflexivity. Qed.

(* ---- refuted: one-line output without --annotate whose comment starts with the *word* "via" - a
   requirer literally named `via` followed by a specifier - is read as pip-compile's "# via x" layout *)
Definition named_via_view : view := [mkPin "c" "2.0" None None [mkVia "via" [] ">1" []]].
Lemma single_requirer_named_via_refuted :
  exists o v, wf_multi (mkOpts (Some true) (o_hashes o) (o_urls o) (o_annot o) (o_index o) (o_links o)) v = true /\
              o_format o = Some false /\ load (write o v) = Err EValue.
Proof. exists (mkOpts (Some false) false false None [] []), named_via_view. vm_compute. repeat split; reflexivity. Qed.

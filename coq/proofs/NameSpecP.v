(* The generated normalisation chain against the specification of project-name equivalence (PEP 503 as
   req-compile uses it): letter case and the separators '-', '_' and '.' do not distinguish projects.
   norm is a character-wise map (so it distributes over concatenation); the three separators and both cases
   of every letter have one image.  Hence two names that differ only in those respects normalise alike. *)
From Coq Require Import List String Ascii Bool.
From RC Require Import lib.PyStr gen.NameConsts lib.Name.
Import ListNotations.
Open Scope string_scope.

Lemma smap_app f a b : smap f (a ++ b) = smap f a ++ smap f b.
Proof. induction a as [|c a IH]; cbn [smap append]; [reflexivity|]. rewrite IH. reflexivity. Qed.

Lemma replace_char_app o n a b : replace_char o n (a ++ b) = replace_char o n a ++ replace_char o n b.
Proof. unfold replace_char. apply smap_app. Qed.

Lemma apply_chain_app chain : forall a b, apply_chain chain (a ++ b) = apply_chain chain a ++ apply_chain chain b.
Proof.
  unfold apply_chain. induction chain as [|p chain IH]; intros a b; cbn [fold_left]; [reflexivity|].
  rewrite replace_char_app. apply IH.
Qed.

Theorem norm_app a b : norm (a ++ b) = norm a ++ norm b.
Proof.
  unfold norm. destruct norm_lower.
  - unfold lower. rewrite smap_app. apply apply_chain_app.
  - apply apply_chain_app.
Qed.

(* the separators are one character after normalisation; letter case is folded *)
Theorem norm_separators_and_case :
  norm "-" = norm "_" /\ norm "." = norm "_" /\
  norm "ABCDEFGHIJKLMNOPQRSTUVWXYZ" = norm "abcdefghijklmnopqrstuvwxyz".
Proof. repeat split; vm_compute; reflexivity. Qed.

(* so any two spellings that differ in one separator (or one letter's case) somewhere are the same project *)
Corollary norm_respelled_separator pre post s1 s2 :
  In s1 ["-"; "_"; "."] -> In s2 ["-"; "_"; "."] -> norm (pre ++ s1 ++ post) = norm (pre ++ s2 ++ post).
Proof.
  destruct norm_separators_and_case as [H1 [H2 _]].
  intros Hs1 Hs2. rewrite !norm_app. f_equal. f_equal.
  cbn [In] in Hs1, Hs2.
  destruct Hs1 as [<-|[<-|[<-|[]]]]; destruct Hs2 as [<-|[<-|[<-|[]]]]; congruence.
Qed.

Example norm_zope : norm "Zope.Interface" = norm "zope-interface" /\ norm "zope_interface" = norm "ZOPE.INTERFACE".
Proof. split; vm_compute; reflexivity. Qed.

(* C06 - proofs: the multi-line and one-line round trips of the solution-file model. *)
From Coq Require Import List Bool String Ascii Arith Lia.
From RC Require Import lib.PyStr lib.StrSort lib.Name gen.SolConstsC06 model.SolFileC06 model.SolWfC06
  proofs.SolStrC06 proofs.SolAuxC06 proofs.SolLinesC06.
Import ListNotations.
Open Scope string_scope.
Open Scope nat_scope.

(* ------------------------------------------------------------------ the loader on the lines of one pin *)
Definition acc_text (o : opts) (p : pin) : string := P0 o p ++ concat_str (bodies o p).

Definition body_good (b : string) : Prop :=
  tight b = true /\ last_ok is_cont b = false /\ existsb (fun p => startswith b p) l_cont_prefixes = true.

Lemma cont_lines bs : forall partial rest acc,
  nonempty partial = true -> Forall body_good bs ->
  load_lines (List.app (map (fun l => l ++ nl) (map (fun b => "    " ++ b) bs)) rest) partial acc =
  load_lines rest (partial ++ concat_str bs) acc.
Proof.
  induction bs as [|b bs IH]; intros partial rest acc Hp Hb; cbn [map List.app concat_str].
  - rewrite append_nil_r. reflexivity.
  - inversion Hb as [|? ? [Ht [Hc Hs]] Hb']; subst.
    rewrite (cont_line b partial _ acc Hp Ht Hc Hs).
    rewrite IH; [|apply nonempty_app_l; exact Hp|exact Hb']. rewrite append_assoc. reflexivity.
Qed.

Lemma tight_intro s : first_ok nonspace s = true -> last_ok nonspace s = true -> tight s = true.
Proof. intros A B. unfold tight. rewrite A, B. reflexivity. Qed.

Lemma plain_last_nonspace s : forall_chars plain s = true -> nonempty s = true -> last_ok nonspace s = true.
Proof.
  intros H N. apply (last_ok_impl plain); [apply plain_nonspace|]. apply forall_chars_last; assumption.
Qed.

(* a comment body "# " ++ text (or "#   " ++ text) *)
Lemma body_good_comment pre s :
  first_ok (fun c => Ascii.eqb c "#"%char) pre = true ->
  last_ok plain s = true -> last_ok is_cont s = false -> nonempty s = true ->
  body_good (pre ++ s).
Proof.
  intros Hpre Hl Hc Hn. unfold body_good. repeat split.
  - apply tight_intro.
    + destruct pre as [|c pre']; [discriminate|]. cbn [first_ok] in Hpre. apply Ascii.eqb_eq in Hpre. subst c. reflexivity.
    + rewrite last_ok_app by exact Hn. eapply last_ok_impl; [apply plain_nonspace|exact Hl].
  - rewrite last_ok_app by exact Hn. exact Hc.
  - destruct pre as [|c pre']; [discriminate|]. cbn [first_ok] in Hpre. apply Ascii.eqb_eq in Hpre. subst c. reflexivity.
Qed.

Ltac split_andb H :=
  repeat match type of H with
         | (_ && _) = true => let H2 := fresh H in apply andb_true_iff in H as [H H2]
         end.

Record pin_facts (p : pin) : Prop := {
  pf_name : name_ok (p_name p) = true;
  pf_vtok : token (p_version p) = true;
  pf_vcont : last_ok is_cont (p_version p) = false;
  pf_vspec : spec_ok ("==" ++ p_version p) = true;
  pf_vpin : pin_version ("==" ++ p_version p) = Ok (p_version p);
  pf_nohash : containsb "--hash=" (p_name p ++ "==" ++ p_version p ++ " ") = false;
  pf_hash : forall h, p_hash p = Some h -> hash_ok h = true;
  pf_url : forall u, p_url p = Some u -> url_ok u = true;
  pf_vne : p_via p <> [];
  pf_vias : forallb via_ok (p_via p) = true;
  pf_sorted : sorted_by via_key (p_via p) = true;
  pf_one : forall x, p_via p = [x] -> url_like ("via " ++ constraint_text x) = false
}.

Lemma pin_ok_facts p : pin_ok p = true -> pin_facts p.
Proof.
  unfold pin_ok. intros H.
  apply andb_true_iff in H as [H Hone]. apply andb_true_iff in H as [H Hsorted].
  apply andb_true_iff in H as [H Hvias]. apply andb_true_iff in H as [H Hvne].
  apply andb_true_iff in H as [H Hurl]. apply andb_true_iff in H as [H Hhash].
  apply andb_true_iff in H as [H Hnoh]. apply andb_true_iff in H as [H Hvpin].
  apply andb_true_iff in H as [H Hvspec].
  apply andb_true_iff in H as [H Hvcont]. apply andb_true_iff in H as [Hname Hvtok].
  change w_pin_eq with "==" in *. change l_hash_split with "--hash=" in *. change w_via_one with "via " in *.
  constructor; try assumption.
  - apply negb_true_iff; assumption.
  - destruct (pin_version ("==" ++ p_version p)) as [v|e]; [|discriminate].
    apply String.eqb_eq in Hvpin. subst v. reflexivity.
  - apply negb_true_iff; assumption.
  - intros h Hh. rewrite Hh in Hhash. exact Hhash.
  - intros u Hu. rewrite Hu in Hurl. exact Hurl.
  - destruct (p_via p); [discriminate|congruence].
  - intros x Hx. rewrite Hx in Hone. apply negb_true_iff; assumption.
Qed.

Lemma list_eqb_eq a : forall b, list_eqb a b = true -> a = b.
Proof.
  induction a as [|x a IH]; intros [|y b]; cbn; try discriminate; [reflexivity|].
  intros H. apply andb_true_iff in H as [H1 H2]. apply String.eqb_eq in H1. subst. f_equal. apply IH; exact H2.
Qed.

Record via_facts (x : via_t) : Prop := {
  vf_rtok : token (requirer_text x) = true;
  vf_rparen : containsb "(" (requirer_text x) = false;
  vf_req : requirer_of (requirer_text x) = Ok (v_req x, v_mex x);
  vf_spec_ch : forall_chars spec_ch (v_spec x) = true;
  vf_spec_ok : spec_ok (v_spec x) = true;
  vf_extras : forallb extra_ok (v_extras x) = true;
  vf_esorted : sort_set (v_extras x) = v_extras x;
  vf_bchars : forall_chars (fun c => printable c && not_hash c) (constraint_text x) = true;
  vf_bfirst : first_ok plain (constraint_text x) = true;
  vf_blast : last_ok plain (constraint_text x) = true;
  vf_bcont : last_ok is_cont (constraint_text x) = false;
  vf_nourl : url_like (constraint_text x) = false
}.

Lemma via_ok_facts x : via_ok x = true -> via_facts x.
Proof.
  unfold via_ok, body_ok. intros H.
  apply andb_true_iff in H as [H Hnourl]. apply andb_true_iff in H as [H Hbody].
  apply andb_true_iff in H as [H Hes]. apply andb_true_iff in H as [H Hex].
  apply andb_true_iff in H as [H Hsok]. apply andb_true_iff in H as [H Hsch].
  apply andb_true_iff in H as [H Hreq]. apply andb_true_iff in H as [Htok Hpar].
  apply andb_true_iff in Hbody as [Hbody Hbc]. apply andb_true_iff in Hbody as [Hbody Hbl].
  apply andb_true_iff in Hbody as [Hbch Hbf].
  constructor; try assumption.
  - apply negb_true_iff; assumption.
  - destruct (requirer_of (requirer_text x)) as [[n m]|e]; [|discriminate].
    apply andb_true_iff in Hreq as [Hn Hm]. apply String.eqb_eq in Hn. apply list_eqb_eq in Hm. subst. reflexivity.
  - apply list_eqb_eq; assumption.
  - apply negb_true_iff; assumption.
  - apply negb_true_iff; assumption.
Qed.

Lemma via_facts_all p : pin_facts p -> Forall via_facts (p_via p).
Proof.
  intros F. pose proof (pf_vias p F) as H. rewrite forallb_forall in H.
  apply Forall_forall. intros x Hx. apply via_ok_facts. apply H. exact Hx.
Qed.

Lemma ctext_nonempty x : via_facts x -> nonempty (constraint_text x) = true.
Proof. intros F. eapply first_ok_nonempty. exact (vf_bfirst x F). Qed.

Lemma url_nonempty u : url_ok u = true -> nonempty u = true.
Proof.
  unfold url_ok. destruct u as [|c u]; [|reflexivity].
  cbn. discriminate.
Qed.

Lemma bodies_good o p : pin_facts p -> annot_pin_ok o p = true -> Forall body_good (bodies o p).
Proof.
  intros F Ha. unfold bodies.
  apply Forall_app; split; [|apply Forall_app; split; [|apply Forall_app; split]].
  - unfold hash_w. destruct (p_hash p) as [h|] eqn:Eh; [|constructor].
    destruct (o_hashes o && nonempty h); [|constructor]. constructor; [|constructor].
    pose proof (pf_hash p F h Eh) as Hh. unfold hash_ok in Hh.
    apply andb_true_iff in Hh as [Hh Hc]. apply andb_true_iff in Hh as [Ht _].
    apply negb_true_iff in Hc.
    unfold body_good. repeat split.
    + apply tight_intro; [reflexivity|]. rewrite last_ok_app by (apply token_nonempty; exact Ht).
      apply token_last_nonspace; exact Ht.
    + rewrite last_ok_app by (apply token_nonempty; exact Ht). exact Hc.
  - unfold annot_pin_ok in Ha. destruct (o_annot o) as [a|]; [|constructor]. constructor; [|constructor].
    unfold body_good. repeat split.
    + apply tight_intro; [reflexivity|].
      rewrite last_ok_app by (apply nonempty_app_r; reflexivity). rewrite last_ok_app by reflexivity. reflexivity.
    + rewrite last_ok_app by (apply nonempty_app_r; reflexivity). rewrite last_ok_app by reflexivity. reflexivity.
  - pose proof (via_facts_all p F) as Hv. unfold via_bodies.
    assert (forall pre, first_ok (fun c => Ascii.eqb c "#"%char) pre = true ->
            Forall body_good (map (fun c => pre ++ c) (map constraint_text (p_via p)))) as Hall.
    { intros pre Hpre. induction Hv as [|x l Hx _ IH]; cbn [map]; constructor; [|exact IH].
      apply body_good_comment; [exact Hpre|exact (vf_blast x Hx)|exact (vf_bcont x Hx)|apply ctext_nonempty; exact Hx]. }
    destruct (map constraint_text (p_via p)) as [|c [|c2 cs]] eqn:E.
    + constructor; [|constructor]. unfold body_good. repeat split.
    + exact (Hall "# via " eq_refl).
    + constructor; [unfold body_good; repeat split|]. apply (Hall "#   " eq_refl).
  - unfold url_w. destruct (p_url p) as [u|] eqn:Eu; [|constructor]. destruct (o_urls o); [|constructor].
    constructor; [|constructor]. pose proof (pf_url p F u Eu) as Hu.
    pose proof (url_nonempty u Hu) as Hn. unfold url_ok in Hu.
    destruct (partition_char "#"%char u) as [[base hf] frag].
    apply andb_true_iff in Hu as [Hu Hc]. apply negb_true_iff in Hc.
    repeat (apply andb_true_iff in Hu as [Hu _]).
    apply body_good_comment; [reflexivity| |exact Hc|exact Hn].
    apply forall_chars_last; assumption.
Qed.

Lemma name_ok_facts n : name_ok n = true ->
  forall_chars is_namech n = true /\ first_ok is_alnum n = true /\ last_ok is_alnum n = true.
Proof.
  unfold name_ok. intros H. apply andb_true_iff in H as [H _]. apply andb_true_iff in H as [H H3].
  apply andb_true_iff in H as [H1 H2]. auto.
Qed.

Lemma nv_facts p : pin_facts p ->
  first_ok is_alnum (nv p) = true /\ forall_chars (neqc "#"%char) (nv p) = true /\
  last_ok nonspace (nv p) = true /\ last_ok is_cont (nv p) = false /\ nonempty (nv p) = true /\
  forall_chars (neqc nlc) (nv p) = true /\ forall_chars (neqc " "%char) (nv p) = true.
Proof.
  intros F. destruct (name_ok_facts _ (pf_name p F)) as [Hn [Hf Hl]].
  pose proof (pf_vtok p F) as Hv. pose proof (token_nonempty _ Hv) as Hvn.
  assert (nonempty (p_name p) = true) as Hnn by (eapply first_ok_nonempty; exact Hf).
  unfold nv. repeat split.
  - rewrite first_ok_app by exact Hnn. exact Hf.
  - rewrite !forall_chars_app. rewrite (forall_chars_impl _ _ _ namech_nohash Hn), (token_nohash _ Hv). reflexivity.
  - rewrite last_ok_app by (apply nonempty_app_r; exact Hvn). rewrite last_ok_app by exact Hvn.
    apply token_last_nonspace; exact Hv.
  - rewrite last_ok_app by (apply nonempty_app_r; exact Hvn). rewrite last_ok_app by exact Hvn.
    exact (pf_vcont p F).
  - apply nonempty_app_l; exact Hnn.
  - rewrite !forall_chars_app. rewrite (forall_chars_impl _ _ _ namech_nonl Hn), (token_nonl _ Hv). reflexivity.
  - rewrite !forall_chars_app. rewrite (forall_chars_impl _ _ _ namech_nosp Hn), (token_nosp _ Hv). reflexivity.
Qed.

Lemma P0_first o p : pin_facts p -> first_ok is_alnum (P0 o p) = true.
Proof.
  intros F. destruct (nv_facts p F) as [H1 [_ [_ [_ [H5 _]]]]]. unfold P0. rewrite first_ok_app by exact H5. exact H1.
Qed.

Lemma pin_lines_load o p partial rest acc :
  pin_facts p -> annot_pin_ok o p = true ->
  load_lines (List.app (map (fun l => l ++ nl) (pin_lines o p)) rest) partial acc =
    if nonempty partial then
      match single true partial with Err e => Err e | Ok r => load_lines rest (acc_text o p) (push r acc) end
    else load_lines rest (acc_text o p) acc.
Proof.
  intros F Ha. destruct (nv_facts p F) as [H1 [H2 [H3 [H4 [H5 _]]]]].
  unfold pin_lines. cbn [map List.app].
  assert (strip (L0 o p ++ nl) = L0 o p) as HS.
  { rewrite strip_nl_r. apply strip_tight. apply tight_intro.
    - unfold L0. rewrite first_ok_app by exact H5. eapply first_ok_impl; [apply alnum_nonspace|exact H1].
    - unfold L0. destruct (hash_w o p); [rewrite last_ok_app by reflexivity; reflexivity|].
      rewrite append_nil_r. exact H3. }
  assert (first_ok is_alnum (L0 o p) = true) as HA.
  { unfold L0. rewrite first_ok_app by exact H5. exact H1. }
  assert (forall_chars (neqc "#"%char) (L0 o p) = true) as HH.
  { unfold L0. rewrite forall_chars_app, H2. destruct (hash_w o p); reflexivity. }
  assert (rstrip_chars l_cont (L0 o p) = P0 o p) as HP.
  { unfold L0, P0. destruct (hash_w o p).
    - change (nv p ++ " \") with (nv p ++ " " ++ "\"). rewrite <- append_assoc.
      rewrite rstrip_chars_all by reflexivity. apply rstrip_chars_id.
      rewrite last_ok_app by reflexivity. reflexivity.
    - rewrite append_nil_r. apply rstrip_chars_id. exact H4. }
  rewrite (first_line (L0 o p) (L0 o p) (P0 o p) partial _ acc HS HA HH HP (P0_first o p F)).
  assert (nonempty (P0 o p) = true) as HPn by (eapply first_ok_nonempty; apply P0_first; exact F).
  unfold acc_text.
  destruct (nonempty partial).
  - destruct (single true partial) as [r|e]; [|reflexivity].
    apply cont_lines; [exact HPn|apply bodies_good; assumption].
  - apply cont_lines; [exact HPn|apply bodies_good; assumption].
Qed.

(* ------------------------------------------------------------------ splitting the accumulated text at '#' *)
Lemma split_char_acc_app c b : forall a acc,
  split_char_acc c (a ++ String c b) acc = List.app (split_char_acc c a acc) (split_char c b).
Proof.
  induction a as [|x a IH]; intros acc; cbn [append split_char_acc].
  - rewrite Ascii.eqb_refl. reflexivity.
  - destruct (Ascii.eqb x c); [cbn [List.app]; f_equal; apply IH|apply IH].
Qed.
Lemma split_char_app c a b : split_char c (a ++ String c b) = List.app (split_char c a) (split_char c b).
Proof. apply split_char_acc_app. Qed.

Lemma split_concat {W} c (f : W -> string) rest : forall a,
  split_char c (a ++ concat_str (map (fun w => String c (f w)) rest)) =
  List.app (split_char c a) (flat_map (fun w => split_char c (f w)) rest).
Proof.
  induction rest as [|w r IH]; intros a; cbn [map concat_str flat_map].
  - rewrite append_nil_r, app_nil_r. reflexivity.
  - change (String c (f w) ++ concat_str (map (fun w0 => String c (f w0)) r))
      with (String c (f w ++ concat_str (map (fun w0 => String c (f w0)) r))).
    rewrite split_char_app, IH. reflexivity.
Qed.

Lemma fold_left_flat_map {A B S} (f : S -> B -> S) (g : A -> list B) l : forall st,
  fold_left f (flat_map g l) st = fold_left (fun st x => fold_left f (g x) st) l st.
Proof. induction l as [|x l IH]; intros st; cbn [flat_map fold_left]; [reflexivity|]. rewrite fold_left_app. apply IH. Qed.

Lemma part_step_ws st w s : forall_chars is_space w = true -> part_step st (w ++ s) = part_step st s.
Proof. intros H. unfold part_step. rewrite (strip_ws_l w s H). reflexivity. Qed.

Definition wstep (st : pst) (ws : string * string) : pst :=
  fold_left part_step (split_char "#"%char (fst ws ++ snd ws)) st.

Definition st0 : pst := mkPst false false "" [].

(* one comment segment without '#': a single part *)
Lemma wstep_one st w s :
  forall_chars is_space w = true -> forall_chars (neqc "#"%char) w = true -> forall_chars (neqc "#"%char) s = true ->
  wstep st (w, s) = part_step st s.
Proof.
  intros Hw Hw' Hs. unfold wstep. cbn [fst snd].
  rewrite split_char_miss by (rewrite forall_chars_app, Hw', Hs; reflexivity).
  cbn [fold_left]. apply part_step_ws; exact Hw.
Qed.

Lemma ps_annot t :
  idx_ok t = true -> url_like ("[" ++ t ++ "]") = false -> part_step st0 ("[" ++ t ++ "]") = st0.
Proof.
  intros Hi Hu. unfold part_step.
  assert (strip ("[" ++ t ++ "]") = "[" ++ t ++ "]") as ->.
  { apply strip_tight. apply tight_intro; [reflexivity|].
    rewrite last_ok_app by (apply nonempty_app_r; reflexivity). rewrite last_ok_app by reflexivity. reflexivity. }
  rewrite Hu. reflexivity.
Qed.

Lemma strip_body c : first_ok plain c = true -> last_ok plain c = true -> strip c = c.
Proof.
  intros Hf Hl. apply strip_tight. apply tight_intro.
  - eapply first_ok_impl; [apply plain_nonspace|exact Hf].
  - eapply last_ok_impl; [apply plain_nonspace|exact Hl].
Qed.

Lemma ps_via_one c :
  first_ok plain c = true -> last_ok plain c = true -> url_like ("via " ++ c) = false ->
  part_step st0 ("via " ++ c) = mkPst true false "" [c].
Proof.
  intros Hf Hl Hu. unfold part_step.
  assert (strip ("via " ++ c) = "via " ++ c) as ->.
  { apply strip_tight. apply tight_intro; [reflexivity|].
    rewrite last_ok_app by (eapply first_ok_nonempty; exact Hf).
    eapply last_ok_impl; [apply plain_nonspace|exact Hl]. }
  rewrite Hu. cbn [st0 in_url in_sources s_url s_sources].
  change (startswith ("via " ++ c) l_via) with true. cbn [l_via_skip].
  destruct c as [|x c]; [discriminate|]. reflexivity.
Qed.

Lemma ps_via_head : part_step st0 "via" = mkPst true false "" [].
Proof. reflexivity. Qed.

Lemma ps_item acc c :
  first_ok plain c = true -> last_ok plain c = true -> url_like c = false ->
  part_step (mkPst true false "" acc) c = mkPst true false "" (c :: acc).
Proof.
  intros Hf Hl Hu. unfold part_step. rewrite (strip_body c Hf Hl), Hu. reflexivity.
Qed.

Lemma partition_char_acc_spec c s : forall acc a f b,
  partition_char_acc c s acc = (a, f, b) ->
  exists a', a = rev_str acc ++ a' /\ forall_chars (neqc c) a' = true /\
             (f = true -> s = a' ++ String c b) /\ (f = false -> s = a' /\ b = "").
Proof.
  induction s as [|x s IH]; intros acc a f b; cbn [partition_char_acc].
  - intros H. injection H as <- <- <-. exists "". rewrite append_nil_r. repeat split; try discriminate; reflexivity.
  - destruct (Ascii.eqb x c) eqn:E.
    + intros H. injection H as <- <- <-. apply Ascii.eqb_eq in E. subst x.
      exists "". rewrite append_nil_r. repeat split; try discriminate; reflexivity.
    + intros H. destruct (IH _ _ _ _ H) as [a' [Ha [Hn [Ht Hf]]]].
      exists (String x a'). split; [|split; [|split]].
      * rewrite Ha. rewrite rev_str_cons. rewrite append_assoc. reflexivity.
      * cbn [forall_chars]. unfold neqc at 1. rewrite E. exact Hn.
      * intros Hft. rewrite (Ht Hft). reflexivity.
      * intros Hff. destruct (Hf Hff) as [-> ->]. split; reflexivity.
Qed.

Lemma partition_char_spec c s a f b :
  partition_char c s = (a, f, b) ->
  forall_chars (neqc c) a = true /\ (f = true -> s = a ++ String c b) /\ (f = false -> s = a /\ b = "").
Proof.
  intros H. destruct (partition_char_acc_spec c s "" a f b H) as [a' [Ha [Hn [Ht Hf]]]].
  change (rev_str "") with "" in Ha. cbn [append] in Ha. subst a'. auto.
Qed.

Lemma ps_url acc u : url_ok u = true ->
  exists b, wstep (mkPst true false "" acc) (" ", u) = mkPst false b u acc.
Proof.
  unfold url_ok. destruct (partition_char "#"%char u) as [[base f] frag] eqn:E. intros H.
  apply andb_true_iff in H as [H _]. apply andb_true_iff in H as [H Hfv]. apply andb_true_iff in H as [H Hfu].
  apply andb_true_iff in H as [H Hfh]. apply andb_true_iff in H as [H Hbv]. apply andb_true_iff in H as [H Hbu].
  apply andb_true_iff in H as [Hpl Hbn].
  apply negb_true_iff in Hfv. apply negb_true_iff in Hfu. apply negb_true_iff in Hbv.
  destruct (partition_char_spec _ _ _ _ _ E) as [Hbh [Ht Hf]].
  unfold wstep. cbn [fst snd]. destruct f.
  - rewrite (Ht eq_refl) in *. rewrite forall_chars_app in Hpl. apply andb_true_iff in Hpl as [Hpb Hpf].
    cbn [forall_chars] in Hpf. apply andb_true_iff in Hpf as [_ Hpf].
    rewrite <- append_assoc. rewrite split_char_hit by (rewrite forall_chars_app, Hbh; reflexivity).
    rewrite (split_char_miss "#"%char frag Hfh). cbn [fold_left].
    rewrite part_step_ws by reflexivity.
    exists false. unfold part_step at 2. rewrite (strip_plain base Hpb), Hbu.
    cbn [in_sources in_url s_url s_sources]. rewrite Hbv.
    unfold part_step. rewrite (strip_plain frag Hpf), Hfu.
    cbn [in_sources in_url s_url s_sources]. rewrite Hfv. reflexivity.
  - destruct (Hf eq_refl) as [Hu _]. subst base.
    rewrite split_char_miss by (rewrite forall_chars_app, Hbh; reflexivity). cbn [fold_left].
    rewrite part_step_ws by reflexivity.
    exists true. unfold part_step. rewrite (strip_plain u Hpl), Hbu.
    cbn [in_sources in_url s_url s_sources]. rewrite Hbv. reflexivity.
Qed.

(* ------------------------------------------------------------------ the comment segments of a pin *)
Definition via_wsegs (cs : list string) : list (string * string) :=
  match cs with [c] => [(" ", "via " ++ c)] | _ => (" ", "via") :: map (fun c => ("   ", c)) cs end.
Definition wsegs (o : opts) (p : pin) : list (string * string) :=
  List.app (match o_annot o with Some a => [(" ", "[" ++ idx_text a (p_name p) ++ "]")] | None => [] end)
  (List.app (via_wsegs (map constraint_text (p_via p)))
            (match url_w o p with Some u => [(" ", u)] | None => [] end)).
Definition hash_body (o : opts) (p : pin) : string :=
  match hash_w o p with Some h => "--hash=" ++ h | None => "" end.
Definition seg_text (ws : string * string) : string := String "#" (fst ws ++ snd ws).

Lemma bodies_wsegs o p :
  concat_str (bodies o p) = hash_body o p ++ concat_str (map seg_text (wsegs o p)).
Proof.
  unfold bodies, wsegs, hash_body. rewrite !concat_str_app, !map_app, !concat_str_app.
  f_equal.
  - destruct (hash_w o p); cbn [concat_str]; [apply append_nil_r|reflexivity].
  - f_equal; [destruct (o_annot o); reflexivity|]. f_equal; [|destruct (url_w o p); reflexivity].
    unfold via_bodies, via_wsegs. destruct (map constraint_text (p_via p)) as [|c [|c2 cs]]; try reflexivity.
    cbn [map]. rewrite map_map. reflexivity.
Qed.

Lemma ctext_nohash x : via_facts x -> forall_chars (neqc "#"%char) (constraint_text x) = true.
Proof. intros F. eapply forall_chars_impl; [apply body_nohash|exact (vf_bchars x F)]. Qed.

Lemma ps_items vias : Forall via_facts vias -> forall acc,
  fold_left wstep (map (fun c => ("   ", c)) (map constraint_text vias)) (mkPst true false "" acc) =
  mkPst true false "" (List.app (rev (map constraint_text vias)) acc).
Proof.
  induction 1 as [|x l Hx _ IH]; intros acc; cbn [map fold_left rev List.app]; [reflexivity|].
  rewrite wstep_one by (try reflexivity; apply ctext_nohash; exact Hx).
  rewrite ps_item by (first [exact (vf_bfirst x Hx)|exact (vf_blast x Hx)|exact (vf_nourl x Hx)]).
  rewrite IH. rewrite <- app_assoc. reflexivity.
Qed.

Lemma wsegs_fold o p : pin_facts p -> annot_pin_ok o p = true ->
  exists b1 b2, fold_left wstep (wsegs o p) st0 =
    mkPst b1 b2 (match url_w o p with Some u => u | None => "" end) (rev (map constraint_text (p_via p))).
Proof.
  intros F Ha. unfold wsegs. rewrite !fold_left_app.
  assert (fold_left wstep (match o_annot o with Some a => [(" ", "[" ++ idx_text a (p_name p) ++ "]")] | None => [] end) st0 = st0) as ->.
  { unfold annot_pin_ok in Ha. destruct (o_annot o) as [a|]; [|reflexivity]. cbn [fold_left].
    apply andb_true_iff in Ha as [Hi Hu]. apply negb_true_iff in Hu.
    rewrite wstep_one; [apply ps_annot; assumption|reflexivity|reflexivity|].
    unfold idx_ok in Hi. apply andb_true_iff in Hi as [_ Hi].
    rewrite !forall_chars_app. cbn [forall_chars neqc Ascii.eqb Bool.eqb negb andb].
    rewrite (forall_chars_impl _ (neqc "#"%char) _ (fun c Hc => tok_nohash c (idx_tok c Hc)) Hi). reflexivity. }
  pose proof (via_facts_all p F) as Hv.
  assert (fold_left wstep (via_wsegs (map constraint_text (p_via p))) st0 =
          mkPst true false "" (rev (map constraint_text (p_via p)))) as ->.
  { unfold via_wsegs. destruct (p_via p) as [|x [|x2 l]] eqn:E.
    - exfalso. exact (pf_vne p F E).
    - cbn [map fold_left rev List.app]. inversion Hv as [|? ? Hx _]; subst.
      rewrite wstep_one; [|reflexivity|reflexivity|].
      + apply ps_via_one; [exact (vf_bfirst x Hx)|exact (vf_blast x Hx)|apply (pf_one p F); exact E].
      + rewrite forall_chars_app. rewrite (ctext_nohash x Hx). reflexivity.
    - change (map constraint_text (x :: x2 :: l)) with (constraint_text x :: constraint_text x2 :: map constraint_text l).
      cbv iota. cbn [fold_left].
      rewrite wstep_one by reflexivity. rewrite ps_via_head.
      change (constraint_text x :: constraint_text x2 :: map constraint_text l) with (map constraint_text (x :: x2 :: l)).
      rewrite (ps_items (x :: x2 :: l) Hv []). rewrite app_nil_r. reflexivity. }
  unfold url_w. destruct (p_url p) as [u|] eqn:Eu; [destruct (o_urls o)|]; cbn [fold_left].
  - destruct (ps_url (rev (map constraint_text (p_via p))) u (pf_url p F u Eu)) as [b Hb]. rewrite Hb. eauto.
  - eauto.
  - eauto.
Qed.

(* ------------------------------------------------------------------ from the accumulated text to the parts loop *)
Definition src_of (l : list (string * string)) : string :=
  match l with [] => "" | (w, s) :: rest => (w ++ s) ++ concat_str (map seg_text rest) end.

Lemma concat_segs l : l <> [] -> concat_str (map seg_text l) = String "#" (src_of l).
Proof. destruct l as [|[w s] rest]; [congruence|]. intros _. reflexivity. Qed.

Definition seg_good (ws : string * string) : Prop :=
  nonempty (snd ws) = true /\ last_ok nonspace (snd ws) = true.

Lemma segs_last l : l <> [] -> Forall seg_good l -> last_ok nonspace (concat_str (map seg_text l)) = true.
Proof.
  induction l as [|[w s] rest IH]; [congruence|]. intros _ HF. inversion HF as [|? ? [Hn Hl] HF']; subst.
  cbn [map concat_str]. cbn [fst snd] in *. destruct rest as [|ws2 rest'].
  - cbn [map concat_str]. rewrite append_nil_r. unfold seg_text. cbn [fst snd].
    change (String "#" (w ++ s)) with ("#" ++ w ++ s). rewrite last_ok_app by (apply nonempty_app_r; exact Hn).
    rewrite last_ok_app by exact Hn. exact Hl.
  - rewrite last_ok_app; [apply IH; [congruence|exact HF']|]. destruct ws2. reflexivity.
Qed.

Lemma parts_fold w1 s1 rest :
  forall_chars is_space w1 = true -> forall_chars (neqc "#"%char) w1 = true ->
  forall_chars (neqc "#"%char) s1 = true -> first_ok nonspace s1 = true ->
  Forall seg_good ((w1, s1) :: rest) ->
  fold_left part_step (split_char "#"%char (strip (src_of ((w1, s1) :: rest)))) st0 =
  fold_left wstep ((w1, s1) :: rest) st0.
Proof.
  intros Hw Hwh Hsh Hsf HF. inversion HF as [|? ? [Hn Hl] HF']; subst. cbn [fst snd] in *.
  unfold src_of. rewrite append_assoc. rewrite strip_ws_l by exact Hw.
  assert (strip (s1 ++ concat_str (map seg_text rest)) = s1 ++ concat_str (map seg_text rest)) as ->.
  { apply strip_tight. apply tight_intro.
    - rewrite first_ok_app by exact Hn. exact Hsf.
    - destruct rest as [|ws2 rest'].
      + cbn [map concat_str]. rewrite append_nil_r. exact Hl.
      + rewrite last_ok_app; [apply segs_last; [congruence|exact HF']|]. destruct ws2; reflexivity. }
  unfold seg_text. rewrite (split_concat "#"%char (fun w => fst w ++ snd w) rest s1).
  rewrite fold_left_app, fold_left_flat_map. cbn [fold_left].
  f_equal. rewrite (split_char_miss _ _ Hsh). cbn [fold_left].
  rewrite (wstep_one st0 w1 s1 Hw Hwh Hsh). reflexivity.
Qed.

Lemma wsegs_good o p : pin_facts p -> annot_pin_ok o p = true -> Forall seg_good (wsegs o p).
Proof.
  intros F Ha. unfold wsegs. apply Forall_app; split; [|apply Forall_app; split].
  - destruct (o_annot o); constructor; [|constructor]. split; cbn [snd].
    + reflexivity.
    + rewrite last_ok_app by (apply nonempty_app_r; reflexivity). rewrite last_ok_app by reflexivity. reflexivity.
  - pose proof (via_facts_all p F) as Hv.
    assert (Forall seg_good (map (fun c => ("   ", c)) (map constraint_text (p_via p)))) as Hall.
    { induction Hv as [|x l Hx _ IH]; cbn [map]; constructor; [|exact IH]. split; cbn [snd].
      - apply ctext_nonempty; exact Hx.
      - eapply last_ok_impl; [apply plain_nonspace|exact (vf_blast x Hx)]. }
    unfold via_wsegs. destruct (p_via p) as [|x [|x2 l]] eqn:E.
    + constructor; [split; reflexivity|constructor].
    + inversion Hv as [|? ? Hx _]; subst. cbn [map]. constructor; [|constructor]. split; cbn [snd].
      * reflexivity.
      * rewrite last_ok_app by (apply ctext_nonempty; exact Hx).
        eapply last_ok_impl; [apply plain_nonspace|exact (vf_blast x Hx)].
    + change (map constraint_text (x :: x2 :: l)) with (constraint_text x :: constraint_text x2 :: map constraint_text l) in *.
      cbv iota. constructor; [split; reflexivity|exact Hall].
  - unfold url_w. destruct (p_url p) as [u|] eqn:Eu; [destruct (o_urls o)|]; constructor; [|constructor].
    pose proof (pf_url p F u Eu) as Hu. pose proof (url_nonempty u Hu) as Hn. split; cbn [snd]; [exact Hn|].
    unfold url_ok in Hu. destruct (partition_char "#"%char u) as [[base hf] frag].
    repeat (apply andb_true_iff in Hu as [Hu _]). apply plain_last_nonspace; assumption.
Qed.

Lemma containsb_hash_cons x : containsb "#" (String "#" x) = true.
Proof. reflexivity. Qed.

Lemma wsegs_shape o p : pin_facts p -> annot_pin_ok o p = true ->
  exists s1 rest, wsegs o p = (" ", s1) :: rest /\
    forall_chars (neqc "#"%char) s1 = true /\ first_ok nonspace s1 = true /\
    (containsb "#" (src_of (wsegs o p)) || startswith (src_of (wsegs o p)) " via" = true).
Proof.
  intros F Ha. pose proof (via_facts_all p F) as Hv. unfold wsegs.
  assert (exists v1 vrest, via_wsegs (map constraint_text (p_via p)) = (" ", v1) :: vrest /\
          forall_chars (neqc "#"%char) v1 = true /\ first_ok nonspace v1 = true /\ prefixb "via" v1 = true) as [v1 [vrest [Ev [Hv1 [Hv2 Hv3]]]]].
  { unfold via_wsegs. destruct (p_via p) as [|x [|x2 l]] eqn:E.
    - exfalso. exact (pf_vne p F E).
    - inversion Hv as [|? ? Hx _]; subst. cbn [map]. eexists _, _. split; [reflexivity|]. repeat split.
      rewrite forall_chars_app. rewrite (ctext_nohash x Hx). reflexivity.
    - change (map constraint_text (x :: x2 :: l)) with (constraint_text x :: constraint_text x2 :: map constraint_text l).
      cbv iota. eexists _, _. split; [reflexivity|]. repeat split. }
  rewrite Ev. unfold annot_pin_ok in Ha. destruct (o_annot o) as [a|].
  - apply andb_true_iff in Ha as [Hi _]. unfold idx_ok in Hi. apply andb_true_iff in Hi as [_ Hi].
    eexists _, _. cbn [List.app]. split; [reflexivity|]. repeat split.
    + rewrite !forall_chars_app. cbn [forall_chars neqc Ascii.eqb Bool.eqb negb andb].
      rewrite (forall_chars_impl _ (neqc "#"%char) _ (fun c Hc => tok_nohash c (idx_tok c Hc)) Hi). reflexivity.
    + apply orb_true_iff. left. unfold src_of. cbn [map concat_str]. apply containsb_app_r.
      unfold seg_text at 1. apply containsb_app_l. apply containsb_hash_cons.
  - eexists _, _. cbn [List.app]. split; [reflexivity|]. repeat split; try assumption.
    apply orb_true_iff. right. unfold src_of, startswith.
    rewrite append_assoc. change (prefixb " via" (" " ++ v1 ++ concat_str (map seg_text (List.app vrest
       match url_w o p with Some u => [(" ", u)] | None => [] end))))
      with (prefixb "via" (v1 ++ concat_str (map seg_text (List.app vrest
       match url_w o p with Some u => [(" ", u)] | None => [] end)))).
    apply prefixb_app_l. exact Hv3.
Qed.

(* ------------------------------------------------------------------ the pin token *)
Lemma req_lex_pin p t : pin_facts p -> forall_chars is_space t = true ->
  req_lex (nv p ++ t) = RL_ok (p_name p) [] ("==" ++ p_version p).
Proof.
  intros F Ht. destruct (name_ok_facts _ (pf_name p F)) as [Hn [Hf Hl]].
  destruct (nv_facts p F) as [H1 [_ [H3 _]]].
  pose proof (pf_vtok p F) as Hv.
  unfold req_lex. rewrite (strip_ws_r (nv p) t Ht).
  assert (strip (nv p) = nv p) as ->.
  { apply strip_tight. apply tight_intro; [|exact H3]. eapply first_ok_impl; [apply alnum_nonspace|exact H1]. }
  unfold nv in *. remember (p_name p ++ "==" ++ p_version p) as s eqn:Es.
  destruct s as [|c r]; [discriminate H1|]. cbn [first_ok] in H1. rewrite H1. cbn [negb]. rewrite Es.
  rewrite (span_app is_namech (p_name p) ("==" ++ p_version p) Hn eq_refl).
  rewrite Hl. cbn [negb].
  assert (tight ("==" ++ p_version p) = true) as Htight.
  { apply tight_intro; [reflexivity|]. rewrite last_ok_app by (apply token_nonempty; exact Hv).
    apply token_last_nonspace; exact Hv. }
  rewrite lstrip_tight by reflexivity. rewrite (strip_tight _ Htight). reflexivity.
Qed.

(* ------------------------------------------------------------------ _parse_single_line on the accumulated text *)
Lemma containsb_app_l_false x a b : containsb x (a ++ b) = false -> containsb x a = false.
Proof. intros H. destruct (containsb x a) eqn:E; [|reflexivity]. rewrite (containsb_app_l x a b E) in H. discriminate. Qed.

Lemma head_facts o p : pin_facts p ->
  let A := P0 o p ++ hash_body o p in
  forall_chars (neqc "#"%char) A = true /\ strip A = A /\ nonempty A = true /\
  split_str "--hash=" A = P0 o p :: match hash_w o p with Some h => [h] | None => [] end.
Proof.
  intros F A. destruct (nv_facts p F) as [H1 [H2 [H3 [H4 [H5 _]]]]].
  assert (nonempty (P0 o p) = true) as HPn by (eapply first_ok_nonempty; apply P0_first; exact F).
  subst A. unfold P0, hash_body, hash_w. destruct (p_hash p) as [h|] eqn:Eh.
  2:{ rewrite !append_nil_r. repeat split; try assumption.
      - apply strip_tight. apply tight_intro; [|exact H3]. eapply first_ok_impl; [apply alnum_nonspace|exact H1].
      - apply split_str_miss; [reflexivity|]. pose proof (pf_nohash p F) as Hc.
        change (p_name p ++ "==" ++ p_version p ++ " ") with (p_name p ++ "==" ++ (p_version p ++ " ")) in Hc.
        rewrite <- !append_assoc in Hc. apply containsb_app_l_false in Hc. rewrite append_assoc in Hc. exact Hc. }
  destruct (o_hashes o && nonempty h).
  2:{ rewrite !append_nil_r. repeat split; try assumption.
      - apply strip_tight. apply tight_intro; [|exact H3]. eapply first_ok_impl; [apply alnum_nonspace|exact H1].
      - apply split_str_miss; [reflexivity|]. pose proof (pf_nohash p F) as Hc.
        rewrite <- !append_assoc in Hc. apply containsb_app_l_false in Hc. rewrite append_assoc in Hc. exact Hc. }
  pose proof (pf_hash p F h Eh) as Hh. unfold hash_ok in Hh.
  apply andb_true_iff in Hh as [Hh _]. apply andb_true_iff in Hh as [Ht Hc].
  apply negb_true_iff in Hc. change l_hash_split with "--hash=" in Hc.
  pose proof (token_nonempty _ Ht) as Hhn.
  repeat split.
  - rewrite !forall_chars_app. rewrite H2, (token_nohash _ Ht). reflexivity.
  - apply strip_tight. apply tight_intro.
    + rewrite append_assoc. rewrite first_ok_app by exact H5. eapply first_ok_impl; [apply alnum_nonspace|exact H1].
    + rewrite last_ok_app by (apply nonempty_app_r; exact Hhn). rewrite last_ok_app by exact Hhn.
      apply token_last_nonspace; exact Ht.
  - apply nonempty_app_l. apply nonempty_app_l. exact H5.
  - rewrite split_str_hit; [rewrite (split_str_miss "--hash=" h eq_refl Hc); reflexivity|reflexivity| |].
    + pose proof (pf_nohash p F) as Hc'. unfold nv. rewrite !append_assoc. exact Hc'.
    + rewrite last_ok_app by reflexivity. reflexivity.
Qed.

Lemma acc_text_shape o p :
  acc_text o p = (P0 o p ++ hash_body o p) ++ String "#" (src_of (wsegs o p)).
Proof.
  intros. unfold acc_text. rewrite bodies_wsegs. rewrite append_assoc. f_equal. f_equal.
  apply concat_segs. unfold wsegs, via_wsegs.
  destruct (o_annot o); [discriminate|]. cbn [List.app].
  destruct (map constraint_text (p_via p)) as [|c [|c2 cs]]; discriminate.
Qed.

Lemma rev_nil_inv {A} (l : list A) : rev l = [] -> l = [].
Proof. intros H. rewrite <- (rev_involutive l), H. reflexivity. Qed.

Lemma single_entry_acc o p : pin_facts p -> annot_pin_ok o p = true ->
  single_entry true (acc_text o p) =
  Ok (Some (mkEntry (P0 o p) (hash_w o p) (map constraint_text (p_via p))
                    (match url_w o p with Some u => u | None => "" end))).
Proof.
  intros F Ha. rewrite acc_text_shape.
  destruct (head_facts o p F) as [HA1 [HA2 [HA3 HA4]]].
  unfold single_entry. rewrite (partition_char_hit "#"%char _ _ HA1).
  rewrite HA2, HA3. cbn [negb]. change l_hash_split with "--hash=". rewrite HA4. cbn [hd].
  assert (P0 o p = nv p ++ match hash_w o p with Some _ => " " | None => "" end) as EP by reflexivity.
  rewrite EP at 1. rewrite (req_lex_pin p _ F) by (destruct (hash_w o p); reflexivity).
  rewrite (pf_vspec p F). cbn [negb].
  destruct (wsegs_shape o p F Ha) as [s1 [rest [Ew [Hs1 [Hs2 Hc]]]]].
  cbn [orb].
  change (mkPst false false "" []) with st0.
  pose proof (wsegs_good o p F Ha) as Hg.
  rewrite Ew in *. rewrite (parts_fold " " s1 rest eq_refl eq_refl Hs1 Hs2 Hg).
  rewrite <- Ew. destruct (wsegs_fold o p F Ha) as [b1 [b2 Hf]]. rewrite Hf.
  cbn [s_sources s_url].
  destruct (rev (map constraint_text (p_via p))) as [|c cs] eqn:Er.
  - exfalso. apply rev_nil_inv in Er. apply map_eq_nil in Er. exact (pf_vne p F Er).
  - rewrite <- Er. rewrite rev_involutive.
    destruct (hash_w o p); reflexivity.
Qed.

(* ------------------------------------------------------------------ one source back to its edge *)
Lemma remove_parens inner :
  forall_chars (neqc "("%char) inner = true -> forall_chars (neqc ")"%char) inner = true ->
  replace ")" "" (replace "(" "" ("(" ++ inner ++ ")")) = inner.
Proof.
  intros H1 H2. rewrite !replace_char_empty. rewrite !remove_char_app.
  rewrite (remove_char_id "("%char inner H1). cbn [remove_char Ascii.eqb Bool.eqb append].
  rewrite ?remove_char_app, (remove_char_id ")"%char inner H2). cbn [remove_char Ascii.eqb Bool.eqb append].
  apply append_nil_r.
Qed.

Lemma forall_chars_join q sep l :
  forall_chars q sep = true -> Forall (fun x => forall_chars q x = true) l -> forall_chars q (join sep l) = true.
Proof.
  intros Hs HF. induction HF as [|x l Hx _ IH]; [reflexivity|].
  destruct l as [|y l']; [exact Hx|].
  change (join sep (x :: y :: l')) with (x ++ sep ++ join sep (y :: l')).
  rewrite !forall_chars_app, Hx, Hs, IH. reflexivity.
Qed.

Lemma extra_ok_facts e : extra_ok e = true ->
  forall_chars extra_ch e = true /\ first_ok is_lower_alnum e = true /\ last_ok is_lower_alnum e = true.
Proof.
  unfold extra_ok. intros H. apply andb_true_iff in H as [H H3]. apply andb_true_iff in H as [H1 H2]. auto.
Qed.

Lemma extras_chars q l :
  (forall c, extra_ch c = true -> q c = true) -> forallb extra_ok l = true ->
  Forall (fun x => forall_chars q x = true) l.
Proof.
  intros Hq H. rewrite forallb_forall in H. apply Forall_forall. intros e He.
  destruct (extra_ok_facts e (H e He)) as [Hc _]. eapply forall_chars_impl; [exact Hq|exact Hc].
Qed.

Lemma map_strip_extras l : forallb extra_ok l = true -> map strip l = l.
Proof.
  induction l as [|e l IH]; [reflexivity|]. cbn [forallb map]. intros H. apply andb_true_iff in H as [He Hl].
  rewrite (IH Hl). f_equal. destruct (extra_ok_facts e He) as [_ [Hf Hla]].
  apply strip_tight. apply tight_intro.
  - eapply first_ok_impl; [apply lower_alnum_nonspace|exact Hf].
  - eapply last_ok_impl; [apply lower_alnum_nonspace|exact Hla].
Qed.

Lemma spec_chars q s :
  (forall c, spec_ch c = true -> q c = true) -> forall_chars spec_ch s = true -> forall_chars q s = true.
Proof. intros Hq H. eapply forall_chars_impl; [exact Hq|exact H]. Qed.

Lemma constraint_parts_spec s : forall_chars spec_ch s = true -> constraint_parts s [] = (s, []).
Proof.
  intros H. unfold constraint_parts.
  assert (containsb "[" s = false) as ->.
  { rewrite containsb_char. rewrite (spec_chars _ s spec_no_lb H). reflexivity. }
  rewrite andb_false_r. reflexivity.
Qed.

Lemma constraint_parts_extras pre s l :
  forall_chars spec_ch s = true -> strip pre = s -> forall_chars (neqc "["%char) pre = true ->
  l <> [] -> forallb extra_ok l = true -> sort_set l = l ->
  constraint_parts (pre ++ "[" ++ join "," l ++ "]") [] = (s, l).
Proof.
  intros Hs Hpre Hpl Hne Hl Hsort. unfold constraint_parts.
  assert (nonempty (pre ++ "[" ++ join "," l ++ "]") = true) as -> by (apply nonempty_app_r; reflexivity).
  assert (containsb "[" (pre ++ "[" ++ join "," l ++ "]") = true) as -> by apply containsb_app_mid.
  assert (containsb "]" (pre ++ "[" ++ join "," l ++ "]") = true) as ->.
  { rewrite <- !append_assoc. change "]" with ("]" ++ "") at 2. apply containsb_app_mid. }
  cbn [andb]. change (pre ++ "[" ++ join "," l ++ "]") with (pre ++ String "["%char (join "," l ++ "]")).
  rewrite (partition_char_hit "["%char pre _ Hpl). rewrite Hpre.
  rewrite replace_char_empty, remove_char_app.
  assert (Forall (fun x => forall_chars (neqc "]"%char) x = true) l) as Hrb by (apply extras_chars; [apply extra_no_rb|exact Hl]).
  rewrite (remove_char_id "]"%char (join "," l)) by (apply forall_chars_join; [reflexivity|exact Hrb]).
  cbn [remove_char Ascii.eqb Bool.eqb]. rewrite append_nil_r.
  rewrite (split_char_join ","%char l Hne) by (apply extras_chars; [apply extra_no_comma|exact Hl]).
  rewrite (map_strip_extras l Hl), Hsort. reflexivity.
Qed.

Lemma spec_strip s : forall_chars spec_ch s = true -> strip s = s.
Proof.
  intros H. apply strip_plain. eapply forall_chars_impl; [|exact H].
  intros c Hc. apply tok_plain. apply spec_tok. exact Hc.
Qed.

Lemma via_eta x : mkVia (v_req x) (v_mex x) (v_spec x) (v_extras x) = x.
Proof. destruct x; reflexivity. Qed.

Lemma source_via_ctext x : via_facts x -> source_via [] (constraint_text x) = Ok x.
Proof.
  intros F. pose proof (vf_rtok x F) as Hr. pose proof (vf_spec_ch x F) as Hs.
  pose proof (vf_extras x F) as He. pose proof (vf_esorted x F) as Hsort.
  pose proof (vf_rparen x F) as Hrp. pose proof (vf_req x F) as Hrq.
  unfold constraint_text. rewrite Hsort. change w_paren_open with " (". change w_paren_close with ")".
  set (r := requirer_text x) in *.
  destruct (v_extras x) as [|e es] eqn:Ee.
  - (* no extras *)
    cbn [bracket]. rewrite append_nil_r. destruct (v_spec x) as [|sc ss] eqn:Es.
    + cbn [nonempty]. rewrite append_nil_r. unfold source_via.
      rewrite (partition_char_miss " "%char r (token_nosp r Hr)).
      rewrite Hrp. rewrite Hrq.
      cbn [constraint_parts nonempty andb forallb negb]. change (spec_ok "") with true. cbn [negb].
      rewrite <- Es, <- Ee. apply f_equal. apply via_eta.
    + cbn [nonempty]. rewrite <- Es in *. rewrite (spec_strip _ Hs).
      unfold source_via.
      change (r ++ " (" ++ v_spec x ++ ")") with (r ++ String " "%char ("(" ++ v_spec x ++ ")")).
      rewrite (partition_char_hit " "%char r _ (token_nosp r Hr)).
      assert (containsb "(" (r ++ String " " ("(" ++ v_spec x ++ ")")) = true) as ->.
      { apply containsb_app_r. apply (containsb_app_mid "(" " " (v_spec x ++ ")")). }
      rewrite (remove_parens (v_spec x)) by (apply spec_chars; [first [apply spec_no_lp|apply spec_no_rp]|exact Hs]).
      rewrite Hrq. rewrite (constraint_parts_spec _ Hs).
      cbn [forallb negb]. rewrite (vf_spec_ok x F). cbn [negb]. rewrite <- Ee. apply f_equal. apply via_eta.
  - (* extras *)
    rewrite <- Ee in *. assert (v_extras x <> []) as Hne by (rewrite Ee; discriminate).
    assert (bracket " " (v_extras x) = " [" ++ join "," (v_extras x) ++ "]") as -> by (rewrite Ee; reflexivity).
    assert (nonempty (v_spec x ++ " [" ++ join "," (v_extras x) ++ "]") = true) as -> by (apply nonempty_app_r; reflexivity).
    set (J := join "," (v_extras x)).
    assert (forall q, q "["%char = true -> q "]"%char = true -> q ","%char = true -> q " "%char = true ->
              (forall c, spec_ch c = true -> q c = true) -> (forall c, extra_ch c = true -> q c = true) ->
              forall pre, forall_chars q pre = true -> forall_chars q (pre ++ "[" ++ J ++ "]") = true) as Hq.
    { intros q q1 q2 q3 q4 qs qe pre Hp. rewrite !forall_chars_app, Hp. cbn [forall_chars]. rewrite q1, q2.
      unfold J. rewrite (forall_chars_join q "," (v_extras x)); [reflexivity|cbn [forall_chars]; rewrite q3; reflexivity|].
      apply extras_chars; assumption. }
    (* the text between the parentheses *)
    assert (exists pre, strip (v_spec x ++ " [" ++ J ++ "]") = pre ++ "[" ++ J ++ "]" /\ strip pre = v_spec x /\
              forall q, q " "%char = true -> (forall c, spec_ch c = true -> q c = true) -> forall_chars q pre = true)
      as [pre [Hin [Hpre Hpq]]].
    { destruct (v_spec x) as [|sc ss] eqn:Es.
      - exists "". split; [|split; [reflexivity|reflexivity]].
        change ("" ++ " [" ++ J ++ "]") with (" " ++ "[" ++ J ++ "]").
        change ("" ++ "[" ++ J ++ "]") with ("[" ++ J ++ "]"). rewrite strip_ws_l by reflexivity.
        apply strip_tight. apply tight_intro; [reflexivity|].
        rewrite (last_ok_app nonspace "[" (J ++ "]") (nonempty_app_r J "]" eq_refl)).
        rewrite (last_ok_app nonspace J "]" eq_refl). reflexivity.
      - rewrite <- Es in *. exists (v_spec x ++ " "). split; [|split].
        + rewrite append_assoc. apply strip_tight. apply tight_intro.
          * rewrite first_ok_app by (rewrite Es; reflexivity).
            eapply first_ok_impl; [apply plain_nonspace|]. apply forall_chars_first; [|rewrite Es; reflexivity].
            eapply forall_chars_impl; [|exact Hs]. intros c Hc. apply tok_plain, spec_tok, Hc.
          * rewrite (last_ok_app nonspace (v_spec x) (" " ++ "[" ++ J ++ "]") eq_refl).
            rewrite (last_ok_app nonspace " " ("[" ++ J ++ "]") eq_refl).
            rewrite (last_ok_app nonspace "[" (J ++ "]") (nonempty_app_r J "]" eq_refl)).
            rewrite (last_ok_app nonspace J "]" eq_refl). reflexivity.
        + rewrite strip_ws_r by reflexivity. apply spec_strip; exact Hs.
        + intros q q1 qs. rewrite forall_chars_app. rewrite (spec_chars q _ qs Hs). cbn [forall_chars]. rewrite q1. reflexivity. }
    rewrite Hin. unfold source_via.
    change (r ++ " (" ++ (pre ++ "[" ++ J ++ "]") ++ ")") with (r ++ String " "%char ("(" ++ (pre ++ "[" ++ J ++ "]") ++ ")")).
    rewrite (partition_char_hit " "%char r _ (token_nosp r Hr)).
    assert (containsb "(" (r ++ String " " ("(" ++ (pre ++ "[" ++ J ++ "]") ++ ")")) = true) as ->.
    { apply containsb_app_r. apply (containsb_app_mid "(" " " ((pre ++ "[" ++ J ++ "]") ++ ")")). }
    rewrite (remove_parens (pre ++ "[" ++ J ++ "]")).
    2:{ apply (Hq (neqc "("%char)); try reflexivity; [apply spec_no_lp|apply extra_no_lp|].
        apply Hpq; [reflexivity|apply spec_no_lp]. }
    2:{ apply (Hq (neqc ")"%char)); try reflexivity; [apply spec_no_rp|apply extra_no_rp|].
        apply Hpq; [reflexivity|apply spec_no_rp]. }
    rewrite Hrq. unfold J.
    rewrite (constraint_parts_extras pre (v_spec x) (v_extras x) Hs Hpre (Hpq _ eq_refl spec_no_lb) Hne He Hsort).
    rewrite He, (vf_spec_ok x F). cbn [negb]. apply f_equal. apply via_eta.
Qed.

(* ------------------------------------------------------------------ one pin: accumulated text -> pin *)
Lemma map_result_vias vias : Forall via_facts vias ->
  map_result (source_via []) (map constraint_text vias) = Ok vias.
Proof.
  induction 1 as [|x l Hx _ IH]; [reflexivity|]. cbn [map map_result].
  rewrite (source_via_ctext x Hx), IH. reflexivity.
Qed.

Lemma single_acc o p : pin_facts p -> annot_pin_ok o p = true ->
  single true (acc_text o p) = Ok (Some (erase_pin o p)).
Proof.
  intros F Ha. unfold single. rewrite (single_entry_acc o p F Ha).
  unfold add_sources. cbn [e_req e_hash e_sources e_url].
  assert (P0 o p = nv p ++ match hash_w o p with Some _ => " " | None => "" end) as EP by reflexivity.
  rewrite EP. rewrite (req_lex_pin p _ F) by (destruct (hash_w o p); reflexivity).
  rewrite (pf_vpin p F). rewrite (map_result_vias _ (via_facts_all p F)).
  unfold erase_pin. do 2 f_equal. f_equal.
  - unfold hash_w. destruct (p_hash p) as [h|] eqn:Eh; [|destruct (o_hashes o); reflexivity].
    pose proof (pf_hash p F h Eh) as Hh. unfold hash_ok in Hh.
    apply andb_true_iff in Hh as [Hh _]. apply andb_true_iff in Hh as [Ht _].
    rewrite (token_nonempty _ Ht). rewrite andb_true_r. reflexivity.
  - unfold url_w. destruct (p_url p) as [u|] eqn:Eu; [|destruct (o_urls o); reflexivity].
    destruct (o_urls o); [|reflexivity]. rewrite (url_nonempty u (pf_url p F u Eu)). reflexivity.
Qed.

(* ------------------------------------------------------------------ all pins *)
Lemma acc_text_nonempty o p : pin_facts p -> nonempty (acc_text o p) = true.
Proof. intros F. unfold acc_text. apply nonempty_app_l. eapply first_ok_nonempty. apply P0_first; exact F. Qed.

Lemma pins_load o ps : forall partial q acc,
  Forall pin_facts ps -> forallb (annot_pin_ok o) ps = true ->
  (partial = "" /\ q = None \/ nonempty partial = true /\ single true partial = Ok q) ->
  load_lines (flat_map (fun p => map (fun l => l ++ nl) (pin_lines o p)) ps) partial acc =
  Ok (List.app (rev (push q acc)) (map (erase_pin o) ps)).
Proof.
  induction ps as [|p ps IH]; intros partial q acc HF Ha Hq; cbn [flat_map map].
  - rewrite load_end, app_nil_r. destruct Hq as [[-> ->]|[Hn Hs]]; [reflexivity|]. rewrite Hn, Hs. reflexivity.
  - inversion HF as [|? ? Fp HF']; subst. cbn [forallb] in Ha. apply andb_true_iff in Ha as [Hap Ha].
    rewrite (pin_lines_load o p partial _ acc Fp Hap).
    assert (forall acc', load_lines (flat_map (fun p0 => map (fun l => l ++ nl) (pin_lines o p0)) ps) (acc_text o p) acc' =
                         Ok (List.app (rev (push (Some (erase_pin o p)) acc')) (map (erase_pin o) ps))) as Hnext.
    { intros acc'. apply IH; [exact HF'|exact Ha|]. right. split; [apply acc_text_nonempty; exact Fp|apply single_acc; assumption]. }
    destruct Hq as [[-> ->]|[Hn Hs]].
    + cbn [nonempty]. rewrite Hnext. cbn [push rev]. rewrite <- app_assoc. reflexivity.
    + rewrite Hn, Hs. rewrite Hnext. cbn [push rev]. rewrite <- app_assoc. reflexivity.
Qed.

(* ------------------------------------------------------------------ the whole file (multi-line) *)
Definition skippable (l : string) : Prop :=
  forall ls acc, load_lines ((l ++ nl) :: ls) "" acc = load_lines ls "" acc.

Lemma skip_all hs rest acc : Forall skippable hs ->
  load_lines (List.app (map (fun l => l ++ nl) hs) rest) "" acc = load_lines rest "" acc.
Proof. induction 1 as [|h hs Hh _ IH]; cbn [map List.app]; [reflexivity|]. rewrite Hh. exact IH. Qed.

Lemma skippable_comment x : skippable (String "#" x).
Proof. intros ls acc. apply (skip_comment (x ++ nl)). Qed.
Lemma skippable_blank : skippable "".
Proof. intros ls acc. apply skip_blank. Qed.
Lemma skippable_directive d : directive_ok d = true -> skippable d.
Proof.
  unfold directive_ok. intros H. apply andb_true_iff in H as [_ H]. intros ls acc. apply skip_directive. exact H.
Qed.

Fixpoint repo_line_list (i : nat) (l : list string) : list string :=
  match l with [] => [] | r :: l' => ("# [" ++ dec i ++ "] " ++ r) :: repo_line_list (S i) l' end.

Definition header_lines (a : annot) : list string :=
  List.app ["# Compiled by Req-Compile (" ++ a_ver a ++ ") on " ++ a_time a ++ " UTC"; "#"; "# Inputs:"]
  (List.app (map (fun i => "# " ++ i) (a_inputs a))
  (List.app ["#"; "# Repositories (this annotation produced by --annotate):"]
  (List.app (repo_line_list 0 (a_repos a)) [""]))).

Lemma repo_lines_list l : forall i, repo_lines i l = concat_str (map (fun x => x ++ nl) (repo_line_list i l)).
Proof.
  induction l as [|r l IH]; intros i; cbn [repo_lines repo_line_list map concat_str]; [reflexivity|].
  rewrite IH. rewrite !append_assoc. reflexivity.
Qed.

Lemma header_text_lines a : header_text a = concat_str (map (fun x => x ++ nl) (header_lines a)).
Proof.
  unfold header_text, header_lines. rewrite !map_app, !concat_str_app. rewrite repo_lines_list.
  rewrite map_map. cbn [map concat_str]. rewrite !append_assoc. cbn [append]. rewrite ?append_nil_r. reflexivity.
Qed.

Lemma header_skippable a : Forall skippable (header_lines a).
Proof.
  unfold header_lines. repeat (apply Forall_app; split).
  - repeat constructor; apply skippable_comment.
  - apply Forall_forall. intros x Hx. apply in_map_iff in Hx as [i [<- _]]. apply skippable_comment.
  - repeat constructor; apply skippable_comment.
  - generalize 0. induction (a_repos a) as [|r l IH]; intros i; cbn [repo_line_list]; constructor; [apply skippable_comment|apply IH].
  - constructor; [apply skippable_blank|constructor].
Qed.

(* ------------------------------------------------------------------ every line is one line *)
Lemma digit_nonl k : k < 10 -> neqc nlc (ascii_of_nat (48 + k)) = true.
Proof. intros H. do 10 (destruct k as [|k]; [reflexivity|]). lia. Qed.

Lemma dec_digits_nonl fuel : forall n acc, oneline_b acc = true -> oneline_b (dec_digits fuel n acc) = true.
Proof.
  induction fuel as [|f IH]; intros n acc Ha; cbn [dec_digits]; [exact Ha|].
  assert (oneline_b (String (ascii_of_nat (48 + n mod 10)) acc) = true) as Hd.
  { unfold oneline_b in *. cbn [forall_chars]. rewrite digit_nonl by (apply Nat.mod_upper_bound; lia). exact Ha. }
  destruct (n / 10 =? 0); [exact Hd|apply IH; exact Hd].
Qed.
Lemma dec_nonl n : oneline_b (dec n) = true.
Proof. apply dec_digits_nonl. reflexivity. Qed.

Lemma ctext_nonl x : via_facts x -> oneline_b (constraint_text x) = true.
Proof. intros F. unfold oneline_b. eapply forall_chars_impl; [apply body_nonl|exact (vf_bchars x F)]. Qed.

Lemma header_oneline a : annot_ok a = true -> Forall (fun l => oneline_b l = true) (header_lines a).
Proof.
  unfold annot_ok. intros H. apply andb_true_iff in H as [H Hr]. apply andb_true_iff in H as [H Hi].
  apply andb_true_iff in H as [Hv Ht]. rewrite forallb_forall in Hi, Hr.
  unfold header_lines. repeat (apply Forall_app; split).
  - constructor; [|repeat constructor]. unfold oneline_b. rewrite !forall_chars_app.
    change (oneline (a_ver a) = true) in Hv. change (oneline (a_time a) = true) in Ht. unfold oneline in *.
    change (fun c => negb (Ascii.eqb c nlc)) with (neqc nlc) in *. rewrite Hv, Ht. reflexivity.
  - apply Forall_forall. intros x Hx. apply in_map_iff in Hx as [i [<- Hin]].
    unfold oneline_b. rewrite forall_chars_app. pose proof (Hi i Hin) as Hii. unfold oneline in Hii.
    change (fun c => negb (Ascii.eqb c nlc)) with (neqc nlc) in Hii. rewrite Hii. reflexivity.
  - repeat constructor.
  - generalize 0. induction (a_repos a) as [|r l IH]; intros i; cbn [repo_line_list]; constructor.
    + unfold oneline_b. rewrite !forall_chars_app. pose proof (Hr r (or_introl eq_refl)) as Hrr. unfold oneline in Hrr.
      change (fun c => negb (Ascii.eqb c nlc)) with (neqc nlc) in Hrr. rewrite Hrr. fold (oneline_b (dec i)). rewrite dec_nonl. reflexivity.
    + apply IH. intros x Hx. apply Hr. right. exact Hx.
  - repeat constructor.
Qed.

Lemma pin_lines_oneline o p : pin_facts p -> annot_pin_ok o p = true ->
  Forall (fun l => oneline_b l = true) (pin_lines o p).
Proof.
  intros F Ha. destruct (nv_facts p F) as [_ [_ [_ [_ [_ [H6 _]]]]]].
  unfold pin_lines. constructor.
  - unfold L0, oneline_b. rewrite forall_chars_app, H6. destruct (hash_w o p); reflexivity.
  - apply Forall_forall. intros l Hl. apply in_map_iff in Hl as [b [<- Hb]].
    assert (oneline_b b = true) as Hob.
    2:{ unfold oneline_b in *. rewrite forall_chars_app, Hob. reflexivity. }
    unfold bodies in Hb. apply in_app_or in Hb as [Hb|Hb]; [|apply in_app_or in Hb as [Hb|Hb]; [|apply in_app_or in Hb as [Hb|Hb]]].
    + unfold hash_w in Hb. destruct (p_hash p) as [h|] eqn:Eh; [|destruct Hb].
      destruct (o_hashes o && nonempty h); [|destruct Hb]. destruct Hb as [<-|[]].
      pose proof (pf_hash p F h Eh) as Hh. unfold hash_ok in Hh.
      apply andb_true_iff in Hh as [Hh _]. apply andb_true_iff in Hh as [Ht _].
      unfold oneline_b. rewrite forall_chars_app, (token_nonl _ Ht). reflexivity.
    + unfold annot_pin_ok in Ha. destruct (o_annot o) as [a|]; [|destruct Hb]. destruct Hb as [<-|[]].
      apply andb_true_iff in Ha as [Hi _]. unfold idx_ok in Hi. apply andb_true_iff in Hi as [_ Hi].
      unfold oneline_b. rewrite !forall_chars_app.
      rewrite (forall_chars_impl _ (neqc nlc) _ (fun c Hc => tok_nonl c (idx_tok c Hc)) Hi). reflexivity.
    + pose proof (via_facts_all p F) as Hv.
      assert (forall pre, oneline_b pre = true -> forall y, In y (map (fun c => pre ++ c) (map constraint_text (p_via p))) -> oneline_b y = true) as Hall.
      { intros pre Hpre y Hy. apply in_map_iff in Hy as [c [<- Hc]]. apply in_map_iff in Hc as [x [<- Hx]].
        rewrite Forall_forall in Hv. unfold oneline_b in *. rewrite forall_chars_app, Hpre. apply (ctext_nonl x (Hv x Hx)). }
      unfold via_bodies in Hb. destruct (map constraint_text (p_via p)) as [|c [|c2 cs]] eqn:E.
      * destruct Hb as [<-|[]]. reflexivity.
      * apply (Hall "# via " eq_refl). exact Hb.
      * destruct Hb as [<-|Hb]; [reflexivity|]. apply (Hall "#   " eq_refl). exact Hb.
    + unfold url_w in Hb. destruct (p_url p) as [u|] eqn:Eu; [|destruct Hb]. destruct (o_urls o); [|destruct Hb].
      destruct Hb as [<-|[]]. pose proof (pf_url p F u Eu) as Hu. unfold url_ok in Hu.
      destruct (partition_char "#"%char u) as [[base hf] frag].
      repeat (apply andb_true_iff in Hu as [Hu _]).
      unfold oneline_b. rewrite forall_chars_app. rewrite (forall_chars_impl _ _ _ plain_nonl Hu). reflexivity.
Qed.

(* ------------------------------------------------------------------ C06, multi-line *)
Lemma concat_concat {A} (f : A -> list string) (l : list A) :
  concat_str (map (fun p => concat_str (map (fun x => x ++ nl) (f p))) l) =
  concat_str (map (fun x => x ++ nl) (flat_map f l)).
Proof.
  induction l as [|p l IH]; [reflexivity|]. cbn [map concat_str flat_map].
  rewrite map_app, concat_str_app, IH. reflexivity.
Qed.

Lemma flat_map_map_lines {A} (f : A -> list string) (l : list A) :
  map (fun x => x ++ nl) (flat_map f l) = flat_map (fun p => map (fun x => x ++ nl) (f p)) l.
Proof. induction l as [|p l IH]; [reflexivity|]. cbn [flat_map]. rewrite map_app, IH. reflexivity. Qed.

Lemma vias_sorted p : pin_facts p ->
  sort_by lower (map constraint_text (p_via p)) = map constraint_text (p_via p).
Proof.
  intros F. rewrite <- (sort_by_map constraint_text lower (p_via p)).
  change (fun x => lower (constraint_text x)) with via_key. rewrite (sort_by_sorted via_key _ (pf_sorted p F)). reflexivity.
Qed.

Lemma pass_one_lines o v : o_multi o = true -> Forall pin_facts v -> names_sorted v = true ->
  pass_one o v = concat_str (map (fun x => x ++ nl) (flat_map (pin_lines o) v)).
Proof.
  intros Hm HF Hs. unfold pass_one, sort_pins. unfold names_sorted in Hs. rewrite (sort_by_sorted _ v Hs).
  rewrite <- concat_concat. f_equal. apply map_ext_in. intros p Hp.
  rewrite Forall_forall in HF. apply pin_text_lines; [exact Hm|exact (pf_vne p (HF p Hp))|apply vias_sorted; exact (HF p Hp)].
Qed.

Definition directive_lines (o : opts) : list string :=
  match List.app (o_index o) (o_links o) with [] => [] | l => List.app l [""] end.

Lemma directives_text_lines o : directives_text o = concat_str (map (fun x => x ++ nl) (directive_lines o)).
Proof.
  unfold directives_text, directive_lines. rewrite <- concat_str_app, <- map_app.
  destruct (List.app (o_index o) (o_links o)) as [|d l]; [reflexivity|].
  assert (nonempty (concat_str (map (fun r => r ++ nl) (d :: l))) = true) as ->.
  { cbn [map concat_str]. rewrite append_assoc. apply nonempty_app_r. reflexivity. }
  rewrite map_app, concat_str_app. cbn [map concat_str]. rewrite append_nil_r. reflexivity.
Qed.

Lemma directive_lines_ok o : opts_ok o = true ->
  Forall skippable (directive_lines o) /\ Forall (fun l => oneline_b l = true) (directive_lines o).
Proof.
  unfold opts_ok. intros H. apply andb_true_iff in H as [H Hl]. apply andb_true_iff in H as [_ Hi].
  assert (forallb directive_ok (List.app (o_index o) (o_links o)) = true) as Hd by (rewrite forallb_app, Hi, Hl; reflexivity).
  unfold directive_lines. destruct (List.app (o_index o) (o_links o)) as [|d l]; [split; constructor|].
  rewrite forallb_forall in Hd. split; apply Forall_app; split.
  - apply Forall_forall. intros x Hx. apply skippable_directive. apply Hd. exact Hx.
  - constructor; [apply skippable_blank|constructor].
  - apply Forall_forall. intros x Hx. pose proof (Hd x Hx) as Hdx. unfold directive_ok in Hdx.
    apply andb_true_iff in Hdx as [Hdx _]. exact Hdx.
  - repeat constructor.
Qed.

Definition header_line_list (o : opts) : list string :=
  match o_annot o with Some a => header_lines a | None => [] end.

Theorem roundtrip_multi o v : wf_multi o v = true -> load (write o v) = Ok (erase o v).
Proof.
  unfold wf_multi. intros H. apply andb_true_iff in H as [H Hsorted]. apply andb_true_iff in H as [H Hannot].
  apply andb_true_iff in H as [H Hpins]. apply andb_true_iff in H as [Hm Hopts].
  assert (Forall pin_facts v) as HF.
  { rewrite forallb_forall in Hpins. apply Forall_forall. intros p Hp. apply pin_ok_facts. apply Hpins; exact Hp. }
  assert (load_entries (write o v) = Ok (erase o v)) as HL.
  { unfold load_entries, write. rewrite Hm. rewrite (pass_one_lines o v Hm HF Hsorted).
    rewrite directives_text_lines.
    assert ((match o_annot o with Some a => header_text a | None => "" end) =
            concat_str (map (fun x => x ++ nl) (header_line_list o))) as ->.
    { unfold header_line_list. destruct (o_annot o); [apply header_text_lines|reflexivity]. }
    destruct (directive_lines_ok o Hopts) as [Hds Hdo].
    assert (Forall skippable (header_line_list o) /\ Forall (fun l => oneline_b l = true) (header_line_list o)) as [Hhs Hho].
    { unfold header_line_list. unfold opts_ok in Hopts. apply andb_true_iff in Hopts as [Hopts _]. apply andb_true_iff in Hopts as [Ha _].
      destruct (o_annot o) as [a|]; [split; [apply header_skippable|apply header_oneline; exact Ha]|split; constructor]. }
    rewrite (readlines_lines (header_line_list o) _ Hho).
    rewrite (readlines_lines (directive_lines o) _ Hdo).
    rewrite <- (append_nil_r (concat_str (map (fun x => x ++ nl) (flat_map (pin_lines o) v)))).
    rewrite (readlines_lines (flat_map (pin_lines o) v) "").
    2:{ apply Forall_forall. intros l Hl. apply in_flat_map in Hl as [p [Hp Hl]].
        rewrite Forall_forall in HF. rewrite forallb_forall in Hannot.
        pose proof (pin_lines_oneline o p (HF p Hp) (Hannot p Hp)) as Hol. rewrite Forall_forall in Hol. apply Hol; exact Hl. }
    rewrite readlines_nil, app_nil_r.
    rewrite (skip_all _ _ [] Hhs), (skip_all _ _ [] Hds).
    rewrite flat_map_map_lines.
    rewrite (pins_load o v "" None [] HF Hannot (or_introl (conj eq_refl eq_refl))). reflexivity. }
  unfold load. exact HL.
Qed.

Lemma edges_erase o v : edges (erase o v) = edges v.
Proof. unfold edges, erase. induction v as [|p v IH]; [reflexivity|]. cbn [map flat_map]. rewrite IH. reflexivity. Qed.

Theorem edges_roundtrip_multi o v :
  wf_multi o v = true -> exists v', load (write o v) = Ok v' /\ edges v' = edges v.
Proof. intros H. exists (erase o v). split; [apply roundtrip_multi; exact H|apply edges_erase]. Qed.

(* C14 proofs: the order of lib/Pep440 on release-only versions is zero-padded
   lexicographic comparison of the release components. *)
From Coq Require Import List Bool ZArith NArith Lia.
From RC Require Import lib.Lex lib.Pep440 model.PyRequiresC14.
Import ListNotations.
Open Scope N_scope.


Definition all0 (l : list N) : bool := forallb (N.eqb 0) l.
Fixpoint cmp_pad (a b : list N) : comparison :=
  match a, b with
  | [], _ => if all0 b then Eq else Lt
  | _, [] => if all0 a then Eq else Gt
  | x :: a', y :: b' => match x ?= y with Eq => cmp_pad a' b' | c => c end
  end.
Fixpoint cmp_lex (a b : list N) : comparison :=
  match a, b with
  | [], [] => Eq
  | [], _ => Lt
  | _, [] => Gt
  | x :: a', y :: b' => match x ?= y with Eq => cmp_lex a' b' | c => c end
  end.

Lemma strip0_rev_app m x :
  strip0_rev (m ++ [x]) = match strip0_rev m with [] => if x =? 0 then [] else [x] | r => r ++ [x] end.
Proof.
  induction m as [|y m IH]; cbn [app strip0_rev].
  - destruct x; reflexivity.
  - destruct y; [exact IH|reflexivity].
Qed.

Lemma strip0_cons x l :
  strip0 (x :: l) = match strip0 l with [] => if x =? 0 then [] else [x] | s => x :: s end.
Proof.
  unfold strip0. cbn [rev]. rewrite strip0_rev_app.
  destruct (strip0_rev (rev l)) as [|n r] eqn:E.
  - cbn [rev]. destruct (x =? 0); reflexivity.
  - rewrite rev_app_distr. cbn [rev app].
    destruct (rev r ++ [n])%list eqn:E2; [destruct (rev r); discriminate|]. reflexivity.
Qed.

Lemma strip0_nil_iff l : strip0 l = [] <-> all0 l = true.
Proof.
  induction l as [|x l IH]; [cbn; tauto|]. rewrite strip0_cons. cbn [all0 forallb]. fold (all0 l).
  destruct (strip0 l) eqn:E.
  - assert (all0 l = true) as -> by (apply IH; reflexivity). rewrite andb_true_r.
    rewrite (N.eqb_sym 0 x). destruct (x =? 0); split; congruence.
  - destruct (all0 l); [destruct IH as [_ IH]; discriminate (IH eq_refl)|].
    rewrite andb_false_r. split; discriminate.
Qed.

Lemma cmp_lex_strip a : forall b, cmp_lex (strip0 a) (strip0 b) = cmp_pad a b.
Proof.
  induction a as [|x a IH]; intros [|y b].
  - reflexivity.
  - change (strip0 []) with (@nil N). cbn [cmp_pad].
    destruct (strip0 (y :: b)) eqn:E; destruct (all0 (y :: b)) eqn:E2; cbn [cmp_lex]; auto.
    + apply strip0_nil_iff in E. congruence.
    + apply strip0_nil_iff in E2. congruence.
  - change (strip0 []) with (@nil N). cbn [cmp_pad].
    destruct (strip0 (x :: a)) eqn:E; destruct (all0 (x :: a)) eqn:E2; cbn [cmp_lex]; auto.
    + apply strip0_nil_iff in E. congruence.
    + apply strip0_nil_iff in E2. congruence.
  - rewrite !strip0_cons. cbn [cmp_pad]. rewrite <- IH.
    destruct (strip0 a) as [|u sa], (strip0 b) as [|w sb], x as [|px], y as [|py]; cbn;
      try reflexivity; try (destruct (Pos.compare px py); reflexivity).
Qed.

Local Open Scope Z_scope.
Definition encf (n : N) : Z := Z.of_N n + 1.

Lemma encf_compare x y : (encf x ?= encf y) = (x ?= y)%N.
Proof.
  unfold encf. destruct (N.compare_spec x y) as [H|H|H];
    destruct (Z.compare_spec (Z.of_N x + 1) (Z.of_N y + 1)) as [H'|H'|H']; try lia; auto.
Qed.

Lemma lex_enc sa : forall sb s t,
  lex (map encf sa ++ 0 :: s) (map encf sb ++ 0 :: t) = match cmp_lex sa sb with Eq => lex s t | c => c end.
Proof.
  induction sa as [|x sa IH]; intros [|y sb] s t; cbn [map app lex cmp_lex].
  - reflexivity.
  - unfold encf. destruct (Z.compare_spec 0 (Z.of_N y + 1)); try lia. reflexivity.
  - unfold encf. destruct (Z.compare_spec (Z.of_N x + 1) 0); try lia. reflexivity.
  - rewrite encf_compare. destruct (x ?= y)%N; auto.
Qed.

Lemma enc_release_eq r : enc_release r = (map encf (strip0 r) ++ [0])%list.
Proof. reflexivity. Qed.

Definition rel_sfx : list Z := [4; 0; 1; 0].
Lemma vkey_relv r : vkey (relv r) = 0 :: (map encf (strip0 r) ++ 0 :: rel_sfx)%list.
Proof. unfold vkey, relv. cbn. rewrite <- app_assoc. reflexivity. Qed.
Lemma vkey_dev0 r : vkey (mkV 0%N r None None (Some 0%N) []) = 0 :: (map encf (strip0 r) ++ 0 :: [0; 0; 0; 0; 0])%list.
Proof. unfold vkey. cbn. rewrite <- app_assoc. reflexivity. Qed.

Lemma lex_rel a b : lex (vkey (relv a)) (vkey (relv b)) = cmp_pad a b.
Proof.
  rewrite !vkey_relv. cbn [lex Z.compare]. rewrite lex_enc, cmp_lex_strip.
  destruct (cmp_pad a b); auto.
Qed.

Lemma vleb_rel a b : vleb (relv a) (relv b) = match cmp_pad a b with Gt => false | _ => true end.
Proof. unfold vleb, Lex.leb. rewrite lex_rel. reflexivity. Qed.
Lemma vltb_rel a b : vltb (relv a) (relv b) = match cmp_pad a b with Lt => true | _ => false end.
Proof. unfold vltb, Lex.ltb. rewrite lex_rel. reflexivity. Qed.
Lemma veqb_rel a b : veqb (relv a) (relv b) = match cmp_pad a b with Eq => true | _ => false end.
Proof. unfold veqb, Lex.eqb. rewrite lex_rel. reflexivity. Qed.

Lemma vltb_dev0 a b : vltb (relv a) (mkV 0%N b None None (Some 0%N) []) = vltb (relv a) (relv b).
Proof.
  rewrite vltb_rel. unfold vltb, Lex.ltb. rewrite vkey_relv, vkey_dev0. cbn [lex Z.compare].
  rewrite lex_enc, cmp_lex_strip. destruct (cmp_pad a b); reflexivity.
Qed.

(* clause semantics on a release-only candidate version *)
Lemma public_relv r : public (relv r) = relv r.  Proof. reflexivity. Qed.

Lemma match_ge s r : clause_match (mkC OGe (relv s) false) (relv r) = vleb (relv s) (relv r).
Proof. reflexivity. Qed.
Lemma match_le s r : clause_match (mkC OLe (relv s) false) (relv r) = vleb (relv r) (relv s).
Proof. reflexivity. Qed.
Lemma match_lt s r : clause_match (mkC OLt (relv s) false) (relv r) = vltb (relv r) (relv s).
Proof. cbn [clause_match cop cver]. unfold lt_match. cbn [is_prerelease relv pre dev epoch release post]. apply vltb_dev0. Qed.
Lemma match_eq s r : clause_match (mkC OEq (relv s) false) (relv r) = veqb (relv r) (relv s).
Proof. reflexivity. Qed.
Lemma match_ne s r : clause_match (mkC ONe (relv s) false) (relv r) = negb (veqb (relv r) (relv s)).
Proof. reflexivity. Qed.

Lemma cmp_pad_antisym a : forall b, cmp_pad b a = CompOpp (cmp_pad a b).
Proof.
  induction a as [|x a IH]; intros [|y b]; cbn [cmp_pad].
  - reflexivity.
  - destruct (all0 (y :: b)); reflexivity.
  - destruct (all0 (x :: a)); reflexivity.
  - rewrite (N.compare_antisym x y). destruct (x ?= y)%N; cbn; auto.
Qed.

Lemma list_N_eqb_true a b : list_N_eqb a b = true <-> a = b.
Proof.
  revert b; induction a as [|x a IH]; intros [|y b]; cbn; try (split; [discriminate|congruence]); [tauto|].
  rewrite andb_true_iff, N.eqb_eq, IH. split; [intros [-> ->]; reflexivity|intros H; inversion H; auto].
Qed.

Lemma match_gt s r : clause_match (mkC OGt (relv s) false) (relv r) = vltb (relv s) (relv r).
Proof.
  cbn [clause_match cop cver]. unfold gt_match. cbn [relv dev post].
  destruct (vltb (relv s) (relv r)) eqn:E; [|reflexivity]. cbn [andb].
  unfold same_family. cbn [relv epoch release pre pre_eqb]. rewrite N.eqb_refl, andb_true_r. cbn [andb].
  destruct (list_N_eqb (strip0 s) (strip0 r)) eqn:E2; [|reflexivity]. exfalso.
  apply list_N_eqb_true in E2. rewrite vltb_rel, <- cmp_lex_strip, E2 in E.
  assert (forall l, cmp_lex l l = Eq) as R.
  { induction l as [|z l IHl]; cbn; auto. rewrite N.compare_refl. exact IHl. }
  rewrite R in E. discriminate.
Qed.

(* normalize_project_name, parameterised by the chain T1 reads from req_compile/utils.py *)
From Coq Require Import List String Ascii Bool.
From RC Require Import lib.PyStr gen.NameConsts.
Import ListNotations.

Definition apply_chain (chain : list (ascii * ascii)) (s : string) : string :=
  fold_left (fun acc p => replace_char (fst p) (snd p) acc) chain s.

Definition norm (s : string) : string :=
  apply_chain norm_chain (if norm_lower then lower s else s).

(* pkg_resources.safe_name: runs of characters outside [A-Za-z0-9.] become one '-' *)
Definition safe_ok (c : ascii) : bool :=
  is_digit c || is_alpha_ascii c || Ascii.eqb c "."%char.
Fixpoint safe_name_aux (s : string) (in_run : bool) : string :=
  match s with
  | EmptyString => EmptyString
  | String c s' =>
      if safe_ok c then String c (safe_name_aux s' false)
      else if in_run then safe_name_aux s' true
      else String "-"%char (safe_name_aux s' true)
  end.
Definition safe_name (s : string) : string := safe_name_aux s false.

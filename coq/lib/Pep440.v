(* PEP 440 versions as packaging.version.Version orders them, and the specifier clause
   semantics (packaging.specifiers) the solver relies on.  Validated against packaging on a
   dense grid by harness/c17.py (T2); nothing here is proved *about* packaging. *)
From Coq Require Import ZArith NArith List Bool String Ascii Lia.
From RC Require Import lib.Lex.
Import ListNotations.
Open Scope Z_scope.

Inductive prek := PA | PB | PRC.
Inductive lseg := LNum (n : N) | LStr (s : string).

Record version := mkV {
  epoch : N;
  release : list N;
  pre : option (prek * N);
  post : option N;
  dev : option N;
  vlocal : list lseg   (* [] = no local part *)
}.

Fixpoint strip0_rev (l : list N) : list N :=
  match l with
  | 0%N :: l' => strip0_rev l'
  | _ => l
  end.
Definition strip0 (l : list N) : list N := rev (strip0_rev (rev l)).

Definition kcode (k : prek) : Z := match k with PA => 1 | PB => 2 | PRC => 3 end.

Fixpoint enc_str (s : string) : list Z :=
  match s with
  | EmptyString => [0]
  | String c s' => (Z.of_N (N_of_ascii c) + 1) :: enc_str s'
  end.

Definition enc_seg (s : lseg) : list Z :=
  match s with
  | LNum n => [2; Z.of_N n]
  | LStr s => 1 :: enc_str s
  end.

Definition enc_release (r : list N) : list Z := map (fun n => Z.of_N n + 1) (strip0 r) ++ [0].

Definition enc_pre (v : version) : list Z :=
  match pre v, post v, dev v with
  | None, None, Some _ => [0]
  | None, _, _ => [4]
  | Some (k, n), _, _ => [kcode k; Z.of_N n]
  end.
Definition enc_post (v : version) : list Z :=
  match post v with None => [0] | Some n => [1; Z.of_N n] end.
Definition enc_dev (v : version) : list Z :=
  match dev v with None => [1] | Some n => [0; Z.of_N n] end.
Definition enc_local (v : version) : list Z :=
  match vlocal v with
  | [] => [0]
  | segs => 1 :: flat_map enc_seg segs ++ [0]
  end.

(* the sort key: lexicographic order on this list = tuple order of Version._key *)
Definition vkey (v : version) : list Z :=
  Z.of_N (epoch v) :: enc_release (release v) ++ enc_pre v ++ enc_post v ++ enc_dev v ++ enc_local v.

Definition vcmp (a b : version) : comparison := lex (vkey a) (vkey b).
Definition veqb (a b : version) : bool := Lex.eqb (vkey a) (vkey b).
Definition vltb (a b : version) : bool := Lex.ltb (vkey a) (vkey b).
Definition vleb (a b : version) : bool := Lex.leb (vkey a) (vkey b).

Definition is_prerelease (v : version) : bool :=
  match pre v, dev v with None, None => false | _, _ => true end.
Definition is_postrelease (v : version) : bool :=
  match post v with None => false | Some _ => true end.
Definition has_local (v : version) : bool :=
  match vlocal v with [] => false | _ => true end.

Definition public (v : version) : version :=
  mkV (epoch v) (release v) (pre v) (post v) (dev v) [].
Definition base (v : version) : version :=
  mkV (epoch v) (release v) None None None [].
Definition base_eqb (a b : version) : bool := veqb (base a) (base b).

(* ---- specifier clauses ---- *)
Inductive op := OEq | ONe | OLt | OLe | OGt | OGe | OCompat.
Record clause := mkC { cop : op; cver : version; cwild : bool }.

Fixpoint take_pad (n : nat) (l : list N) : list N :=
  match n with
  | O => []
  | S n' => match l with [] => 0%N :: take_pad n' [] | x :: l' => x :: take_pad n' l' end
  end.

Fixpoint list_N_eqb (a b : list N) : bool :=
  match a, b with
  | [], [] => true
  | x :: a', y :: b' => N.eqb x y && list_N_eqb a' b'
  | _, _ => false
  end.

(* == V.* : same epoch, and the candidate's release (zero padded) starts with V's release *)
Definition prefix_match (spec v : version) : bool :=
  N.eqb (epoch spec) (epoch v) &&
  list_N_eqb (take_pad (List.length (release spec)) (release v)) (release spec).

Definition eq_match (spec v : version) : bool :=
  if has_local spec then veqb v spec else veqb (public v) spec.

(* packaging >= 26 (range based):  <V  is  v < V            when V is a pre-release,
                                         v < V.dev0       otherwise;
                                    >V.devN  is  v >= V.dev(N+1);   >V.postN  is  v >= V.post(N+1).dev0;
                                    >V (final or a/b/rc)  is  v > V and v not in V's post family *)
Definition prek_eqb (a b : prek) : bool :=
  match a, b with PA, PA | PB, PB | PRC, PRC => true | _, _ => false end.
Definition pre_eqb (a b : option (prek * N)) : bool :=
  match a, b with
  | None, None => true
  | Some (k, n), Some (k', n') => prek_eqb k k' && N.eqb n n'
  | _, _ => false
  end.
Definition same_family (spec v : version) : bool :=
  N.eqb (epoch spec) (epoch v) && list_N_eqb (strip0 (release spec)) (strip0 (release v)) &&
  pre_eqb (pre spec) (pre v).

Definition lt_match (spec v : version) : bool :=
  if is_prerelease spec then vltb v spec
  else vltb v (mkV (epoch spec) (release spec) (pre spec) (post spec) (Some 0%N) []).

Definition gt_match (spec v : version) : bool :=
  match dev spec with
  | Some n => vleb (mkV (epoch spec) (release spec) (pre spec) (post spec) (Some (n + 1)%N) []) v
  | None =>
    match post spec with
    | Some n => vleb (mkV (epoch spec) (release spec) (pre spec) (Some (n + 1)%N) (Some 0%N) []) v
    | None => vltb spec v && negb (same_family spec v)
    end
  end.

Definition compat_prefix (spec : version) : version :=
  mkV (epoch spec) (removelast (release spec)) None None None [].

Definition clause_match (c : clause) (v : version) : bool :=
  match cop c with
  | OEq => if cwild c then prefix_match (cver c) v else eq_match (cver c) v
  | ONe => negb (if cwild c then prefix_match (cver c) v else eq_match (cver c) v)
  | OLe => vleb (public v) (cver c)
  | OGe => vleb (cver c) (public v)
  | OLt => lt_match (cver c) v
  | OGt => gt_match (cver c) v
  | OCompat => vleb (cver c) (public v) && prefix_match (compat_prefix (cver c)) v
  end.

(* SpecifierSet.contains(v, prereleases=flag) with an explicit flag *)
Definition spec_contains (cs : list clause) (v : version) (flag : bool) : bool :=
  (flag || negb (is_prerelease v)) && forallb (fun c => clause_match c v) cs.

(* ---- order facts ---- *)
Lemma vleb_refl a : vleb a a = true.  Proof. apply Lex.leb_refl. Qed.
Lemma vleb_total a b : vleb a b = true \/ vleb b a = true.  Proof. apply Lex.leb_total. Qed.
Lemma vleb_trans a b c : vleb a b = true -> vleb b c = true -> vleb a c = true.
Proof. apply Lex.leb_trans. Qed.
Lemma vltb_vleb a b : vltb a b = negb (vleb b a).  Proof. apply Lex.ltb_leb. Qed.
Lemma veqb_vleb a b : veqb a b = vleb a b && vleb b a.
Proof.
  unfold veqb, vleb, Lex.eqb, Lex.leb. rewrite (Lex.lex_antisym (vkey a) (vkey b)).
  destruct (lex (vkey a) (vkey b)); reflexivity.
Qed.

(* sorted(set(...)) on strings: insertion sort with de-duplication. *)
From Coq Require Import List Bool String Sorting.Sorted.
From RC Require Import lib.PyStr.
Import ListNotations.

Fixpoint sinsert (x : string) (l : list string) : list string :=
  match l with
  | [] => [x]
  | y :: l' => if String.eqb x y then l
               else if str_leb x y then x :: l else y :: sinsert x l'
  end.
Definition sort_set (l : list string) : list string := fold_right sinsert [] l.

Lemma sinsert_in x y l : In y (sinsert x l) <-> y = x \/ In y l.
Proof.
  induction l as [|z l IH]; cbn.
  - intuition congruence.
  - destruct (String.eqb_spec x z) as [->|Hne].
    + cbn; intuition congruence.
    + destruct (str_leb x z); cbn; [intuition congruence|].
      rewrite IH; intuition congruence.
Qed.

Lemma sort_set_in y l : In y (sort_set l) <-> In y l.
Proof.
  induction l as [|x l IH]; cbn; [tauto|].
  rewrite sinsert_in, IH; intuition congruence.
Qed.

Definition strictly_sorted (l : list string) : Prop :=
  StronglySorted (fun a b => str_leb a b = true /\ a <> b) l.

Lemma sinsert_sorted x l : strictly_sorted l -> strictly_sorted (sinsert x l).
Proof.
  unfold strictly_sorted.
  induction l as [|z l IH]; cbn; intros H.
  - constructor; constructor.
  - destruct (String.eqb_spec x z) as [->|Hne]; [exact H|].
    inversion H as [|? ? Hs Hall]; subst.
    destruct (str_leb x z) eqn:E.
    + constructor; [exact H|]. constructor; [split; assumption|].
      rewrite Forall_forall in *; intros w Hw. destruct (Hall w Hw) as [Hzw Hnzw]. split.
      * eapply str_leb_trans; eassumption.
      * intros ->. apply Hne. apply str_leb_antisym; assumption.
    + constructor; [apply IH; exact Hs|].
      rewrite Forall_forall in *; intros w Hw. apply sinsert_in in Hw as [->|Hw]; [|apply Hall; exact Hw].
      split; [|congruence]. destruct (str_leb_total x z) as [Hc|Hc]; [congruence|exact Hc].
Qed.

Lemma sort_set_sorted l : strictly_sorted (sort_set l).
Proof. induction l as [|x l IH]; cbn; [constructor|apply sinsert_sorted; exact IH]. Qed.

(* a strictly sorted list is determined by its element set *)
Lemma strictly_sorted_ext l1 l2 :
  strictly_sorted l1 -> strictly_sorted l2 -> (forall x, In x l1 <-> In x l2) -> l1 = l2.
Proof.
  unfold strictly_sorted. revert l2; induction l1 as [|a l1 IH]; intros [|b l2] H1 H2 Hext.
  - reflexivity.
  - exfalso; apply (Hext b); left; reflexivity.
  - exfalso; apply (Hext a); left; reflexivity.
  - inversion H1 as [|? ? Hs1 Ha]; inversion H2 as [|? ? Hs2 Hb]; subst.
    rewrite Forall_forall in Ha, Hb.
    assert (a = b) as ->.
    { destruct (proj1 (Hext a) (or_introl eq_refl)) as [->|Hin]; [reflexivity|].
      destruct (proj2 (Hext b) (or_introl eq_refl)) as [->|Hin']; [reflexivity|].
      destruct (Ha _ Hin') as [Hab _]. destruct (Hb _ Hin) as [Hba _].
      apply str_leb_antisym; assumption. }
    f_equal. apply IH; try assumption.
    intros x; split; intros Hx.
    + destruct (proj1 (Hext x) (or_intror Hx)) as [->|]; [|assumption].
      exfalso. destruct (Ha _ Hx) as [_ Hne]. congruence.
    + destruct (proj2 (Hext x) (or_intror Hx)) as [->|]; [|assumption].
      exfalso. destruct (Hb _ Hx) as [_ Hne]. congruence.
Qed.

Lemma sort_set_ext l1 l2 : (forall x, In x l1 <-> In x l2) -> sort_set l1 = sort_set l2.
Proof.
  intros H. apply strictly_sorted_ext; try apply sort_set_sorted.
  intros x. rewrite !sort_set_in. apply H.
Qed.

(* The Python str methods the modelled code uses, over Coq strings (bytes).  Validated
   against CPython by harness/pystr_check (part of T2); lemmas used by codec proofs. *)
From Coq Require Import List Bool String Ascii Arith Lia.
Import ListNotations.
Open Scope string_scope.
Open Scope nat_scope.

Definition ascii_eqb := Ascii.eqb.

Fixpoint smap (f : ascii -> ascii) (s : string) : string :=
  match s with EmptyString => EmptyString | String c s' => String (f c) (smap f s') end.

Definition lower_ascii (c : ascii) : ascii :=
  let n := nat_of_ascii c in
  if (65 <=? n) && (n <=? 90) then ascii_of_nat (n + 32) else c.
Definition lower (s : string) : string := smap lower_ascii s.

(* str.replace(old, new) for single characters *)
Definition replace_char (o n : ascii) (s : string) : string :=
  smap (fun c => if Ascii.eqb c o then n else c) s.

Definition string_eqb (a b : string) : bool := String.eqb a b.

Fixpoint prefixb (p s : string) : bool :=
  match p, s with
  | EmptyString, _ => true
  | String a p', String b s' => Ascii.eqb a b && prefixb p' s'
  | _, EmptyString => false
  end.
Definition startswith (s p : string) : bool := prefixb p s.

Fixpoint drop (n : nat) (s : string) : string :=
  match n, s with
  | O, _ => s
  | S n', String _ s' => drop n' s'
  | S _, EmptyString => EmptyString
  end.

Definition endswith (s p : string) : bool :=
  let ls := String.length s in let lp := String.length p in
  (lp <=? ls) && String.eqb (drop (ls - lp) s) p.

(* `sub in s` *)
Fixpoint containsb (sub s : string) : bool :=
  prefixb sub s || match s with EmptyString => false | String _ s' => containsb sub s' end.

Definition is_space (c : ascii) : bool :=
  let n := nat_of_ascii c in
  (n =? 32) || ((9 <=? n) && (n <=? 13)) || ((28 <=? n) && (n <=? 31)).

Fixpoint lstrip_by (p : ascii -> bool) (s : string) : string :=
  match s with
  | String c s' => if p c then lstrip_by p s' else s
  | EmptyString => EmptyString
  end.
Fixpoint rev_str_acc (s acc : string) : string :=
  match s with EmptyString => acc | String c s' => rev_str_acc s' (String c acc) end.
Definition rev_str (s : string) : string := rev_str_acc s EmptyString.
Definition rstrip_by (p : ascii -> bool) (s : string) : string := rev_str (lstrip_by p (rev_str s)).
Definition strip (s : string) : string := rstrip_by is_space (lstrip_by is_space s).
Definition lstrip (s : string) : string := lstrip_by is_space s.
Definition rstrip (s : string) : string := rstrip_by is_space s.
Fixpoint mem_ascii (c : ascii) (cs : string) : bool :=
  match cs with EmptyString => false | String d cs' => Ascii.eqb c d || mem_ascii c cs' end.
Definition rstrip_chars (cs s : string) : string := rstrip_by (fun c => mem_ascii c cs) s.
Definition lstrip_chars (cs s : string) : string := lstrip_by (fun c => mem_ascii c cs) s.
Definition strip_chars (cs s : string) : string := rstrip_chars cs (lstrip_chars cs s).

(* s.split(sep) for a single-character separator: always non-empty list *)
Fixpoint split_char_acc (sep : ascii) (s acc : string) : list string :=
  match s with
  | EmptyString => [rev_str acc]
  | String c s' =>
      if Ascii.eqb c sep then rev_str acc :: split_char_acc sep s' EmptyString
      else split_char_acc sep s' (String c acc)
  end.
Definition split_char (sep : ascii) (s : string) : list string := split_char_acc sep s EmptyString.

(* s.split(): on runs of white space, no empty strings *)
Fixpoint split_ws_acc (s acc : string) : list string :=
  match s with
  | EmptyString => match acc with EmptyString => [] | _ => [rev_str acc] end
  | String c s' =>
      if is_space c then
        match acc with EmptyString => split_ws_acc s' EmptyString
                  | _ => rev_str acc :: split_ws_acc s' EmptyString end
      else split_ws_acc s' (String c acc)
  end.
Definition split_ws (s : string) : list string := split_ws_acc s EmptyString.

Fixpoint join (sep : string) (l : list string) : string :=
  match l with
  | [] => EmptyString
  | [x] => x
  | x :: l' => x ++ sep ++ join sep l'
  end.

(* s.partition(c) for a single character: (before, found, after) *)
Fixpoint partition_char_acc (sep : ascii) (s acc : string) : string * bool * string :=
  match s with
  | EmptyString => (rev_str acc, false, EmptyString)
  | String c s' => if Ascii.eqb c sep then (rev_str acc, true, s')
                   else partition_char_acc sep s' (String c acc)
  end.
Definition partition_char (sep : ascii) (s : string) := partition_char_acc sep s EmptyString.

(* s.find(sub) as option index; s.replace(old,new) for strings; split on a string separator *)
Fixpoint find_from (sub s : string) (i : nat) : option nat :=
  if prefixb sub s then Some i else
  match s with EmptyString => None | String _ s' => find_from sub s' (S i) end.
Definition find (s sub : string) : option nat := find_from sub s 0.

Fixpoint replace_fuel (fuel : nat) (old new s : string) : string :=
  match fuel with
  | O => s
  | S f =>
    match s with
    | EmptyString => if prefixb old s then new else EmptyString
    | String c s' =>
        if prefixb old s then
          match old with
          | EmptyString => s (* not used with empty old *)
          | _ => new ++ replace_fuel f old new (drop (String.length old) s)
          end
        else String c (replace_fuel f old new s')
    end
  end.
Definition replace (old new s : string) : string := replace_fuel (S (String.length s)) old new s.

Fixpoint split_str_fuel (fuel : nat) (sep s acc : string) : list string :=
  match fuel with
  | O => [rev_str acc ++ s]
  | S f =>
    match s with
    | EmptyString => [rev_str acc]
    | String c s' =>
        if prefixb sep s then rev_str acc :: split_str_fuel f sep (drop (String.length sep) s) EmptyString
        else split_str_fuel f sep s' (String c acc)
    end
  end.
(* sep must be non-empty *)
Definition split_str (sep s : string) : list string := split_str_fuel (S (String.length s)) sep s EmptyString.

Definition is_digit (c : ascii) : bool := let n := nat_of_ascii c in (48 <=? n) && (n <=? 57).
Definition is_alpha_ascii (c : ascii) : bool :=
  let n := nat_of_ascii c in ((65 <=? n) && (n <=? 90)) || ((97 <=? n) && (n <=? 122)).

(* string order (by byte), for sorted() on ASCII strings *)
Fixpoint str_leb (a b : string) : bool :=
  match a, b with
  | EmptyString, _ => true
  | String _ _, EmptyString => false
  | String x a', String y b' =>
      let nx := nat_of_ascii x in let ny := nat_of_ascii y in
      if nx <? ny then true else if ny <? nx then false else str_leb a' b'
  end.

Lemma str_leb_total a b : str_leb a b = true \/ str_leb b a = true.
Proof.
  revert b; induction a as [|x a IH]; intros [|y b]; cbn [str_leb]; auto.
  destruct (nat_of_ascii x <? nat_of_ascii y) eqn:E1; auto.
  destruct (nat_of_ascii y <? nat_of_ascii x) eqn:E2; auto.
Qed.

Lemma str_leb_refl a : str_leb a a = true.
Proof. induction a as [|x a IH]; cbn [str_leb]; auto. rewrite Nat.ltb_irrefl. exact IH. Qed.

Lemma str_leb_antisym a b : str_leb a b = true -> str_leb b a = true -> a = b.
Proof.
  revert b; induction a as [|x a IH]; intros [|y b]; cbn [str_leb]; auto; try discriminate.
  destruct (nat_of_ascii x <? nat_of_ascii y) eqn:E1;
  destruct (nat_of_ascii y <? nat_of_ascii x) eqn:E2; try discriminate.
  - apply Nat.ltb_lt in E1, E2. lia.
  - intros H1 H2. apply Nat.ltb_ge in E1, E2.
    assert (nat_of_ascii x = nat_of_ascii y) as E by lia.
    f_equal; [|apply IH; assumption].
    rewrite <- (ascii_nat_embedding x), <- (ascii_nat_embedding y), E. reflexivity.
Qed.

Lemma str_leb_trans a b c : str_leb a b = true -> str_leb b c = true -> str_leb a c = true.
Proof.
  revert b c; induction a as [|x a IH]; intros [|y b] [|z c]; cbn [str_leb]; auto; try discriminate.
  destruct (nat_of_ascii x <? nat_of_ascii y) eqn:E1.
  - intros _. destruct (nat_of_ascii y <? nat_of_ascii z) eqn:E2.
    + intros _. apply Nat.ltb_lt in E1, E2.
      assert (nat_of_ascii x <? nat_of_ascii z = true) as -> by (apply Nat.ltb_lt; lia). reflexivity.
    + destruct (nat_of_ascii z <? nat_of_ascii y) eqn:E3; try discriminate. intros _.
      apply Nat.ltb_lt in E1. apply Nat.ltb_ge in E2, E3.
      assert (nat_of_ascii x <? nat_of_ascii z = true) as -> by (apply Nat.ltb_lt; lia). reflexivity.
  - destruct (nat_of_ascii y <? nat_of_ascii x) eqn:E1'; try discriminate. intros Hab.
    apply Nat.ltb_ge in E1, E1'.
    destruct (nat_of_ascii y <? nat_of_ascii z) eqn:E2.
    + intros _. apply Nat.ltb_lt in E2.
      assert (nat_of_ascii x <? nat_of_ascii z = true) as -> by (apply Nat.ltb_lt; lia). reflexivity.
    + destruct (nat_of_ascii z <? nat_of_ascii y) eqn:E3; try discriminate. intros Hbc.
      apply Nat.ltb_ge in E2, E3.
      assert (nat_of_ascii x <? nat_of_ascii z = false) as -> by (apply Nat.ltb_ge; lia).
      assert (nat_of_ascii z <? nat_of_ascii x = false) as -> by (apply Nat.ltb_ge; lia).
      eapply IH; eassumption.
Qed.

(* Lexicographic comparison of lists of Z and the total-order facts the sort proofs need. *)
From Coq Require Import ZArith List Lia Bool.
Import ListNotations.
Open Scope Z_scope.

Fixpoint lex (a b : list Z) : comparison :=
  match a, b with
  | [], [] => Eq
  | [], _ :: _ => Lt
  | _ :: _, [] => Gt
  | x :: a', y :: b' =>
      match Z.compare x y with
      | Eq => lex a' b'
      | c => c
      end
  end.

Lemma lex_refl a : lex a a = Eq.
Proof. induction a as [|x a IH]; cbn; [reflexivity|]. rewrite Z.compare_refl. exact IH. Qed.

Lemma lex_eq a b : lex a b = Eq -> a = b.
Proof.
  revert b; induction a as [|x a IH]; intros [|y b]; cbn; try discriminate; [reflexivity|].
  destruct (Z.compare_spec x y) as [->|H|H]; try discriminate.
  intros H; f_equal; apply IH; exact H.
Qed.

Lemma lex_antisym a b : lex b a = CompOpp (lex a b).
Proof.
  revert b; induction a as [|x a IH]; intros [|y b]; cbn; try reflexivity.
  rewrite (Z.compare_antisym x y).
  destruct (Z.compare x y); cbn; auto.
Qed.

Lemma lex_trans_lt a b c : lex a b = Lt -> lex b c = Lt -> lex a c = Lt.
Proof.
  revert b c; induction a as [|x a IH]; intros [|y b] [|z c]; cbn; try discriminate; try reflexivity.
  destruct (Z.compare_spec x y) as [->|Hxy|Hxy]; try discriminate.
  - destruct (Z.compare_spec y z) as [->|Hyz|Hyz]; try discriminate; [apply IH|reflexivity].
  - intros _. destruct (Z.compare_spec y z) as [->|Hyz|Hyz]; try discriminate; intros _.
    + destruct (Z.compare_spec x z); try lia; reflexivity.
    + destruct (Z.compare_spec x z); try lia; reflexivity.
Qed.

Definition leb (a b : list Z) : bool := match lex a b with Gt => false | _ => true end.
Definition ltb (a b : list Z) : bool := match lex a b with Lt => true | _ => false end.
Definition eqb (a b : list Z) : bool := match lex a b with Eq => true | _ => false end.

Lemma eqb_eq a b : eqb a b = true <-> a = b.
Proof.
  unfold eqb; split.
  - destruct (lex a b) eqn:E; try discriminate. intros _; apply lex_eq; exact E.
  - intros ->; rewrite lex_refl; reflexivity.
Qed.

Lemma leb_total a b : leb a b = true \/ leb b a = true.
Proof. unfold leb; rewrite (lex_antisym a b); destruct (lex a b); cbn; auto. Qed.

Lemma leb_refl a : leb a a = true.
Proof. unfold leb; rewrite lex_refl; reflexivity. Qed.

Lemma leb_trans a b c : leb a b = true -> leb b c = true -> leb a c = true.
Proof.
  unfold leb. destruct (lex a b) eqn:E1; try discriminate; intros _.
  - apply lex_eq in E1; subst; auto.
  - destruct (lex b c) eqn:E2; try discriminate; intros _.
    + apply lex_eq in E2; subst; rewrite E1; reflexivity.
    + rewrite (lex_trans_lt _ _ _ E1 E2); reflexivity.
Qed.

Lemma leb_antisym a b : leb a b = true -> leb b a = true -> a = b.
Proof.
  unfold leb; rewrite (lex_antisym a b). destruct (lex a b) eqn:E; cbn; try discriminate.
  intros _ _; apply lex_eq; exact E.
Qed.

Lemma ltb_leb a b : ltb a b = negb (leb b a).
Proof. unfold ltb, leb; rewrite (lex_antisym a b); destruct (lex a b); reflexivity. Qed.

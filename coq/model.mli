
val negb : bool -> bool

type nat =
| O
| S of nat

val fst : ('a1 * 'a2) -> 'a1

val snd : ('a1 * 'a2) -> 'a2

val length : 'a1 list -> nat

val app : 'a1 list -> 'a1 list -> 'a1 list

type comparison =
| Eq
| Lt
| Gt

val compOpp : comparison -> comparison

val add : nat -> nat -> nat

type positive =
| XI of positive
| XO of positive
| XH

type n =
| N0
| Npos of positive

type z =
| Z0
| Zpos of positive
| Zneg of positive

module Nat :
 sig
  val add : nat -> nat -> nat

  val leb : nat -> nat -> bool

  val ltb : nat -> nat -> bool
 end

module Pos :
 sig
  val succ : positive -> positive

  val add : positive -> positive -> positive

  val add_carry : positive -> positive -> positive

  val pred_double : positive -> positive

  val mul : positive -> positive -> positive

  val compare_cont : comparison -> positive -> positive -> comparison

  val compare : positive -> positive -> comparison

  val eqb : positive -> positive -> bool

  val iter_op : ('a1 -> 'a1 -> 'a1) -> positive -> 'a1 -> 'a1

  val to_nat : positive -> nat

  val of_succ_nat : nat -> positive
 end

module N :
 sig
  val succ : n -> n

  val add : n -> n -> n

  val mul : n -> n -> n

  val eqb : n -> n -> bool

  val to_nat : n -> nat

  val of_nat : nat -> n
 end

val zero : char

val one : char

val shift : bool -> char -> char

val ascii_of_pos : positive -> char

val ascii_of_N : n -> char

val ascii_of_nat : nat -> char

val n_of_digits : bool list -> n

val n_of_ascii : char -> n

val nat_of_ascii : char -> nat

val removelast : 'a1 list -> 'a1 list

val rev : 'a1 list -> 'a1 list

val map : ('a1 -> 'a2) -> 'a1 list -> 'a2 list

val flat_map : ('a1 -> 'a2 list) -> 'a1 list -> 'a2 list

val fold_left : ('a1 -> 'a2 -> 'a1) -> 'a2 list -> 'a1 -> 'a1

val fold_right : ('a2 -> 'a1 -> 'a1) -> 'a1 -> 'a2 list -> 'a1

val forallb : ('a1 -> bool) -> 'a1 list -> bool

module Z :
 sig
  val double : z -> z

  val succ_double : z -> z

  val pred_double : z -> z

  val pos_sub : positive -> positive -> z

  val add : z -> z -> z

  val succ : z -> z

  val compare : z -> z -> comparison

  val of_N : n -> z
 end

val eqb0 : char list -> char list -> bool

val lex : z list -> z list -> comparison

val leb0 : z list -> z list -> bool

val ltb0 : z list -> z list -> bool

val eqb1 : z list -> z list -> bool

type prek =
| PA
| PB
| PRC

type lseg =
| LNum of n
| LStr of char list

type version = { epoch : n; release : n list; pre : (prek * n) option;
                 post : n option; dev : n option; vlocal : lseg list }

val strip0_rev : n list -> n list

val strip0 : n list -> n list

val kcode : prek -> z

val enc_str : char list -> z list

val enc_seg : lseg -> z list

val enc_release : n list -> z list

val enc_pre : version -> z list

val enc_post : version -> z list

val enc_dev : version -> z list

val enc_local : version -> z list

val vkey : version -> z list

val vcmp : version -> version -> comparison

val veqb : version -> version -> bool

val vltb : version -> version -> bool

val vleb : version -> version -> bool

val is_prerelease : version -> bool

val is_postrelease : version -> bool

val has_local : version -> bool

val public : version -> version

val base : version -> version

val base_eqb : version -> version -> bool

type op =
| OEq
| ONe
| OLt
| OLe
| OGt
| OGe
| OCompat

type clause = { cop : op; cver : version; cwild : bool }

val take_pad : nat -> n list -> n list

val list_N_eqb : n list -> n list -> bool

val prefix_match : version -> version -> bool

val eq_match : version -> version -> bool

val lt_match : version -> version -> bool

val gt_match : version -> version -> bool

val compat_prefix : version -> version

val clause_match : clause -> version -> bool

val spec_contains : clause list -> version -> bool -> bool

val smap : (char -> char) -> char list -> char list

val lower_ascii : char -> char

val lower : char list -> char list

val replace_char : char -> char -> char list -> char list

val prefixb : char list -> char list -> bool

val containsb : char list -> char list -> bool

val is_digit : char -> bool

val is_alpha_ascii : char -> bool

val str_leb : char list -> char list -> bool

val norm_lower : bool

val norm_chain : (char * char) list

val apply_chain : (char * char) list -> char list -> char list

val norm : char list -> char list

val safe_ok : char -> bool

val safe_name_aux : char list -> bool -> char list

val safe_name : char list -> char list

val sinsert : char list -> char list list -> char list list

val sort_set : char list list -> char list list

type req = { rname : char list; rextras : char list list;
             rspec : clause list; rmarker : char list option }

type merr =
| ValueError
| AssertionError

type 'a result =
| Ok of 'a
| Err of merr

val merge_extras : char list list -> char list list -> char list list

val merge_marker : char list option -> char list option -> char list option

val merge : req option -> req option -> req result

val accepts : req -> version -> bool -> bool

val upsert :
  char list -> req -> (char list * req) list -> (char list * req) list result

val reduce_acc :
  req list -> (char list * req) list -> (char list * req) list result

val reduce : req list -> req list result

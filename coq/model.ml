
(** val negb : bool -> bool **)

let negb = function
| true -> false
| false -> true

type nat =
| O
| S of nat

(** val fst : ('a1 * 'a2) -> 'a1 **)

let fst = function
| (x, _) -> x

(** val snd : ('a1 * 'a2) -> 'a2 **)

let snd = function
| (_, y) -> y

(** val length : 'a1 list -> nat **)

let rec length = function
| [] -> O
| _ :: l' -> S (length l')

(** val app : 'a1 list -> 'a1 list -> 'a1 list **)

let rec app l m =
  match l with
  | [] -> m
  | a :: l1 -> a :: (app l1 m)

type comparison =
| Eq
| Lt
| Gt

(** val compOpp : comparison -> comparison **)

let compOpp = function
| Eq -> Eq
| Lt -> Gt
| Gt -> Lt

module Coq__1 = struct
 (** val add : nat -> nat -> nat **)
 let rec add n0 m =
   match n0 with
   | O -> m
   | S p -> S (add p m)
end
include Coq__1

type positive =
| XI of positive
| XO of positive
| XH

type n =
| N0
| Npos of positive

type z =
| Z0
| Zpos of positive
| Zneg of positive

module Nat =
 struct
  (** val add : nat -> nat -> nat **)

  let rec add n0 m =
    match n0 with
    | O -> m
    | S p -> S (add p m)

  (** val leb : nat -> nat -> bool **)

  let rec leb n0 m =
    match n0 with
    | O -> true
    | S n' -> (match m with
               | O -> false
               | S m' -> leb n' m')

  (** val ltb : nat -> nat -> bool **)

  let ltb n0 m =
    leb (S n0) m
 end

module Pos =
 struct
  (** val succ : positive -> positive **)

  let rec succ = function
  | XI p -> XO (succ p)
  | XO p -> XI p
  | XH -> XO XH

  (** val add : positive -> positive -> positive **)

  let rec add x y =
    match x with
    | XI p ->
      (match y with
       | XI q -> XO (add_carry p q)
       | XO q -> XI (add p q)
       | XH -> XO (succ p))
    | XO p ->
      (match y with
       | XI q -> XI (add p q)
       | XO q -> XO (add p q)
       | XH -> XI p)
    | XH -> (match y with
             | XI q -> XO (succ q)
             | XO q -> XI q
             | XH -> XO XH)

  (** val add_carry : positive -> positive -> positive **)

  and add_carry x y =
    match x with
    | XI p ->
      (match y with
       | XI q -> XI (add_carry p q)
       | XO q -> XO (add_carry p q)
       | XH -> XI (succ p))
    | XO p ->
      (match y with
       | XI q -> XO (add_carry p q)
       | XO q -> XI (add p q)
       | XH -> XO (succ p))
    | XH ->
      (match y with
       | XI q -> XI (succ q)
       | XO q -> XO (succ q)
       | XH -> XI XH)

  (** val pred_double : positive -> positive **)

  let rec pred_double = function
  | XI p -> XI (XO p)
  | XO p -> XI (pred_double p)
  | XH -> XH

  (** val mul : positive -> positive -> positive **)

  let rec mul x y =
    match x with
    | XI p -> add y (XO (mul p y))
    | XO p -> XO (mul p y)
    | XH -> y

  (** val compare_cont : comparison -> positive -> positive -> comparison **)

  let rec compare_cont r x y =
    match x with
    | XI p ->
      (match y with
       | XI q -> compare_cont r p q
       | XO q -> compare_cont Gt p q
       | XH -> Gt)
    | XO p ->
      (match y with
       | XI q -> compare_cont Lt p q
       | XO q -> compare_cont r p q
       | XH -> Gt)
    | XH -> (match y with
             | XH -> r
             | _ -> Lt)

  (** val compare : positive -> positive -> comparison **)

  let compare =
    compare_cont Eq

  (** val eqb : positive -> positive -> bool **)

  let rec eqb p q =
    match p with
    | XI p0 -> (match q with
                | XI q0 -> eqb p0 q0
                | _ -> false)
    | XO p0 -> (match q with
                | XO q0 -> eqb p0 q0
                | _ -> false)
    | XH -> (match q with
             | XH -> true
             | _ -> false)

  (** val iter_op : ('a1 -> 'a1 -> 'a1) -> positive -> 'a1 -> 'a1 **)

  let rec iter_op op0 p a =
    match p with
    | XI p0 -> op0 a (iter_op op0 p0 (op0 a a))
    | XO p0 -> iter_op op0 p0 (op0 a a)
    | XH -> a

  (** val to_nat : positive -> nat **)

  let to_nat x =
    iter_op Coq__1.add x (S O)

  (** val of_succ_nat : nat -> positive **)

  let rec of_succ_nat = function
  | O -> XH
  | S x -> succ (of_succ_nat x)
 end

module N =
 struct
  (** val succ : n -> n **)

  let succ = function
  | N0 -> Npos XH
  | Npos p -> Npos (Pos.succ p)

  (** val add : n -> n -> n **)

  let add n0 m =
    match n0 with
    | N0 -> m
    | Npos p -> (match m with
                 | N0 -> n0
                 | Npos q -> Npos (Pos.add p q))

  (** val mul : n -> n -> n **)

  let mul n0 m =
    match n0 with
    | N0 -> N0
    | Npos p -> (match m with
                 | N0 -> N0
                 | Npos q -> Npos (Pos.mul p q))

  (** val eqb : n -> n -> bool **)

  let eqb n0 m =
    match n0 with
    | N0 -> (match m with
             | N0 -> true
             | Npos _ -> false)
    | Npos p -> (match m with
                 | N0 -> false
                 | Npos q -> Pos.eqb p q)

  (** val to_nat : n -> nat **)

  let to_nat = function
  | N0 -> O
  | Npos p -> Pos.to_nat p

  (** val of_nat : nat -> n **)

  let of_nat = function
  | O -> N0
  | S n' -> Npos (Pos.of_succ_nat n')
 end

(** val zero : char **)

let zero = '\000'

(** val one : char **)

let one = '\001'

(** val shift : bool -> char -> char **)

let shift = fun b c -> Char.chr (((Char.code c) lsl 1) land 255 + if b then 1 else 0)

(** val ascii_of_pos : positive -> char **)

let ascii_of_pos =
  let rec loop n0 p =
    match n0 with
    | O -> zero
    | S n' ->
      (match p with
       | XI p' -> shift true (loop n' p')
       | XO p' -> shift false (loop n' p')
       | XH -> one)
  in loop (S (S (S (S (S (S (S (S O))))))))

(** val ascii_of_N : n -> char **)

let ascii_of_N = function
| N0 -> zero
| Npos p -> ascii_of_pos p

(** val ascii_of_nat : nat -> char **)

let ascii_of_nat a =
  ascii_of_N (N.of_nat a)

(** val n_of_digits : bool list -> n **)

let rec n_of_digits = function
| [] -> N0
| b :: l' ->
  N.add (if b then Npos XH else N0) (N.mul (Npos (XO XH)) (n_of_digits l'))

(** val n_of_ascii : char -> n **)

let n_of_ascii a =
  (* If this appears, you're using Ascii internals. Please don't *)
 (fun f c ->
  let n = Char.code c in
  let h i = (n land (1 lsl i)) <> 0 in
  f (h 0) (h 1) (h 2) (h 3) (h 4) (h 5) (h 6) (h 7))
    (fun a0 a1 a2 a3 a4 a5 a6 a7 ->
    n_of_digits
      (a0 :: (a1 :: (a2 :: (a3 :: (a4 :: (a5 :: (a6 :: (a7 :: [])))))))))
    a

(** val nat_of_ascii : char -> nat **)

let nat_of_ascii a =
  N.to_nat (n_of_ascii a)

(** val removelast : 'a1 list -> 'a1 list **)

let rec removelast = function
| [] -> []
| a :: l0 -> (match l0 with
              | [] -> []
              | _ :: _ -> a :: (removelast l0))

(** val rev : 'a1 list -> 'a1 list **)

let rec rev = function
| [] -> []
| x :: l' -> app (rev l') (x :: [])

(** val map : ('a1 -> 'a2) -> 'a1 list -> 'a2 list **)

let rec map f = function
| [] -> []
| a :: t -> (f a) :: (map f t)

(** val flat_map : ('a1 -> 'a2 list) -> 'a1 list -> 'a2 list **)

let rec flat_map f = function
| [] -> []
| x :: t -> app (f x) (flat_map f t)

(** val fold_left : ('a1 -> 'a2 -> 'a1) -> 'a2 list -> 'a1 -> 'a1 **)

let rec fold_left f l a0 =
  match l with
  | [] -> a0
  | b :: t -> fold_left f t (f a0 b)

(** val fold_right : ('a2 -> 'a1 -> 'a1) -> 'a1 -> 'a2 list -> 'a1 **)

let rec fold_right f a0 = function
| [] -> a0
| b :: t -> f b (fold_right f a0 t)

(** val forallb : ('a1 -> bool) -> 'a1 list -> bool **)

let rec forallb f = function
| [] -> true
| a :: l0 -> (&&) (f a) (forallb f l0)

module Z =
 struct
  (** val double : z -> z **)

  let double = function
  | Z0 -> Z0
  | Zpos p -> Zpos (XO p)
  | Zneg p -> Zneg (XO p)

  (** val succ_double : z -> z **)

  let succ_double = function
  | Z0 -> Zpos XH
  | Zpos p -> Zpos (XI p)
  | Zneg p -> Zneg (Pos.pred_double p)

  (** val pred_double : z -> z **)

  let pred_double = function
  | Z0 -> Zneg XH
  | Zpos p -> Zpos (Pos.pred_double p)
  | Zneg p -> Zneg (XI p)

  (** val pos_sub : positive -> positive -> z **)

  let rec pos_sub x y =
    match x with
    | XI p ->
      (match y with
       | XI q -> double (pos_sub p q)
       | XO q -> succ_double (pos_sub p q)
       | XH -> Zpos (XO p))
    | XO p ->
      (match y with
       | XI q -> pred_double (pos_sub p q)
       | XO q -> double (pos_sub p q)
       | XH -> Zpos (Pos.pred_double p))
    | XH ->
      (match y with
       | XI q -> Zneg (XO q)
       | XO q -> Zneg (Pos.pred_double q)
       | XH -> Z0)

  (** val add : z -> z -> z **)

  let add x y =
    match x with
    | Z0 -> y
    | Zpos x' ->
      (match y with
       | Z0 -> x
       | Zpos y' -> Zpos (Pos.add x' y')
       | Zneg y' -> pos_sub x' y')
    | Zneg x' ->
      (match y with
       | Z0 -> x
       | Zpos y' -> pos_sub y' x'
       | Zneg y' -> Zneg (Pos.add x' y'))

  (** val succ : z -> z **)

  let succ x =
    add x (Zpos XH)

  (** val compare : z -> z -> comparison **)

  let compare x y =
    match x with
    | Z0 -> (match y with
             | Z0 -> Eq
             | Zpos _ -> Lt
             | Zneg _ -> Gt)
    | Zpos x' -> (match y with
                  | Zpos y' -> Pos.compare x' y'
                  | _ -> Gt)
    | Zneg x' ->
      (match y with
       | Zneg y' -> compOpp (Pos.compare x' y')
       | _ -> Lt)

  (** val of_N : n -> z **)

  let of_N = function
  | N0 -> Z0
  | Npos p -> Zpos p
 end

(** val eqb0 : char list -> char list -> bool **)

let rec eqb0 s1 s2 =
  match s1 with
  | [] -> (match s2 with
           | [] -> true
           | _::_ -> false)
  | c1::s1' ->
    (match s2 with
     | [] -> false
     | c2::s2' -> if (=) c1 c2 then eqb0 s1' s2' else false)

(** val lex : z list -> z list -> comparison **)

let rec lex a b =
  match a with
  | [] -> (match b with
           | [] -> Eq
           | _ :: _ -> Lt)
  | x :: a' ->
    (match b with
     | [] -> Gt
     | y :: b' -> (match Z.compare x y with
                   | Eq -> lex a' b'
                   | x0 -> x0))

(** val leb0 : z list -> z list -> bool **)

let leb0 a b =
  match lex a b with
  | Gt -> false
  | _ -> true

(** val ltb0 : z list -> z list -> bool **)

let ltb0 a b =
  match lex a b with
  | Lt -> true
  | _ -> false

(** val eqb1 : z list -> z list -> bool **)

let eqb1 a b =
  match lex a b with
  | Eq -> true
  | _ -> false

type prek =
| PA
| PB
| PRC

type lseg =
| LNum of n
| LStr of char list

type version = { epoch : n; release : n list; pre : (prek * n) option;
                 post : n option; dev : n option; vlocal : lseg list }

(** val strip0_rev : n list -> n list **)

let rec strip0_rev l = match l with
| [] -> l
| n0 :: l' -> (match n0 with
               | N0 -> strip0_rev l'
               | Npos _ -> l)

(** val strip0 : n list -> n list **)

let strip0 l =
  rev (strip0_rev (rev l))

(** val kcode : prek -> z **)

let kcode = function
| PA -> Zpos XH
| PB -> Zpos (XO XH)
| PRC -> Zpos (XI XH)

(** val enc_str : char list -> z list **)

let rec enc_str = function
| [] -> Z0 :: []
| c::s' -> (Z.add (Z.of_N (n_of_ascii c)) (Zpos XH)) :: (enc_str s')

(** val enc_seg : lseg -> z list **)

let enc_seg = function
| LNum n0 -> (Zpos (XO XH)) :: ((Z.of_N n0) :: [])
| LStr s0 -> (Zpos XH) :: (enc_str s0)

(** val enc_release : n list -> z list **)

let enc_release r =
  app (map (fun n0 -> Z.add (Z.of_N n0) (Zpos XH)) (strip0 r)) (Z0 :: [])

(** val enc_pre : version -> z list **)

let enc_pre v =
  match v.pre with
  | Some p -> let (k, n0) = p in (kcode k) :: ((Z.of_N n0) :: [])
  | None ->
    (match v.post with
     | Some _ -> (Zpos (XO (XO XH))) :: []
     | None ->
       (match v.dev with
        | Some _ -> Z0 :: []
        | None -> (Zpos (XO (XO XH))) :: []))

(** val enc_post : version -> z list **)

let enc_post v =
  match v.post with
  | Some n0 -> (Zpos XH) :: ((Z.of_N n0) :: [])
  | None -> Z0 :: []

(** val enc_dev : version -> z list **)

let enc_dev v =
  match v.dev with
  | Some n0 -> Z0 :: ((Z.of_N n0) :: [])
  | None -> (Zpos XH) :: []

(** val enc_local : version -> z list **)

let enc_local v =
  match v.vlocal with
  | [] -> Z0 :: []
  | l :: l0 -> (Zpos XH) :: (app (flat_map enc_seg (l :: l0)) (Z0 :: []))

(** val vkey : version -> z list **)

let vkey v =
  (Z.of_N v.epoch) :: (app (enc_release v.release)
                        (app (enc_pre v)
                          (app (enc_post v) (app (enc_dev v) (enc_local v)))))

(** val vcmp : version -> version -> comparison **)

let vcmp a b =
  lex (vkey a) (vkey b)

(** val veqb : version -> version -> bool **)

let veqb a b =
  eqb1 (vkey a) (vkey b)

(** val vltb : version -> version -> bool **)

let vltb a b =
  ltb0 (vkey a) (vkey b)

(** val vleb : version -> version -> bool **)

let vleb a b =
  leb0 (vkey a) (vkey b)

(** val is_prerelease : version -> bool **)

let is_prerelease v =
  match v.pre with
  | Some _ -> true
  | None -> (match v.dev with
             | Some _ -> true
             | None -> false)

(** val is_postrelease : version -> bool **)

let is_postrelease v =
  match v.post with
  | Some _ -> true
  | None -> false

(** val has_local : version -> bool **)

let has_local v =
  match v.vlocal with
  | [] -> false
  | _ :: _ -> true

(** val public : version -> version **)

let public v =
  { epoch = v.epoch; release = v.release; pre = v.pre; post = v.post; dev =
    v.dev; vlocal = [] }

(** val base : version -> version **)

let base v =
  { epoch = v.epoch; release = v.release; pre = None; post = None; dev =
    None; vlocal = [] }

(** val base_eqb : version -> version -> bool **)

let base_eqb a b =
  veqb (base a) (base b)

type op =
| OEq
| ONe
| OLt
| OLe
| OGt
| OGe
| OCompat

type clause = { cop : op; cver : version; cwild : bool }

(** val take_pad : nat -> n list -> n list **)

let rec take_pad n0 l =
  match n0 with
  | O -> []
  | S n' ->
    (match l with
     | [] -> N0 :: (take_pad n' [])
     | x :: l' -> x :: (take_pad n' l'))

(** val list_N_eqb : n list -> n list -> bool **)

let rec list_N_eqb a b =
  match a with
  | [] -> (match b with
           | [] -> true
           | _ :: _ -> false)
  | x :: a' ->
    (match b with
     | [] -> false
     | y :: b' -> (&&) (N.eqb x y) (list_N_eqb a' b'))

(** val prefix_match : version -> version -> bool **)

let prefix_match spec v =
  (&&) (N.eqb spec.epoch v.epoch)
    (list_N_eqb (take_pad (length spec.release) v.release) spec.release)

(** val eq_match : version -> version -> bool **)

let eq_match spec v =
  if has_local spec then veqb v spec else veqb (public v) spec

(** val lt_match : version -> version -> bool **)

let lt_match spec v =
  (&&) (vltb v spec)
    (negb
      ((&&) ((&&) (negb (is_prerelease spec)) (is_prerelease v))
        (base_eqb v spec)))

(** val gt_match : version -> version -> bool **)

let gt_match spec v =
  (&&)
    ((&&) (vltb spec v)
      (negb
        ((&&) ((&&) (negb (is_postrelease spec)) (is_postrelease v))
          (base_eqb v spec)))) (negb ((&&) (has_local v) (base_eqb v spec)))

(** val compat_prefix : version -> version **)

let compat_prefix spec =
  { epoch = spec.epoch; release = (removelast spec.release); pre = None;
    post = None; dev = None; vlocal = [] }

(** val clause_match : clause -> version -> bool **)

let clause_match c v =
  match c.cop with
  | OEq -> if c.cwild then prefix_match c.cver v else eq_match c.cver v
  | ONe -> negb (if c.cwild then prefix_match c.cver v else eq_match c.cver v)
  | OLt -> lt_match c.cver v
  | OLe -> vleb (public v) c.cver
  | OGt -> gt_match c.cver v
  | OGe -> vleb c.cver (public v)
  | OCompat ->
    (&&) (vleb c.cver (public v)) (prefix_match (compat_prefix c.cver) v)

(** val spec_contains : clause list -> version -> bool -> bool **)

let spec_contains cs v flag =
  (&&) ((||) flag (negb (is_prerelease v)))
    (forallb (fun c -> clause_match c v) cs)

(** val smap : (char -> char) -> char list -> char list **)

let rec smap f = function
| [] -> []
| c::s' -> (f c)::(smap f s')

(** val lower_ascii : char -> char **)

let lower_ascii c =
  let n0 = nat_of_ascii c in
  if (&&)
       (Nat.leb (S (S (S (S (S (S (S (S (S (S (S (S (S (S (S (S (S (S (S (S
         (S (S (S (S (S (S (S (S (S (S (S (S (S (S (S (S (S (S (S (S (S (S (S
         (S (S (S (S (S (S (S (S (S (S (S (S (S (S (S (S (S (S (S (S (S (S
         O)))))))))))))))))))))))))))))))))))))))))))))))))))))))))))))))))
         n0)
       (Nat.leb n0 (S (S (S (S (S (S (S (S (S (S (S (S (S (S (S (S (S (S (S
         (S (S (S (S (S (S (S (S (S (S (S (S (S (S (S (S (S (S (S (S (S (S (S
         (S (S (S (S (S (S (S (S (S (S (S (S (S (S (S (S (S (S (S (S (S (S (S
         (S (S (S (S (S (S (S (S (S (S (S (S (S (S (S (S (S (S (S (S (S (S (S
         (S (S
         O)))))))))))))))))))))))))))))))))))))))))))))))))))))))))))))))))))))))))))))))))))))))))))
  then ascii_of_nat
         (add n0 (S (S (S (S (S (S (S (S (S (S (S (S (S (S (S (S (S (S (S (S
           (S (S (S (S (S (S (S (S (S (S (S (S
           O)))))))))))))))))))))))))))))))))
  else c

(** val lower : char list -> char list **)

let lower s =
  smap lower_ascii s

(** val replace_char : char -> char -> char list -> char list **)

let replace_char o n0 s =
  smap (fun c -> if (=) c o then n0 else c) s

(** val prefixb : char list -> char list -> bool **)

let rec prefixb p s =
  match p with
  | [] -> true
  | a::p' ->
    (match s with
     | [] -> false
     | b::s' -> (&&) ((=) a b) (prefixb p' s'))

(** val containsb : char list -> char list -> bool **)

let rec containsb sub s =
  (||) (prefixb sub s) (match s with
                        | [] -> false
                        | _::s' -> containsb sub s')

(** val is_digit : char -> bool **)

let is_digit c =
  let n0 = nat_of_ascii c in
  (&&)
    (Nat.leb (S (S (S (S (S (S (S (S (S (S (S (S (S (S (S (S (S (S (S (S (S
      (S (S (S (S (S (S (S (S (S (S (S (S (S (S (S (S (S (S (S (S (S (S (S (S
      (S (S (S O)))))))))))))))))))))))))))))))))))))))))))))))) n0)
    (Nat.leb n0 (S (S (S (S (S (S (S (S (S (S (S (S (S (S (S (S (S (S (S (S
      (S (S (S (S (S (S (S (S (S (S (S (S (S (S (S (S (S (S (S (S (S (S (S (S
      (S (S (S (S (S (S (S (S (S (S (S (S (S
      O))))))))))))))))))))))))))))))))))))))))))))))))))))))))))

(** val is_alpha_ascii : char -> bool **)

let is_alpha_ascii c =
  let n0 = nat_of_ascii c in
  (||)
    ((&&)
      (Nat.leb (S (S (S (S (S (S (S (S (S (S (S (S (S (S (S (S (S (S (S (S (S
        (S (S (S (S (S (S (S (S (S (S (S (S (S (S (S (S (S (S (S (S (S (S (S
        (S (S (S (S (S (S (S (S (S (S (S (S (S (S (S (S (S (S (S (S (S
        O))))))))))))))))))))))))))))))))))))))))))))))))))))))))))))))))) n0)
      (Nat.leb n0 (S (S (S (S (S (S (S (S (S (S (S (S (S (S (S (S (S (S (S (S
        (S (S (S (S (S (S (S (S (S (S (S (S (S (S (S (S (S (S (S (S (S (S (S
        (S (S (S (S (S (S (S (S (S (S (S (S (S (S (S (S (S (S (S (S (S (S (S
        (S (S (S (S (S (S (S (S (S (S (S (S (S (S (S (S (S (S (S (S (S (S (S
        (S
        O))))))))))))))))))))))))))))))))))))))))))))))))))))))))))))))))))))))))))))))))))))))))))))
    ((&&)
      (Nat.leb (S (S (S (S (S (S (S (S (S (S (S (S (S (S (S (S (S (S (S (S (S
        (S (S (S (S (S (S (S (S (S (S (S (S (S (S (S (S (S (S (S (S (S (S (S
        (S (S (S (S (S (S (S (S (S (S (S (S (S (S (S (S (S (S (S (S (S (S (S
        (S (S (S (S (S (S (S (S (S (S (S (S (S (S (S (S (S (S (S (S (S (S (S
        (S (S (S (S (S (S (S
        O)))))))))))))))))))))))))))))))))))))))))))))))))))))))))))))))))))))))))))))))))))))))))))))))))
        n0)
      (Nat.leb n0 (S (S (S (S (S (S (S (S (S (S (S (S (S (S (S (S (S (S (S (S
        (S (S (S (S (S (S (S (S (S (S (S (S (S (S (S (S (S (S (S (S (S (S (S
        (S (S (S (S (S (S (S (S (S (S (S (S (S (S (S (S (S (S (S (S (S (S (S
        (S (S (S (S (S (S (S (S (S (S (S (S (S (S (S (S (S (S (S (S (S (S (S
        (S (S (S (S (S (S (S (S (S (S (S (S (S (S (S (S (S (S (S (S (S (S (S
        (S (S (S (S (S (S (S (S (S (S
        O))))))))))))))))))))))))))))))))))))))))))))))))))))))))))))))))))))))))))))))))))))))))))))))))))))))))))))))))))))))))))))

(** val str_leb : char list -> char list -> bool **)

let rec str_leb a b =
  match a with
  | [] -> true
  | x::a' ->
    (match b with
     | [] -> false
     | y::b' ->
       let nx = nat_of_ascii x in
       let ny = nat_of_ascii y in
       if Nat.ltb nx ny
       then true
       else if Nat.ltb ny nx then false else str_leb a' b')

(** val norm_lower : bool **)

let norm_lower =
  true

(** val norm_chain : (char * char) list **)

let norm_chain =
  ('-', '_') :: (('.', '_') :: ((' ', '_') :: []))

(** val apply_chain : (char * char) list -> char list -> char list **)

let apply_chain chain s =
  fold_left (fun acc p -> replace_char (fst p) (snd p) acc) chain s

(** val norm : char list -> char list **)

let norm s =
  apply_chain norm_chain (if norm_lower then lower s else s)

(** val safe_ok : char -> bool **)

let safe_ok c =
  (||) ((||) (is_digit c) (is_alpha_ascii c)) ((=) c '.')

(** val safe_name_aux : char list -> bool -> char list **)

let rec safe_name_aux s in_run =
  match s with
  | [] -> []
  | c::s' ->
    if safe_ok c
    then c::(safe_name_aux s' false)
    else if in_run
         then safe_name_aux s' true
         else '-'::(safe_name_aux s' true)

(** val safe_name : char list -> char list **)

let safe_name s =
  safe_name_aux s false

(** val sinsert : char list -> char list list -> char list list **)

let rec sinsert x l = match l with
| [] -> x :: []
| y :: l' ->
  if eqb0 x y then l else if str_leb x y then x :: l else y :: (sinsert x l')

(** val sort_set : char list list -> char list list **)

let sort_set l =
  fold_right sinsert [] l

type req = { rname : char list; rextras : char list list;
             rspec : clause list; rmarker : char list option }

type merr =
| ValueError
| AssertionError

type 'a result =
| Ok of 'a
| Err of merr

(** val merge_extras : char list list -> char list list -> char list list **)

let merge_extras a b =
  match a with
  | [] -> (match b with
           | [] -> []
           | _ :: _ -> b)
  | _ :: _ -> (match b with
               | [] -> a
               | _ :: _ -> sort_set (app a b))

(** val merge_marker :
    char list option -> char list option -> char list option **)

let merge_marker m1 m2 =
  match m1 with
  | Some a ->
    (match m2 with
     | Some b ->
       if eqb0 a b
       then Some a
       else if containsb a b
            then Some a
            else if containsb b a then Some b else None
     | None -> None)
  | None -> None

(** val merge : req option -> req option -> req result **)

let merge r1 r2 =
  match r1 with
  | Some a ->
    (match r2 with
     | Some b ->
       if eqb0 (norm a.rname) (norm b.rname)
       then Ok { rname = (norm a.rname); rextras =
              (merge_extras a.rextras b.rextras); rspec =
              (app a.rspec b.rspec); rmarker =
              (merge_marker a.rmarker b.rmarker) }
       else Err ValueError
     | None -> Ok a)
  | None -> (match r2 with
             | Some b -> Ok b
             | None -> Err AssertionError)

(** val accepts : req -> version -> bool -> bool **)

let accepts r v flag =
  spec_contains r.rspec v flag

(** val upsert :
    char list -> req -> (char list * req) list -> (char list * req) list
    result **)

let rec upsert k r = function
| [] -> Ok ((k, r) :: [])
| p :: acc' ->
  let (k', r') = p in
  if eqb0 k k'
  then (match merge (Some r') (Some r) with
        | Ok m -> Ok ((k', m) :: acc')
        | Err e -> Err e)
  else (match upsert k r acc' with
        | Ok acc'' -> Ok ((k', r') :: acc'')
        | Err e -> Err e)

(** val reduce_acc :
    req list -> (char list * req) list -> (char list * req) list result **)

let rec reduce_acc rs acc =
  match rs with
  | [] -> Ok acc
  | r :: rs' ->
    (match upsert (safe_name r.rname) r acc with
     | Ok acc' -> reduce_acc rs' acc'
     | Err e -> Err e)

(** val reduce : req list -> req list result **)

let reduce rs =
  match reduce_acc rs [] with
  | Ok acc -> Ok (map snd acc)
  | Err e -> Err e

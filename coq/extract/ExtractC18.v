Require Extraction.
Require Import ExtrOcamlBasic ExtrOcamlString.
From Coq Require Import ZArith NArith List String.
From RC Require Import lib.PyStr model.DiscoverC18.
Extraction Language OCaml.
Extraction "../build/ocaml/C18/model.ml" N.succ Z.succ Pos.succ Nat.add
  walk_paths discover discover_sched analyse_of basename is_test_dir render
  comp_excluded string_excluded root_guardb rstrip_slash excluded_by.

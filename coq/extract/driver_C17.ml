open Model
open Drvlib
open Drv440

(* req: name extras(list str) clauses(list) marker(opt str) *)
let next_req st =
  let name = next_str st in
  let extras = next_list st next_str in
  let cls = next_list st next_clause in
  let marker = next_opt st next_str in
  { rname = name; rextras = extras; rspec = cls; rmarker = marker }
let print_req r =
  Printf.sprintf "%s %d %s %d %s %s" (cl_hex r.rname)
    (List.length r.rextras) (String.concat " " (List.map cl_hex r.rextras))
    (List.length r.rspec) (String.concat " " (List.map print_clause r.rspec))
    (match r.rmarker with None -> "N" | Some m -> "S " ^ cl_hex m)
let print_err = function ValueError -> "ValueError" | AssertionError -> "AssertionError"
let b2s b = if b then "1" else "0"

let handle line =
  let st = mk (tokens line) in
  match next st with
  | "V" -> let a = parse_version (next st) in let b = parse_version (next st) in
    (match vcmp a b with Lt -> "LT" | Eq -> "EQ" | Gt -> "GT") ^ " " ^ b2s (is_prerelease a)
  | "C" -> let c = next_clause st in let v = parse_version (next st) in let f = next_bool st in
    b2s (spec_contains [c] v f)
  | "S" -> let cs = next_list st next_clause in let v = parse_version (next st) in let f = next_bool st in
    b2s (spec_contains cs v f)
  | "N" -> let s = next_str st in cl_hex (norm s) ^ " " ^ cl_hex (safe_name s)
  | "M" -> let a = next_opt st next_req in let b = next_opt st next_req in
    (match merge a b with Ok m -> "OK " ^ print_req m | Err e -> "ERR " ^ print_err e)
  | "R" -> let rs = next_list st next_req in
    (match reduce rs with
     | Ok out -> "OK " ^ string_of_int (List.length out) ^ " " ^ String.concat " " (List.map print_req out)
     | Err e -> "ERR " ^ print_err e)
  | c -> failwith ("bad command " ^ c)

let () = iter_lines handle

open Model
open Drvlib
open Drv440

let next_rq st =
  let name = next_str st in
  let cls = next_list st next_clause in
  { rname = name; rextras = []; rspec = cls; rmarker = None }
let next_z st = z_of_int (next_int st)
let next_cand st =
  let name = next_str st in
  let v = parse_version (next st) in
  let k = match next st with "W" -> Wheel | "S" -> Sdist | "O" -> Source | s -> failwith ("bad kind " ^ s) in
  let us = next_bool st in
  let rd = next_bool st in
  let ex = next_list st next_z in
  let ts = next_list st next_z in
  let f = next_str st in
  { cname = name; ver = v; ckind = k; usable = us; readable = rd; extra = ex; tagscore = ts; cfile = f }
(* repository: kind(S|T|F|I) rid excluded(list str) holdings(list (key cand)) *)
let next_repo st =
  let k = match next st with "S" -> KSolution | "T" -> KSource | "F" -> KFindLinks | "I" -> KIndex | s -> failwith ("bad repo kind " ^ s) in
  let id = n_of_int (next_int st) in
  let ex = next_list st next_str in
  let hs = next_list st (fun st -> let key = next_str st in let c = next_cand st in (key, c)) in
  { rk = k; rid = id; holdings = hs; excluded = ex }
let next_query st =
  let ap = next_bool st in
  let asrc = next_bool st in
  let b = match next st with "N" -> None | s -> Some (z_of_int (int_of_string s)) in
  { q_allow_pre = ap; q_allow_src = asrc; q_budget = b }
let next_cfg st =
  let sols = next_list st next_repo in
  let srcs = next_list st next_repo in
  let fls = next_list st next_repo in
  let idx = next_list st next_repo in
  let def = next_repo st in
  let ext = next_list st next_repo in
  let ni = next_bool st in
  { c_solutions = sols; c_sources = srcs; c_find_links = fls; c_index_urls = idx; c_default_index = def;
    c_extra_index_urls = ext; c_no_index = ni }
let ids l = String.concat "," (List.map (fun n -> string_of_int (int_of_n n)) l)

let handle line =
  let st = mk (tokens line) in
  match next st with
  | "M" -> let q = next_query st in let rq = next_rq st in let cfg = next_cfg st in
    (match build_stack cfg with
     | None -> "ERR ValueError"
     | Some stack ->
       let shape = String.concat " " (List.map (fun (g, l) -> (if g then "G" else "L") ^ ids l) (stack_shape_ids stack)) in
       let (a, log) = multi_get_dist q stack rq in
       let ans = match a with
         | None -> "NC"
         | Some (i, c) -> Printf.sprintf "F %d %s %s" (int_of_n i) (print_version c.ver) (cl_hex c.cfile) in
       shape ^ " | " ^ ans ^ " | " ^ (if log = [] then "-" else ids log))
  | "P" -> let rq = next_rq st in let rs = next_list st next_repo in
    let fs = pooled_listing rs rq in
    String.concat " " (string_of_int (List.length fs) :: List.map cl_hex fs)
  | "C" ->
    (* compile_main level: query rq cli_idx file_idx cli_extra file_extra has_params table default no_index *)
    let q = next_query st in let rq = next_rq st in
    let ci = next_list st next_str in let fi = next_list st next_str in
    let ce = next_list st next_str in let fe = next_list st next_str in
    let hp = next_bool st in
    let table = next_list st (fun st -> let u = next_str st in let r = next_repo st in (u, r)) in
    let def = next_repo st in
    let ni = next_bool st in
    let c = { cl_index = ci; cl_extra = ce; fl_index = fi; fl_extra = fe; has_file_options = hp } in
    let urls l = if l = [] then "-" else String.concat "," (List.map cl_hex l) in
    let head = "I " ^ urls (effective_index c) ^ " X " ^ urls (effective_extra c) in
    (match build_stack (config_of_cmdline c [] [] [] table def ni) with
     | None -> head ^ " | ERR ValueError"
     | Some stack ->
       let shape = String.concat " " (List.map (fun (g, l) -> (if g then "G" else "L") ^ ids l) (stack_shape_ids stack)) in
       let (a, log) = multi_get_dist q stack rq in
       let ans = match a with
         | None -> "NC"
         | Some (i, c) -> Printf.sprintf "F %d %s %s" (int_of_n i) (print_version c.ver) (cl_hex c.cfile) in
       head ^ " | " ^ shape ^ " | " ^ ans ^ " | " ^ (if log = [] then "-" else ids log))
  | "N" -> cl_hex (pep503 (next_str st))
  | c -> failwith ("bad command " ^ c)

let () = iter_lines handle

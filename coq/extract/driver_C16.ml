open Model
open Drvlib

(* C16 driver.  Commands (strings are hex tokens, "-" = empty):
   R fuel root nfiles (path nlines line* )* ninvalid text*      -> req_iter
   F fuel root nfiles (...)* ninvalid text* nroot line* nbi url* nbe url* nbf link* noindex  -> cli_front_full | bazel_front
   X text                                                       -> shlex_split (drop_comment text), drop_comment text
   G fuel nroots root.. nfiles files.. ninvalid text.. nroots [nlines line..].. nbi.. nbe.. nbf.. noindex -> cli_front_files | bazel_front_files | per-file find-links
   S nlines line*                                               -> iter_lines with relative_dir=None, no files
   B nlines line*                                               -> parse_index_urls
   A ntoks tok*                                                 -> cli_parse
   P path                                                       -> dirname
   J a b                                                        -> path_join
   I nitems item*                                               -> conventional depth render reqs_of opts_of
   M text                                                       -> req_meaning
   L n entry*                                                   -> parse_requirements_texts
*)

let strs l = string_of_int (List.length l) ^ (if l = [] then "" else " " ^ String.concat " " (List.map cl_hex l))
let print_err = function
  | ValueError -> "ValueError" | IndexError -> "IndexError" | IndexErrorHead -> "IndexError"
  | FileNotFound -> "FileNotFoundError" | OutOfFuel -> "Diverged"
let print_out (texts, params) = strs texts ^ " " ^ strs params
let print_res = function
  | Ok o -> "OK " ^ print_out o
  | Err (e, o) -> "ERR " ^ print_err e ^ " " ^ print_out o

let next_files st =
  next_list st (fun st -> let p = next_str st in let ls = next_list st next_str in (p, ls))
let mk_fs files = fun p -> List.assoc_opt p files
let mk_valid invalid = fun t -> not (List.mem t invalid)

let print_front = function
  | FOk r -> "OK " ^ strs r.r_index ^ " " ^ strs r.r_extra ^ " " ^ strs r.r_find ^ " " ^ (if r.r_noindex then "1" else "0")
  | FExit c -> "EXIT " ^ string_of_int (int_of_nat c)
  | FRaise e -> "RAISE " ^ print_err e
  | FUnmodelled -> "UNMODELLED"

let next_gap st =
  match next st with
  | "s" -> GSp (next_str st)
  | "b" -> let ws = next_str st in let ind = next_str st in GBr (ws, ind)
  | c -> failwith ("bad gap " ^ c)
let next_gw st = let g = next_gap st in let w = next_str st in (g, w)
let next_tail st =
  match next st with
  | "0" -> { t_comment = None; t_trail = next_str st }
  | "1" -> let ws = next_str st in let text = next_str st in let tr = next_str st in
    { t_comment = Some (ws, text); t_trail = tr }
  | c -> failwith ("bad tail " ^ c)
let rec next_item st =
  match next st with
  | "C" -> let i = next_str st in let t = next_str st in IComment (i, t)
  | "B" -> IBlank (next_str st)
  | "Q" -> let i = next_str st in let f = next_str st in
    let toks = next_list st next_gw in let opts = next_list st next_gw in
    let tl = next_tail st in IReq (i, f, toks, opts, tl)
  | "O" -> let i = next_str st in let f = next_str st in
    let rest = next_list st next_gw in let tl = next_tail st in IOpt (i, f, rest, tl)
  | "N" -> let i = next_str st in let f = next_str st in let g = next_gap st in
    let p = next_str st in let tl = next_tail st in
    let sub = next_list st next_item in IInclude (i, f, g, p, tl, sub)
  | c -> failwith ("bad item " ^ c)

let handle line =
  let st = mk (tokens line) in
  match next st with
  | "R" ->
    let fuel = nat_of_int (next_int st) in
    let root = next_str st in
    let files = next_files st in
    let invalid = next_list st next_str in
    print_res (req_iter (mk_valid invalid) (mk_fs files) fuel root)
  | "F" ->
    let fuel = nat_of_int (next_int st) in
    let root = next_str st in
    let files = next_files st in
    let invalid = next_list st next_str in
    let root_lines = next_list st next_str in
    let bi = next_list st next_str in
    let be = next_list st next_str in
    let bf = next_list st next_str in
    let bno = next_bool st in
    let r = req_iter (mk_valid invalid) (mk_fs files) fuel root in
    print_front (cli_front_full bi be bf bno r) ^ " | " ^ print_front (bazel_front r root_lines)
  | "G" ->
    let fuel = nat_of_int (next_int st) in
    let roots = next_list st next_str in
    let files = next_files st in
    let invalid = next_list st next_str in
    let liness = next_list st (fun st -> next_list st next_str) in
    let bi = next_list st next_str in
    let be = next_list st next_str in
    let bf = next_list st next_str in
    let bno = next_bool st in
    let r = read_files (mk_valid invalid) (mk_fs files) fuel roots in
    print_front (cli_front_files bi be bf bno r) ^ " | " ^ print_front (bazel_front_files r liness) ^ " | " ^
    string_of_int (List.length liness) ^ " " ^
    String.concat " " (List.map (fun ls -> let ((_, _), c) = parse_index_urls ls in strs c) liness)
  | "S" ->
    let lines = next_list st next_str in
    let invalid = next_list st next_str in
    let none = fun _ acc -> Err (FileNotFound, acc) in
    let a = Model.iter_lines (mk_valid invalid) none [] lines clean ([], []) in
    let b = iter_lines_ng (mk_valid invalid) none [] lines clean ([], []) in
    print_res a ^ (if a = b then " =" else " !NG " ^ print_res b)
  | "B" ->
    let lines = next_list st next_str in
    let ((a, b), c) = parse_index_urls lines in
    strs a ^ " " ^ strs b ^ " " ^ strs c
  | "A" ->
    let toks = next_list st next_str in
    (match cli_parse toks with
     | CliOk n -> "OK " ^ string_of_int (List.length n) ^ " " ^
                  String.concat " " (List.map (fun (d, v) -> cl_hex d ^ " " ^ strs v) n)
     | CliExit c -> "EXIT " ^ string_of_int (int_of_nat c)
     | CliRaise e -> "RAISE " ^ print_err e
     | CliUnmodelled -> "UNMODELLED")
  | "P" -> cl_hex (dirname (next_str st))
  | "J" -> let a = next_str st in let b = next_str st in cl_hex (path_join a b)
  | "I" ->
    let its = next_list st next_item in
    (if conventional its then "1" else "0") ^ " " ^ (if pip_strict its then "1" else "0") ^ " " ^ string_of_int (int_of_nat (depth its)) ^ " " ^
    strs (render its) ^ " " ^
    (let rs = reqs_of its in string_of_int (List.length rs) ^ " " ^ String.concat " " (List.map strs rs)) ^ " " ^
    strs (opts_of its)
  | "M" -> strs (req_meaning (next_str st))
  | "X" -> let t = next_str st in
    (match shlex_split (drop_comment t) with None -> "ERR" | Some l -> "OK " ^ strs l) ^ " " ^ cl_hex (drop_comment t)
  | "L" -> strs (parse_requirements_texts (next_list st next_str))
  | c -> failwith ("bad command " ^ c)

let () = Drvlib.iter_lines handle

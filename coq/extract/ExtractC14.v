Require Extraction.
Require Import ExtrOcamlBasic ExtrOcamlString.
From Coq Require Import ZArith NArith List String.
From RC Require Import lib.Pep440 model.StrC14 model.FileNameC14 model.PyRequiresC14 model.IndexPageC14 model.ResolveC14.
Extraction Language OCaml.
Extraction "../build/ocaml/C14/model.ml" N.succ Z.succ Pos.succ Nat.add
  vcmp clause_match spec_contains file_to_cand parse_source parse_wheel check_python gate_skip offered run find_links hash_of_resource
  splitext_ext basename strip remove_all split_on ends_with after_last lower drop_last num dec digits_ne
  containsb before_first after_first wheel_name sdist_name is_opchar resolve_seq sha_of_resource.

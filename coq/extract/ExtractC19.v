Require Extraction.
Require Import ExtrOcamlBasic ExtrOcamlString.
From Coq Require Import ZArith NArith List String.
From RC Require Import lib.PyStr lib.Name model.BzlLockC19.
Extraction Language OCaml.
Extraction "../build/ocaml/C19/model.ml" N.succ Z.succ Pos.succ Nat.add
  parse_lockfile parse_constraint sanitize norm pep508_name
  write_bazel lock_view wf_view splitlines.

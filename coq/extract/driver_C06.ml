open Model
open Drvlib

let next_via st =
  let r = next_str st in
  let mex = next_list st next_str in
  let spec = next_str st in
  let ex = next_list st next_str in
  { v_req = r; v_mex = mex; v_spec = spec; v_extras = ex }
let next_pin st =
  let name = next_str st in
  let ver = next_str st in
  let h = next_opt st next_str in
  let u = next_opt st next_str in
  let via = next_list st next_via in
  { p_name = name; p_version = ver; p_hash = h; p_url = u; p_via = via }
let next_view st = next_list st next_pin
let next_annot st =
  let ver = next_str st in
  let time = next_str st in
  let inputs = next_list st next_str in
  let repos = next_list st next_str in
  let idx = next_list st (fun st -> let k = next_str st in let v = next_str st in (k, v)) in
  { a_ver = ver; a_time = time; a_inputs = inputs; a_repos = repos; a_idx = idx }
let next_opts st =
  let multi = next_opt st next_bool in
  let hashes = next_bool st in
  let urls = next_bool st in
  let annot = next_opt st next_annot in
  let index = next_list st next_str in
  let links = next_list st next_str in
  { o_format = multi; o_hashes = hashes; o_urls = urls; o_annot = annot; o_index = index; o_links = links }

let pl f l = String.concat " " (string_of_int (List.length l) :: List.map f l)
let po f = function None -> "N" | Some x -> "S " ^ f x
let print_via v =
  Printf.sprintf "%s %s %s %s" (cl_hex v.v_req) (pl cl_hex v.v_mex) (cl_hex v.v_spec) (pl cl_hex v.v_extras)
let print_pin p =
  Printf.sprintf "%s %s %s %s %s" (cl_hex p.p_name) (cl_hex p.p_version) (po cl_hex p.p_hash) (po cl_hex p.p_url)
    (pl print_via p.p_via)
let print_view v = pl print_pin v
let print_edge ((((r, p), ex), sp), mex) =
  Printf.sprintf "%s %s %s %s %s" (cl_hex r) (cl_hex p) (pl cl_hex ex) (cl_hex sp) (pl cl_hex mex)
let print_err = function ENotAnnotated -> "NotAnnotated" | EValue -> "ValueError" | EUnmodelled -> "Unmodelled"
let b2s b = if b then "1" else "0"

let handle line =
  let st = mk (tokens line) in
  match next st with
  | "W" -> let o = next_opts st in let v = next_view st in cl_hex (write o v)
  | "L" -> let t = next_str st in
    (match load_entries t with
     | Err e -> "ERR " ^ print_err e
     | Ok es ->
       (match load t with
        | Err e -> "ERR " ^ print_err e
        | Ok v -> "OK " ^ print_view es ^ " " ^ print_view v ^ " " ^ pl print_edge (edges v)))
  | "V" -> b2s (ver_ok (next_str st))
  | "S" -> b2s (spec_ok (next_str st))
  | "X" -> b2s (extra_ok (next_str st))
  | "F" -> let o = next_opts st in let v = next_view st in
    b2s (wf_multi o v) ^ " " ^ b2s (wf_single o v) ^ " " ^ b2s (wf_auto o v) ^ " " ^ b2s (o_multi o)
  | "K" -> let v = next_view st in print_view (canon v)
  | c -> failwith ("bad command " ^ c)

let () = iter_lines handle

Require Extraction.
Require Import ExtrOcamlBasic ExtrOcamlString.
From Coq Require Import ZArith NArith List String.
From RC Require Import lib.PyStr model.WheelMetaC11.
Extraction Language OCaml.
Extraction "../build/ocaml/C11/model.ml" N.succ Z.succ Pos.succ Nat.add
  py_strip parse_flat post_reqs outcome find_dist_info fetch_from_wheel extract_whl
  rfc822_fields select_fields body_harmless own_entry
  root_match own_match any_match run_ops.

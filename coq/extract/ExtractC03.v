Require Extraction.
Require Import ExtrOcamlBasic ExtrOcamlString.
From Coq Require Import ZArith NArith List String.
From RC Require Import lib.Pep440 lib.Name model.Merge gen.C03Consts model.SelectC03.
Extraction Language OCaml.
Extraction "../build/ocaml/C03/model.ml" N.succ Z.succ Pos.succ Nat.add
  get_dist sorted_files has_equality has_prerelease is_all_prereleases.

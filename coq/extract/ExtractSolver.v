Require Extraction.
Require Import ExtrOcamlBasic ExtrOcamlString.
From Coq Require Import ZArith NArith List String.
From RC Require Import lib.Pep440 lib.Name model.Merge model.Graph model.Possible model.Solver model.Explain model.Check proofs.ReproP.
Extraction Language OCaml.
Extraction "../build/ocaml/Solver/model.ml" N.succ Z.succ Pos.succ Nat.add
  vcmp is_prerelease clause_match spec_contains norm safe_name merge reduce accepts
  empty_graph add_dist remove_dists node_extras build_constraints visit_nodes gstep grun alookup slookup
  is_possible get_dist get_dist_stack compile_roots perform_compile perform_compile_stack perform_compile_stack_ob perform_compile_stack_x mark_source flatten_stack build_explanation emitted find_paths_to_root pins_ok_b coherent_b closed_b explain_honest_b consistentb.

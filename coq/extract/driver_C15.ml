open Model
open Drvlib

(* tokens: strings/bytes are hex ("-" = empty); numbers decimal *)
let next_n st = n_of_int (next_int st)
let next_resp st =
  match next st with
  | "B" -> let s = next_n st in let b = next_str st in RBody (s, b)
  | "K" -> let s = next_n st in let b = next_str st in RBreak (s, b)
  | "F" -> RFail
  | t -> failwith ("bad resp " ^ t)
let next_mres st =
  match next st with "R" -> MReadable | "M" -> MMetaErr | "O" -> MOther | t -> failwith ("bad mres " ^ t)
let next_cand st =
  let f = next_opt st next_str in
  let r = next_str st in
  let v = next_int st in
  let sd = next_bool st in
  let nok = next_bool st in
  { cfile = f; cres = r; cver = (if v < 0 then None else Some (n_of_int v)); csdist = sd; cname_ok = nok }
let next_world st =
  let d = next_list st (fun st -> let f = next_str st in let b = next_str st in (f, b)) in
  let sc = next_list st next_resp in
  let mt = next_list st (fun st -> let f = next_str st in let b = next_str st in let m = next_mres st in ((f, b), m)) in
  (w0 d sc, meta_of_table mt)

let exn_name = function
  | ConnectionError -> "ConnectionError" | ChunkedEncodingError -> "ChunkedEncodingError"
  | HTTPError -> "HTTPError" | MetadataError -> "MetadataError" | ValueError -> "ValueError"
  | OtherError -> "OtherError" | NoCandidate -> "NoCandidate"
let b2s b = if b then "1" else "0"
let print_world w =
  let d = List.map (fun (f, b) -> cl_hex f ^ " " ^ cl_hex b) w.wdir in
  let l = List.map cl_hex (List.rev w.wlog) in
  Printf.sprintf "DIR %d %s LOG %d %s REST %d" (List.length d) (String.concat " " d)
    (List.length l) (String.concat " " l) (List.length w.wscript)

let next_stage st = match next st with
  | "SInputs" -> SInputs | "SExtraParams" -> SExtraParams | "SConstraints" -> SConstraints
  | "SBuildRepo" -> SBuildRepo | "SCompile" -> SCompile | "SSetupReqs" -> SSetupReqs
  | "SWrite" -> SWrite | t -> failwith ("bad stage " ^ t)
let next_ecls st = match next st with
  | "EValueError" -> EValueError | "ERepoInit" -> ERepoInit | "ENoCandidate" -> ENoCandidate
  | "EMetadata" -> EMetadata | "ECompilation" -> ECompilation | "ESystemExit" -> ESystemExit
  | "EOSError" -> EOSError | "EOther" -> EOther | t -> failwith ("bad ecls " ^ t)
let ecls_name = function
  | EValueError -> "EValueError" | ERepoInit -> "ERepoInit" | ENoCandidate -> "ENoCandidate"
  | EMetadata -> "EMetadata" | ECompilation -> "ECompilation" | ESystemExit -> "ESystemExit"
  | EOSError -> "EOSError" | EOther -> "EOther"

let handle line =
  let st = mk (tokens line) in
  match next st with
  | "H" -> let b = next_str st in cl_hex (toy_sha b)
  | "A" -> let r = next_str st in (match adv_of r with None -> "N" | Some a -> "S " ^ cl_hex a)
  | "L" -> let (w, _) = next_world st in let f = next_str st in let r = next_str st in
    let (w', res) = do_download toy_sha w f r in
    (match res with DOk c -> "OK " ^ b2s c | DExn e -> "EXN " ^ exn_name e) ^ " " ^ print_world w'
  | "R" -> let (w, mt) = next_world st in let c = next_cand st in
    let (w', res) = resolve toy_sha mt w c in
    (match res with ROk c -> "OK " ^ b2s c | RExn e -> "EXN " ^ exn_name e) ^ " " ^ print_world w'
  | "S" -> let allow = next_bool st in let md = next_int st in
    let (w, mt) = next_world st in let cs = next_list st next_cand in
    let (w', res) = scan toy_sha mt allow (if md < 0 then None else Some (n_of_int md)) w cs [] in
    (match res with
     | SOk (c, cd) -> "OK " ^ (match c.cfile with None -> "N" | Some f -> cl_hex f) ^ " " ^ b2s cd
     | SExn e -> "EXN " ^ exn_name e) ^ " " ^ print_world w'
  | "M" -> let allow = next_bool st in let md = next_int st in
    let (w, mt) = next_world st in
    let rs = next_list st (fun st ->
      let r = next_int st in
      let pg = next_list st (fun st -> match next st with "F" -> PFail | t -> PResp (n_of_int (int_of_string t))) in
      let cs = next_list st next_cand in
      { r_retries = nat_of_int r; r_pages = pg; r_listing = cs }) in
    let ((w', res), tr) = multi_get_dist toy_sha mt allow (if md < 0 then None else Some (n_of_int md)) rs w in
    let asked = List.length tr in
    let pages = List.mapi (fun i r -> if i < asked then string_of_int (int_of_nat (snd (scan_page r.r_retries r.r_pages O))) else "-") rs in
    (match res with
     | SOk (c, cd) -> "OK " ^ (match c.cfile with None -> "N" | Some f -> cl_hex f) ^ " " ^ b2s cd
     | SExn e -> "EXN " ^ exn_name e) ^ " " ^ print_world w' ^ " PAGES " ^ String.concat " " pages
  | "P" -> let r = next_int st in
    let sc = next_list st (fun st -> match next st with "F" -> PFail | t -> PResp (n_of_int (int_of_string t))) in
    let (res, n) = scan_page (nat_of_int r) sc O in
    (match res with PParsed s -> "PARSED " ^ string_of_int (int_of_n s) | PExn e -> "EXN " ^ exn_name e)
    ^ " " ^ string_of_int (int_of_nat n)
  | "C" -> let which = next st in let user = next_bool st in
    let tb = next_list st (fun st -> let s = next_stage st in let e = next_ecls st in (s, e)) in
    let o = (if which = "cli" then run_cli else run_bzl) user (script_of tb) in
    (match o.o_end with Done -> "Done" | Exit n -> "Exit " ^ string_of_int (int_of_n n)
                      | Uncaught e -> "Uncaught " ^ ecls_name e) ^ " " ^ b2s o.o_removed
  | "T" -> string_of_int (int_of_nat default_retries)
  | c -> failwith ("bad command " ^ c)

let () = iter_lines handle

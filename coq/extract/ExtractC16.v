Require Extraction.
Require Import ExtrOcamlBasic ExtrOcamlString.
From Coq Require Import ZArith NArith List String.
From RC Require Import lib.PyStr model.ReqFileC16.
Extraction Language OCaml.
Extraction "../build/ocaml/C16/model.ml" N.succ Z.succ Pos.succ Nat.add
  req_iter iter_lines iter_lines_ng iter_file parse_index_urls cli_parse cli_front cli_front_with cli_front_full combine_res read_files cli_front_files bazel_front_files bazel_front shlex_split drop_comment
  dirname path_join render reqs_of opts_of depth conventional pip_strict req_meaning sanitize norm_index_url parse_requirements_texts.

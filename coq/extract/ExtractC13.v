Require Extraction.
Require Import ExtrOcamlBasic ExtrOcamlString.
From Coq Require Import ZArith NArith List String.
From RC Require Import gen.C13Consts model.PatchStackC13.
Extraction Language OCaml.
Extraction "../build/ocaml/C13/model.ml" N.succ Z.succ Pos.succ Nat.add
  begin_patch end_patch patch_enter patch_exit set_attr del_attr get with_mods mset mdel mmem
  analyse analyse_pyproject run_fops interleaved_outer content mutate two_pyproject fallback_dir.

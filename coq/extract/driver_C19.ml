open Model
open Drvlib

(* tokens: strings are hex ("-" = empty); options are "N" | "S" x *)
let next_label st = let r = next_str st in let p = next_str st in let n = next_str st in
  { l_repo = r; l_pkg = p; l_name = n }
let next_requirer st = let n = next_str st in let t = next_str st in { rq_name = n; rq_tail = t }
let next_link st = match next st with
  | "N" -> None
  | "U" -> Some (LUrl (next_str st))
  | "W" -> let d = next_str st in let f = next_str st in Some (LWheel (d, f))
  | t -> failwith ("bad link tag " ^ t)
let next_pin st =
  let name = next_str st in let ver = next_str st in
  let h = next_opt st next_str in
  let via = next_list st next_requirer in
  let l = next_link st in
  { p_name = name; p_version = ver; p_hash = h; p_via = via; p_link = l }
let next_view st =
  let header = next_list st next_str in
  let idx = next_list st (fun st -> let e = next_bool st in let u = next_str st in (e, u)) in
  let fl = next_list st next_str in
  let pins = next_list st next_pin in
  { v_header = header; v_indexes = idx; v_find_links = fl; v_pins = pins }

let p_opt = function None -> "N" | Some s -> "S " ^ cl_hex s
let p_list l = string_of_int (List.length l) ^ String.concat "" (List.map (fun s -> " " ^ cl_hex s) l)
let p_entry (k, e) =
  String.concat " " [cl_hex k; cl_hex e.e_package; cl_hex e.e_version; cl_hex e.e_sha256;
                     p_opt e.e_url; p_opt e.e_whl; p_opt e.e_constraint; p_opt e.e_annotations;
                     p_list e.e_via; p_list e.e_deps]
let p_err = function
  | FailMinLen -> "FailMinLen" | FailHash -> "FailHash" | FailUrl -> "FailUrl"
  | ErrIndex -> "ErrIndex"
let p_dict d = "OK " ^ string_of_int (List.length d) ^ String.concat "" (List.map (fun ke -> " " ^ p_entry ke) d)
let b2s b = if b then "1" else "0"

let handle line =
  let st = mk (tokens line) in
  match next st with
  | "P" ->
    let text = next_str st in
    let lock = next_label st in
    let c = next_opt st next_str in
    let ann = next_list st (fun st -> let n = next_str st in let d = next_str st in (n, d)) in
    (match parse_lockfile text ann lock c with Ok d -> p_dict d | Err e -> "ERR " ^ p_err e)
  | "C" ->
    let lock = next_label st in
    let wd = next_list st next_str in
    let data = next_list st next_str in
    (match parse_constraint data lock wd with Ok e -> p_dict [([], e)] | Err e -> "ERR " ^ p_err e)
  | "W" ->
    let v = next_view st in
    b2s (wf_view v) ^ " " ^ cl_hex (write_bazel v)
  | "L" ->
    let lock = next_label st in
    let c = next_opt st next_str in
    let v = next_view st in
    p_dict (lock_view lock c v)
  | "S" -> let s = next_str st in cl_hex (sanitize s) ^ " " ^ cl_hex (norm s) ^ " " ^ b2s (pep508_name s)
  | "X" -> let s = next_str st in p_list (splitlines s)
  | c -> failwith ("bad command " ^ c)

let () = iter_lines handle

open Model
open Drvlib
open Drv440
open Drvgraph

let next_op st =
  match next st with
  | "A" ->
    let nm = next_str st in
    let md = next_opt st next_dist in
    let src = next_opt st next_str in
    let reason = next_opt st next_req in
    OpAdd (nm, md, src, reason)
  | "AF" ->
    let nm = next_str st in
    let md = next_opt st next_dist in
    let sid = nat_of_int (next_int st) in
    let reason = next_opt st next_req in
    OpAddFrom (nm, md, sid, reason)
  | "I" -> OpInvalidate (next_str st)
  | "R" -> OpRemove (next_str st)
  | s -> failwith ("bad op " ^ s)

(* G fuel env ops : prints the state after every op, separated by a bar *)
let handle line =
  let st = mk (tokens line) in
  match next st with
  | "G" ->
    let fuel = nat_of_int (next_int st) in
    let e = next_env st in
    let ops = next_list st next_op in
    let buf = Buffer.create 256 in
    let rec go g = function
      | [] -> ()
      | o :: rest ->
        (match gstep fuel e g o with
         | Rok g' -> Buffer.add_string buf ("OK " ^ print_graph e g' ^ " | "); go g' rest
         | Rer er -> Buffer.add_string buf ("ERR " ^ err_class er ^ " " ^ err_detail er ^ " | ")) in
    go empty_graph ops;
    Buffer.contents buf
  | "H" ->
    let fuel = nat_of_int (next_int st) in
    let e = next_env st in
    let ops = next_list st next_op in
    (match grun fuel e empty_graph ops with
     | Rok g -> b2s (coherent_b g [])
     | Rer _ -> "E")
  | c -> failwith ("bad command " ^ c)

let () = iter_lines handle

(* requirement / dist / env / graph tokens for drivers of models built on model/Graph.v *)
open Model
open Drvlib
open Drv440

let next_req st =
  let name = next_str st in
  let extras = next_list st next_str in
  let cls = next_list st next_clause in
  let marker = next_opt st next_str in
  { rname = name; rextras = extras; rspec = cls; rmarker = marker }
let print_req r =
  Printf.sprintf "%s %d %s %d %s %s" (cl_hex r.rname)
    (List.length r.rextras) (String.concat " " (List.map cl_hex r.rextras))
    (List.length r.rspec) (String.concat " " (List.map print_clause r.rspec))
    (match r.rmarker with None -> "N" | Some m -> "S " ^ cl_hex m)

(* dist: name, optional version token, version text, meta flag, count-prefixed reqs *)
let next_dist st =
  let name = next_str st in
  let v = next_opt st (fun st -> parse_version (next st)) in
  let vtext = next_str st in
  let meta = next_bool st in
  let reqs = next_list st next_req in
  { dname = name; dversion = v; dvtext = vtext; dreqs = reqs; dmeta = meta; dsource = false }

(* env: list of (marker, table of (extra-opt, bool), extras named), then the iteration order of extra-opts; every list is count-prefixed *)
let next_env st =
  let entries = next_list st (fun st ->
      let m = next_str st in
      let tbl = next_list st (fun st -> let x = next_opt st next_str in let b = next_bool st in (x, b)) in
      let exs = next_list st next_str in
      (m, tbl, exs)) in
  let order = next_list st (fun st -> next_opt st next_str) in
  let find m = List.find_opt (fun (m', _, _) -> m' = m) entries in
  { meval = (fun m x -> match find m with
        | Some (_, tbl, _) -> (match List.assoc_opt x tbl with Some b -> b | None -> failwith "marker table: extra missing")
        | None -> failwith ("marker table: marker missing " ^ cl_hex m));
    mextras = (fun m -> match find m with Some (_, _, e) -> e | None -> []);
    xorder = order }

let err_class = function
  | EAssert -> "AssertionError" | EKey -> "KeyError"
  | EValueGone -> "ValueError" | EValueMerge -> "ValueError" | EValueDeep -> "ValueError" | EValueCircular -> "ValueError"
  | ENoCand (n, cs) -> "NoCandidate " ^ cl_hex n ^ " " ^ string_of_int (List.length cs) ^ " " ^ String.concat " " (List.map print_clause cs)
  | EFuel -> "RecursionError" | EAmbiguous -> "Ambiguous"
let err_detail = function
  | EValueGone -> "gone" | EValueMerge -> "merge" | EValueDeep -> "deep" | EValueCircular -> "circular" | _ -> "-"

let is_live g id =
  match alookup id g.heap with
  | None -> false
  | Some n -> (match slookup n.nkey g.index with Some id' -> id' = id | None -> false)
let key_of g id = match alookup id g.heap with Some n -> cl_hex n.nkey | None -> "?"
let b2s b = if b then "1" else "0"

let print_node e g id =
  match alookup id g.heap with
  | None -> "?"
  | Some n ->
    let meta = match n.nmeta with
      | None -> "N"
      | Some d -> Printf.sprintf "S %s %s %s" (cl_hex d.dname) (cl_hex d.dvtext) (b2s d.dmeta) in
    let deps = String.concat " " (List.map (fun (d, r) ->
        Printf.sprintf "%s %s %s" (key_of g d) (b2s (is_live g d)) (match r with None -> "N" | Some r -> "S " ^ print_req r)) n.ndeps) in
    let rdeps = String.concat " " (List.map (fun d -> key_of g d ^ " " ^ b2s (is_live g d)) n.nrdeps) in
    let ex = match node_extras g id with
      | Rok xs -> Printf.sprintf "OK %d %s" (List.length xs) (String.concat " " (List.map cl_hex xs))
      | Rer er -> "ERR " ^ err_class er in
    let bc = match build_constraints e g id with
      | Rok r -> "OK " ^ print_req r
      | Rer er -> "ERR " ^ err_class er in
    Printf.sprintf "K %s M %s D %d %s R %d %s C %s X %s B %s" (cl_hex n.nkey) meta
      (List.length n.ndeps) deps (List.length n.nrdeps) rdeps (b2s n.ncomplete) ex bc

let print_graph e g =
  Printf.sprintf "%d %s" (List.length g.index)
    (String.concat " " (List.map (fun (_, id) -> print_node e g id) g.index))

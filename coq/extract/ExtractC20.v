Require Extraction.
Require Import ExtrOcamlBasic ExtrOcamlString.
From Coq Require Import ZArith NArith List String.
From RC Require Import lib.Pep440 model.TypesC20 gen.ConstsC20 model.TagsC20.
Extraction Language OCaml.
Extraction "../build/ocaml/C20/model.ml" N.succ Z.succ Pos.succ Nat.add
  vcmp spec_contains py_int impl_major_minor is_py_version_compatible py_version_score manylinux_parse
  manylinux_compatible check_platform check_abi tag_score sortkey sort_candidates check_usability
  eligible wheel_cand sdist_cand cfg_of sys_tags wf_raw alias glibc_version_of wheel_fields_of wheel_cand_of_filename.

(* Shared helpers for the extracted-model drivers.  Textual protocol: one case per line,
   space separated tokens; strings are hex (utf-8 bytes), "-" = empty.  Trusted (DESIGN 5). *)
open Model

let rec pos_of_int n = if n <= 1 then XH else if n land 1 = 0 then XO (pos_of_int (n lsr 1)) else XI (pos_of_int (n lsr 1))
let n_of_int n = if n = 0 then N0 else Npos (pos_of_int n)
let rec int_of_pos = function XH -> 1 | XO p -> 2 * int_of_pos p | XI p -> 2 * int_of_pos p + 1
let int_of_n = function N0 -> 0 | Npos p -> int_of_pos p
let z_of_int n = if n = 0 then Z0 else if n > 0 then Zpos (pos_of_int n) else Zneg (pos_of_int (-n))
let int_of_z = function Z0 -> 0 | Zpos p -> int_of_pos p | Zneg p -> - (int_of_pos p)
let rec nat_of_int n = if n <= 0 then O else S (nat_of_int (n - 1))
let rec int_of_nat = function O -> 0 | S n -> 1 + int_of_nat n

let cl_of_string s = List.init (String.length s) (String.get s)
let string_of_cl l = let b = Buffer.create 16 in List.iter (Buffer.add_char b) l; Buffer.contents b

let unhex t =
  if t = "-" then "" else begin
    let n = String.length t / 2 in
    String.init n (fun i -> Char.chr (int_of_string ("0x" ^ String.sub t (2 * i) 2)))
  end
let hex s =
  if s = "" then "-" else begin
    let b = Buffer.create (2 * String.length s) in
    String.iter (fun c -> Buffer.add_string b (Printf.sprintf "%02x" (Char.code c))) s;
    Buffer.contents b
  end
let cl_unhex t = cl_of_string (unhex t)
let cl_hex l = hex (string_of_cl l)

let tokens line = List.filter (fun s -> s <> "") (String.split_on_char ' ' line)
let split c s = String.split_on_char c s

(* token stream *)
type stream = { mutable toks : string list }
let mk toks = { toks }
let next st = match st.toks with [] -> failwith "out of tokens" | t :: r -> st.toks <- r; t
let next_int st = int_of_string (next st)
let next_bool st = (next st) = "1"
let next_str st = cl_unhex (next st)
let next_list st f = let n = next_int st in List.init n (fun _ -> f st)
let next_opt st f = if next st = "S" then Some (f st) else None

let iter_lines f =
  try while true do
    let line = input_line stdin in
    (try print_string (f line) with
     | Stack_overflow -> print_string "!STACKOVERFLOW"
     | Failure m -> print_string ("!FAIL " ^ hex m)
     | Not_found -> print_string "!NOTFOUND");
    print_newline ()
  done with End_of_file -> ()

Require Extraction.
Require Import ExtrOcamlBasic ExtrOcamlString.
From Coq Require Import ZArith NArith List String.
From RC Require Import lib.PyStr lib.Name model.SolFileC06 model.SolWfC06.
Extraction Language OCaml.
Extraction "../build/ocaml/C06/model.ml" N.succ Z.succ Pos.succ Nat.add
  write load load_entries edges ver_ok spec_ok extra_ok req_lex wf_multi wf_single wf_auto o_multi canon.

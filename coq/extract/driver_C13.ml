open Model
open Drvlib

(* values: N | O<n> | F<n> | G<n> ; A = absent (tables / outputs only) *)
let parse_val t =
  if t = "N" then VNone else
  let n = n_of_int (int_of_string (String.sub t 1 (String.length t - 1))) in
  match t.[0] with
  | 'O' -> VOrig n | 'F' -> VFake n | 'G' -> VProg n
  | _ -> failwith ("bad value " ^ t)
let print_val = function
  | VNone -> "N"
  | VOrig n -> "O" ^ string_of_int (int_of_n n)
  | VFake n -> "F" ^ string_of_int (int_of_n n)
  | VProg n -> "G" ^ string_of_int (int_of_n n)
let print_opt = function None -> "A" | Some v -> print_val v
let next_key st = let m = next_str st in let a = next_str st in (m, a)
let parse_kind = function "P" -> KPlain | "F" -> KFake | "J" -> KProj | "R" -> KRel | k -> failwith ("bad kind " ^ k)
let print_kind = function KPlain -> "P" | KFake -> "F" | KProj -> "J" | KRel -> "R"

(* state: <nkeys> (mod attr val|A)* <cwd> <npath> path* <nmeta> meta* <nmods> (name kind)*  *)
let next_state st =
  let keys = next_list st (fun st -> let k = next_key st in let v = next st in (k, v)) in
  let cwd = next_str st in
  let path = next_list st next_str in
  let meta = next_list st (fun st -> n_of_int (next_int st)) in
  let mods = next_list st (fun st -> let n = next_str st in let k = parse_kind (next st) in (n, k)) in
  let attrs = List.filter_map (fun (k, v) -> if v = "A" then None else Some (k, parse_val v)) keys in
  (List.map fst keys, { attrs = attrs; cwd = cwd; vcwd = cwd; path = path; meta = meta; mods = mods; heap = [] })

(* s0 = the state the case started from: the last section lists, per key, the content stamp of the
   object that key held INITIALLY ("-" when it held nothing or None) *)
let print_state_c s0 keys s =
  String.concat " " (List.map (fun k -> print_opt (get k s)) keys)
  ^ " | " ^ cl_hex s.cwd
  ^ " | " ^ String.concat " " (List.map cl_hex s.path)
  ^ " | " ^ String.concat " " (List.map (fun n -> string_of_int (int_of_n n)) s.meta)
  ^ " | " ^ String.concat " " (List.sort compare (List.map (fun (n, k) -> cl_hex n ^ ":" ^ print_kind k) s.mods))
  ^ " | " ^ String.concat " " (List.map (fun k ->
      match get k s0 with
      | None | Some VNone -> "-"
      | o -> string_of_int (int_of_n (content o s))) keys)
let print_state keys s =
  String.concat " " (List.map (fun k -> print_opt (get k s)) keys)
  ^ " | " ^ cl_hex s.cwd
  ^ " | " ^ String.concat " " (List.map cl_hex s.path)
  ^ " | " ^ String.concat " " (List.map (fun n -> string_of_int (int_of_n n)) s.meta)
  ^ " | " ^ String.concat " " (List.sort compare (List.map (fun (n, k) -> cl_hex n ^ ":" ^ print_kind k) s.mods))

let next_op st =
  match next st with
  | "W" -> let k = next_key st in
    let v = (match next st with
        | "N" -> PNone
        | "G" -> PObj (n_of_int (next_int st))
        | "C" -> PCopy (next_key st)
        | t -> failwith ("bad pval " ^ t)) in
    OWrite (k, v)
  | "D" -> ODel (next_key st)
  | "H" -> OChdir (next_str st)
  | "I" -> let n = next_str st in let k = parse_kind (next st) in OModIns (n, k)
  | "R" -> OModDel (next_str st)
  | "S" -> OPathIns (next_str st)
  | "M" -> let k = next_key st in let c = n_of_int (next_int st) in OMutate (k, c)
  | "F" -> let front = next_bool st in let h = n_of_int (next_int st) in OMetaIns (front, h)
  | t -> failwith ("bad op " ^ t)
let next_ending st =
  match next st with
  | "finish" -> Finish | "raise" -> Raise | "sysexit" -> SysExit | "osexit" -> OsExit | "unreadable" -> Unreadable
  | t -> failwith ("bad ending " ^ t)
let next_prog st = let ops = next_list st next_op in let e = next_ending st in (ops, e)

(* T2(a): op sequences over begin_patch / end_patch / patch on scratch modules *)
let run_patch_ops st =
  let (keys, s0) = next_state st in
  let s = ref s0 in
  let slots : (int, token) Hashtbl.t = Hashtbl.create 7 in
  let pslots : (int, token list) Hashtbl.t = Hashtbl.create 7 in
  let nops = next_int st in
  let flags = Buffer.create 16 in
  for _ = 1 to nops do
    (match next st with
     | "b" ->
       let slot = next_int st in let (m, a) = next_key st in let byname = next_bool st in
       let v = parse_val (next st) in
       let (s1, t) = begin_patch { p_mod = m; p_attr = a; p_byname = byname; p_new = NFresh } v !s in
       s := s1; Hashtbl.replace slots slot t;
       Buffer.add_char flags (match t with None -> '0' | Some _ -> '.')
     | "e" ->
       let slot = next_int st in
       let t = (try Hashtbl.find slots slot with Not_found -> None) in
       (match end_patch t !s with
        | Some s1 -> s := s1; Buffer.add_char flags '.'
        | None -> Buffer.add_char flags '!')
     | "p" ->
       let slot = next_int st in
       let ps = next_list st (fun st -> let (m, a) = next_key st in let byname = next_bool st in
                               { p_mod = m; p_attr = a; p_byname = byname; p_new = NFresh }) in
       let base = n_of_int (next_int st) in
       let (s1, ts) = patch_enter ps base !s in
       s := s1; Hashtbl.replace pslots slot ts; Buffer.add_char flags '.'
     | "x" ->
       let slot = next_int st in
       let ts = (try Hashtbl.find pslots slot with Not_found -> []) in
       let (s1, ok) = patch_exit ts !s in
       s := s1; Buffer.add_char flags (if ok then '.' else '!')
     | "w" -> let k = next_key st in let v = parse_val (next st) in
       s := set_attr k v !s; Buffer.add_char flags '.'
     | "d" -> let k = next_key st in
       (match get k !s with
        | Some _ -> s := del_attr k !s; Buffer.add_char flags '.'
        | None -> Buffer.add_char flags '!')
     | "m" -> let n = next_str st in let on = next_bool st in
       s := with_mods (if on then mset n KPlain (!s).mods else mdel n (!s).mods) !s;
       Buffer.add_char flags '.'
     | t -> failwith ("bad patch op " ^ t))
  done;
  Buffer.contents flags ^ " " ^ String.concat " " (List.map (fun k -> print_opt (get k !s)) keys)

let handle line =
  let st = mk (tokens line) in
  match next st with
  | "P" -> run_patch_ops st
  | "A" ->
    let root = next_str st in let hook = n_of_int (next_int st) in
    let cy = next_bool st in let early = next_bool st in
    let (keys, s) = next_state st in
    let p = next_prog st in
    (match analyse root hook cy early p s with
     | Dead -> "DEAD"
     | Alive s' -> "ALIVE " ^ print_state_c s keys s')
  | "Y" ->
    let src = next_str st in
    let (keys, s) = next_state st in
    let p = next_prog st in
    (match analyse_pyproject src p s with
     | Dead -> "DEAD"
     | Alive s' -> "ALIVE " ^ print_state_c s keys s')
  | "L" ->
    let (keys, s) = next_state st in
    print_state keys (interleaved_outer s)
  | "G" ->
    (* egg-info fall-back on a source directory: files of the project, then what the really executed script does *)
    let proj = next_list st (fun st -> let n = next_str st in (n, n_of_int 0)) in
    let ops = next_list st (fun st ->
        match next st with
        | "w" -> let n = next_str st in let c = n_of_int (next_int st) in FbWrite (n, c)
        | "x" -> let n = next_str st in let c = n_of_int (next_int st) in FbReplace (n, c)
        | "u" -> FbRemove (next_str st)
        | t -> failwith ("bad fbop " ^ t)) in
    let after = fallback_dir ops proj in
    (* names of project files whose content changed, or that disappeared / appeared *)
    let changed = List.filter_map (fun (n, c) ->
        match List.assoc_opt n after with
        | Some c' -> if c' = c then None else Some (cl_hex n)
        | None -> Some (cl_hex n)) proj
      @ List.filter_map (fun (n, _) -> if List.mem_assoc n proj then None else Some (cl_hex n)) after in
    if changed = [] then "-" else String.concat " " (List.sort compare changed)
  | "T" ->
    (* two PEP 517 analyses on two threads: cwd0 srcA srcB dirsA dirsB schedule(1 = thread A) *)
    let cwd0 = next_str st in let a = next_str st in let b = next_str st in
    let da = next_list st next_str in let db = next_list st next_str in
    let sched = next_list st next_bool in
    let t = two_pyproject cwd0 a b da db sched in
    cl_hex t.t_cwd ^ " " ^ (if t.t_remA = [] && t.t_remB = [] then "done" else "running")
  | "F" ->
    let tree = next_list st next_str in
    let ops = next_list st (fun st ->
        match next st with
        | "o" -> FOpenWrite (next_str st)
        | "r" -> let a = next_str st in let b = next_str st in FRename (a, b)
        | "l" -> let a = next_str st in let b = next_str st in FSymlink (a, b)
        | "c" -> FRealCreate (next_str st)
        | "u" -> FRealRemove (next_str st)
        | t -> failwith ("bad fop " ^ t)) in
    String.concat " " (List.sort compare (List.map cl_hex (run_fops ops tree)))
  | c -> failwith ("bad command " ^ c)

let () = iter_lines handle

Require Extraction.
Require Import ExtrOcamlBasic ExtrOcamlString.
From Coq Require Import ZArith NArith List String.
From RC Require Import model.CliTypesC15 gen.C15Consts model.CacheC15 model.CliFlowC15.
Extraction Language OCaml.
Extraction "../build/ocaml/C15/model.ml" N.succ Z.succ Pos.succ Nat.add
  toy_sha meta_of_table adv_of do_download resolve scan scan_page repo_get_dist multi_get_dist w0 crashed
  run_cli run_bzl script_of default_retries.

Require Extraction.
Require Import ExtrOcamlBasic ExtrOcamlString.
From Coq Require Import ZArith NArith List String.
From RC Require Import lib.Pep440 lib.Name model.Merge gen.C03Consts model.SelectC03 gen.C04Consts model.MultiC04.
Extraction Language OCaml.
Extraction "../build/ocaml/C04/model.ml" N.succ Z.succ Pos.succ Nat.add
  multi_get_dist build_stack stack_shape_ids pooled_listing get_candidates pep503
  merge_urls effective_index effective_extra config_of_cmdline.

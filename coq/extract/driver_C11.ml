open Model
open Drvlib

(* C11 driver.  Strings are hex tokens.
   S <s>                      -> py_strip
   P <text>                   -> parse_flat (raw) + post_reqs
   H <text>                   -> spec side: body_harmless, fields, select_fields
   F <project> <n> <names..>  -> find_dist_info on the list AS GIVEN
   M <project> <entry>        -> root_match / own_match / any_match bits
   R <basename> <archive>     -> fetch_from_wheel
   W <basename> <archive> <nv> (<s> <0|1>)* <nr> (<s> <0|1>)*  -> extract_whl with table oracles
   Q <n> (W <path> <archive> | R <path>)* <tables as for W>  -> run_ops: answers joined by " ; "
   archive ::= B | Z <n> (<name> (C <text> | X))*                                       *)
let opt_s = function None -> "N" | Some v -> "S " ^ cl_hex v
let strs l = string_of_int (List.length l) ^ String.concat "" (List.map (fun s -> " " ^ cl_hex s) l)
let b2s b = if b then "1" else "0"
let print_flat = function
  | FlatOk (n, v, raw) -> "OK " ^ cl_hex n ^ " " ^ opt_s v ^ " " ^ strs raw ^ " " ^ strs (post_reqs raw)
  | FlatErr (MissingName v) -> "NONAME " ^ opt_s v
  | FlatErr FlatIndexError -> "INDEXERR"
let print_exc = function
  | MetadataError -> "MetadataError" | InvalidVersion -> "InvalidVersion"
  | InvalidRequirement -> "InvalidRequirement" | IndexError -> "IndexError" | Unmodelled -> "Unmodelled"
let next_member st = match next st with
  | "C" -> Content (next_str st) | "X" -> BadMember | c -> failwith ("bad member " ^ c)
let next_archive st = match next st with
  | "B" -> NotZip
  | "Z" -> Zip (next_list st (fun st -> let n = next_str st in let m = next_member st in (n, m)))
  | c -> failwith ("bad archive " ^ c)
let next_table st =
  let l = next_list st (fun st -> let s = next_str st in let b = next_bool st in (s, b)) in
  fun s -> (match List.assoc_opt s l with Some b -> b | None -> failwith "oracle table miss")

let handle line =
  let st = mk (tokens line) in
  match next st with
  | "S" -> cl_hex (py_strip (next_str st))
  | "P" -> print_flat (parse_flat (next_str st))
  | "H" -> let t = next_str st in
    let fs = rfc822_fields t in
    b2s (body_harmless t) ^ " "
    ^ string_of_int (List.length fs) ^ String.concat "" (List.map (fun (n, v) -> " " ^ cl_hex n ^ " " ^ cl_hex v) fs)
    ^ " | " ^ print_flat (select_fields fs)
  | "F" -> let p = next_str st in let names = next_list st next_str in
    (match find_dist_info p names with
     | Found e -> "FOUND " ^ cl_hex e | NotFound -> "NOTFOUND" | RegexUnmodelled -> "UNMODELLED")
  | "M" -> let p = next_str st in let e = next_str st in
    b2s (root_match p e) ^ " " ^ b2s (own_match p e) ^ " " ^ b2s (any_match e)
  | "R" -> let b = next_str st in let a = next_archive st in
    (match fetch_from_wheel b a with
     | FetchNone -> "NONE" | FetchUnmodelled -> "UNMODELLED" | FetchFlat f -> "FLAT " ^ print_flat f)
  | "W" -> let b = next_str st in let a = next_archive st in
    let vok = next_table st in let rok = next_table st in
    (match extract_whl vok rok b a with
     | Ok ((n, v), rs) -> "OK " ^ cl_hex n ^ " " ^ opt_s v ^ " " ^ strs rs
     | Err e -> "ERR " ^ print_exc e)
  | "Q" ->
    let ops = next_list st (fun st -> match next st with
      | "W" -> let p = next_str st in let a = next_archive st in WriteFile (p, a)
      | "R" -> ReadWheel (next_str st)
      | c -> failwith ("bad op " ^ c)) in
    let vok = next_table st in let rok = next_table st in
    String.concat " ; " (List.map (function
      | NoSuchFile -> "NOFILE"
      | Answer (Ok ((n, v), rs)) -> "OK " ^ cl_hex n ^ " " ^ opt_s v ^ " " ^ strs rs
      | Answer (Err e) -> "ERR " ^ print_exc e) (run_ops vok rok [] ops))
  | c -> failwith ("bad command " ^ c)

let () = iter_lines handle

open Model
open Drvlib
open Drv440

(* cfg: impl(hex) major minor  nabi abi..  nplat plat..  glibc(N | S a b)  arch(hex) *)
let next_glibc st = next_opt st (fun st -> let a = next_int st in let b = next_int st in (n_of_int a, n_of_int b))
let next_cfg st =
  let impl = next_str st in
  let major = z_of_int (next_int st) in
  let minor = z_of_int (next_int st) in
  let abis = next_list st next_str in
  let plats = next_list st next_str in
  let glibc = next_glibc st in
  let arch = next_str st in
  { c_impl = impl; c_major = major; c_minor = minor; c_abi_tags = abis; c_platform_tags = plats;
    c_glibc = glibc; c_arch = arch }
let print_cfg c =
  Printf.sprintf "%s %d %d %d %s %d %s %s %s" (cl_hex c.c_impl) (int_of_z c.c_major) (int_of_z c.c_minor)
    (List.length c.c_abi_tags) (String.concat " " (List.map cl_hex c.c_abi_tags))
    (List.length c.c_platform_tags) (String.concat " " (List.map cl_hex c.c_platform_tags))
    (match c.c_glibc with None -> "N" | Some (a, b) -> Printf.sprintf "S %d %d" (int_of_n a) (int_of_n b))
    (cl_hex c.c_arch)
let next_raw st =
  let major = n_of_int (next_int st) in
  let minor = n_of_int (next_int st) in
  let pm = next_bool st in
  let u4 = next_bool st in
  let glibc = next_glibc st in
  let arch = next_str st in
  { r_major = major; r_minor = minor; r_pymalloc = pm; r_ucs4 = u4; r_glibc = glibc; r_arch = arch }

(* cand: id version extra(hex) type(S|W|D) py(N | S n tags..) abi(N | S hex) nplat plats.. filename(N | S hex) *)
let next_cand st =
  let id = n_of_int (next_int st) in
  let v = parse_version (next st) in
  let extra = next_str st in
  let ty = (match next st with "S" -> Source | "W" -> Wheel | "D" -> Sdist | t -> failwith ("bad type " ^ t)) in
  let py = next_opt st (fun st -> next_list st next_str) in
  let abi = next_opt st next_str in
  let plats = next_list st next_str in
  let fn = next_opt st next_str in
  { k_id = id; k_version = v; k_extra = extra; k_type = ty; k_py = py; k_abi = abi; k_plats = plats;
    k_filename = fn }

(* big integers may exceed 63 bits (py_int of long digit strings): print Z in decimal via strings *)
let rec pos_to_dec p =
  (* decimal string of a positive, by repeated doubling on a little-endian digit list *)
  let dbl l carry =
    let rec go l c = match l with
      | [] -> if c = 0 then [] else [c]
      | d :: t -> let x = 2 * d + c in (x mod 10) :: go t (x / 10) in
    go l carry in
  match p with
  | XH -> [1]
  | XO q -> dbl (pos_to_dec q) 0
  | XI q -> dbl (pos_to_dec q) 1
let dec_of_pos p = String.concat "" (List.rev_map string_of_int (pos_to_dec p))
let dec_of_z = function Z0 -> "0" | Zpos p -> dec_of_pos p | Zneg p -> "-" ^ dec_of_pos p
let dec_of_n = function N0 -> "0" | Npos p -> dec_of_pos p

let print_reason = function
  | WrongPython -> "WRONG_PYTHON_VERSION" | WrongAbi -> "WRONG_ABI" | WrongPlatform -> "WRONG_PLATFORM"
  | IsPrerelease -> "IS_PRERELEASE" | VersionNoSatisfy -> "VERSION_NO_SATISFY"
let b2s b = if b then "1" else "0"
let print_tag ((py, abi), plat) = cl_hex py ^ ":" ^ cl_hex abi ^ ":" ^ cl_hex plat

let handle line =
  let st = mk (tokens line) in
  match next st with
  | "I" -> let s = next_str st in (match py_int s with None -> "N" | Some z -> dec_of_z z)
  | "P" -> let s = next_str st in
    let ((impl, ma), mi) = impl_major_minor s in
    cl_hex impl ^ " " ^ dec_of_z ma ^ " " ^ dec_of_z mi
  | "Y" -> let c = next_cfg st in let s = next_str st in
    b2s (is_py_version_compatible c s) ^ " " ^ (match py_version_score s with Ok z -> dec_of_z z | Err -> "IndexError")
  | "M" -> let c = next_cfg st in let s = next_str st in
    b2s (manylinux_compatible c s) ^ " " ^
    (match manylinux_parse (alias s) with None -> "N" | Some ((a, b), arch) -> dec_of_n a ^ " " ^ dec_of_n b ^ " " ^ cl_hex arch)
  | "U" -> let c = next_cfg st in let k = next_cand st in let he = next_bool st in let ap = next_bool st in
    (match check_usability c k he ap with None -> "OK" | Some r -> print_reason r)
  | "T" -> let c = next_cfg st in let k = next_cand st in
    (match tag_score c k with Err -> "ERR IndexError"
                            | Ok l -> "OK " ^ String.concat " " (List.map dec_of_z l))
  | "S" -> let c = next_cfg st in let ks = next_list st next_cand in
    (match sort_candidates c ks with Err -> "ERR IndexError"
                                   | Ok l -> "OK " ^ String.concat " " (List.map (fun k -> string_of_int (int_of_n k.k_id)) l))
  | "W" -> let pyf = next_str st in let abif = next_str st in let platf = next_str st in
    let k = wheel_cand N0 (parse_version "0:1:-:-:-:-") [] pyf abif platf [] in
    let l = (match k.k_py with Some l -> l | None -> []) in
    Printf.sprintf "%d %s %s %d %s" (List.length l) (String.concat " " (List.map cl_hex l))
      (match k.k_abi with None -> "N" | Some a -> "S " ^ cl_hex a)
      (List.length k.k_plats) (String.concat " " (List.map cl_hex k.k_plats))
  | "G" -> let r = next_raw st in
    b2s (wf_raw r) ^ " " ^ String.concat " " (List.map print_tag (sys_tags r))
  | "F" -> let fn = next_str st in
    (match wheel_fields_of fn with
     | None -> "N"
     | Some f ->
       let k = wheel_cand N0 (parse_version "0:1:-:-:-:-") f.wf_build f.wf_py f.wf_abi f.wf_plat f.wf_file in
       let l = (match k.k_py with Some l -> l | None -> []) in
       Printf.sprintf "S %s %s %s %d %s %s %d %s %s" (cl_hex f.wf_name) (cl_hex f.wf_version) (cl_hex k.k_extra)
         (List.length l) (String.concat " " (List.map cl_hex l))
         (match k.k_abi with None -> "N" | Some a -> "S " ^ cl_hex a)
         (List.length k.k_plats) (String.concat " " (List.map cl_hex k.k_plats))
         (match k.k_filename with None -> "N" | Some a -> cl_hex a))
  | "UF" -> let c = next_cfg st in let v = parse_version (next st) in let fn = next_str st in
    let he = next_bool st in let ap = next_bool st in
    (match wheel_cand_of_filename N0 v fn with
     | None -> "NOT-A-CANDIDATE"
     | Some k -> (match check_usability c k he ap with None -> "OK" | Some r -> print_reason r))
  | "SF" -> let c = next_cfg st in
    let items = next_list st (fun st ->
        let id = n_of_int (next_int st) in let kind = next st in let v = parse_version (next st) in
        let fn = next_str st in (id, kind, v, fn)) in
    let cands = List.map (fun (id, kind, v, fn) ->
        if kind = "D" then Some (sdist_cand id v fn) else wheel_cand_of_filename id v fn) items in
    if List.exists (fun o -> o = None) cands then "NOT-A-CANDIDATE"
    else
      (match sort_candidates c (List.map (function Some k -> k | None -> failwith "none") cands) with
       | Err -> "ERR IndexError"
       | Ok l -> "OK " ^ String.concat " " (List.map (fun k -> string_of_int (int_of_n k.k_id)) l))
  | "C" -> let r = next_raw st in print_cfg (cfg_of r)
  | "L" -> let sym = next_opt st next_str in
    (match glibc_version_of sym with
     | GOk None -> "None" | GOk (Some (a, b)) -> dec_of_z a ^ " " ^ dec_of_z b
     | GValueError -> "ValueError" | GAssertionError -> "AssertionError")
  | c -> failwith ("bad command " ^ c)

let () = iter_lines handle

open Model
open Drvlib
open Drv440

(* request: name clauses ; settings: allow_pre allow_src budget(N|int)
   candidate: name version kind(W|S|O) usable readable extra(list int) tagscore(list int) file *)
let next_rq st =
  let name = next_str st in
  let cls = next_list st next_clause in
  { rname = name; rextras = []; rspec = cls; rmarker = None }
let next_settings st =
  let ap = next_bool st in
  let asrc = next_bool st in
  let b = match next st with "N" -> None | s -> Some (z_of_int (int_of_string s)) in
  { allow_pre = ap; allow_src = asrc; budget = b }
let next_z st = z_of_int (next_int st)
let next_cand st =
  let name = next_str st in
  let v = parse_version (next st) in
  let k = match next st with "W" -> Wheel | "S" -> Sdist | "O" -> Source | s -> failwith ("bad kind " ^ s) in
  let us = next_bool st in
  let rd = next_bool st in
  let ex = next_list st next_z in
  let ts = next_list st next_z in
  let f = next_str st in
  { cname = name; ver = v; ckind = k; usable = us; readable = rd; extra = ex; tagscore = ts; cfile = f }
let b2s b = if b then "1" else "0"

let handle line =
  let st = mk (tokens line) in
  match next st with
  | "G" -> let rq = next_rq st in let s = next_settings st in let cs = next_list st next_cand in
    (match get_dist s rq cs with Found c -> "F " ^ cl_hex c.cfile | NoCandidate -> "NC")
  | "S" -> let rq = next_rq st in let allow = next_bool st in let cs = next_list st next_cand in
    let fs = sorted_files rq allow cs in
    String.concat " " (string_of_int (List.length fs) :: List.map cl_hex fs)
  | "P" -> let rq = next_rq st in let cs = next_list st next_cand in
    b2s (has_equality rq) ^ b2s (has_prerelease rq) ^ b2s (is_all_prereleases cs)
  | c -> failwith ("bad command " ^ c)

let () = iter_lines handle

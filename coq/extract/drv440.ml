(* version / clause / requirement tokens (used by every driver whose model has Pep440) *)
open Model
open Drvlib

(* version token:  E:R1.R2.R3:PRE:POST:DEV:LOCAL   PRE = - | a3 | b3 | c3 ; LOCAL = - | n12.s6162 *)
let parse_version t =
  match split ':' t with
  | [e; r; p; po; d; l] ->
    let pre = if p = "-" then None else
        let k = match p.[0] with 'a' -> PA | 'b' -> PB | _ -> PRC in
        Some (k, n_of_int (int_of_string (String.sub p 1 (String.length p - 1)))) in
    let opt s = if s = "-" then None else Some (n_of_int (int_of_string s)) in
    let loc = if l = "-" then [] else
        List.map (fun s -> if s.[0] = 'n' then LNum (n_of_int (int_of_string (String.sub s 1 (String.length s - 1))))
                   else LStr (cl_unhex (String.sub s 1 (String.length s - 1)))) (split '.' l) in
    { epoch = n_of_int (int_of_string e);
      release = List.map (fun s -> n_of_int (int_of_string s)) (split '.' r);
      pre; post = opt po; dev = opt d; vlocal = loc }
  | _ -> failwith ("bad version token " ^ t)

let print_version v =
  let opt = function None -> "-" | Some n -> string_of_int (int_of_n n) in
  Printf.sprintf "%d:%s:%s:%s:%s:%s" (int_of_n v.epoch)
    (String.concat "." (List.map (fun n -> string_of_int (int_of_n n)) v.release))
    (match v.pre with None -> "-" | Some (k, n) -> (match k with PA -> "a" | PB -> "b" | PRC -> "c") ^ string_of_int (int_of_n n))
    (opt v.post) (opt v.dev)
    (match v.vlocal with [] -> "-" | l -> String.concat "." (List.map (function LNum n -> "n" ^ string_of_int (int_of_n n) | LStr s -> "s" ^ cl_hex s) l))

let parse_op = function
  | "eq" -> OEq | "ne" -> ONe | "lt" -> OLt | "le" -> OLe | "gt" -> OGt | "ge" -> OGe | "cp" -> OCompat
  | s -> failwith ("bad op " ^ s)
let print_op = function OEq -> "eq" | ONe -> "ne" | OLt -> "lt" | OLe -> "le" | OGt -> "gt" | OGe -> "ge" | OCompat -> "cp"

(* clause: op wild ver  (3 tokens) *)
let next_clause st =
  let o = parse_op (next st) in let w = next_bool st in let v = parse_version (next st) in
  { cop = o; cver = v; cwild = w }
let print_clause c = Printf.sprintf "%s %s %s" (print_op c.cop) (if c.cwild then "1" else "0") (print_version c.cver)

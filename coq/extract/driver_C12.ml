open Model
open Drvlib
open Drv440

let next_optstr st = match next st with "N" -> None | "S" -> Some (next_str st) | t -> failwith ("optstr " ^ t)
let next_vres st = match next st with
  | "N" -> None | "B" -> Some VBad | "V" -> Some (VGood (parse_version (next st))) | t -> failwith ("vres " ^ t)
let next_strs st = match next st with
  | "O" -> SOne (next_str st) | "L" -> SMany (next_list st next_str) | t -> failwith ("strs " ^ t)
let next_optstrs st = match next st with
  | "N" -> None | "O" -> Some (SOne (next_str st)) | "L" -> Some (SMany (next_list st next_str)) | t -> failwith ("ostrs " ^ t)
let next_cfg st = match next st with
  | "N" -> None
  | "C" ->
    let n = next_optstr st in let v = next_vres st in let i = next_optstr st in
    let e = (match next st with "N" -> None
                              | "E" -> Some (next_list st (fun st -> let k = next_str st in let v = next_str st in (k, v)))
                              | t -> failwith ("cfgextras " ^ t)) in
    Some { c_name = n; c_version = v; c_install = i; c_extras = e }
  | t -> failwith ("cfg " ^ t)
let next_decl st =
  let n = next_optstr st in
  let v = next_vres st in
  let i = next_optstrs st in
  let e = next_list st (fun st -> let k = next_str st in let v = next_strs st in (k, v)) in
  let f = next_bool st in
  let c = next_cfg st in
  { d_name = n; d_version = v; d_install = i; d_extras = e; d_framework = f; d_cfg = c }
let next_kind st = match next st with "D" -> KDir | "T" -> KTar | "Z" -> KZip | t -> failwith ("kind " ^ t)
let next_project st =
  let lead = next_str st in
  let td = next_bool st in let zt = next_bool st in let zd = next_bool st in
  let fs = next_list st (fun st -> let p = next_str st in let c = next_str st in (p, c)) in
  { p_files = fs; p_lead = lead; p_tar_dirs = td; p_zip_top = zt; p_zip_dirs = zd }

let print_meta m =
  Printf.sprintf "%s %s %d %s"
    (match m.m_name with None -> "N" | Some n -> "S " ^ cl_hex n)
    (match m.m_version with None -> "N" | Some v -> "V " ^ print_version v)
    (List.length m.m_reqs) (String.concat " " (List.map cl_hex m.m_reqs))
let print_herr = function EFramework -> "Framework" | EAttr -> "Attr" | EVersion -> "Version" | EReq -> "Req" | ENoMeta -> "NoMeta"
let print_hres = function HOk m -> "OK " ^ print_meta m | HErr e -> "ERR " ^ print_herr e | HUn -> "UN"
let b2s b = if b then "1" else "0"

(* ---- frame model: state and projects *)
let next_sop st = match next st with
  | "I" -> OpImport (next_str st) | "A" -> OpPathInsert (next_str st) | "O" -> OpPathPop0
  | "D" -> OpPathDrop (next_str st) | "R" -> OpPathRemove (next_str st) | "C" -> OpChdir (next_str st)
  | "N" -> let o = next_str st in let n = next_str st in OpRename (o, n)
  | "F" -> OpRead (next_str st)
  | t -> failwith ("sop " ^ t)
let next_proj st =
  let id = nat_of_int (next_int st) in
  let kind = (match next st with "S" -> KSetupPy | "P0" -> KPep517 false | "P1" -> KPep517 true | t -> failwith ("pkind " ^ t)) in
  let arg = next_str st in let dir = next_str st in let sd = next_str st in
  let helpers = next_list st (fun st -> let n = next_str st in let d = next_str st in (n, d)) in
  let files = next_list st next_str in
  let damaged = next_bool st in
  let ops = next_list st next_sop in
  let en = (match next st with "R" -> EReturn | "X" -> ERaise | "E" -> ESysExit | t -> failwith ("ending " ^ t)) in
  { pj_id = id; pj_kind = kind; pj_arg = arg; pj_dir = dir; pj_setupdir = sd; pj_helpers = helpers; pj_files = files; pj_damaged = damaged; pj_ops = ops; pj_end = en }
let print_pstate s =
  Printf.sprintf "%s %s %d %s %d %s %d %s %d %s %d %s" (cl_hex s.g_cwd) (b2s s.g_capture)
    (List.length s.g_renames) (String.concat " " (List.map (fun (k, v) -> cl_hex k ^ ":" ^ cl_hex v) s.g_renames))
    (List.length s.g_path) (String.concat " " (List.map cl_hex s.g_path))
    (List.length s.g_meta) (String.concat " " (List.map (fun h -> string_of_int (int_of_nat h.h_owner)) s.g_meta))
    (List.length s.g_modules) (String.concat " " (List.map (fun (n, o) -> cl_hex n ^ ":" ^ string_of_int (int_of_nat o)) s.g_modules))
    (List.length s.g_patched) (String.concat " " (List.map cl_hex s.g_patched))
let print_outcome o =
  Printf.sprintf "%s %d %s %d %s %s %s" (cl_hex o.o_resolved)
    (List.length o.o_reads) (String.concat " " (List.map (fun (n, w) -> cl_hex n ^ ":" ^ cl_hex w) o.o_reads))
    (List.length o.o_seen) (String.concat " " (List.map (fun (n, w) -> cl_hex n ^ ":" ^ string_of_int (int_of_nat w)) o.o_seen))
    (b2s o.o_failed) (b2s o.o_escaped)

let handle line =
  let st = mk (tokens line) in
  match next st with
  | "H" -> print_hres (harvest (next_decl st))
  | "D" -> print_hres (meta_of_res (next_decl st))
  | "G" -> b2s (decl_ok_b (next_decl st))
  | "F" ->
    let k = next_kind st in let fn = next_str st in
    let fv = (match next st with "N" -> None | _ -> Some (parse_version (next st))) in
    let d = next_decl st in
    (match harvest d with HOk m -> "OK " ^ print_meta (finish k fn fv m) | r -> print_hres r)
  | "Q" -> (match parse_req_text (next_str st) with ROk q -> "OK " ^ cl_hex (print_req q) | RErr -> "ERR" | RUn -> "UN")
  | "M" -> (match parse_marker_text (next_str st) with
            | POk l -> "OK " ^ cl_hex (fmt_list true l) | PErr -> "ERR" | PUn -> "UN" | PFuel -> "FUEL")
  | "E" ->
    let t = next_str st in
    let tbl = next_list st (fun st -> let a = next_str st in let b = next_bool st in (a, b)) in
    (match parse_marker_text t with
     | POk l -> b2s (eval (fun a -> try List.assoc (atom_text a) tbl with Not_found -> false) l)
     | PErr -> "ERR" | PUn -> "UN" | PFuel -> "FUEL")
  | "L" -> String.concat " " (List.map cl_hex (req_lines (next_list st next_str)))
  | "R" -> let root = next_str st in let cwd = next_str st in let p = next_str st in cl_hex (to_relative root cwd p)
  | "C" -> let root = next_str st in let cwd = next_str st in let p = next_str st in b2s (contains_path root cwd p)
  | "X" ->
    let k = next_kind st in let pr = next_project st in
    let root = next_str st in let cwd = next_str st in let p = next_str st in
    (match exists_ k pr root cwd p with Some b -> b2s b | None -> "REAL")
  | "O" ->
    let k = next_kind st in let pr = next_project st in
    let root = next_str st in let cwd = next_str st in let p = next_str st in
    (match open_ k pr root cwd p with OBytes c -> "B " ^ cl_hex c | OErr -> "ERR" | OReal _ -> "REAL")
  | "W" -> let k = next_kind st in let root = next_str st in let lead = next_str st in let h = next_bool st in
    cl_hex (start_cwd k root lead h)
  | "A" ->
    let k = next_kind st in let pr = next_project st in
    let root = next_str st in let cwd = next_str st in let f = next_str st in let d = next_int st in
    (match find_in_archive k pr root cwd f (nat_of_int d) with
     | None -> "REAL" | Some None -> "NONE" | Some (Some n) -> "S " ^ cl_hex n)
  | "U" ->
    let k = next_kind st in let sp = next_bool st in let sc = next_bool st in
    let pp = (match next st with "N" -> PNone | "B" -> PBuildOnly | _ -> PProject) in
    (match route_of k { has_setup_py = sp; has_setup_cfg = sc; pyproject = pp } with
     | RSetupPy -> "SetupPy" | RCfgOnly -> "CfgOnly" | RPep517 -> "Pep517" | RNothing -> "Nothing")
  | "S" ->
    (* S cwd npath path... nproj proj... : every analysis' outcome, guard and the state after it *)
    let cwd = next_str st in let cap = next_bool st in let path = next_list st next_str in
    let ps = next_list st next_proj in
    let s0 = { g_cwd = cwd; g_path = path; g_meta = []; g_modules = []; g_patched = []; g_capture = cap; g_renames = [] } in
    let rec go s = function
      | [] -> []
      | p :: r -> let (o, s') = analyse s p in
        (b2s (quiescent s) ^ " | " ^ print_outcome o ^ " | " ^ print_pstate s') :: go s' r in
    String.concat " || " (go s0 ps)
  | c -> failwith ("bad command " ^ c)

let () = iter_lines handle

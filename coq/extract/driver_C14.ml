open Model
open Drvlib
open Drv440

(* Oracle for pkg_resources.parse_version: a table (string -> N | version token) sent at the
   end of each line after "|"; a string missing from the table aborts the case with ASK. *)
exception Ask of char list

let read_table st =
  let n = next_int st in
  List.init n (fun _ -> let k = next_str st in let a = next st in (k, a))

let pvf tbl s = match List.assoc_opt s tbl with
  | None -> raise (Ask s)
  | Some "N" -> None
  | Some t -> Some t
let pvr tbl s = match List.assoc_opt s tbl with
  | None -> raise (Ask s)
  | Some "N" -> None
  | Some t -> Some (parse_version t)

let split_line line =
  match String.index_opt line '|' with
  | None -> (line, "0")
  | Some i -> (String.sub line 0 i, String.sub line (i + 1) (String.length line - i - 1))

let hexs l = string_of_int (List.length l) ^ String.concat "" (List.map (fun s -> " " ^ cl_hex s) l)
let print_cand c =
  Printf.sprintf "C %s %s %s %s %s %s %s %s"
    (match c.c_kind with Wheel -> "W" | Sdist -> "S") (cl_hex c.c_name) (cl_hex c.c_file) c.c_ver (cl_hex c.c_build)
    (match c.c_py with None -> "N" | Some l -> "S " ^ hexs l)
    (match c.c_abi with None -> "N" | Some a -> "S " ^ cl_hex a)
    (hexs c.c_plats)
let print_fres = function FNone -> "NONE" | FRaise -> "RAISE" | FCand c -> print_cand c
let print_rres = function ROk true -> "T" | ROk false -> "F" | RValueError -> "VE" | ROutOfFuel -> "FUEL"
let next_interp st =
  let a = next_int st in let b = next_int st in let c = next_int st in
  { iM = n_of_int a; im = n_of_int b; ip = n_of_int c }
let next_event st =
  match next st with
  | "S" -> let tag = next_str st in
    let attrs = next_list st (fun st -> let k = next_str st in let v = next_opt st next_str in (k, v)) in
    EStart (tag, attrs)
  | "D" -> EData (next_str st)
  | "E" -> EEnd (next_str st)
  | _ -> EOther
let print_link = function None -> "N" | Some h -> "S " ^ cl_hex h

let handle line =
  let (body, tb) = split_line line in
  let tbl = read_table (mk (tokens tb)) in
  let st = mk (tokens body) in
  try
    match next st with
    | "W" -> print_fres (file_to_cand (pvf tbl) (next_str st))
    | "R" -> let i = next_interp st in let r = next_opt st next_str in
      print_rres (check_python (pvr tbl) i r) ^ " " ^
      (match gate_skip (pvr tbl) i r with None -> "X" | Some true -> "1" | Some false -> "0")
    | "P" -> let i = next_interp st in let evs = next_list st next_event in
      let fin = run (pvf tbl) (pvr tbl) i evs in
      let ds = List.rev fin.p_dists in
      (if fin.p_raised then "RAISED " else "OK ") ^ string_of_int (List.length ds) ^
      String.concat "" (List.map (fun (c, l) -> " " ^ print_cand c ^ " " ^ print_link l) ds)
    | "L" -> let path = next_str st in let src = next_str st in let fs = next_list st next_str in
      (match find_links (pvf tbl) path src fs with
       | None -> "RAISED"
       | Some ds -> "OK " ^ string_of_int (List.length ds) ^
                    String.concat "" (List.map (fun (c, l) -> " " ^ print_cand c ^ " " ^ cl_hex l) ds))
    | "H" -> (match hash_of_resource (next_str st) with None -> "N" | Some h -> "S " ^ cl_hex h)
    | "Q" ->
      (* steps, then the network (url -> content id) and sha256 (content id -> digest) as tables *)
      let steps = next_list st (fun st -> let f = next_str st in let r = next_str st in let u = next_str st in
                                 { r_file = f; r_res = r; r_url = u }) in
      let serve_t = next_list st (fun st -> let u = next_str st in let c = next_str st in (u, c)) in
      let dig_t = next_list st (fun st -> let c = next_str st in let d = next_str st in (c, d)) in
      let init = next_list st (fun st -> let f = next_str st in let c = next_str st in (f, c)) in
      let serve u = match List.assoc_opt u serve_t with Some c -> c | None -> cl_of_string "404" in
      let digest c = match List.assoc_opt c dig_t with Some d -> d | None -> cl_of_string "?" in
      let (pins, fin) = resolve_seq digest serve init steps in
      let pp ((b, h), c) = cl_hex b ^ " " ^ (match h with None -> "N" | Some x -> "S " ^ cl_hex x) ^ " " ^ (if c then "1" else "0") in
      string_of_int (List.length pins) ^ String.concat "" (List.map (fun p -> " " ^ pp p) pins) ^
      (match fin with
       | None -> " NOFILE"
       | Some wd -> " W " ^ string_of_int (List.length wd) ^
                    String.concat "" (List.map (fun (f, c) -> " " ^ cl_hex f ^ " " ^ cl_hex c) wd))
    | "U" -> let f = next st in let a = next_str st in
      (match f with
       | "splitext" -> cl_hex (splitext_ext a)
       | "basename" -> cl_hex (basename a)
       | "strip" -> cl_hex (strip a)
       | "lower" -> cl_hex (lower a)
       | "remove" -> let b = next_str st in cl_hex (remove_all a b)
       | "split" -> let b = next_str st in (match a with [c] -> hexs (split_on c b) | _ -> failwith "split sep")
       | "endswith" -> let b = next_str st in if ends_with a b then "1" else "0"
       | "contains" -> let b = next_str st in if containsb a b then "1" else "0"
       | "afterops" -> cl_hex (after_last is_opchar a)
       | "droplast4" -> cl_hex (drop_last (nat_of_int 4) a)
       | "int" -> if digits_ne a then string_of_int (int_of_n (num a)) else "N"
       | "dec" -> cl_hex (dec (n_of_int (int_of_string (string_of_cl a))))
       | _ -> failwith "bad U")
    | c -> failwith ("bad command " ^ c)
  with Ask s -> "ASK " ^ cl_hex s

let () = iter_lines handle

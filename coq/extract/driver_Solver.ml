open Model
open Drvlib
open Drv440
open Drvgraph

let next_universe st =
  next_list st (fun st ->
      let key = next_str st in
      let cands = next_list st (fun st ->
          let cname = next_str st in
          let readable = next_bool st in
          let sdist = next_bool st in
          let d = next_dist st in
          { cname = cname; cdist = d; creadable = readable; csdist = sdist }) in
      (key, cands))

let next_optnat st = next_opt st (fun st -> nat_of_int (next_int st))

let debug = (try Sys.getenv "SOLVER_TRACE" = "1" with Not_found -> false)
let trace g = if debug then " TRACE " ^ String.concat " ; " (List.rev_map string_of_cl g.glog) else ""

let print_entry en =
  Printf.sprintf "%s %d %s %d %s %d %s" (cl_hex en.e_source)
    (List.length en.e_activating) (String.concat " " (List.map cl_hex en.e_activating))
    (List.length en.e_spec) (String.concat " " (List.map print_clause en.e_spec))
    (List.length en.e_extras) (String.concat " " (List.map cl_hex en.e_extras))

let print_emitted e g roots =
  let ids = emitted g roots in
  Printf.sprintf "EMIT %d %s" (List.length ids)
    (String.concat " " (List.map (fun id ->
         key_of g id ^ " " ^
         (match build_explanation e g id with
          | Rok ents -> Printf.sprintf "OK %d %s" (List.length ents) (String.concat " " (List.map print_entry ents))
          | Rer er -> "ERR " ^ err_class er)) ids))

let handle line =
  let st = mk (tokens line) in
  match next st with
  | "P" ->
    let fuel = nat_of_int (next_int st) in
    let e = next_env st in
    let u = next_universe st in
    let inputs = next_list st next_dist in
    let cons = next_opt st (fun st -> next_list st next_dist) in
    let remove_cons = next_bool st in
    let allow_pre = next_bool st in
    let maxdg = next_optnat st in
    (match perform_compile fuel e u inputs cons remove_cons allow_pre maxdg with
     | COk (g, roots) ->
       Printf.sprintf "OK %s ROOTS %d %s" (print_graph e g) (List.length roots) (String.concat " " (List.map (key_of g) roots)) ^ " " ^ print_emitted e g roots
       ^ Printf.sprintf " CHK %s %s %s %s" (b2s (pins_ok_b e u g)) (b2s (coherent_b g roots)) (b2s (closed_b g roots)) (b2s (explain_honest_b e g roots))
       ^ trace g
     | CNoCand (g, nm, sp) ->
       Printf.sprintf "NOCAND %s %d %s G %s" (cl_hex nm) (List.length sp) (String.concat " " (List.map print_clause sp)) (print_graph e g) ^ trace g
     | CFatal er -> "FATAL " ^ err_class er ^ " " ^ err_detail er)
  | "S" ->
    let fuel = nat_of_int (next_int st) in
    let e = next_env st in
    let rs = next_list st (fun st -> let ap = next_bool st in let src = next_bool st in let u = next_universe st in
                                     ((if src then mark_source u else u), ap)) in
    let inputs = next_list st next_dist in
    let cons = next_opt st (fun st -> next_list st next_dist) in
    let remove_cons = next_bool st in
    let maxdg = next_optnat st in
    let ob_all = next_bool st in
    let ob = next_list st next_str in
    let extras = next_list st next_str in
    let u = flatten_stack rs in
    (match perform_compile_stack_x fuel e rs inputs cons remove_cons maxdg ob_all ob extras with
     | COk (g, roots) ->
       Printf.sprintf "OK %s ROOTS %d %s" (print_graph e g) (List.length roots) (String.concat " " (List.map (key_of g) roots)) ^ " " ^ print_emitted e g roots
       ^ Printf.sprintf " CHK %s %s %s %s" (b2s (pins_ok_b e u g)) (b2s (coherent_b g roots)) (b2s (closed_b g roots)) (b2s (explain_honest_b e g roots))
       ^ trace g
     | CNoCand (g, nm, sp) ->
       let chains = match slookup (norm (safe_name nm)) g.index with
         | Some id -> let ps = find_paths_to_root g id in
           Printf.sprintf " CHAINS %d %s" (List.length ps)
             (String.concat " " (List.map (fun p -> string_of_int (List.length p) ^ " " ^ String.concat " " (List.map (key_of g) p)) ps))
         | None -> " CHAINS -1" in
       Printf.sprintf "NOCAND %s %d %s G %s" (cl_hex nm) (List.length sp) (String.concat " " (List.map print_clause sp)) (print_graph e g) ^ chains ^ trace g
     | CFatal er -> "FATAL " ^ err_class er ^ " " ^ err_detail er)
  | "K" ->
    (* the hypothesis of the C05 whole-compile theorems (ReproP.consistentb) on a stack case: pins = what the FIRST layer
       (the solution) records, inputs = the input containers; same token layout as "S" *)
    let _fuel = next_int st in
    let _e = next_env st in
    let rs = next_list st (fun st -> let ap = next_bool st in let src = next_bool st in let u = next_universe st in
                                     ((if src then mark_source u else u), ap)) in
    let inputs = next_list st next_dist in
    let cons = next_opt st (fun st -> next_list st next_dist) in
    (match rs, cons with
     | (sol, _) :: _, None ->
       let pins = List.concat (List.map (fun (_, cands) -> List.map (fun c -> c.cdist) cands) sol) in
       if consistentb pins inputs then "T" else "F"
     | _, _ -> "F")
  | "Q" ->
    let cs = next_list st next_clause in
    (match is_possible cs with PTrue -> "T" | PFalse -> "F" | PValueError -> "V" | PAmbiguous -> "A")
  | "D" ->
    let u = next_universe st in
    let allow_pre = next_bool st in
    let r = next_req st in
    let budget = next_optnat st in
    (match get_dist u allow_pre r budget with
     | Some d -> "OK " ^ cl_hex d.dname ^ " " ^ cl_hex d.dvtext
     | None -> "NONE")
  | c -> failwith ("bad command " ^ c)

let () = iter_lines handle

Require Extraction.
Require Import ExtrOcamlBasic ExtrOcamlString.
From Coq Require Import ZArith NArith List String.
From RC Require Import lib.Pep440 lib.Name model.Merge model.Graph model.Solver model.Check.
Extraction Language OCaml.
Extraction "../build/ocaml/C10/model.ml" N.succ Z.succ Pos.succ Nat.add
  vcmp is_prerelease clause_match spec_contains norm safe_name merge reduce accepts
  empty_graph add_dist remove_dists node_extras build_constraints visit_nodes gstep grun alookup slookup coherent_b.

Require Extraction.
Require Import ExtrOcamlBasic ExtrOcamlString.
From Coq Require Import ZArith NArith List String.
From RC Require Import lib.Pep440 lib.Name model.Merge.
Extraction Language OCaml.
Extraction "../build/ocaml/C17/model.ml" N.succ Z.succ Pos.succ Nat.add
  vcmp is_prerelease clause_match spec_contains norm safe_name merge reduce accepts.

Require Extraction.
Require Import ExtrOcamlBasic ExtrOcamlString.
From Coq Require Import ZArith NArith List String.
From RC Require Import lib.PyStr lib.Pep440 lib.Name model.PathMapC12 model.HarvestC12 gen.FrameC12Consts model.FrameC12.
Extraction Language OCaml.
Extraction "../build/ocaml/C12/model.ml" N.succ Z.succ Pos.succ Nat.add
  vcmp veqb clause_match spec_contains norm
  to_relative contains_path exists_ open_ start_cwd chdir_rel fake_root find_in_archive relpath
  lex parse_marker_text fmt_list eval atom_text parse_req_text print_req req_lines
  compose_text key_marker_parts harvest meta_of_res finish route_of decl_ok_b
  analyse quiescent begin_patched ctx_patched.

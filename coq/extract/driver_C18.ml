open Model
open Drvlib

(* tree: name nfiles f.. nsubs subtree.. (prefix order) *)
let rec next_tree st =
  let name = next_str st in
  let files = next_list st next_str in
  let n = next_int st in
  let rec subs k = if k = 0 then [] else let t = next_tree st in t :: subs (k - 1) in
  Dir (name, files, subs n)

let next_outcome st = match next st with
  | "OK" -> AOk | "FAIL" -> AFail | "CRASH" -> ACrash | "EXIT" -> AExit | s -> failwith ("bad outcome " ^ s)

let print_paths l = string_of_int (List.length l) ^ (String.concat "" (List.map (fun p -> " " ^ cl_hex p) l))
let print_collected = function
  | Offered l -> "OK " ^ print_paths l
  | Raised -> "RAISED"
  | DequeMutated -> "DEQUE"

let next_common st =
  let base = next_str st in
  let excl = next_list st next_str in
  let user = next_list st next_str in
  let t = next_tree st in
  (base, excl, user, t)
let next_table st = next_list st (fun st -> let p = next_str st in let o = next_outcome st in (p, o))

let handle line =
  let st = mk (tokens line) in
  match next st with
  | "W" -> let (base, excl, user, t) = next_common st in print_paths (walk_paths base t excl user)
  | "D" -> let (base, excl, user, t) = next_common st in
    let tbl = next_table st in
    print_collected (discover base t excl user (analyse_of tbl))
  | "S" -> let (base, excl, user, t) = next_common st in
    let tbl = next_table st in
    let threaded = next_bool st in
    let sigma = next_list st next_str in
    let tau = next_list st next_str in
    print_collected (discover_sched base t excl user (analyse_of tbl) threaded sigma tau)
  | "G" -> let bc = next_list st next_str in
    let ecs = next_list st (fun st -> next_list st next_str) in
    let user = next_list st next_str in
    let t = next_tree st in
    (if root_guardb ecs user bc t then "1" else "0")
  | "X" -> let e = next_str st in let path = next_str st in
    cl_hex (rstrip_slash e) ^ " " ^ (if excluded_by e path then "1" else "0")
  | "B" -> let s = next_str st in cl_hex (basename s) ^ " " ^ (if is_test_dir s then "1" else "0")
  | c -> failwith ("bad command " ^ c)

let () = iter_lines handle

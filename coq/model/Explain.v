(* req_compile/dists.py build_explanation / _process_constraint_req (structure, not text), and the
   emitted set of cmdline.write_requirements_file: visit_nodes(roots) minus meta / unsolved nodes. *)
From Coq Require Import List String Ascii Bool Arith NArith.
From RC Require Import lib.PyStr lib.StrSort lib.Pep440 lib.Name model.Merge model.Graph.
Import ListNotations.
Open Scope list_scope.

Record entry := mkEntry {
  e_source : string;             (* node.metadata.name of the requirer *)
  e_activating : list string;    (* extras named by `extra == ".."` atoms of the requirement's marker *)
  e_spec : list clause;          (* the requirement's specifier *)
  e_extras : list string         (* extras the requirement itself requests *)
}.

Definition process_constraint_req (e : env) (r : req) (d : dist) : entry :=
  mkEntry (dname d)
          (* extras named by the marker's `extra == ".."` atoms - unless the marker already holds without any extra
             (`python_version >= "3" or extra == "x"`): then no extra activated the requirement (/repo fix) *)
          (match rmarker r with
           | Some m => if meval e m None then [] else sort_set (mextras e m)
           | None => [] end)
          (rspec r)
          (sort_set (map (fun x => lower (strip x)) (rextras r))).

Fixpoint explain_from (e : env) (g : graph) (key : string) (rds : list nat) : res (list entry) :=
  match rds with
  | [] => Rok []
  | rd :: rds' =>
      n <- getn g rd ;;
      match nmeta n with
      | None => Rer EAssert
      | Some d =>
          xs <- node_extras g rd ;;
          rs <- all_reqs_of e d (None :: map Some xs) ;;
          rest <- explain_from e g key rds' ;;
          Rok (map (fun r => process_constraint_req e r d)
                   (filter (fun r => String.eqb (norm (safe_name (rname r))) key) (dedup_reqs rs []))
               ++ rest)
      end
  end.

Definition build_explanation (e : env) (g : graph) (id : nat) : res (list entry) :=
  n <- getn g id ;; explain_from e g (nkey n) (nrdeps n).

(* nodes written to the output *)
Definition emitted (g : graph) (roots : list nat) : list nat :=
  filter (fun id => match alookup id (heap g) with
                    | Some n => match nmeta n with Some d => negb (dmeta d) | None => false end
                    | None => false end)
         (visit_nodes g roots).

(* cmdline._find_paths_to_root: every chain of requirer links from a node without requirers down to
   the failing node, never visiting a requirer twice on one chain *)
Fixpoint paths_to_root (fuel : nat) (g : graph) (id : nat) (visited : list nat) : list (list nat) :=
  match fuel with
  | O => []
  | S f =>
      match alookup id (heap g) with
      | None => []
      | Some n =>
          match nrdeps n with
          | [] => [[id]]
          | rds => flat_map (fun rd => if nmem rd visited then []
                                       else map (fun p => p ++ [id]) (paths_to_root f g rd (rd :: visited))) rds
          end
      end
  end.
Definition find_paths_to_root (g : graph) (id : nat) : list (list nat) :=
  paths_to_root (S (List.length (heap g))) g id [].

(* C14: req_compile/repos/repository.py filename_to_candidate,
   _wheel_filename_to_candidate, _tar_gz_filename_to_candidate and
   req_compile/filename.py parse_source_filename, transcribed statement by statement.
   Parsing of a version string (pkg_resources.parse_version) is the section variable [pv]:
   [None] = the call raises.  Constants come from gen/ConstsC14.v (T1). *)
From Coq Require Import List String Ascii Bool Arith.
From RC Require Import gen.ConstsC14 model.StrC14.
Import ListNotations.
Open Scope string_scope.
Open Scope nat_scope.

Inductive kind := Wheel | Sdist.

Section FileName.
Variable V : Type.
Variable pv : string -> option V.

Record cand := mkCand {
  c_kind : kind;
  c_name : string;
  c_file : string;
  c_ver : V;
  c_build : string;
  c_py : option (list string);    (* WheelVersionTags(tuple(...)) ; None for source archives *)
  c_abi : option string;
  c_plats : list string
}.

(* outcome of filename_to_candidate: None, a Candidate, or an escaping exception *)
Inductive fres := FNone | FCand (c : cand) | FRaise.

Definition nths (i : nat) (l : list string) : string := nth i l EmptyString.

(* ---- _wheel_filename_to_candidate ---- *)
Definition parse_wheel (filename : string) : option cand :=
  let fname := basename filename in
  let parts := split_on whl_sep (drop_last whl_strip fname) in
  if List.length parts <? whl_min_parts then None else
  let has_build := List.length parts =? whl_build_parts in
  let build := if has_build then nths whl_build_idx parts else whl_no_build in
  let parts' := if has_build then remove_nth whl_build_idx parts else parts in
  let name := nths whl_name_idx parts' in
  let abi := nths whl_abi_idx parts' in
  match pv (repl_char whl_ver_repl (nths whl_ver_idx parts')) with
  | None => None
  | Some v =>
      Some (mkCand Wheel name fname v build
              (Some (split_on whl_py_sep (nths whl_py_idx parts')))
              (if String.eqb abi whl_abi_none then None else Some abi)
              (split_on whl_plat_sep (nths whl_plat_idx parts')))
  end.

(* ---- parse_source_filename ---- *)
Definition looks_version (part : string) : bool :=
  match part with
  | EmptyString => false
  | String c0 rest =>
      digitb c0 ||
      match rest with
      | String c1 _ => Ascii.eqb (lower_c c0) src_vchar && digitb c1
      | EmptyString => false
      end
  end.

Definition has_dot (s : string) : bool := has_char (is_ch "."%char) s.
(* re.sub(r"[\d.]+", "", part) is non-empty *)
Definition has_other (s : string) : bool := has_char (fun c => negb (digitb c || Ascii.eqb c "."%char)) s.

(* the for loop over enumerate(dash_parts): n = len(dash_parts) *)
Fixpoint find_version_start (n idx : nat) (parts : list string) : option nat :=
  match parts with
  | [] => None
  | part :: rest =>
      match part with
      | EmptyString => find_version_start n (S idx) rest
      | _ =>
        if (negb (idx =? 0) && (n <=? idx + src_window)) && looks_version part then
          if (idx + src_lookahead =? n) && has_dot (hd EmptyString rest)
             && (negb (has_dot part) || has_other part)
          then find_version_start n (S idx) rest
          else Some idx
        else find_version_start n (S idx) rest
      end
  end.

Definition is_plat (p : string) : bool := existsb (fun pre => prefixb pre p) src_plat_prefixes.
Fixpoint cut_platform (first : bool) (l : list string) : list string :=
  match l with
  | [] => []
  | p :: r => if negb first && is_plat p then [] else p :: cut_platform false r
  end.

Inductive src_res := SrcOk (name : string) (v : option V) | SrcRaise.

(* for ext in (...): if filename.endswith(ext): filename = filename[:-len(ext)]; break *)
Fixpoint strip_ext (exts : list string) (s : string) : string :=
  match exts with
  | [] => s
  | e :: r => if ends_with e s then drop_last (String.length e) s else strip_ext r s
  end.

Definition parse_source (full : string) : src_res :=
  let f1 := strip_ext src_exts full in
  if String.eqb full f1 then SrcOk full None else
  let f2 := repl_char src_us_repl f1 in
  let dp := split_on src_dash f2 in
  match find_version_start (List.length dp) 0 dp with
  | None => SrcOk (basename f2) None
  | Some 0 => SrcRaise      (* raise ValueError("Package name missing") *)
  | Some vs =>
      let name := joinc src_dash (firstn vs dp) in
      let vstr := repl_char src_us_repl (joinc src_dash (skipn vs dp)) in
      (* version_str, plus, local_label = version_str.partition("+") *)
      let pub := before_first src_local_sep vstr in
      let tail := if has_char (is_ch src_local_sep) vstr
                  then String src_local_sep (after_first src_local_sep vstr) else EmptyString in
      let vparts := cut_platform true (split_on "."%char pub) in
      SrcOk name (pv (joinc "."%char vparts ++ tail))
  end.

(* ---- _tar_gz_filename_to_candidate ---- *)
Definition parse_sdist (filename : string) : fres :=
  match parse_source (basename filename) with
  | SrcRaise => FRaise
  | SrcOk name ov =>
      let mk v := FCand (mkCand Sdist name (basename filename) v EmptyString None None [sdist_plat]) in
      match ov with
      | Some v => mk v
      | None => match pv missing_version with Some v => mk v | None => FRaise end
      end
  end.

(* ---- filename_to_candidate ---- *)
Definition file_to_cand (filename : string) : fres :=
  let ext := lower (splitext_ext filename) in
  if String.eqb ext egg_ext then FNone
  else if String.eqb ext wheel_ext then
    match parse_wheel filename with Some c => FCand c | None => FNone end
  else if str_mem ext sdist_exts then
    if existsb (fun m => containsb m filename) dumb_markers then FNone
    else parse_sdist filename
  else FNone.

End FileName.

Arguments mkCand {V}. Arguments FNone {V}. Arguments FCand {V}. Arguments FRaise {V}.
Arguments SrcOk {V}. Arguments SrcRaise {V}.
Arguments c_kind {V}. Arguments c_name {V}. Arguments c_file {V}. Arguments c_ver {V}.
Arguments c_build {V}. Arguments c_py {V}. Arguments c_abi {V}. Arguments c_plats {V}.

(* formatters: the file names the packaging specifications prescribe *)
Definition wheel_name (n v : string) (build : option string) (py : list string) (abi : string) (plats : list string) : string :=
  joinc "-"%char ([n; v] ++ (match build with Some b => [b] | None => [] end)
                   ++ [joinc "."%char py; abi; joinc "."%char plats]) ++ ".whl".
Definition sdist_name (n v ext : string) : string := n ++ "-" ++ v ++ ext.

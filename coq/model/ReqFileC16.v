(* C16: req_compile/utils.py req_iter_from_lines / req_iter_from_file (as reached through
   containers.RequirementsFile.from_file), private/compiler.py parse_index_urls, and the
   re-parse of the collected option tokens in cmdline.compile_main; plus the specification
   side: items of a conventionally formatted requirements file, their rendering to physical
   lines and their meaning under pip's line grammar.
   The parse of ONE requirement string (pkg_resources) is outside the model: `valid` is the
   oracle saying whether parse_requirement accepts a text. *)
From Coq Require Import List String Ascii Bool Arith.
From RC Require Import lib.PyStr gen.ReqFileConstsC16.
Import ListNotations.
Open Scope string_scope.
Open Scope nat_scope.

(* ------------------------------------------------------------------ helpers *)

Fixpoint all_chars (p : ascii -> bool) (s : string) : bool :=
  match s with EmptyString => true | String c s' => p c && all_chars p s' end.

Fixpoint has_char (c : ascii) (s : string) : bool :=
  match s with EmptyString => false | String d s' => Ascii.eqb d c || has_char c s' end.

(* s[-1] == c  (False on the empty string; the code only asks on non-empty strings) *)
Definition last_is (c : ascii) (s : string) : bool :=
  match rev_str s with String d _ => Ascii.eqb d c | EmptyString => false end.

Definition slash : ascii := "/"%char.

(* posixpath.dirname *)
Fixpoint from_first_slash (s : string) : string :=
  match s with
  | EmptyString => EmptyString
  | String c s' => if Ascii.eqb c slash then s else from_first_slash s'
  end.
Definition dirname (p : string) : string :=
  let head := rev_str (from_first_slash (rev_str p)) in
  if all_chars (fun c => Ascii.eqb c slash) head then head
  else rstrip_chars (String slash EmptyString) head.

(* posixpath.join(a, b) *)
Definition path_join (a b : string) : string :=
  if startswith b (String slash EmptyString) then b
  else if String.eqb a "" || last_is slash a then a ++ b
  else a ++ String slash b.

Fixpoint find_idx {A} (p : A -> bool) (l : list A) : option nat :=
  match l with
  | [] => None
  | x :: r => if p x then Some 0 else option_map S (find_idx p r)
  end.

(* ------------------------------------------------------------------ the reader *)

(* IndexErrorHead: `line_parts[0]` on an empty split (proved unreachable);
   IndexError: `line_parts[1]` of a bare -r / --requirement.  Both are Python's IndexError. *)
Inductive err := ValueError | IndexError | IndexErrorHead | FileNotFound | OutOfFuel.
(* what has been observed so far: texts handed to parse_requirement, option tokens collected *)
Definition out := (list string * list string)%type.
Inductive res := Ok (o : out) | Err (e : err) (o : out).

Record st := mkSt { full : string; cont : bool }.
Definition clean : st := mkSt "" false.

Definition cont_str : string := String c16_cont EmptyString.

Definition hash_idx (parts : list string) : option nat :=
  find_idx (fun p => startswith p c16_hash_prefix) parts.

(* the text handed to parse_requirement *)
Definition req_text (fl : string) (parts : list string) : string :=
  if c16_hash_min_parts <? List.length parts then
    match hash_idx parts with
    | Some i => join c16_hash_join (firstn i parts)
    | None => fl
    end
  else fl.

Definition dir_or_default (dir : string) : string :=
  if String.eqb dir "" then c16_default_dir else dir.

(* re.sub(r"(^|\s+)#.*$", "", s) on a string without newline: cut at the first '#' that is at
   the start or preceded by white space, together with that white space *)
Definition hash_char : ascii := "#"%char.
Fixpoint drop_comment_go (s : string) (pend : string) (at_start : bool) : string :=
  match s with
  | EmptyString => rev_str pend
  | String c s' =>
    if Ascii.eqb c hash_char && (at_start || negb (String.eqb pend "")) then EmptyString
    else if is_space c then drop_comment_go s' (String c pend) false
    else rev_str pend ++ String c (drop_comment_go s' EmptyString false)
  end.
Definition drop_comment (s : string) : string := drop_comment_go s EmptyString true.

(* shlex.split(s): posix mode, whitespace_split, no comment characters.  None = ValueError
   ("No closing quotation" / "No escaped character") *)
Definition shlex_ws (c : ascii) : bool :=
  Ascii.eqb c " "%char || Ascii.eqb c (ascii_of_nat 9) || Ascii.eqb c (ascii_of_nat 13) || Ascii.eqb c (ascii_of_nat 10).
Definition is_quote (c : ascii) : bool := Ascii.eqb c "'"%char || Ascii.eqb c """"%char.
Definition bslash : ascii := "\"%char.
Definition dquote : ascii := """"%char.
Inductive shst := SW | SA | SQ (q : ascii) | SE (ret : option ascii).
Definition sh_emit (tok : string) (quoted : bool) (r : option (list string)) : option (list string) :=
  if negb (String.eqb tok "") || quoted then option_map (cons (rev_str tok)) r else r.
Fixpoint shlex_go (s : string) (st : shst) (tok : string) (quoted : bool) : option (list string) :=
  match s with
  | EmptyString =>
    match st with
    | SW => Some []
    | SA => sh_emit tok quoted (Some [])
    | SQ _ => None
    | SE _ => None
    end
  | String c s' =>
    match st with
    | SW => if shlex_ws c then shlex_go s' SW EmptyString false
            else if Ascii.eqb c bslash then shlex_go s' (SE None) EmptyString false
            else if is_quote c then shlex_go s' (SQ c) EmptyString true
            else shlex_go s' SA (String c EmptyString) false
    | SA => if shlex_ws c then sh_emit tok quoted (shlex_go s' SW EmptyString false)
            else if is_quote c then shlex_go s' (SQ c) tok true
            else if Ascii.eqb c bslash then shlex_go s' (SE None) tok quoted
            else shlex_go s' SA (String c tok) quoted
    | SQ q => if Ascii.eqb c q then shlex_go s' SA tok true
              else if Ascii.eqb c bslash && Ascii.eqb q dquote then shlex_go s' (SE (Some q)) tok true
              else shlex_go s' (SQ q) (String c tok) true
    | SE None => shlex_go s' SA (String c tok) quoted
    | SE (Some q) =>
      let tok' := if negb (Ascii.eqb c bslash) && negb (Ascii.eqb c q)
                  then String c (String bslash tok) else String c tok in
      shlex_go s' (SQ q) tok' true
    end
  end.
Definition shlex_split (s : string) : option (list string) := shlex_go s SW EmptyString false.

(* `--requirement=FILE` is `--requirement FILE` *)
Definition include_eq (parts : list string) : list string :=
  match parts with
  | [] => []
  | p0 :: tl =>
    match partition_char "="%char p0 with
    | (flag, true, value) => if existsb (String.eqb flag) c16_include_flags then flag :: value :: tl else parts
    | _ => parts
    end
  end.
(* an option line is tokenised with pip's grammar *)
Definition option_parts (fl : string) : option (list string) :=
  option_map include_eq (shlex_split (drop_comment fl)).

Section Iter.
  Variable valid : string -> bool.
  Variable rec_file : string -> out -> res.
  Variable dir : string.

  (* what happens to a complete logical line `fl`; `k` continues with the following lines *)
  Definition classify_parts (k : out -> res) (fl : string) (parts : list string) (acc : out) : res :=
    match parts with
    | [] => Err IndexErrorHead acc
    | p0 :: _ =>
      if existsb (String.eqb p0) c16_include_flags then
        match nth_error parts c16_include_arg_index with
        | None => Err IndexError acc
        | Some p1 =>
          match rec_file (path_join (dir_or_default dir) (strip p1)) acc with
          | Ok acc' => k acc'
          | Err e o => Err e o
          end
        end
      else if startswith p0 c16_option_prefix then
        k (fst acc, (snd acc ++ parts)%list)
      else
        let t := req_text fl parts in
        if valid t then k ((fst acc ++ [t])%list, snd acc)
        else Err ValueError ((fst acc ++ [t])%list, snd acc)
    end.

  Definition classify_line (k : out -> res) (fl : string) (acc : out) : res :=
    match split_ws fl with
    | [] => Err IndexErrorHead acc
    | p0 :: ps =>
      if startswith p0 c16_option_prefix then
        match option_parts fl with
        | None => Err ValueError acc          (* shlex: unbalanced quote / dangling escape *)
        | Some parts => classify_parts k fl parts acc
        end
      else classify_parts k fl (p0 :: ps) acc
    end.

  Fixpoint iter_lines (lines : list string) (s : st) (acc : out) : res :=
    match lines with
    | [] => Ok acc        (* a pending continuation at end of input is dropped silently *)
    | raw :: rest =>
      let l := strip raw in
      if String.eqb l "" then iter_lines rest s acc
      else if startswith l c16_comment_prefix then iter_lines rest s acc
      else
        let fl := if cont s || String.eqb (full s) ""
                  then full s ++ rstrip_chars cont_str l else full s in
        if has_char c16_cont l then
          if negb (last_is c16_cont l) then Err ValueError acc
          else iter_lines rest (mkSt fl true) acc
        else classify_line (fun a => iter_lines rest clean a) fl acc
    end.

  (* the same loop with the `continuation or not full_line` guard removed (used to show the
     guard never decides anything) *)
  Fixpoint iter_lines_ng (lines : list string) (s : st) (acc : out) : res :=
    match lines with
    | [] => Ok acc
    | raw :: rest =>
      let l := strip raw in
      if String.eqb l "" then iter_lines_ng rest s acc
      else if startswith l c16_comment_prefix then iter_lines_ng rest s acc
      else
        let fl := full s ++ rstrip_chars cont_str l in
        if has_char c16_cont l then
          if negb (last_is c16_cont l) then Err ValueError acc
          else iter_lines_ng rest (mkSt fl true) acc
        else classify_line (fun a => iter_lines_ng rest clean a) fl acc
    end.
End Iter.

Section Files.
  Variable valid : string -> bool.
  Variable fs : string -> option (list string).     (* path -> readlines() *)

  Fixpoint iter_file (fuel : nat) (path : string) (acc : out) : res :=
    match fuel with
    | O => Err OutOfFuel acc
    | S f =>
      match fs path with
      | None => Err FileNotFound acc
      | Some lines => iter_lines valid (iter_file f) (dirname path) lines clean acc
      end
    end.

  (* RequirementsFile.from_file(path): reqs (as texts) and parameters *)
  Definition req_iter (fuel : nat) (path : string) : res := iter_file fuel path ([], []).
End Files.

(* ------------------------------------------------------------------ utils.parse_requirements *)
(* the list-of-strings helper (metadata `requires` lists): texts handed to parse_requirement.
   An entry holding several lines is split and each line treated as an entry (the pieces
   hold no newline, so the recursion is one level deep). *)
Definition nl : ascii := ascii_of_nat 10.
Definition pr_ready (r : string) : list string :=
  if String.eqb r "" then []
  else if startswith r "#" || startswith r "--" then []
  else [r].
Definition pr_clean (r : string) : string := rstrip_chars "\" (strip r).
Definition pr_entry (r : string) : list string :=
  let r' := pr_clean r in
  if has_char nl r' then flat_map (fun p => pr_ready (pr_clean p)) (split_char nl r')
  else pr_ready r'.
Definition parse_requirements_texts (reqs : list string) : list string := flat_map pr_entry reqs.

(* ------------------------------------------------------------------ Bazel scanner *)

Definition sanitize (t : string) : string :=
  match partition_char c16_bzl_comment t with
  | (before, _, _) => strip_chars c16_bzl_strip before
  end.

Definition triple := (list string * list string * list string)%type.
Definition t_add (k : nat) (v : string) (t : triple) : triple :=
  match t with
  | (a, b, c) =>
    match k with
    | 0 => ((a ++ [v])%list, b, c)
    | 1 => (a, (b ++ [v])%list, c)
    | _ => (a, b, (c ++ [v])%list)
    end
  end.

Definition bzl_line (line0 : string) (t : triple) : triple :=
  let line := if c16_bzl_strip_line then strip line0 else line0 in
  fold_left (fun acc (rule : list string * nat * nat) =>
    match rule with
    | (pres, cut, tgt) =>
      if existsb (fun p => startswith line p) pres then t_add tgt (sanitize (drop cut line)) acc
      else acc
    end) c16_bzl_rules t.

(* parse_index_urls over content.splitlines(): values in order of appearance (the code
   returns sets; compared as sets) *)
Definition parse_index_urls (lines : list string) : triple :=
  fold_left (fun acc l => bzl_line l acc) lines ([], [], []).

(* ------------------------------------------------------------------ CLI re-parse (argparse) *)

Inductive act := AHelp | AOpt (dest : string) (kind : nat) (norm : bool).

Definition opt_strings : list (string * act) :=
  ([("-h", AHelp); ("--help", AHelp)] ++
  flat_map (fun (o : list string * string * nat * bool) =>
    match o with (flags, dest, kind, norm) => map (fun f => (f, AOpt dest kind norm)) flags end)
    c16_cli_options)%list.

Fixpoint assoc {A} (k : string) (l : list (string * A)) : option A :=
  match l with
  | [] => None
  | (k', v) :: r => if String.eqb k k' then Some v else assoc k r
  end.

Definition takes_arg (a : act) : bool :=
  match a with AHelp => false | AOpt _ k _ => negb (k =? 2) end.

Definition dash : ascii := "-"%char.

(* ^-\d+$|^-\d*\.\d+$ *)
Definition is_negative_number (t : string) : bool :=
  match t with
  | String c r =>
    if Ascii.eqb c dash then
      match partition_char "."%char r with
      | (a, false, _) => negb (String.eqb a "") && all_chars is_digit a
      | (a, true, b) => all_chars is_digit a && negb (String.eqb b "") && all_chars is_digit b
      end
    else false
  | EmptyString => false
  end.

Inductive cls := CA | CAmb | CO (a : option act) (os : string) (ea : option string).

Definition take2 (t : string) : string :=
  match t with String a (String b _) => String a (String b EmptyString) | _ => t end.

Definition classify (t : string) : cls :=
  match t with
  | EmptyString => CA
  | String c0 r =>
    if negb (Ascii.eqb c0 dash) then CA else
    match assoc t opt_strings with
    | Some a => CO (Some a) t None
    | None =>
      match r with
      | EmptyString => CA
      | String c1 _ =>
        match partition_char "="%char t with
        | (before, found, after) =>
          match (if found then assoc before opt_strings else None) with
          | Some a => CO (Some a) before (Some after)
          | None =>
            let tuples :=
              if Ascii.eqb c1 dash then
                let pre := if found then before else t in
                let ea := if found then Some after else None in
                map (fun (e : string * act) => (snd e, fst e, ea))
                    (filter (fun (e : string * act) => startswith (fst e) pre) opt_strings)
              else
                flat_map (fun (e : string * act) =>
                  if String.eqb (fst e) (take2 t) then [(snd e, fst e, Some (drop 2 t))]
                  else if startswith (fst e) t then [(snd e, fst e, None)] else []) opt_strings in
            match tuples with
            | _ :: _ :: _ => CAmb
            | [(a, os, ea)] => CO (Some a) os ea
            | [] => if is_negative_number t then CA
                    else if has_char " "%char t then CA
                    else CO None t None
            end
          end
        end
      end
    end
  end.

Inductive pcls := PA | PDash | PO (a : option act) (os : string) (ea : option string).

Fixpoint classify_all (toks : list string) : option (list (string * pcls)) :=
  match toks with
  | [] => Some []
  | t :: r =>
    if String.eqb t "--" then Some ((t, PDash) :: map (fun x => (x, PA)) r)
    else match classify t with
         | CAmb => None
         | CA => option_map (cons (t, PA)) (classify_all r)
         | CO a os ea => option_map (cons (t, PO a os ea)) (classify_all r)
         end
  end.

Definition ns := list (string * list string).
Fixpoint ns_get (d : string) (n : ns) : list string :=
  match n with [] => [] | (k, v) :: r => if String.eqb k d then v else ns_get d r end.
Fixpoint ns_set (d : string) (v : list string) (n : ns) : ns :=
  match n with
  | [] => [(d, v)]
  | (k, w) :: r => if String.eqb k d then (k, v) :: r else (k, w) :: ns_set d v r
  end.

Inductive cli_res := CliOk (n : ns) | CliExit (code : nat) | CliRaise (e : err) | CliUnmodelled.

Definition norm_index_url (u : string) : string := rstrip_chars c16_cli_norm_strip u.

Definition apply_val (dest : string) (kind : nat) (norm : bool) (v : string) (n : ns) : ns :=
  let v' := if norm then norm_index_url v else v in
  match kind with
  | 0 => ns_set dest (ns_get dest n ++ [v'])%list n
  | _ => ns_set dest [v'] n
  end.

Definition single_dash (os : string) : bool :=
  match os with String _ (String c _) => negb (Ascii.eqb c dash) | _ => false end.

(* consume_optional / extras, in order; `extras` = some token was left over *)
Fixpoint consume (l : list (string * pcls)) (n : ns) (extras : bool) : cli_res :=
  match l with
  | [] => if extras && c16_cli_strict then CliExit 2 else CliOk n
  | (t, PA) :: r => consume r n true
  | (t, PDash) :: r => consume r n true
  | (t, PO None _ _) :: r => consume r n true
  | (t, PO (Some a) os (Some e)) :: r =>
    if takes_arg a then
      if String.eqb e "--" then CliUnmodelled
      else match a with
           | AOpt d k nm => consume r (apply_val d k nm e n) extras
           | AHelp => CliUnmodelled
           end
    else if single_dash os && negb (String.eqb e "") then CliUnmodelled
    else CliExit 2
  | (t, PO (Some a) os None) :: r =>
    match a with
    | AHelp => CliExit 0
    | AOpt d k nm =>
      if takes_arg a then
        match r with
        | (v, PA) :: r' => consume r' (apply_val d k nm v n) extras
        | _ => CliExit 2
        end
      else consume r (ns_set d ["True"] n) extras
    end
  end.

Definition cli_parse (toks : list string) : cli_res :=
  match classify_all toks with
  | None => CliExit 2
  | Some l => consume l [] false
  end.

(* OrderedDict(zip(base, repeat(None))) then one key per new url *)
Definition dedup_append (base new : list string) : list string :=
  fold_left (fun acc u => if existsb (String.eqb u) acc then acc else (acc ++ [u])%list) (base ++ new)%list [].

Record cli_repos := mkRepos { r_index : list string; r_extra : list string; r_find : list string;
                              r_noindex : bool }.
Inductive front_res := FOk (r : cli_repos) | FExit (code : nat) | FRaise (e : err) | FUnmodelled.

Definition merged (d : string) : bool := existsb (String.eqb d) c16_cli_merged.

(* compile_main from the reading of one requirements file to the arguments of build_repo;
   bi / be: the --index-url / --extra-index-url values given on the command line itself
   (already normalised by their `type=`) *)
Definition cli_front_full (bi be bf : list string) (bno : bool) (r : res) : front_res :=
  match r with
  | Err ValueError _ => FExit 1
  | Err e _ => FRaise e
  | Ok (_, params) =>
    match params with
    | [] => FOk (mkRepos bi be bf bno)
    | _ =>
      match cli_parse params with
      | CliExit c => FExit c
      | CliRaise e => FRaise e
      | CliUnmodelled => FUnmodelled
      | CliOk n =>
        match ns_get "editable_sources" n with
        | _ :: _ => FUnmodelled      (* -e: a project directory is analysed; outside the model *)
        | [] =>
          FOk (mkRepos (if merged "index_urls" then dedup_append bi (ns_get "index_urls" n) else bi)
                       (if merged "extra_index_urls" then dedup_append be (ns_get "extra_index_urls" n) else be)
                       (if merged "find_links" then dedup_append bf (ns_get "find_links" n) else bf)
                       (if merged "no_index" then bno || negb (match ns_get "no_index" n with [] => true | _ => false end) else bno))
        end
      end
    end
  end.

Definition cli_front_with (bi be : list string) (r : res) : front_res := cli_front_full bi be [] false r.
Definition cli_front (r : res) : front_res := cli_front_with [] [] r.

(* compile_requirements (Bazel) up to build_repo: the file is read first (errors escape),
   then its text is scanned *)
Definition bazel_front (r : res) (root_lines : list string) : front_res :=
  match r with
  | Err e _ => FRaise e
  | Ok _ =>
    match parse_index_urls root_lines with
    | (a, b, c) => FOk (mkRepos a b c false)
    end
  end.

(* ---- several input files, in the order given.  Both front-ends read every file (the first
   failure wins) and accumulate what the files declare: the command line extends one token
   list with each file's parameters and re-parses it once; compile_requirements unions the
   three sets file after file (shape read by T1). *)
Fixpoint combine_res (rs : list res) (acc : out) : res :=
  match rs with
  | [] => Ok acc
  | Ok (t, p) :: r => combine_res r ((fst acc ++ t)%list, (snd acc ++ p)%list)
  | Err e o :: _ => Err e o
  end.
Definition read_files (valid : string -> bool) (fs : string -> option (list string)) (fuel : nat)
                      (paths : list string) : res :=
  combine_res (map (req_iter valid fs fuel) paths) ([], []).
Definition cli_front_files (bi be bf : list string) (bno : bool) (r : res) : front_res :=
  cli_front_full bi be bf bno r.
Definition bazel_front_files (r : res) (liness : list (list string)) : front_res :=
  bazel_front r (List.concat liness).

(* ------------------------------------------------------------------ specification side *)

Inductive gap := GSp (ws : string) | GBr (ws : string) (indent : string).
Record tail := mkTail { t_comment : option (string * string); t_trail : string }.

Inductive item :=
| IComment (indent text : string)
| IBlank (ws : string)
| IReq (indent first : string) (toks opts : list (gap * string)) (tl : tail)
| IOpt (indent first : string) (rest : list (gap * string)) (tl : tail)
| IInclude (indent flag : string) (g : gap) (path : string) (tl : tail) (sub : list item).

Definition render_tail (t : tail) : string :=
  match t_comment t with
  | Some (ws, text) => ws ++ "#" ++ text
  | None => ""
  end ++ t_trail t.

Fixpoint render_rest (cur : string) (rest : list (gap * string)) (tl : string) : list string :=
  match rest with
  | [] => [cur ++ tl]
  | (GSp ws, w) :: r => render_rest (cur ++ ws ++ w) r tl
  | (GBr ws ind, w) :: r => (cur ++ ws ++ "\") :: render_rest (ind ++ w) r tl
  end.

Definition render_item (i : item) : list string :=
  match i with
  | IComment ind text => [ind ++ "#" ++ text]
  | IBlank ws => [ws]
  | IReq ind first toks opts tl => render_rest (ind ++ first) (toks ++ opts)%list (render_tail tl)
  | IOpt ind first rest tl => render_rest (ind ++ first) rest (render_tail tl)
  | IInclude ind flag g path tl _ => render_rest (ind ++ flag) [(g, path)] (render_tail tl)
  end.

(* the physical lines of ONE file (nested files are separate files) *)
Definition render (its : list item) : list string := flat_map render_item its.

(* pip: the options part of a line goes through shlex.split; on a word without white space
   or backslash that removes the quote characters (None: no closing quotation) *)
Fixpoint shlex_word (q : option ascii) (w : string) : option string :=
  match w with
  | EmptyString => match q with None => Some EmptyString | Some _ => None end
  | String c w' =>
    match q with
    | None =>
      if Ascii.eqb c "'"%char || Ascii.eqb c """"%char then shlex_word (Some c) w'
      else option_map (String c) (shlex_word None w')
    | Some qc =>
      if Ascii.eqb c qc then shlex_word None w'
      else option_map (String c) (shlex_word q w')
    end
  end.
Definition pip_word (w : string) : string :=
  match shlex_word None w with Some s => s | None => w end.

(* meaning under pip's line grammar: the requirements (as token lists) in order, nested
   files in place, and the option tokens in order *)
Fixpoint item_reqs (i : item) : list (list string) :=
  match i with
  | IReq _ first toks _ _ => [first :: map snd toks]
  | IInclude _ _ _ _ _ sub =>
    (fix go (l : list item) := match l with [] => [] | x :: r => (item_reqs x ++ go r)%list end) sub
  | _ => []
  end.
Definition reqs_of (its : list item) : list (list string) := flat_map item_reqs its.

Fixpoint item_opts (i : item) : list string :=
  match i with
  | IOpt _ first rest _ => map pip_word (first :: map snd rest)
  | IInclude _ _ _ _ _ sub =>
    (fix go (l : list item) := match l with [] => [] | x :: r => (item_opts x ++ go r)%list end) sub
  | _ => []
  end.
Definition opts_of (its : list item) : list string := flat_map item_opts its.

Fixpoint item_depth (i : item) : nat :=
  match i with
  | IInclude _ _ _ _ _ sub =>
    S ((fix go (l : list item) := match l with [] => 0 | x :: r => Nat.max (item_depth x) (go r) end) sub)
  | _ => 0
  end.
Definition depth (its : list item) : nat := fold_right (fun i n => Nat.max (item_depth i) n) 0 its.

(* what a requirement text says once the requirement parser has dropped a trailing comment:
   its tokens up to the first one starting with '#' *)
Fixpoint until_comment (l : list string) : list string :=
  match l with
  | [] => []
  | x :: r => if startswith x "#" then [] else x :: until_comment r
  end.
Definition req_meaning (text : string) : list string := until_comment (split_ws text).

(* the file system holds the rendering of every nested item list where the including line
   points, relative to the including file *)
Fixpoint item_holds (fs : string -> option (list string)) (dir : string) (i : item) : Prop :=
  match i with
  | IInclude _ _ _ path _ sub =>
    let p := path_join (if String.eqb dir "" then "." else dir) path in
    fs p = Some (render sub) /\
    (fix go (l : list item) := match l with [] => True | x :: r => item_holds fs (dirname p) x /\ go r end) sub
  | _ => True
  end.
Fixpoint holds (fs : string -> option (list string)) (dir : string) (its : list item) : Prop :=
  match its with [] => True | x :: r => item_holds fs dir x /\ holds fs dir r end.

(* ---- conventional formatting (decidable) *)
Definition ws_ok (s : string) : bool := all_chars is_space s.
Definition nonempty (s : string) : bool := negb (String.eqb s "").
Definition word_ok (w : string) : bool :=
  nonempty w && all_chars (fun c => negb (is_space c) && negb (Ascii.eqb c "\"%char)) w
  && negb (startswith w "#").
Definition gap_ok (g : gap) : bool :=
  match g with
  | GSp ws => nonempty ws && ws_ok ws
  | GBr ws ind => nonempty ws && ws_ok ws && ws_ok ind
  end.
Definition gw_ok (x : gap * string) : bool := gap_ok (fst x) && word_ok (snd x).
Definition ends_nonspace (s : string) : bool :=
  match rev_str s with EmptyString => true | String c _ => negb (is_space c) end.
Definition tail_ok (allow_comment : bool) (t : tail) : bool :=
  ws_ok (t_trail t) &&
  match t_comment t with
  | None => true
  | Some (ws, text) => allow_comment && nonempty ws && ws_ok ws
                       && negb (has_char "\"%char text) && ends_nonspace text
  end.
Definition no_quote (w : string) : bool :=
  negb (has_char "'"%char w) && negb (has_char """"%char w).
Definition is_hash (w : string) : bool := startswith w "--hash".
Definition is_include_flag (w : string) : bool := String.eqb w "-r" || String.eqb w "--requirement".

(* option and include lines are tokenised like a small command line (shlex): the white space
   between their words is blank or tab, and quotes must be closed inside each word *)
Definition sh_ws_ok (s : string) : bool :=
  all_chars (fun c => Ascii.eqb c " "%char || Ascii.eqb c (ascii_of_nat 9)) s.
Definition gap_ok_sh (g : gap) : bool :=
  match g with
  | GSp ws => nonempty ws && sh_ws_ok ws
  | GBr ws ind => nonempty ws && sh_ws_ok ws && ws_ok ind
  end.
Definition quotes_closed (w : string) : bool :=
  match shlex_word None w with Some _ => true | None => false end.
Definition gw_ok_sh (x : gap * string) : bool := gap_ok_sh (fst x) && word_ok (snd x) && quotes_closed (snd x).
(* `-r` / `--requirement` as a word, or `--requirement=...` / `-r=...` *)
Definition is_include_form (w : string) : bool :=
  is_include_flag w ||
  match partition_char "="%char w with (flag, found, _) => found && is_include_flag flag end.
Definition eq_gap (flag : string) (g : gap) : bool :=
  String.eqb flag "--requirement" && match g with GSp ws => String.eqb ws "=" | _ => false end.

Fixpoint conv_item (i : item) : bool :=
  match i with
  | IComment ind _ => ws_ok ind
  | IBlank ws => ws_ok ws
  | IReq ind first toks opts tl =>
    ws_ok ind && word_ok first && negb (startswith first "-")
    && forallb gw_ok toks && forallb gw_ok opts
    && negb (is_hash first) && forallb (fun x => negb (is_hash (snd x))) toks
    && match opts with [] => true | (_, w) :: _ => is_hash w end
    && tail_ok true tl
  | IOpt ind first rest tl =>
    (* option values quoted or not; a comment may follow *)
    ws_ok ind && word_ok first && startswith first "-" && quotes_closed first
    && negb (is_include_form (pip_word first))
    && forallb gw_ok_sh rest
    && tail_ok true tl
  | IInclude ind flag g path tl sub =>
    (* `-r FILE`, `--requirement FILE`, `--requirement=FILE` *)
    ws_ok ind && is_include_flag flag && (gap_ok_sh g || eq_gap flag g) && word_ok path && no_quote path
    && tail_ok true tl
    && (fix go (l : list item) := match l with [] => true | x :: r => conv_item x && go r end) sub
  end.
Definition conventional (its : list item) : bool := forallb conv_item its.

(* pip additionally wants a literal space right before the first option of a requirement
   line (it splits the line on ' ' to find where the options start); used by T2 only, to
   decide which conventional trees pip's own parser must accept *)
Definition ends_with_space (s : string) : bool := last_is " "%char s.
Definition gap_ends_space (g : gap) : bool :=
  match g with
  | GSp ws => ends_with_space ws
  | GBr ws ind => ends_with_space (ws ++ ind)
  end.
Fixpoint pip_strict_item (i : item) : bool :=
  match i with
  | IReq _ _ _ opts _ => match opts with [] => true | (g, _) :: _ => gap_ends_space g end
  | IInclude _ _ _ _ _ sub =>
    (fix go (l : list item) := match l with [] => true | x :: r => pip_strict_item x && go r end) sub
  | _ => true
  end.
Definition pip_strict (its : list item) : bool := forallb pip_strict_item its.

(* ---- long-form directives as both front-ends should see them *)
Inductive dkind := DIndex | DExtra | DFind.
Definition dname (k : dkind) : string :=
  match k with DIndex => "--index-url" | DExtra => "--extra-index-url" | DFind => "--find-links" end.
(* `--name value` (blanks/tabs) or `--name=value`, possibly indented, the value possibly in
   quotes, possibly followed by a comment *)
Definition directive_item (k : dkind) (eq : bool) (ind sp q v : string) (tl : tail) : item :=
  if eq then IOpt ind (dname k ++ "=" ++ q ++ v ++ q) [] tl
  else IOpt ind (dname k) [(GSp sp, q ++ v ++ q)] tl.

(* C09 - what the command line does with a failure, composed from the generated handler tables. *)
From Coq Require Import List Bool.
From RC Require Import model.BoundaryTypes gen.BoundaryConsts.
Import ListNotations.

(* an exception raised while a line of a --solution file is turned into graph nodes (inside _add_sources) *)
Definition solution_line_failure (e : exc) : result :=
  andthen (handle loader_add_sources_handlers e)
          (fun e1 => andthen (handle cmdline_build_repo_handlers e1) (handle cmdline_outer_handlers)).

(* an exception raised elsewhere while build_repo constructs the repositories *)
Definition build_repo_failure (e : exc) : result :=
  andthen (handle cmdline_build_repo_handlers e) (handle cmdline_outer_handlers).

(* an exception leaving perform_compile *)
Definition compile_failure (e : exc) : result := handle cmdline_outer_handlers e.

Definition is_exception (e : exc) : bool := match e with EBaseOnly => false | _ => true end.
Definition value_family (e : exc) : bool := match e with EValueError | ERepoInit => true | _ => false end.
(* what an unusable repository argument can raise: the ValueError family, or an OSError from the file system *)
Definition repo_arg_family (e : exc) : bool := match e with EValueError | ERepoInit | EOSError => true | _ => false end.

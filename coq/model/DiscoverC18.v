(* C18: req_compile/repos/source.py -- SourceRepository._find_all_source_dirs (a pruned
   os.walk), _find_all_distributions (two passes, optionally threaded), get_candidates(None).

   Paths are the strings the code manipulates: the absolute path of a directory is the
   path of its parent ++ "/" ++ its name (os.walk's os.path.join; the top is
   os.path.abspath(path), which never ends in "/" unless it is "/" itself -- walking "/"
   is outside the model).  Excluded paths are the os.path.abspath()-ed strings and are
   compared as the code compares them (since ca4e69e):
   root == e or root.startswith(e.rstrip(os.sep) + os.sep).

   A directory symlink is listed in `dirs` by os.walk but not descended into
   (followlinks=False): it behaves exactly like an empty directory of that name. *)
From Coq Require Import List String Ascii Bool.
From RC Require Import lib.PyStr gen.C18Consts.
Import ListNotations.
Open Scope string_scope.

Inductive tree := Dir (name : string) (files : list string) (subs : list tree).

Definition tname (t : tree) : string := match t with Dir n _ _ => n end.
Definition tfiles (t : tree) : list string := match t with Dir _ f _ => f end.
Definition tsubs (t : tree) : list tree := match t with Dir _ _ s => s end.

Definition nameb (l : list string) (x : string) : bool := existsb (String.eqb x) l.

(* os.path.basename: everything after the last "/" *)
Fixpoint basename_acc (s acc : string) : string :=
  match s with
  | EmptyString => acc
  | String c s' => if Ascii.eqb c "/"%char then basename_acc s' s' else basename_acc s' acc
  end.
Definition basename (s : string) : string := basename_acc s s.

(* s.rstrip("/") *)
Fixpoint rstrip_slash (s : string) : string :=
  match s with
  | EmptyString => EmptyString
  | String c s' =>
    match rstrip_slash s' with
    | EmptyString => if Ascii.eqb c "/"%char then EmptyString else String c EmptyString
    | r => String c r
    end
  end.

(* root == e or root.startswith(e.rstrip(os.sep) + os.sep) *)
Definition excluded_by (e path : string) : bool :=
  String.eqb path e || prefixb (rstrip_slash e ++ "/") path.

Definition is_special (n : string) : bool := nameb special_dirs n.
Definition is_test_dir (n : string) : bool :=
  nameb testdir_names n || existsb (fun suf => endswith n suf) testdir_suffixes.
Definition has_project (files : list string) : bool := existsb (nameb project_files) files.

(* one entry yielded by the walk: the directory path and the names of everything in it
   (the second component only serves os.path.exists(join(d, "setup.py")) in
   _extract_metadata, which is true of a directory of that name too) *)
Definition entry := (string * list string)%type.

Section Walk.
  Variable excl : list string.      (* [os.path.abspath(p) for p in excluded_paths] *)
  Variable markers : list string.   (* set(MARKER_FILES) | set(marker_files) *)

  (* root == e or root.startswith(e.rstrip(os.sep) + os.sep)  for some e *)
  Definition str_excluded (path : string) : bool := existsb (fun e => excluded_by e path) excl.
  Definition is_marker (n : string) : bool := nameb markers n.
  Definition has_marker_dir (subs : list tree) : bool := existsb (fun d => is_marker (tname d)) subs.
  Definition has_marker_file (files : list string) : bool := existsb is_marker files.

  (* `top` is the test root == self.path.  The inner fix plays the role of os.walk's
     descent into what is left of `dirs`: `skip` = every marker-named directory has been
     taken out (dirs[:] = [d for d in dirs if d not in self.marker_files]);
     a valid project root additionally drops its test directories. *)
  Fixpoint walk (top : bool) (path : string) (t : tree) {struct t} : list entry :=
    match t with
    | Dir _ files subs =>
      let excl0 := is_special (basename path) || str_excluded path in
      let mdir := has_marker_dir subs in
      let excl1 := excl0 || mdir || has_marker_file files in
      if excl1 && negb top then []                        (* dirs[:] = []; continue *)
      else
        let valid := has_project files in
        ((if valid then [(path, (files ++ map tname subs)%list)] else []) ++
        (fix go (ds : list tree) (skip : bool) {struct ds} : list entry :=
           match ds with
           | [] => []
           | d :: r =>
             if skip && is_marker (tname d) then go r skip
             else ((if valid && is_test_dir (tname d) then []
                   else walk false (path ++ "/" ++ tname d) d) ++ go r skip)%list
           end) subs (negb excl0 && mdir))%list
    end.

  Definition source_dirs (base : string) (t : tree) : list entry := walk true base t.
End Walk.

(* ---- the two analysis passes ---------------------------------------------------------- *)

(* what req_compile.metadata.extract_metadata does with a directory: a container (AOk), a
   MetadataError (AFail; caught: the project is skipped), a SystemExit raised by a build
   backend (AExit; caught and skipped like a MetadataError) or any other exception (ACrash;
   propagates out of the constructor, from the main thread directly, from a pool worker
   when its result is consumed) *)
Inductive outcome := AOk | AFail | ACrash | AExit.

Inductive collected := Offered (dirs : list string) | Raised | DequeMutated.

Section Collect.
  Variable analyse : string -> outcome.

  Definition deferred (e : entry) : bool := nameb (snd e) defer_file.
  Definition is_ok (e : entry) : bool := match analyse (fst e) with AOk => true | _ => false end.
  Definition is_crash (e : entry) : bool := match analyse (fst e) with ACrash => true | _ => false end.

  (* for source_dir, result in map(...): if result is not None: _add_distribution
     (main thread, in order; an uncaught exception leaves the constructor) *)
  Fixpoint adds (ds : list entry) : option (list string) :=
    match ds with
    | [] => Some []
    | d :: r =>
      match analyse (fst d) with
      | ACrash => None
      | AFail | AExit => adds r
      | AOk => match adds r with Some l => Some (fst d :: l) | None => None end
      end
    end.

  (* the same loop over pool.imap_unordered: results are consumed in the order tau; an
     exception result is re-raised when it is reached *)
  Definition adds_threaded (ds : list entry) : collected :=
    if existsb is_crash ds then Raised
    else Offered (map fst (filter is_ok ds)).

  (* sigma: the order in which _extract_metadata(False, d) is executed (it fixes the order
     of self._find_later); tau: the order in which the main thread receives the results
     (imap_unordered: completion order; map: iteration order of the set).  Both enumerate
     the same set of walked directories.  With allow_setup_py = False a directory holding
     `defer_file` is only queued. *)
  Definition collect (threaded : bool) (sigma tau : list entry) : collected :=
    let later := if pass1_allow_setup_py then [] else filter deferred sigma in
    let first := if pass1_allow_setup_py then tau else filter (fun e => negb (deferred e)) tau in
    let pass1 := if threaded then adds_threaded first
                 else match adds first with Some a => Offered a | None => Raised end in
    match pass1 with
    | Offered a =>
      match later with
      | [] => Offered a
      | _ :: _ =>
        if pass2_allow_setup_py then
          match adds later with
          | None => Raised
          | Some b => Offered (a ++ b)%list
          end
        else DequeMutated       (* the second pass would append to the deque it iterates *)
      end
    | other => other
    end.

  Definition sequential (ds : list entry) : collected := collect false ds ds.
End Collect.

(* SourceRepository(path, excluded_paths, marker_files, parallelism) followed by
   get_candidates(None), candidate.filename of each (project names pairwise distinct) *)
Definition discover (base : string) (t : tree) (excl user_markers : list string)
           (analyse : string -> outcome) : collected :=
  sequential analyse (source_dirs excl (marker_files_default ++ user_markers)%list base t).

(* ---- the specification, by path components -------------------------------------------- *)

(* "/a/b/c" from ["a";"b";"c"] *)
Fixpoint render (cs : list string) : string :=
  match cs with [] => "" | c :: r => "/" ++ c ++ render r end.

Fixpoint list_prefixb (a b : list string) : bool :=
  match a, b with
  | [], _ => true
  | x :: a', y :: b' => String.eqb x y && list_prefixb a' b'
  | _ :: _, [] => false
  end.

Fixpoint find_child (n : string) (ts : list tree) : option tree :=
  match ts with
  | [] => None
  | t :: r => if String.eqb n (tname t) then Some t else find_child n r
  end.

(* the directory reached from t by the relative path rel *)
Fixpoint subdir (t : tree) (rel : list string) : option tree :=
  match rel with
  | [] => Some t
  | n :: r => match find_child n (tsubs t) with Some c => subdir c r | None => None end
  end.

Section Spec.
  Variable E : list string -> bool.   (* "these absolute components lie inside an excluded path" *)
  Variable markers : list string.

  Definition carries_marker (d : tree) : bool :=
    existsb (nameb markers) (tfiles d) || existsb (fun c => nameb markers (tname c)) (tsubs d).

  (* the directory c, named x, at absolute components cs, child of `parent`, is
     disqualified (and with it everything below it) *)
  Definition disqualified (parent : tree) (cs : list string) (x : string) (c : tree) : bool :=
    is_special x                                       (* tool / VCS / virtualenv / build directory *)
    || E cs                                            (* inside an excluded path *)
    || carries_marker c                                (* marker file or directory; Python package *)
    || (is_test_dir x && has_project (tfiles parent)). (* tests directory of another project *)

  (* Declarative statement: rel (components below the root, whose absolute components
     are bc) is a project root iff the directory exists and holds a project file, and NO
     directory on the way from the root (excluded) down to rel (included) is
     disqualified.  The root itself is never tested. *)
  Definition is_root (bc : list string) (t : tree) (rel : list string) : Prop :=
    (exists d, subdir t rel = Some d /\ has_project (tfiles d) = true) /\
    forall q x r par c, rel = (q ++ x :: r)%list ->
      subdir t q = Some par -> subdir t (q ++ [x])%list = Some c ->
      disqualified par (bc ++ q ++ [x])%list x c = false.
End Spec.

(* exclusion by components: some excluded path's components are a prefix *)
Definition comp_excluded (ecs : list (list string)) (cs : list string) : bool :=
  existsb (fun ec => list_prefixb ec cs) ecs.
(* exclusion as the code does it, on the rendered strings *)
Definition string_excluded (ecs : list (list string)) (cs : list string) : bool :=
  existsb (fun ec => excluded_by (render ec) (render cs)) ecs.

(* ---- wire helpers for the extracted driver -------------------------------------------- *)
Definition analyse_of (tbl : list (string * outcome)) (p : string) : outcome :=
  match List.find (fun kv => String.eqb p (fst kv)) tbl with Some kv => snd kv | None => AOk end.

Definition all_markers (user : list string) : list string := (marker_files_default ++ user)%list.
Definition walk_paths (base : string) (t : tree) (excl user : list string) : list string :=
  map fst (source_dirs excl (all_markers user) base t).
(* the walked entries listed in the order given by a list of paths *)
Definition reorder (ds : list entry) (order : list string) : list entry :=
  flat_map (fun p => filter (fun e => String.eqb (fst e) p) ds) order.
Definition discover_sched (base : string) (t : tree) (excl user : list string)
           (analyse : string -> outcome) (threaded : bool) (sigma tau : list string) : collected :=
  let ds := source_dirs excl (all_markers user) base t in
  collect analyse threaded (reorder ds sigma) (reorder ds tau).

(* ---- the decidable guard of the exactness theorems, computed ----------------------------- *)
(* the root is special-named / excluded, or no directory directly under it is marker-named *)
Definition root_guardb (ecs : list (list string)) (user : list string) (bc : list string) (t : tree) : bool :=
  is_special (basename (render bc)) || string_excluded ecs bc
  || negb (has_marker_dir (all_markers user) (tsubs t)).

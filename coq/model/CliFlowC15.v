(* C15 - life time of the wheel directory along every exit of the command line.
   req_compile/cmdline.py compile_main and private/compiler.py compile_requirements as a small
   state machine over the facts T1 reads from the source (gen/C15Consts.v): which stage calls
   sit inside the try whose finally removes the directory, which exception classes are handled
   with which exit code, and what the delete flag is on the user / temporary path. *)
From Coq Require Import List NArith Bool.
From RC Require Import model.CliTypesC15 gen.C15Consts.
Import ListNotations.

(* Python class hierarchy: RepositoryInitializationError is a ValueError *)
Definition catches (h e : ecls) : bool :=
  ecls_eqb h e || (ecls_eqb h EValueError && ecls_eqb e ERepoInit).

Fixpoint find_handler (hs : list (ecls * action)) (e : ecls) : option action :=
  match hs with
  | [] => None
  | (h, a) :: r =>
      match e with
      | ESystemExit => None                     (* not an Exception subclass: no clause here catches it *)
      | _ => if catches h e then Some a else find_handler r e
      end
  end.

(* what each stage does in this run: None = completes, Some e = raises e *)
Definition script := stage -> option ecls.

Fixpoint first_failure (sc : script) (body : list stage) : option ecls :=
  match body with
  | [] => None
  | s :: r => match sc s with Some e => Some e | None => first_failure sc r end
  end.

Inductive ending :=
| Done                (* exit status 0 *)
| Exit (code : N)     (* sys.exit(code) from an except clause *)
| Uncaught (e : ecls). (* traceback (or argparse's SystemExit) *)

Record outcome := mkOut { o_end : ending; o_removed : bool }.

Fixpoint run_items (user del : bool) (sc : script) (items : list item) (removed : bool) : outcome :=
  match items with
  | [] => mkOut Done removed
  | Plain s only_user :: r =>
      if only_user && negb user then run_items user del sc r removed
      else match sc s with
           | None => run_items user del sc r removed
           | Some e => mkOut (Uncaught e) removed
           end
  | Try body hs fin :: r =>
      let removed' := if fin && del then true else removed in
      match first_failure sc body with
      | None => run_items user del sc r removed'
      | Some e =>
          match find_handler hs e with
          | Some (AExit n) => mkOut (Exit n) removed'
          | Some (AReraise e') => mkOut (Uncaught e') removed'
          | None => mkOut (Uncaught e) removed'
          end
      end
  end.

Definition run (f : flow) (user : bool) (sc : script) : outcome :=
  run_items user (if user then f_del_user f else f_del_tmp f) sc (f_items f) false.

(* stage calls a run goes through before it enters a try whose finally removes the directory *)
Fixpoint stages_before_fin (user : bool) (items : list item) : list stage :=
  match items with
  | [] => []
  | Plain s only_user :: r =>
      if only_user && negb user then stages_before_fin user r else s :: stages_before_fin user r
  | Try body _ fin :: r => if fin then [] else body ++ stages_before_fin user r
  end.

Fixpoint has_fin (items : list item) : bool :=
  match items with
  | [] => false
  | Plain _ _ :: r => has_fin r
  | Try _ _ fin :: r => fin || has_fin r
  end.

Fixpoint protected (items : list item) : list stage :=
  match items with
  | [] => []
  | Plain _ _ :: r => protected r
  | Try body _ fin :: r => (if fin then body else []) ++ protected r
  end.

Definition mem_stage (s : stage) (l : list stage) : bool := existsb (stage_eqb s) l.

(* scripts as finite tables (extraction / witnesses) *)
Fixpoint script_of (t : list (stage * ecls)) : script :=
  fun s => match t with
           | [] => None
           | (s', e) :: r => if stage_eqb s' s then Some e else script_of r s
           end.

(* the two front ends, over the facts generated from /repo's current source *)
Definition run_cli (user : bool) (sc : script) : outcome := run cli_flow user sc.
Definition run_bzl (user : bool) (sc : script) : outcome := run bzl_flow user sc.

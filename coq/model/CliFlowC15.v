(* C15 - life time of the wheel directory along every exit of the command line.
   req_compile/cmdline.py compile_main and private/compiler.py compile_requirements as a small
   state machine over the facts T1 reads from the source (gen/C15Consts.v): which stage calls
   sit inside the try whose finally removes the directory, which exception classes are handled
   with which exit code, and what the delete flag is on the user / temporary path. *)
From Coq Require Import List NArith Bool.
From RC Require Import model.CliTypesC15 gen.C15Consts.
Import ListNotations.

(* Python class hierarchy: RepositoryInitializationError is a ValueError *)
Definition catches (h e : ecls) : bool :=
  ecls_eqb h e || (ecls_eqb h EValueError && ecls_eqb e ERepoInit).

Fixpoint find_handler (hs : list (ecls * action)) (e : ecls) : option action :=
  match hs with
  | [] => None
  | (h, a) :: r =>
      match e with
      | ESystemExit => None                     (* not an Exception subclass: no clause here catches it *)
      | _ => if catches h e then Some a else find_handler r e
      end
  end.

(* what each stage does in this run: None = completes, Some e = raises e *)
Definition script := stage -> option ecls.

Fixpoint first_failure (sc : script) (body : list stage) : option ecls :=
  match body with
  | [] => None
  | s :: r => match sc s with Some e => Some e | None => first_failure sc r end
  end.

Inductive ending :=
| Done                (* exit status 0 *)
| Exit (code : N)     (* sys.exit(code) from an except clause: a diagnostic was printed *)
| Uncaught (e : ecls). (* traceback (or argparse's SystemExit) *)

Record outcome := mkOut { o_end : ending; o_removed : bool }.

(* what leaves a statement of a try body *)
Inductive raised := RaisedE (e : ecls) | RaisedExit (code : N).

Definition apply_handlers (hs : list (ecls * action)) (e : ecls) : raised :=
  match find_handler hs e with
  | Some (AExit n) => RaisedExit n
  | Some (AReraise e') => RaisedE e'
  | Some ARaiseSame => RaisedE e
  | None => RaisedE e
  end.

Definition step_raise (sc : script) (st : step) : option raised :=
  match st with
  | SPlain s => match sc s with Some e => Some (RaisedE e) | None => None end
  | STry body hs => match first_failure sc body with
                    | Some e => Some (apply_handlers hs e)
                    | None => None
                    end
  end.

Fixpoint body_raise (sc : script) (body : list step) : option raised :=
  match body with
  | [] => None
  | st :: r => match step_raise sc st with Some x => Some x | None => body_raise sc r end
  end.

Fixpoint run_items (user del : bool) (sc : script) (items : list item) (removed : bool) : outcome :=
  match items with
  | [] => mkOut Done removed
  | Plain s only_user :: r =>
      if only_user && negb user then run_items user del sc r removed
      else match sc s with
           | None => run_items user del sc r removed
           | Some e => mkOut (Uncaught e) removed
           end
  | Try body hs fin :: r =>
      let removed' := if fin && del then true else removed in
      match body_raise sc body with
      | None => run_items user del sc r removed'
      | Some (RaisedExit n) => mkOut (Exit n) removed'    (* SystemExit passes every except clause *)
      | Some (RaisedE e) =>
          match apply_handlers hs e with
          | RaisedExit n => mkOut (Exit n) removed'
          | RaisedE e' => mkOut (Uncaught e') removed'
          end
      end
  end.

Definition run (f : flow) (user : bool) (sc : script) : outcome :=
  match first_failure sc (f_pre f) with
  | Some e => mkOut (Uncaught e) (negb user)
      (* the run ends before a temporary directory exists: nothing is left (o_removed = true);
         a directory the user supplied is simply still there (o_removed = false) *)
  | None => run_items user (if user then f_del_user f else f_del_tmp f) sc (f_items f) false
  end.

(* stage calls a run goes through before it enters a try whose finally removes the directory *)
Fixpoint stages_before_fin (user : bool) (items : list item) : list stage :=
  match items with
  | [] => []
  | Plain s only_user :: r =>
      if only_user && negb user then stages_before_fin user r else s :: stages_before_fin user r
  | Try body _ fin :: r => if fin then [] else body_stages body ++ stages_before_fin user r
  end.

Fixpoint has_fin (items : list item) : bool :=
  match items with
  | [] => false
  | Plain _ _ :: r => has_fin r
  | Try _ _ fin :: r => fin || has_fin r
  end.

Fixpoint protected (items : list item) : list stage :=
  match items with
  | [] => []
  | Plain _ _ :: r => protected r
  | Try body _ fin :: r => (if fin then body_stages body else []) ++ protected r
  end.

Definition mem_stage (s : stage) (l : list stage) : bool := existsb (stage_eqb s) l.

(* the stage calls of a run in execution order *)
Fixpoint exec_order (user : bool) (items : list item) : list stage :=
  match items with
  | [] => []
  | Plain s only_user :: r => if only_user && negb user then exec_order user r else s :: exec_order user r
  | Try body _ _ :: r => body_stages body ++ exec_order user r
  end.

Definition flow_order (f : flow) (user : bool) : list stage := f_pre f ++ exec_order user (f_items f).

Fixpoint first_fail (sc : script) (l : list stage) : option (stage * ecls) :=
  match l with
  | [] => None
  | s :: r => match sc s with Some e => Some (s, e) | None => first_fail sc r end
  end.

Definition ending_eqb (a b : ending) : bool :=
  match a, b with
  | Done, Done => true
  | Exit n, Exit m => N.eqb n m
  | Uncaught e, Uncaught e' => ecls_eqb e e'
  | _, _ => false
  end.

(* scripts as finite tables (extraction / witnesses) *)
Fixpoint script_of (t : list (stage * ecls)) : script :=
  fun s => match t with
           | [] => None
           | (s', e) :: r => if stage_eqb s' s then Some e else script_of r s
           end.

(* the two front ends, over the facts generated from /repo's current source *)
Definition run_cli (user : bool) (sc : script) : outcome := run cli_flow user sc.
Definition run_bzl (user : bool) (sc : script) : outcome := run bzl_flow user sc.

(* does the failure of stage s with class e (everything before it succeeding) end in a
   diagnostic and exit status 1?  computed from the generated handler table *)
Definition cli_diagnosed (user : bool) (s : stage) (e : ecls) : bool :=
  ending_eqb (o_end (run_cli user (script_of [(s, e)]))) (Exit 1).
Definition all_stages : list stage := [SInputs; SExtraParams; SConstraints; SBuildRepo; SCompile; SSetupReqs; SWrite].
Definition handled_classes : list ecls := [EValueError; ERepoInit; ENoCandidate; EMetadata; EOSError].
(* the (stage, class) pairs among the handled classes that still end in a traceback *)
Definition cli_traceback_pairs (user : bool) : list (stage * ecls) :=
  filter (fun p => mem_stage (fst p) (flow_order cli_flow user) && negb (cli_diagnosed user (fst p) (snd p)))
         (list_prod all_stages handled_classes).

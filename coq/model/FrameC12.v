(* C12 - the process-global state around one analysis ("frame condition").

   extract_metadata brackets the execution of a project's setup.py (source.py
   _fetch_from_setup_py / _parse_setup_py) or of its PEP 517 hook (pyproject.py
   _parse_from_prepared_metadata) with patches, a sys.path entry, an import hook on
   sys.meta_path and a chdir, and undoes them in finally-blocks / context managers.  This
   file models that bracket as a state machine over

        { cwd ; sys.path ; project hooks on sys.meta_path ; project modules in sys.modules ;
          patched attributes }

   The clean-up steps, their order and which of them are guarded are GENERATED from /repo
   (gen/FrameC12Consts.v); a step that raises skips the remaining ones, exactly as a
   statement raising inside `finally:` does.  What a setup script may do to the state is an
   op-sequence (imports of helper modules, sys.path surgery, chdir, raising, sys.exit);
   the execution of arbitrary Python is not modelled (T2 runs generated scripts). *)
From Coq Require Import List String Ascii Bool Arith.
From RC Require Import gen.FrameC12Consts.
Import ListNotations.
Open Scope string_scope.
Open Scope nat_scope.

(* an import hook left on sys.meta_path: owner, its setup dir, the helper modules (name, dir) it can serve *)
Record hook := mkHook { h_owner : nat; h_setupdir : string; h_helpers : list (string * string) }.

Record pstate := mkP {
  g_cwd : string;                       (* the REAL working directory *)
  g_path : list string;                 (* sys.path *)
  g_meta : list hook;                   (* ArchiveMetaHook objects on sys.meta_path, in order *)
  g_modules : list (string * nat);      (* sys.modules entries that belong to analysed projects: name, owner *)
  g_patched : list string;              (* attributes currently replaced by a fake *)
  g_capture : bool;                     (* logging.captureWarnings is on (warnings.showwarning replaced) *)
  g_renames : list (string * string) }. (* a rename table living at CLASS level of Extractor (shared by every
                                           extractor of the process); untouched when the table is instance state *)

Inductive sop :=
| OpImport (n : string)          (* import n *)
| OpPathInsert (p : string)      (* sys.path.insert(0, p) *)
| OpPathPop0                     (* sys.path.pop(0) *)
| OpPathDrop (p : string)        (* sys.path = [x for x in sys.path if x != p] *)
| OpPathRemove (p : string)      (* sys.path.remove(p): ValueError when absent *)
| OpChdir (d : string)           (* os.chdir: patched, changes the virtual cwd only *)
| OpRename (old new : string)    (* os.rename(old, new): Extractor.add_rename, names relative to the fake root *)
| OpRead (p : string).           (* open(p).read(): which member is served (name relative to the fake root) *)

Inductive ending := EReturn | ERaise | ESysExit.
Inductive pkind := KSetupPy | KPep517 (backend_raises : bool).

Record project := mkProj {
  pj_id : nat;
  pj_kind : pkind;
  pj_arg : string;                      (* the path as given to extract_metadata *)
  pj_dir : string;                      (* the project's directory (PEP 517: os.chdir target) *)
  pj_setupdir : string;                 (* abs_setupdir: what is put on sys.path *)
  pj_helpers : list (string * string);  (* helper modules of the project: name, directory *)
  pj_files : list string;               (* its data files that scripts open, relative to the fake root *)
  pj_damaged : bool;                    (* an archive whose damage only shows when members are read (bad CRC of a
                                           zip member, tar payload ending inside a member): BadZipFile / ReadError *)
  pj_ops : list sop;
  pj_end : ending }.

Record outcome := mkOut {
  o_resolved : string;                  (* where a relative argument is looked for *)
  o_seen : list (string * nat);         (* each imported helper and WHOSE module was served *)
  o_reads : list (string * string);     (* each path opened and the member actually served (rename table) *)
  o_failed : bool;                      (* in-process analysis failed (fall-back / metadata failure) *)
  o_escaped : bool }.                   (* the failure escapes as a foreign exception class *)

(* ---------------------------------------------------------------- helpers *)
Fixpoint remove_first (p : string) (l : list string) : list string :=
  match l with
  | [] => []
  | x :: r => if String.eqb x p then r else x :: remove_first p r
  end.
Definition mem (p : string) (l : list string) : bool := existsb (String.eqb p) l.
Fixpoint lookup_mod (n : string) (m : list (string * nat)) : option nat :=
  match m with
  | [] => None
  | (k, o) :: r => if String.eqb n k then Some o else lookup_mod n r
  end.
(* ArchiveMetaHook.find_module: the hook's setup dir, then the sys.path entries (inside its project) *)
Definition hook_serves (path : list string) (n : string) (h : hook) : bool :=
  existsb (fun e => String.eqb (fst e) n
                    && (String.eqb (snd e) (h_setupdir h) || mem (snd e) path)) (h_helpers h).
Definition first_hook (path : list string) (n : string) (hs : list hook) : option nat :=
  match find (hook_serves path n) hs with Some h => Some (h_owner h) | None => None end.
Fixpoint remove_hook (id : nat) (hs : list hook) : option (list hook) :=
  match hs with
  | [] => None
  | h :: r => if Nat.eqb (h_owner h) id then Some r
              else match remove_hook id r with Some r' => Some (h :: r') | None => None end
  end.

(* ---------------------------------------------------------------- the script *)
Fixpoint lookup_ren (n : string) (t : list (string * string)) : option string :=
  match t with
  | [] => None
  | (k, v) :: r => if String.eqb n k then Some v else lookup_ren n r
  end.
(* Extractor.to_relative's last step: a renamed path stands for the member it was renamed from *)
Definition via_renames (t : list (string * string)) (n : string) : string :=
  match lookup_ren n t with Some v => v | None => n end.

(* the extractor's rename table during the run is kept in [g_renames] (see [analyse] for what it starts
   with and what survives) *)
Fixpoint run_ops (files : list string) (ops : list sop) (st : pstate) (seen : list (string * nat)) (reads : list (string * string))
  : pstate * list (string * nat) * list (string * string) * bool :=
  match ops with
  | [] => (st, seen, reads, false)
  | op :: rest =>
      match op with
      | OpImport n =>
          match lookup_mod n (g_modules st) with
          | Some o => run_ops files rest st (seen ++ [(n, o)]) reads
          | None =>
              match first_hook (g_path st) n (g_meta st) with
              | Some o => run_ops files rest (mkP (g_cwd st) (g_path st) (g_meta st) ((n, o) :: g_modules st) (g_patched st) (g_capture st) (g_renames st))
                                  (seen ++ [(n, o)]) reads
              | None => (st, seen, reads, true)        (* ImportError *)
              end
          end
      | OpPathInsert p => run_ops files rest (mkP (g_cwd st) (p :: g_path st) (g_meta st) (g_modules st) (g_patched st) (g_capture st) (g_renames st)) seen reads
      | OpPathPop0 =>
          match g_path st with
          | [] => (st, seen, reads, true)              (* IndexError *)
          | _ :: r => run_ops files rest (mkP (g_cwd st) r (g_meta st) (g_modules st) (g_patched st) (g_capture st) (g_renames st)) seen reads
          end
      | OpPathDrop p =>
          run_ops files rest (mkP (g_cwd st) (filter (fun x => negb (String.eqb x p)) (g_path st)) (g_meta st) (g_modules st) (g_patched st) (g_capture st) (g_renames st)) seen reads
      | OpPathRemove p =>
          if mem p (g_path st)
          then run_ops files rest (mkP (g_cwd st) (remove_first p (g_path st)) (g_meta st) (g_modules st) (g_patched st) (g_capture st) (g_renames st)) seen reads
          else (st, seen, reads, true)                 (* ValueError *)
      | OpChdir _ => run_ops files rest st seen reads
      | OpRename old new =>
          (* add_rename: renames[to_relative(new)] = to_relative(old) *)
          run_ops files rest (mkP (g_cwd st) (g_path st) (g_meta st) (g_modules st) (g_patched st) (g_capture st)
                                  ((new, via_renames (g_renames st) old) :: g_renames st)) seen reads
      | OpRead p =>
          let served := via_renames (g_renames st) p in
          if mem served files then run_ops files rest st seen (reads ++ [(p, served)])
          else (st, seen, reads, true)                 (* IOError: Could not find ... *)
      end
  end.

(* ---------------------------------------------------------------- the finally-block of _parse_setup_py *)
Fixpoint remove_all (xs : list string) (l : list string) : list string :=
  match xs with [] => l | x :: r => remove_all r (remove_first x l) end.

(* one clean-up statement: Some st' = done, None = it raised (the rest of the block is skipped).
   [saved] = sys.path as copied directly before `with patches:`; [started] = this call switched the capture on *)
Definition cleanup_step (p : project) (saved : list string) (started : bool) (c : cstep) (st : pstate) : option pstate :=
  match c with
  | CPathRemove guarded =>
      if mem (pj_setupdir p) (g_path st)
      then Some (mkP (g_cwd st) (remove_first (pj_setupdir p) (g_path st)) (g_meta st) (g_modules st) (g_patched st) (g_capture st) (g_renames st))
      else if guarded then Some st else None
  | CPathRestore => Some (mkP (g_cwd st) saved (g_meta st) (g_modules st) (g_patched st) (g_capture st) (g_renames st))
  | CEndPatch name => Some (mkP (g_cwd st) (g_path st) (g_meta st) (g_modules st) (remove_first name (g_patched st)) (g_capture st) (g_renames st))
  | CMetaRemove guarded =>
      match remove_hook (pj_id p) (g_meta st) with
      | Some m => Some (mkP (g_cwd st) (g_path st) m (g_modules st) (g_patched st) (g_capture st) (g_renames st))
      | None => if guarded then Some st else None
      end
  | CModules =>
      Some (mkP (g_cwd st) (g_path st) (g_meta st)
                (filter (fun e => negb (Nat.eqb (snd e) (pj_id p))) (g_modules st)) (g_patched st) (g_capture st) (g_renames st))
  | CCaptureUndo =>
      Some (mkP (g_cwd st) (g_path st) (g_meta st) (g_modules st) (g_patched st) (if started then false else g_capture st) (g_renames st))
  end.
Fixpoint run_cleanup (p : project) (saved : list string) (started : bool) (cs : list cstep) (st : pstate) : pstate * bool :=
  match cs with
  | [] => (st, false)
  | c :: r => match cleanup_step p saved started c st with
              | Some st' => run_cleanup p saved started r st'
              | None => (st, true)
              end
  end.

Definition resolve (cwd arg : string) : string :=
  match arg with
  | String "/"%char _ => arg
  | _ => cwd ++ "/" ++ arg
  end.

(* ---------------------------------------------------------------- one analysis *)
Definition start_renames (st : pstate) : list (string * string) :=
  if extractor_state_fresh_per_analysis then [] else g_renames st.

Definition analyse (st : pstate) (p : project) : outcome * pstate :=
  let resolved := resolve (g_cwd st) (pj_arg p) in
  match pj_kind p with
  | KSetupPy =>
      (* captureWarnings(True); begin_patch x3; sys.meta_path.append(hook); saved_sys_path = list(sys.path);
         `with patches:`; sys.path.insert(0, abs_setupdir) *)
      let started := negb (g_capture st) in
      let saved := g_path st in
      (* the extractor is created for this analysis: its rename table is [] when it is instance state
         (assigned in Extractor.__init__), the class-level table of the process otherwise *)
      let st1 := mkP (g_cwd st) (pj_setupdir p :: g_path st)
                     (g_meta st ++ [mkHook (pj_id p) (pj_setupdir p) (pj_helpers p)])
                     (g_modules st) (begin_patched ++ ctx_patched ++ g_patched st) true (start_renames st) in
      match run_ops (pj_files p) (pj_ops p) st1 [] [] with
      | (st2, seen, reads, raised) =>
          let script_failed := raised || match pj_end p with ERaise => true | _ => false end in
          match run_cleanup p saved started cleanup_steps st2 with
          | (st3, cleanup_raised) =>
              (* leaving `with patches:` - a context manager: undone iff patch() restores in a finally;
                 the extractor is closed and dropped: an instance table dies with it, a class-level one stays *)
              let pat := if ctx_restored_in_finally || negb (script_failed || cleanup_raised)
                         then remove_all ctx_patched (g_patched st3) else g_patched st3 in
              let ren := if extractor_state_fresh_per_analysis then g_renames st else g_renames st3 in
              (* a damaged archive: the in-process run fails on the member, the fall-back's extract raises the
                 archive error, which _fetch_from_source reports as MetadataError iff its try covers the analysis *)
              (mkOut resolved seen reads (script_failed || cleanup_raised || pj_damaged p)
                     (pj_damaged p && negb archive_errors_cover_analysis),
               mkP (g_cwd st3) (g_path st3) (g_meta st3) (g_modules st3) pat (g_capture st3) ren)
          end
      end
  | KPep517 raises =>
      (* old_cwd = os.getcwd(); os.chdir(source_file); with patch(...): prepare(dest); os.chdir(old_cwd);
         a raising hook is reported as a MetadataError iff extract_metadata wraps it *)
      let cwd' := if pep517_chdir_restored_in_finally || negb raises then g_cwd st else pj_dir p in
      (mkOut resolved [] [] raises (raises && negb pep517_failure_wrapped),
       mkP cwd' (g_path st) (g_meta st) (g_modules st) (g_patched st) (g_capture st) (g_renames st))
  end.

Fixpoint run_seq (st : pstate) (ps : list project) : list outcome * pstate :=
  match ps with
  | [] => ([], st)
  | p :: r => match analyse st p with
              | (o, st') => match run_seq st' r with (os, st'') => (o :: os, st'') end
              end
  end.

(* ---------------------------------------------------------------- the states a process can be in between analyses *)
(* nothing of an earlier analysis is left: no project hook, no project module, no patched attribute.
   The initial state of a process is quiescent and (C12_frame) every analysis gives it back. *)
Definition quiescent (st : pstate) : bool :=
  match g_meta st, g_modules st, g_patched st with [], [], [] => true | _, _, _ => false end.

(* C14: req_compile/repos/pypi.py LinksHTMLParser as a fold over the events html.parser
   delivers (handle_starttag / handle_data; every other callback is inherited and does
   nothing), the hash taken from the link fragment (PyPIRepository.resolve_candidate) and
   FindLinksRepository._find_all_links.  html.parser's tokenisation is not modelled: the
   harness records the events the real parser delivers. *)
From Coq Require Import List String Ascii Bool Arith NArith.
From RC Require Import lib.Pep440 gen.ConstsC14 model.StrC14 model.FileNameC14 model.PyRequiresC14.
Import ListNotations.
Open Scope string_scope.

Definition attr := (string * option string)%type.
Inductive event :=
| EStart (tag : string) (attrs : list attr)    (* handle_starttag, also via handle_startendtag *)
| EData (d : string)                            (* handle_data *)
| EEnd (tag : string)                           (* handle_endtag *)
| EOther.                                       (* comments, declarations, pi: nothing *)

Section Page.
Variable V : Type.
Variable pvf : string -> option V.          (* parse_version on file-name versions *)
Variable pvr : string -> option version.    (* parse_version inside requires-python *)
Variable sys : interp.

(* the link is (self.url, href value); the url is the same for the whole page *)
Definition link := option string.

Record pstate := mkP {
  p_link : option link;       (* self.active_link : None, or (url, href) *)
  p_skip : bool;              (* self.active_skip *)
  p_dists : list (cand V * link);   (* self.dists, newest first *)
  p_raised : bool             (* an exception escaped a handler: feed() aborted *)
}.
Definition pinit : pstate := mkP None false [] false.

(* the for loop over attrs: last href wins, last requires attribute wins *)
Fixpoint scan_attrs (attrs : list attr) (lnk : option link) (rp : option string) : option link * option string :=
  match attrs with
  | [] => (lnk, rp)
  | (k, v) :: r =>
      if String.eqb k pg_href then scan_attrs r (Some v) rp
      else if str_mem k pg_requires_attrs then scan_attrs r lnk v
      else scan_attrs r lnk rp
  end.

Definition step (st : pstate) (e : event) : pstate :=
  if p_raised st then st else
  match e with
  | EOther => st
  | EEnd tag =>                 (* </a> closes the active link *)
      if String.eqb tag pg_anchor then mkP None (p_skip st) (p_dists st) false else st
  | EStart tag attrs =>
      if String.eqb tag pg_anchor then
        let '(lnk, rp) := scan_attrs attrs None None in
        match gate_skip pvr sys rp with
        | Some sk => mkP lnk sk (p_dists st) false
        | None => mkP lnk false (p_dists st) true
        end
      else st                   (* other elements inside an anchor leave the active link alone *)
  | EData d =>
      match p_link st with
      | None => st
      | Some lnk =>
          if p_skip st then st else
          match file_to_cand V pvf d with
          | FNone => st
          | FCand c => mkP (p_link st) (p_skip st) ((c, lnk) :: p_dists st) false
          | FRaise => mkP (p_link st) (p_skip st) (p_dists st) true
          end
      end
  end.

Definition run (evs : list event) : pstate := fold_left step evs pinit.
Definition offered (evs : list event) : list (cand V * link) := rev (p_dists (run evs)).

(* _scan_page_links: the page asked for at [asked] is answered by a response that reports its own address
   (requests follows redirects: [resp_url] is the address of the page that was served) and whose body the parser
   turns into the events [resp_events].  The parser is constructed with one address, which every candidate then
   carries as the first half of its link (LinksHTMLParser.__init__: self.url; handle_data: (self.url, href));
   WHICH address is read from the source on every run ([pg_base]). *)
Record response := mkResp { resp_url : string; resp_events : list event }.
Definition scan_base (asked : string) (r : response) : string :=
  match pg_base with PBResponseUrl => resp_url r | PBAskedUrl => asked end.
Definition scan_page (asked : string) (r : response) : list (cand V * (string * link)) :=
  map (fun cl => (fst cl, (scan_base asked r, snd cl))) (offered (resp_events r)).

(* FindLinksRepository._find_all_links over a directory listing: the candidate's file name
   is parsed from the full path, its link is (src, join(src, filename)) *)
Definition path_join (dir f : string) : string :=
  if prefixb "/" f then f
  else if String.eqb dir EmptyString then f
  else if ends_with "/" dir then dir ++ f else dir ++ "/" ++ f.

Fixpoint find_links (path src : string) (listing : list string) : option (list (cand V * string)) :=
  match listing with
  | [] => Some []
  | f :: r =>
      match file_to_cand V pvf (path_join path f) with
      | FRaise => None
      | FNone => find_links path src r
      | FCand c => match find_links path src r with
                   | Some l => Some ((c, path_join src f) :: l)
                   | None => None
                   end
      end
  end.

End Page.

Arguments p_link {V}. Arguments p_skip {V}. Arguments p_dists {V}. Arguments p_raised {V}.

(* resolve_candidate: dist_info.hash from the link's fragment *)
Definition hash_of_resource (res : string) : option string :=
  if has_char (is_ch hash_sep) res then Some (repl_char hash_repl (after_first hash_sep res)) else None.

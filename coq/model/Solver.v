(* L2: req_compile/compile.py compile_roots / perform_compile and Repository.do_get_candidate
   over an in-memory universe, transcribed with explicit depth fuel.  Exceptions:
   NoCandidateException carries the graph as it was when raised (handlers resume from it);
   every other exception is fatal (it escapes perform_compile), so only its class is kept. *)
From Coq Require Import List String Ascii Bool Arith NArith.
From RC Require Import lib.PyStr lib.StrSort lib.Pep440 lib.Name model.Merge model.Graph model.Possible
                       gen.SolverConsts.
Import ListNotations.
Open Scope list_scope.
Open Scope nat_scope.

(* ---- the repository: an in-memory universe ---- *)
(* csdist: the candidate is a source distribution (DistributionType.SDIST); wheels and the SOURCE
   candidates of solution / source-tree repositories are not *)
Record ucand := mkCand { cname : string; cdist : dist; creadable : bool; csdist : bool }.
Definition universe := list (string * list ucand).

Definition cand_version (c : ucand) : version :=
  match dversion (cdist c) with Some v => v | None => mkV 0 [0%N; 0%N; 0%N] None None None [] end.

Definition has_equality (r : req) : bool :=
  existsb (fun c => match cop c with OEq => negb (cwild c) | _ => false end) (rspec r).
Definition req_has_prerelease (r : req) : bool :=
  existsb (fun c => negb (cwild c) && is_prerelease (cver c)) (rspec r).

Definition usable (r : req) (has_eq allow_pre : bool) (c : ucand) : bool :=
  let v := cand_version c in
  negb (negb has_eq && negb allow_pre && is_prerelease v) &&
  spec_contains (rspec r) v (has_eq || allow_pre).

Fixpoint insert_desc (x : ucand) (l : list ucand) : list ucand :=
  match l with
  | [] => [x]
  | y :: l' => if vltb (cand_version y) (cand_version x) then x :: l else y :: insert_desc x l'
  end.
Definition sort_candidates (l : list ucand) : list ucand := fold_left (fun acc x => insert_desc x acc) l [].

Fixpoint scan (r : req) (budget : option nat) (tried : list version) (cs : list ucand) : option dist :=
  match cs with
  | [] => None
  | c :: cs' =>
      if creadable c && String.eqb (norm (cname c)) (norm (safe_name (rname r))) then Some (cdist c)
      else
        let v := cand_version c in
        let tried' := if existsb (veqb v) tried then tried else v :: tried in
        match budget with
        | Some b => if b <=? List.length tried' then None else scan r budget tried' cs'
        | None => scan r budget tried' cs'
        end
  end.

Definition one_pass (cands : list ucand) (r : req) (allow_pre : bool) (budget : option nat) : option dist :=
  match cands with
  | [] => None
  | _ => scan r budget [] (sort_candidates (filter (usable r (has_equality r) allow_pre) cands))
  end.

(* did the scan stop because max_downgrade distinct versions had been tried (the `gave_up` flag of
   do_get_candidate, /repo fix "do not fall back to pre-releases after the downgrade budget is used up")? *)
Fixpoint scan_gave_up (r : req) (budget : option nat) (tried : list version) (cs : list ucand) : bool :=
  match cs with
  | [] => false
  | c :: cs' =>
      if creadable c && String.eqb (norm (cname c)) (norm (safe_name (rname r))) then false
      else
        let v := cand_version c in
        let tried' := if existsb (veqb v) tried then tried else v :: tried in
        match budget with
        | Some b => if b <=? List.length tried' then true else scan_gave_up r budget tried' cs'
        | None => scan_gave_up r budget tried' cs'
        end
  end.
Definition one_pass_gave_up (cands : list ucand) (r : req) (allow_pre : bool) (budget : option nat) : bool :=
  match cands with
  | [] => false
  | _ => scan_gave_up r budget [] (sort_candidates (filter (usable r (has_equality r) allow_pre) cands))
  end.

Definition get_dist (u : universe) (repo_allow_pre : bool) (r : req) (budget : option nat) : option dist :=
  let cands := match slookup (norm (safe_name (rname r))) u with Some l => l | None => [] end in
  match one_pass cands r repo_allow_pre budget with
  | Some d => Some d
  | None =>
      if (forallb (fun c => is_prerelease (cand_version c)) cands || req_has_prerelease r) && negb repo_allow_pre
         && negb (one_pass_gave_up cands r repo_allow_pre budget)
      then one_pass cands r true budget
      else None
  end.

(* the same with allow_source_dist: source distributions are skipped (without counting towards the
   budget) when the project is marked binary-only *)
Fixpoint scan_src (allow_source : bool) (r : req) (budget : option nat) (tried : list version) (cs : list ucand)
  : option dist :=
  match cs with
  | [] => None
  | c :: cs' =>
      if csdist c && negb allow_source then scan_src allow_source r budget tried cs'
      else if creadable c && String.eqb (norm (cname c)) (norm (safe_name (rname r))) then Some (cdist c)
      else
        let v := cand_version c in
        let tried' := if existsb (veqb v) tried then tried else v :: tried in
        match budget with
        | Some b => if b <=? List.length tried' then None else scan_src allow_source r budget tried' cs'
        | None => scan_src allow_source r budget tried' cs'
        end
  end.

Definition one_pass_src (allow_source : bool) (cands : list ucand) (r : req) (allow_pre : bool) (budget : option nat)
  : option dist :=
  match cands with
  | [] => None
  | _ => scan_src allow_source r budget [] (sort_candidates (filter (usable r (has_equality r) allow_pre) cands))
  end.

Fixpoint scan_src_gave_up (allow_source : bool) (r : req) (budget : option nat) (tried : list version) (cs : list ucand) : bool :=
  match cs with
  | [] => false
  | c :: cs' =>
      if csdist c && negb allow_source then scan_src_gave_up allow_source r budget tried cs'
      else if creadable c && String.eqb (norm (cname c)) (norm (safe_name (rname r))) then false
      else
        let v := cand_version c in
        let tried' := if existsb (veqb v) tried then tried else v :: tried in
        match budget with
        | Some b => if b <=? List.length tried' then true else scan_src_gave_up allow_source r budget tried' cs'
        | None => scan_src_gave_up allow_source r budget tried' cs'
        end
  end.
Definition one_pass_src_gave_up (allow_source : bool) (cands : list ucand) (r : req) (allow_pre : bool) (budget : option nat) : bool :=
  match cands with
  | [] => false
  | _ => scan_src_gave_up allow_source r budget [] (sort_candidates (filter (usable r (has_equality r) allow_pre) cands))
  end.

Definition get_dist_src (allow_source : bool) (u : universe) (repo_allow_pre : bool) (r : req) (budget : option nat)
  : option dist :=
  let cands := match slookup (norm (safe_name (rname r))) u with Some l => l | None => [] end in
  match one_pass_src allow_source cands r repo_allow_pre budget with
  | Some d => Some d
  | None =>
      if (forallb (fun c => is_prerelease (cand_version c)) cands || req_has_prerelease r) && negb repo_allow_pre
         && negb (one_pass_src_gave_up allow_source cands r repo_allow_pre budget)
      then one_pass_src allow_source cands r true budget
      else None
  end.

(* MultiRepository.get_dist over a stack of repositories (each with its own allow_prerelease
   setting): the first one that answers wins, NoCandidate falls through to the next *)
Definition repo_stack := list (universe * bool).
Fixpoint get_dist_stack (rs : repo_stack) (r : req) (budget : option nat) : option dist :=
  match rs with
  | [] => None
  | (u, ap) :: rs' =>
      match get_dist u ap r budget with
      | Some d => Some d
      | None => get_dist_stack rs' r budget
      end
  end.

Fixpoint get_dist_stack_src (allow_source : bool) (rs : repo_stack) (r : req) (budget : option nat) : option dist :=
  match rs with
  | [] => None
  | (u, ap) :: rs' =>
      match get_dist_src allow_source u ap r budget with
      | Some d => Some d
      | None => get_dist_stack_src allow_source rs' r budget
      end
  end.

(* ---- compile_roots ---- *)
Inductive sres :=
| SOk (g : graph)
| SNoCand (g : graph) (name : string) (spec : list clause)
| SFatal (e : err).

Definition lift (x : res graph) (k : graph -> sres) : sres :=
  match x with Rok g => k g | Rer e => SFatal e end.
Definition liftA {A} (x : res A) (k : A -> sres) : sres :=
  match x with Rok a => k a | Rer e => SFatal e end.

Record copts := mkO {
  o_pinned : list (string * req);      (* options.pinned_requirements (empty = falsy) *)
  o_allow_circular : bool;
  o_only_binary_all : bool;            (* --only-binary :all: *)
  o_only_binary : list string;         (* normalised project names marked binary-only *)
  o_extras : list string               (* options.extras: extras applied automatically to source-tree projects *)
}.

(* a SourceRepository layer: every candidate's metadata has a SourceRepository as origin *)
Definition mark_source (u : universe) : universe :=
  map (fun kc => (fst kc, map (fun c => mkCand (cname c)
                                          (mkDist (dname (cdist c)) (dversion (cdist c)) (dvtext (cdist c)) (dreqs (cdist c)) (dmeta (cdist c)) true)
                                          (creadable c) (csdist c)) (snd kc))) u.

Definition GFUEL : nat := 400.

Fixpoint insert_key (g : graph) (x : nat) (l : list nat) : list nat :=
  match l with
  | [] => [x]
  | y :: l' =>
      let kx := match alookup x (heap g) with Some n => nkey n | None => EmptyString end in
      let ky := match alookup y (heap g) with Some n => nkey n | None => EmptyString end in
      if str_leb ky kx then y :: insert_key g x l' else x :: l
  end.
(* sorted(nodes): by key, stable *)
Definition sort_nodes (g : graph) (l : list nat) : list nat := fold_left (fun acc x => insert_key g x acc) l [].

Definition digit (n : nat) : ascii := ascii_of_nat (48 + n).
Fixpoint string_of_nat_fuel (fuel n : nat) (acc : string) : string :=
  match fuel with
  | O => acc
  | S f => let acc' := String (digit (n mod 10)) acc in
           match n / 10 with O => acc' | q => string_of_nat_fuel f q acc' end
  end.
Definition string_of_nat (n : nat) : string := string_of_nat_fuel (S n) n EmptyString.

(* str(node) for a solved, non-meta node: "name[extras]==version" *)
Definition node_str (g : graph) (id : nat) : res string :=
  n <- getn g id ;;
  match nmeta n with
  | None => Rok (nkey n ++ " [UNSOLVED]")%string
  | Some d =>
      if dmeta d then Rok (dname d) else
      xs <- node_extras g id ;;
      Rok (dname d ++ (match xs with [] => "" | _ => "[" ++ join "," xs ++ "]" end) ++ "==" ++ dvtext d)%string
  end.

Definition set_complete (g : graph) (id : nat) (b : bool) : graph :=
  match alookup id (heap g) with
  | Some n => setn g id (mkNode (nkey n) (nmeta n) (ndeps n) (nrdeps n) b)
  | None => g
  end.

Fixpoint bump (id : nat) (l : list (nat * nat)) : list (nat * nat) :=
  match l with
  | [] => [(id, 1)]
  | (k, c) :: l' => if Nat.eqb k id then (k, S c) :: l' else (k, c) :: bump id l'
  end.
Fixpoint insert_score (x : nat * nat) (l : list (nat * nat)) : list (nat * nat) :=
  match l with
  | [] => [x]
  | y :: l' => if snd y <=? snd x then y :: insert_score x l' else x :: l
  end.
Definition sort_scores (l : list (nat * nat)) : list (nat * nat) :=
  fold_left (fun acc x => insert_score x acc) l [].

(* the violate-score loop over sorted(node.reverse_deps) *)
Fixpoint score_pairs (e : env) (g : graph) (id : nat) (rev : nat) (nexts : list nat)
         (acc : list (nat * nat)) : res (list (nat * nat)) :=
  match nexts with
  | [] => Rok acc
  | nx :: nexts' =>
      rn <- getn g rev ;; nn <- getn g nx ;;
      match alookup id (ndeps rn), alookup id (ndeps nn) with
      | Some r1, Some r2 =>
          m <- lift_merge (merge r1 r2) ;;     (* merge None None -> AssertionError (fatal) *)
          match is_possible (rspec m) with
          | PValueError => Rer EValueDeep
          | PAmbiguous => Rer EAmbiguous
          | PTrue => score_pairs e g id rev nexts' acc
          | PFalse =>
              _ <- build_constraints e g id ;;    (* evaluated eagerly as a logging argument *)
              score_pairs e g id rev nexts' (bump nx (bump rev acc))
          end
      | _, _ => Rer EKey
      end
  end.
Fixpoint score_all (e : env) (g : graph) (id : nat) (nodes : list nat) (acc : list (nat * nat))
  : res (list (nat * nat)) :=
  match nodes with
  | [] => Rok acc
  | rv :: rest => acc' <- score_pairs e g id rv rest acc ;; score_all e g id rest acc'
  end.

Definition first_blameable (g : graph) (l : list (nat * nat)) : option nat :=
  match filter (fun p => match alookup (fst p) (heap g) with
                         | Some n => match nmeta n with Some d => negb (dmeta d) | None => false end
                         | None => false end) l with
  | [] => None
  | p :: _ => Some (fst p)
  end.

Fixpoint remove_all (g : graph) (ids : list nat) : res graph :=
  match ids with
  | [] => Rok g
  | id :: ids' => g' <- remove_dists GFUEL g id true ;; remove_all g' ids'
  end.

Definition is_replaced (g : graph) (id : nat) (n : node) : bool :=
  match slookup (nkey n) (index g) with
  | Some id' => negb (Nat.eqb id id')
  | None => false
  end.

Fixpoint compile_roots (fuel : nat) (e : env) (u : repo_stack) (o : copts) (g : graph) (id : nat)
         (source : option nat) (depth : nat) (maxdg : nat) (path : list nat) : sres :=
  match fuel with
  | O => SFatal EFuel
  | S f =>
    liftA (getn g id) (fun n =>
    if is_replaced g id n then SOk g
    else match nmeta n with
    | Some _ =>
        if ncomplete n then SOk g
        else if max_compile_depth <? depth then SFatal EValueDeep
        else
          let body :=
            fold_left
              (fun acc d =>
                 match acc with
                 | SOk ga =>
                     if nmem d path then
                       (if o_allow_circular o then SOk ga else SFatal EValueCircular)
                     else compile_roots f e u o ga d (Some id) (S depth) maxdg (nadd id path)
                 | other => other
                 end)
              (sort_nodes g (map fst (ndeps n))) (SOk g) in
          match body with
          | SOk g' => SOk (set_complete g' id true)
          | SNoCand g' nm sp =>
              match maxdg with
              | O => SNoCand g' nm sp
              | _ => compile_roots f e u o g' id source depth 0 path
              end
          | SFatal er => SFatal er
          end
    | None =>
        let attempt : sres :=
          liftA (build_constraints e g id) (fun spec0 =>
          let spec_name := norm (safe_name (rname spec0)) in
          liftA (match o_pinned o with
                 | [] => Rok spec0
                 | _ => lift_merge (merge (Some spec0)
                                          (Some (match slookup spec_name (o_pinned o) with
                                                 | Some p => p | None => spec0 end)))
                 end) (fun spec_req =>
          let g := log_event g ("query " ++ nkey n ++ " clauses=" ++ string_of_nat (List.length (rspec spec_req)) ++ " maxdg=" ++ string_of_nat maxdg)%string in
          match get_dist_stack_src (negb (o_only_binary_all o || smem spec_name (o_only_binary o))) u spec_req (Some maxdg) with
          | None => SNoCand (log_event g "  -> none") (safe_name (rname spec_req)) (rspec spec_req)
          | Some md =>
              let g := log_event g ("  -> " ++ dname md ++ " " ++ dvtext md)%string in
              liftA (match source with
                     | None => Rok None
                     | Some s => sn <- getn g s ;;
                                 Rok (match alookup id (ndeps sn) with Some r => r | None => None end)
                     end) (fun reason0 =>
              (* compile-wide extras: merged into the edge reason when the distribution just acquired comes from a source tree *)
              liftA (match reason0, o_extras o with
                     | Some r, _ :: _ =>
                         if dsource md then
                           m <- lift_merge (merge (Some r) (Some (mkReq (safe_name (rname r)) (o_extras o) [] None))) ;; Rok (Some m)
                         else Rok reason0
                     | _, _ => Rok reason0
                     end) (fun reason =>
              liftA (add_dist GFUEL e g (dname md) (Some md) source reason) (fun '(g1, nodes) =>
              fold_left
                (fun acc rn =>
                   match acc with
                   | SOk ga => compile_roots f e u o ga rn source (S depth) maxdg path
                   | other => other
                   end)
                (sort_nodes g1 nodes) (SOk g1))))
          end)) in
        match attempt with
        | SOk g' => SOk g'
        | SFatal er => SFatal er
        | SNoCand g' nm sp =>
            match maxdg with
            | O => SNoCand g' nm sp
            | S maxdg' =>
                liftA (getn g' id) (fun n' =>
                let nodes := sort_nodes g' (nrdeps n') in
                liftA (score_all e g' id nodes []) (fun scores =>
                match first_blameable g' (sort_scores scores) with
                | None => SNoCand g' nm sp
                | Some bad =>
                    liftA (getn g' bad) (fun bn =>
                    match nmeta bn with
                    | None => SFatal EAssert
                    | Some bm =>
                        liftA (node_str g' bad) (fun bstr =>
                        let bname := ("#bad#-" ++ bstr ++ "-" ++ string_of_nat depth)%string in
                        let g' := log_event g' ("walk-back at " ++ nkey n' ++ " blames " ++ bname)%string in
                        let bver := match dversion bm with Some v => v | None => mkV 0 [0%N] None None None [] end in
                        let bd := mkDist bname (Some (mkV 0 [0%N; 0%N; 0%N] None None None [])) "0.0.0"
                                         [mkReq (dname bm) [] [mkC ONe bver false] None] true false in
                        lift (remove_dists GFUEL g' bad false) (fun g1 =>
                        let g1 := set_complete g1 bad false in
                        lift (remove_dists GFUEL g1 id false) (fun g2 =>
                        let g2 := set_complete g2 id false in
                        liftA (add_dist GFUEL e g2 bname (Some bd) None None) (fun '(g3, bnodes) =>
                        let body :=
                          match compile_roots f e u o g3 id None depth maxdg' path with
                          | SOk g4 => compile_roots f e u o g4 bad None depth maxdg' path
                          | other => other
                          end in
                        (* finally: dists.remove_dists(bad_constraints, remove_upstream=True) *)
                        match body with
                        | SOk g5 => lift (remove_all g5 bnodes) SOk
                        | SNoCand g5 nm' sp' => lift (remove_all g5 bnodes) (fun g6 => SNoCand g6 nm' sp')
                        | SFatal er => SFatal er
                        end))))
                    end)
                end))
            end
        end
    end)
  end.

(* ---- perform_compile ---- *)
(* node.metadata is None, read from the node object (which may have left the index) *)
Definition unsolved (g : graph) (id : nat) : bool :=
  match alookup id (heap g) with
  | Some n => match nmeta n with None => true | Some _ => false end
  | None => false
  end.

Definition is_pinned_req (r : req) : bool := has_equality r.

(* pinned_requirements[key] = merge_requirements(pinned_requirements.get(key), req) *)
Fixpoint add_pins (rs : list req) (pins : list (string * req)) : res (list (string * req)) :=
  match rs with
  | [] => Rok pins
  | r :: rs' =>
      let k := norm (safe_name (rname r)) in
      m <- lift_merge (merge (slookup k pins) (Some r)) ;;
      add_pins rs' (if existsb (fun p => String.eqb (fst p) k) pins
                    then map (fun p => if String.eqb (fst p) k then (k, m) else p) pins
                    else pins ++ [(k, m)])
  end.

Fixpoint collect_pins (cons : list dist) (all_pinned : bool) (pins : list (string * req))
  : res (bool * list (string * req)) :=
  match cons with
  | [] => Rok (all_pinned, pins)
  | c :: cons' =>
      let ap := all_pinned && forallb is_pinned_req (dreqs c) in
      pins' <- (if ap then add_pins (dreqs c) pins else Rok pins) ;;
      collect_pins cons' ap pins'
  end.

Fixpoint add_containers (e : env) (g : graph) (cs : list dist) (acc : list nat) : res (graph * list nat) :=
  match cs with
  | [] => Rok (g, acc)
  | c :: cs' =>
      '(g', ns) <- add_dist GFUEL e g (dname c) (Some c) None None ;;
      add_containers e g' cs' (fold_left (fun a x => nadd x a) ns acc)
  end.

(* /repo fix "a walk-back that gives up no longer leaves a required project unsolved": after the loop over the roots,
   every project reachable from the inputs that is still without a solution is solved again without any downgrade
   budget (which reports the real conflict) ... *)
Fixpoint resolve_loop (k fuel : nat) (e : env) (u : repo_stack) (o : copts) (roots : list nat)
         (retried : list nat) (g : graph) : sres :=
  match k with
  | O => SFatal EFuel
  | S k' =>
      (* pending = [node for node in sorted(results.visit_nodes(roots)) if node.metadata is None and node not in retried] *)
      match filter (fun nd => unsolved g nd && negb (nmem nd retried)) (sort_nodes g (visit_nodes g roots)) with
      | [] => SOk g
      | nd :: _ =>
          match compile_roots fuel e u o g nd None 1 resolve_pass_budget [] with
          | SOk g' => resolve_loop k' fuel e u o roots (nd :: retried) g'
          | other => other
          end
      end
  end.
Definition resolve_unsolved (fuel : nat) (e : env) (u : repo_stack) (o : copts) (roots : list nat) (r : sres) : sres :=
  match r with
  | SOk g2 => resolve_loop fuel fuel e u o roots [] g2
  | other => other
  end.
(* ... and a result that still lacks a required project is a NoCandidate failure for that project *)
Definition check_solved (e : env) (roots : list nat) (r : sres) : sres :=
  match r with
  | SOk g3 =>
      match filter (unsolved g3) (sort_nodes g3 (visit_nodes g3 roots)) with
      | [] => SOk g3
      | nd :: _ => liftA (build_constraints e g3 nd) (fun spec => SNoCand g3 (safe_name (rname spec)) (rspec spec))
      end
  | other => other
  end.

Inductive cres :=
| COk (g : graph) (roots : list nat)
| CNoCand (g : graph) (name : string) (spec : list clause)
| CFatal (e : err).

Definition perform_compile_stack_x (fuel : nat) (e : env) (u : repo_stack) (inputs : list dist)
           (constraints : option (list dist)) (remove_constraints : bool)
           (maxdg : option nat) (ob_all : bool) (ob : list string) (extras : list string) : cres :=
  match (match constraints with Some cs => collect_pins cs true [] | None => Rok (true, []) end) with
  | Rer er => CFatal er
  | Rok (all_pinned, pins) =>
  match (match constraints with
         | Some cs => if all_pinned then Rok (empty_graph, []) else add_containers e empty_graph cs []
         | None => Rok (empty_graph, []) end) with
  | Rer er => CFatal er
  | Rok (g0, cnodes) =>
    match add_containers e g0 inputs [] with
    | Rer er => CFatal er
    | Rok (g1, roots) =>
      let nodes := fold_left (fun a x => nadd x a) roots cnodes in
      let has_cons := match constraints with Some (_ :: _) => true | _ => false end in
      let o := mkO (if all_pinned && has_cons then pins else []) true ob_all ob extras in
      let md := match maxdg with Some m => m | None => max_downgrade end in
      let run :=
        fold_left
          (fun acc nd =>
             match acc with
             | SOk ga => compile_roots fuel e u o ga nd None 1 md []
             | other => other
             end)
          (sort_nodes g1 nodes) (SOk g1) in
      let run := check_solved e roots (resolve_unsolved fuel e u o roots run) in
      let add_cons (g : graph) : res graph :=
        if remove_constraints then Rok g else
        match constraints with
        | Some cs => if all_pinned then '(g', _) <- add_containers e g cs [] ;; Rok g' else Rok g
        | None => Rok g
        end in
      match run with
      | SOk g2 => match add_cons g2 with Rok g3 => COk g3 roots | Rer er => CFatal er end
      | SNoCand g2 nm sp => match add_cons g2 with Rok g3 => CNoCand g3 nm sp | Rer er => CFatal er end
      | SFatal er => CFatal er
      end
    end
  end
  end.

(* extras=None (what every caller but `--extra` uses) *)
Definition perform_compile_stack_ob (fuel : nat) (e : env) (u : repo_stack) (inputs : list dist)
           (constraints : option (list dist)) (remove_constraints : bool)
           (maxdg : option nat) (ob_all : bool) (ob : list string) : cres :=
  perform_compile_stack_x fuel e u inputs constraints remove_constraints maxdg ob_all ob [].

Definition perform_compile_stack (fuel : nat) (e : env) (u : repo_stack) (inputs : list dist)
           (constraints : option (list dist)) (remove_constraints : bool)
           (maxdg : option nat) : cres :=
  perform_compile_stack_ob fuel e u inputs constraints remove_constraints maxdg false [].

(* one repository *)
Definition perform_compile (fuel : nat) (e : env) (u : universe) (inputs : list dist)
           (constraints : option (list dist)) (remove_constraints : bool)
           (repo_allow_pre : bool) (maxdg : option nat) : cres :=
  perform_compile_stack fuel e [(u, repo_allow_pre)] inputs constraints remove_constraints maxdg.

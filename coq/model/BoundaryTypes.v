(* C09 - the error boundary: Python exception classes, which handler class catches which, and what a
   chain of `except` clauses does with an exception.  The handler tables themselves are generated
   from /repo by harness/tr_boundary.py (gen/BoundaryConsts.v). *)
From Coq Require Import List Bool.
Import ListNotations.

(* exception classes as far as the boundary can tell them apart (by their position in the class tree) *)
Inductive exc :=
| EValueError        (* ValueError and subclasses other than RepositoryInitializationError (InvalidRequirement, InvalidVersion, ...) *)
| ERepoInit          (* RepositoryInitializationError(ValueError) *)
| ETypeError | EIndexError | EKeyError | EAttributeError | EAssertionError | EOSError
| ENoCandidate | EMetadata   (* req_compile.errors, subclasses of Exception *)
| EOtherException    (* any other subclass of Exception *)
| EBaseOnly.         (* KeyboardInterrupt, SystemExit, GeneratorExit: BaseException but not Exception *)

Inductive hcls :=
| HBaseException | HException | HValueError | HRepoInit | HTypeError | HIndexError | HKeyError | HLookupError
| HAttributeError | HAssertionError | HOSError | HNoCandidate | HMetadata.

Definition catches (h : hcls) (e : exc) : bool :=
  match h, e with
  | HBaseException, _ => true
  | HException, EBaseOnly => false
  | HException, _ => true
  | HValueError, (EValueError | ERepoInit) => true
  | HRepoInit, ERepoInit => true
  | HTypeError, ETypeError => true
  | HIndexError, EIndexError => true
  | HKeyError, EKeyError => true
  | HLookupError, (EIndexError | EKeyError) => true
  | HAttributeError, EAttributeError => true
  | HAssertionError, EAssertionError => true
  | HOSError, EOSError => true
  | HNoCandidate, ENoCandidate => true
  | HMetadata, EMetadata => true
  | _, _ => false
  end.

Inductive action := Reraise | RaiseAs (e : exc) | ExitWith (code : nat).
Inductive result := Exits (code : nat) | Propagates (e : exc).

(* one try statement: the first clause that catches decides; what a clause raises leaves this try *)
Fixpoint handle (hs : list (list hcls * action)) (e : exc) : result :=
  match hs with
  | [] => Propagates e
  | (cls, act) :: rest =>
      if existsb (fun h => catches h e) cls then
        match act with Reraise => Propagates e | RaiseAs e' => Propagates e' | ExitWith n => Exits n end
      else handle rest e
  end.

Definition andthen (r : result) (k : exc -> result) : result :=
  match r with Exits n => Exits n | Propagates e => k e end.

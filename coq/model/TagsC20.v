(* C20 - model of the tag predicates, the manylinux policy, tag_score / sortkey / sort_candidates /
   check_usability of req_compile/repos/repository.py, and the specification [sys_tags] (the
   PEP 425 / PEP 600 supported-tag generation rule for CPython on glibc Linux, as implemented by
   packaging.tags.sys_tags; validated against packaging by T2).

   Strings are byte strings; the model is faithful for ASCII tags (T2 generates ASCII only).
   Constants come from gen/ConstsC20.v (regenerated from /repo on every run). *)
From Coq Require Import List String Ascii ZArith NArith Bool DecimalString.
From RC Require Import lib.PyStr lib.Lex lib.Pep440 model.TypesC20 gen.ConstsC20.
Import ListNotations.
Open Scope string_scope.

Inductive exn := IndexError.
Inductive res (A : Type) := Ok (a : A) | Err (e : exn).
Arguments Ok {A} a.
Arguments Err {A} e.

(* ---------------------------------------------------------------- small helpers *)

Fixpoint assoc {B : Type} (k : string) (l : list (string * B)) : option B :=
  match l with
  | [] => None
  | (k', v) :: l' => if String.eqb k k' then Some v else assoc k l'
  end.

Definition mem (a : string) (l : list string) : bool := existsb (String.eqb a) l.

Fixpoint index_of (a : string) (l : list string) : option Z :=
  match l with
  | [] => None
  | b :: l' => if String.eqb a b then Some 0%Z
               else match index_of a l' with Some i => Some (i + 1)%Z | None => None end
  end.

Fixpoint dedup (l : list string) : list string :=
  match l with
  | [] => []
  | a :: l' => if mem a l' then dedup l' else a :: dedup l'
  end.

Definition ord (c : ascii) : Z := Z.of_nat (nat_of_ascii c).
Fixpoint codes (s : string) : list Z :=
  match s with EmptyString => [] | String c s' => ord c :: codes s' end.

(* decimal rendering / parsing (Coq's own decimal library) *)
Definition dec (n : N) : string := NilEmpty.string_of_uint (N.to_uint n).
Definition digits_value (s : string) : option N :=
  match s with
  | EmptyString => None
  | _ => match NilEmpty.uint_of_string s with Some d => Some (N.of_uint d) | None => None end
  end.

Fixpoint span_digits (s : string) : string * string :=
  match s with
  | String c s' => if is_digit c then let (d, r) := span_digits s' in (String c d, r)
                   else (EmptyString, s)
  | EmptyString => (EmptyString, EmptyString)
  end.

Fixpoint upto_newline (s : string) : string :=
  match s with
  | String c s' => if Nat.eqb (nat_of_ascii c) 10 then EmptyString else String c (upto_newline s')
  | EmptyString => EmptyString
  end.

Fixpoint strip_prefix (p s : string) : option string :=
  match p, s with
  | EmptyString, _ => Some s
  | String a p', String b s' => if Ascii.eqb a b then strip_prefix p' s' else None
  | String _ _, EmptyString => None
  end.

(* ---------------------------------------------------------------- Python int(str) on ASCII *)

Definition us : ascii := "_"%char.
Fixpoint us_ok_aux (prev_us : bool) (s : string) : bool :=
  match s with
  | EmptyString => negb prev_us
  | String c s' => if Ascii.eqb c us then negb prev_us && us_ok_aux true s' else us_ok_aux false s'
  end.
Definition us_ok (s : string) : bool := us_ok_aux true s.
Fixpoint remove_us (s : string) : string :=
  match s with
  | EmptyString => EmptyString
  | String c s' => if Ascii.eqb c us then remove_us s' else String c (remove_us s')
  end.

(* int(s): surrounding white space, one optional sign, decimal digits with single underscores
   between digits; None = ValueError *)
(* int() skips only the C-locale white space (9-13, 32) around an ASCII string; 28-31, which
   str.strip() would remove, are errors *)
Definition is_cspace (c : ascii) : bool :=
  let n := nat_of_ascii c in Nat.eqb n 32 || (Nat.leb 9 n && Nat.leb n 13).
Definition py_int (s : string) : option Z :=
  let s1 := rstrip_by is_cspace (lstrip_by is_cspace s) in
  let '(neg, body) :=
    match s1 with
    | String c r => if Ascii.eqb c "-"%char then (true, r)
                    else if Ascii.eqb c "+"%char then (false, r) else (false, s1)
    | EmptyString => (false, s1)
    end in
  if us_ok body then
    match digits_value (remove_us body) with
    | Some n => Some (if neg then (- Z.of_N n)%Z else Z.of_N n)
    | None => None
    end
  else None.

(* ---------------------------------------------------------------- _impl_major_minor *)

Definition impl_major_minor (s : string) : string * Z * Z :=
  match s with
  | EmptyString => (EmptyString, 0%Z, 0%Z)                       (* impl[0]: IndexError *)
  | String a EmptyString =>
      if is_alpha_ascii a then (s, 0%Z, 0%Z)                     (* impl[1]: IndexError *)
      else ("xx", 0%Z, 0%Z)                                      (* py_version[2]: IndexError *)
  | String a (String b rest) =>
      let impl := if negb (is_alpha_ascii a) || negb (is_alpha_ascii b) then "xx"
                  else String a (String b EmptyString) in
      match rest with
      | EmptyString => (impl, 0%Z, 0%Z)                          (* py_version[2]: IndexError *)
      | String c rest' =>
          match py_int (String c EmptyString) with
          | None => (impl, 0%Z, 0%Z)                             (* ValueError: minor never read *)
          | Some M => match py_int rest' with
                      | None => (impl, M, 0%Z)
                      | Some m => (impl, M, m)
                      end
          end
      end
  end.

(* ---------------------------------------------------------------- utils.get_glibc_version *)

(* the part after gnu_get_libc_version(): [int(piece) for piece in version_str.split(".")],
   assert len(version) == 2.  None = the symbol does not exist (not glibc). *)
Inductive glibc_res := GOk (v : option (Z * Z)) | GValueError | GAssertionError.
Fixpoint ints_of (l : list string) : option (list Z) :=
  match l with
  | [] => Some []
  | s :: l' => match py_int s, ints_of l' with Some z, Some zs => Some (z :: zs) | _, _ => None end
  end.
Definition glibc_version_of (sym : option string) : glibc_res :=
  match sym with
  | None => GOk None
  | Some str =>
      match ints_of (split_char "."%char str) with
      | None => GValueError
      | Some [a; b] => GOk (Some (a, b))
      | Some _ => GAssertionError
      end
  end.

(* ---------------------------------------------------------------- configuration *)

Record cfg := mkCfg {
  c_impl : string;            (* INTERPRETER_TAG *)
  c_major : Z;                (* sys.version_info.major *)
  c_minor : Z;                (* sys.version_info.minor *)
  c_abi_tags : list string;   (* ABI_TAGS *)
  c_platform_tags : list string;  (* PLATFORM_TAGS *)
  c_glibc : option (N * N);   (* get_glibc_version() *)
  c_arch : string             (* get_system_arch() *)
}.

Definition is_py_version_compatible (c : cfg) (s : string) : bool :=
  let '(impl, M, m) := impl_major_minor s in
  (String.eqb impl "py" || String.eqb impl (c_impl c)) && (Z.eqb M (c_major c) && Z.leb m (c_minor c)).

Definition py_version_score (s : string) : res Z :=
  let '(impl, M, m) := impl_major_minor s in
  let impl_score :=
    match assoc impl impl_score_defaults with
    | Some v => Ok v
    | None => match impl with
              | String a (String b _) => Ok (Z.lor (Z.shiftl (ord a) shift_ord0) (ord b))
              | _ => Err IndexError                               (* ord(impl[0]) / ord(impl[1]) *)
              end
    end in
  match impl_score with
  | Ok v => Ok (Z.lor (Z.lor v (Z.shiftl M shift_major)) (Z.shiftl m shift_minor))
  | Err e => Err e
  end.

(* WheelVersionTags *)
Definition py_compat (c : cfg) (l : list string) : bool :=
  match l with [] => true | _ => existsb (is_py_version_compatible c) l end.

Fixpoint max_scores (l : list string) (acc : Z) : res Z :=
  match l with
  | [] => Ok acc
  | s :: l' => match py_version_score s with
               | Ok v => max_scores l' (Z.max acc v)
               | Err e => Err e
               end
  end.
Definition wheel_tags_score (l : list string) : res Z :=
  match l with
  | [] => Ok 0%Z
  | s :: l' => match py_version_score s with Ok v => max_scores l' v | Err e => Err e end
  end.

(* ---------------------------------------------------------------- manylinux policy *)

(* how a platform tag is re-spelled before MANYLINUX_REGEX is matched (gen: alias_mode_usability, alias_mode_score):
   ATable  = LEGACY_ALIASES.get(tag, tag)            (full tag -> full tag; x86_64 / i686 only)
   APrefix = _normalize_manylinux(tag)               (tag.partition("_"), prefix table: any machine)
   ANone   = not at all *)
Definition alias_with (m : amode) (p : string) : string :=
  match m with
  | ANone => p
  | ATable => match assoc p legacy_aliases with Some q => q | None => p end
  | APrefix =>
      match partition_char "_"%char p with
      | (legacy, true, arch) =>
          match assoc legacy legacy_manylinux with Some q => q ++ "_" ++ arch | None => p end
      | _ => p
      end
  end.
Definition alias (p : string) : string := alias_with alias_mode_usability p.      (* check_usability side *)
Definition alias_score (p : string) : string := alias_with alias_mode_score p.     (* tag_score side *)

(* re.match(MANYLINUX_REGEX, s).groups() with the first two groups converted by int() *)
Definition manylinux_prefix : string := "manylinux_".
Definition manylinux_parse (s : string) : option (N * N * string) :=
  match strip_prefix manylinux_prefix s with
  | None => None
  | Some r =>
      let (d1, r1) := span_digits r in
      match digits_value d1, r1 with
      | Some a, String u1 r2 =>
          if Ascii.eqb u1 us then
            let (d2, r3) := span_digits r2 in
            match digits_value d2, r3 with
            | Some b, String u2 r4 => if Ascii.eqb u2 us then Some (a, b, upto_newline r4) else None
            | _, _ => None
            end
          else None
      | _, _ => None
      end
  end.

Definition pair_ltb (x y : N * N) : bool :=
  (fst x <? fst y)%N || ((fst x =? fst y)%N && (snd x <? snd y)%N).

Definition manylinux_compatible (c : cfg) (tag : string) : bool :=
  match c_glibc c with
  | None => false
  | Some g =>
      match manylinux_parse (alias tag) with
      | None => false
      | Some (a, b, arch) =>
          if pair_ltb g (a, b) then false
          else String.eqb (c_arch c) arch       (* no _manylinux override module: ASSUMPTIONS *)
      end
  end.

Definition check_platform (c : cfg) (plats : list string) : bool :=
  mem "any" plats
  || existsb (fun p => mem (lower p) (c_platform_tags c)) plats
  || existsb (manylinux_compatible c) plats.

(* _check_abi_compatibility: since c54d5f0 the ABI field is a PEP 425 compressed tag set
   (gen: abi_test_compressed); before, it was compared as one string *)
Definition dot : ascii := "."%char.
Definition check_abi (c : cfg) (abi : string) : bool :=
  if abi_test_compressed
  then existsb (fun t => String.eqb t "none" || mem t (c_abi_tags c)) (split_char dot abi)
  else mem abi (c_abi_tags c).

(* ---------------------------------------------------------------- candidates *)

Record cand := mkCand {
  k_id : N;                       (* identity of the object (link); not looked at by the model *)
  k_version : version;
  k_extra : string;               (* extra_sort_info: the wheel's build tag, "" otherwise *)
  k_type : dist_type;
  k_py : option (list string);    (* py_version: None, or the WheelVersionTags set (iteration order) *)
  k_abi : option string;
  k_plats : list string;          (* the platforms set, in iteration order *)
  k_filename : option string
}.

Definition plat_step (c : cfg) (acc : Z) (p : string) : Z :=
  if String.eqb p "any" then (if any_resets then 0%Z else Z.max acc 0%Z) else
  let p' := alias_score p in
  match manylinux_parse p' with
  | Some (a, b, _) => Z.max acc ((Z.of_N a * 10 + Z.of_N b) * 100)%Z
  | None =>
      match index_of (lower p') (c_platform_tags c) with
      | Some i => Z.max acc ((Z.of_nat (List.length (c_platform_tags c)) - i) * 100)%Z
      | None => acc                                              (* ValueError: pass *)
      end
  end.

Definition plat_score (c : cfg) (plats : list string) : Z :=
  let s := fold_left (plat_step c) plats (-1)%Z in
  if (0 <? s)%Z then (s + Z.of_nat (List.length plats))%Z else s.

(* max((ABI_TAGS.index(tag) for tag in abi.split(".") if tag in ABI_TAGS), default=0) since c54d5f0
   (gen: abi_score_compressed); ABI_TAGS.index(abi) / ValueError -> 0 before *)
Definition abi_score (c : cfg) (abi : option string) : Z :=
  match abi with
  | None => 0%Z
  | Some a =>
      if abi_score_compressed
      then fold_left Z.max
             (flat_map (fun t => match index_of t (c_abi_tags c) with Some i => [i] | None => [] end)
                       (split_char dot a)) 0%Z
      else match index_of a (c_abi_tags c) with Some i => i | None => 0%Z end
  end.

Definition extra_score (fn : option string) : Z :=
  match fn with Some f => if containsb " " f then 0%Z else 1%Z | None => 1%Z end.

Definition tag_score (c : cfg) (k : cand) : res (list Z) :=
  match (match k_py k with Some l => wheel_tags_score l | None => Ok 0%Z end) with
  | Err e => Err e
  | Ok py =>
      Ok (map (fun f => match f with
                        | TPy => py
                        | TPlat => plat_score c (k_plats k)
                        | TAbi => abi_score c (k_abi k)
                        | TExtra => extra_score (k_filename k)
                        end) tagscore_fields)
  end.

Definition sortkey (c : cfg) (k : cand) : res (list (list Z)) :=
  match tag_score c k with
  | Err e => Err e
  | Ok ts =>
      Ok (map (fun f => match f with
                        | FVersion => vkey (k_version k)
                        | FExtra => codes (k_extra k)
                        | FType => [dist_type_value (k_type k)]
                        | FTagScore => ts
                        | FFilename => codes (match k_filename k with Some f => f | None => EmptyString end)
                        end) sortkey_fields)
  end.

(* tuple comparison: lexicographic, each element compared by Lex.lex *)
Fixpoint lex2 (a b : list (list Z)) : comparison :=
  match a, b with
  | [], [] => Eq
  | [], _ :: _ => Lt
  | _ :: _, [] => Gt
  | x :: a', y :: b' => match lex x y with Eq => lex2 a' b' | c => c end
  end.

(* sorted(l, key=key, reverse=...) : stable; [dir] = Gt for reverse=True *)
Section Sort.
  Context {A : Type} (key : A -> list (list Z)) (dir : comparison).
  Definition cmp_is (c d : comparison) : bool :=
    match c, d with Gt, Gt => true | Lt, Lt => true | Eq, Eq => true | _, _ => false end.
  Fixpoint insert_by (x : A) (l : list A) : list A :=
    match l with
    | [] => [x]
    | y :: t => if cmp_is (lex2 (key y) (key x)) dir then y :: insert_by x t else x :: l
    end.
  Definition sort_by (l : list A) : list A := fold_right insert_by [] l.
End Sort.

Definition sortkey_d (c : cfg) (k : cand) : list (list Z) :=
  match sortkey c k with Ok x => x | Err _ => [] end.

Fixpoint first_err (c : cfg) (l : list cand) : option exn :=
  match l with
  | [] => None
  | k :: l' => match sortkey c k with Err e => Some e | Ok _ => first_err c l' end
  end.

Definition sort_dir : comparison := if sort_reverse then Gt else Lt.

Definition sort_candidates (c : cfg) (l : list cand) : res (list cand) :=
  match first_err c l with
  | Some e => Err e
  | None => Ok (sort_by (sortkey_d c) sort_dir l)
  end.

(* ---------------------------------------------------------------- check_usability(req=None, ...) *)

Definition test_fails (c : cfg) (k : cand) (has_equality allow_pre : bool) (r : reason) : bool :=
  match r with
  | WrongPython => match k_py k with Some l => negb (py_compat c l) | None => false end
  | WrongAbi => match k_abi k with Some a => negb (check_abi c a) | None => false end
  | WrongPlatform => negb (check_platform c (k_plats k))
  | IsPrerelease => negb has_equality && negb allow_pre && is_prerelease (k_version k)
  | VersionNoSatisfy => false                                    (* req is None at the observation point *)
  end.

Definition check_usability (c : cfg) (k : cand) (has_equality allow_pre : bool) : option reason :=
  List.find (test_fails c k has_equality allow_pre) usability_order.

(* eligibility as far as the tags are concerned (prerelease test switched off) *)
Definition eligible (c : cfg) (k : cand) : bool :=
  match check_usability c k true true with None => true | Some _ => false end.

(* ---------------------------------------------------------------- wheel file name -> tag sets *)

Definition tagset (field : string) : list string := dedup (split_char dot field).

Definition wheel_cand (id : N) (v : version) (build pyf abif platf : string) (fn : string) : cand :=
  mkCand id v build Wheel (Some (tagset pyf))
         (if String.eqb abif "none" then None else Some abif) (tagset platf) (Some fn).

Definition sdist_cand (id : N) (v : version) (fn : string) : cand :=
  mkCand id v "" Sdist None None ["any"] (Some fn).

(* _wheel_filename_to_candidate, as far as the tags and the build tag are concerned (the version
   string is parsed by C14's model; here it is handed over): basename, [:-4], split("-"),
   fewer than 5 parts -> None, exactly 6 parts -> the third is the build tag and is popped,
   then name = [0], version = [1], python = [2], abi = [3], platform = [4] *)
Definition dash : ascii := "-"%char.
Definition slash : ascii := "/"%char.
Definition drop_last (n : nat) (s : string) : string := rev_str (drop n (rev_str s)).
Definition basename (path : string) : string := last (split_char slash path) EmptyString.

Record wheel_fields := mkWF {
  wf_name : string; wf_version : string; wf_build : string;
  wf_py : string; wf_abi : string; wf_plat : string; wf_file : string }.

Definition wheel_fields_of (filename : string) : option wheel_fields :=
  let base := basename filename in
  match split_char dash (drop_last 4 base) with
  | [n; v; b; p; a; pl] => Some (mkWF n v b p a pl base)
  | n :: v :: p :: a :: pl :: _ => Some (mkWF n v EmptyString p a pl base)
  | _ => None
  end.

Definition wheel_cand_of_filename (id : N) (v : version) (filename : string) : option cand :=
  match wheel_fields_of filename with
  | Some f => Some (wheel_cand id v (wf_build f) (wf_py f) (wf_abi f) (wf_plat f) (wf_file f))
  | None => None
  end.

(* PEP 427: name-version[-build]-python-abi-platform.whl *)
Definition wheel_filename (name ver build pyf abif platf : string) : string :=
  name ++ "-" ++ ver ++ (match build with EmptyString => EmptyString | _ => "-" ++ build end)
       ++ "-" ++ pyf ++ "-" ++ abif ++ "-" ++ platf ++ ".whl".

(* PEP 425: a compressed tag set names the product of its three dotted components *)
Definition tag := (string * string * string)%type.
Definition wheel_has_tag (pyf abif platf : string) (t : tag) : Prop :=
  let '(py, abi, plat) := t in
  In py (split_char dot pyf) /\ In abi (split_char dot abif) /\ In plat (split_char dot platf).
Definition single_abi (abif : string) : Prop := split_char dot abif = [abif].

(* ---------------------------------------------------------------- the specification: sys_tags *)

(* what the interpreter is: CPython major.minor, the two old ABI flags, glibc, machine *)
Record raw := mkRaw {
  r_major : N; r_minor : N;
  r_pymalloc : bool;   (* WITH_PYMALLOC set or unknown (only looked at below 3.8) *)
  r_ucs4 : bool;       (* Py_UNICODE_SIZE == 4 (only looked at below 3.3) *)
  r_glibc : option (N * N);
  r_arch : string
}.

Definition nodot (r : raw) : string := dec (r_major r) ++ dec (r_minor r).
Definition abi_flags (r : raw) : string :=
  (if pair_ltb (r_major r, r_minor r) (3, 8)%N && r_pymalloc r then "m" else "")
  ++ (if pair_ltb (r_major r, r_minor r) (3, 3)%N && r_ucs4 r then "u" else "").
Definition interp_tag : string :=
  match assoc "CPython" interpreter_tags with Some t => t | None => "cp" end.
Definition cp_abi (r : raw) : string := interp_tag ++ nodot r ++ abi_flags r.

(* the module-level constants of repository.py for that interpreter (Linux branch) *)
Definition cfg_of (r : raw) : cfg :=
  mkCfg interp_tag (Z.of_N (r_major r)) (Z.of_N (r_minor r))
        ["abi" ++ dec (r_major r); cp_abi r]
        ["linux_" ++ r_arch r]
        (r_glibc r) (r_arch r).

(* hi, hi-1, ..., lo *)
Definition range_desc (hi lo : N) : list N :=
  map (fun i => (hi - N.of_nat i)%N) (seq 0 (N.to_nat (hi + 1 - lo))).
(* m-1, ..., lo *)
Definition below (m lo : N) : list N := if (m =? 0)%N then [] else range_desc (m - 1) lo.

Definition legacy_arch (a : string) : bool := String.eqb a "x86_64" || String.eqb a "i686".
Definition legacy_name (k : N) : option string :=
  if (k =? 17)%N then Some "manylinux2014" else if (k =? 12)%N then Some "manylinux2010"
  else if (k =? 5)%N then Some "manylinux1" else None.
Definition manylinux_tag (a b : N) (arch : string) : string :=
  "manylinux_" ++ dec a ++ "_" ++ dec b ++ "_" ++ arch.

Definition manylinux_platforms (r : raw) : list string :=
  match r_glibc r with
  | Some (2%N, g) =>
      flat_map (fun k => manylinux_tag 2 k (r_arch r)
                         :: match legacy_name k with Some n => [n ++ "_" ++ r_arch r] | None => [] end)
               (range_desc g (if legacy_arch (r_arch r) then 5 else 17)%N)
  | _ => []
  end.

Definition platforms (r : raw) : list string := ("linux_" ++ r_arch r) :: manylinux_platforms r.

Definition abi3_applies (r : raw) : bool := negb (pair_ltb (r_major r, r_minor r) (3, 2)%N).

Definition cpython_tags (r : raw) : list tag :=
  let P := platforms r in
  let interp := "cp" ++ nodot r in
  map (fun p => (interp, "cp" ++ nodot r ++ abi_flags r, p)) P
  ++ (if abi3_applies r then map (fun p => (interp, "abi3", p)) P else [])
  ++ map (fun p => (interp, "none", p)) P
  ++ (if abi3_applies r then
        flat_map (fun mn => map (fun p => ("cp" ++ dec (r_major r) ++ dec mn, "abi3", p)) P)
                 (below (r_minor r) 2)
      else []).

Definition py_range (r : raw) : list string :=
  ("py" ++ nodot r) :: ("py" ++ dec (r_major r))
  :: map (fun mn => "py" ++ dec (r_major r) ++ dec mn) (below (r_minor r) 0).

Definition compatible_tags (r : raw) : list tag :=
  let P := platforms r in
  flat_map (fun v => map (fun p => (v, "none", p)) P) (py_range r)
  ++ [("cp" ++ nodot r, "none", "any")]
  ++ map (fun v => (v, "none", "any")) (py_range r).

Definition sys_tags (r : raw) : list tag := cpython_tags r ++ compatible_tags r.

(* configurations the specification speaks about *)
Definition wf_arch (a : string) : bool := String.eqb (lower a) a && String.eqb (upto_newline a) a.
Definition wf_raw (r : raw) : bool :=
  ((r_major r =? 2)%N || (r_major r =? 3)%N)
  && wf_arch (r_arch r)
  && match r_glibc r with Some (M, _) => (M =? 2)%N | None => true end.

Definition tag_eqb (a b : tag) : bool :=
  let '(a1, a2, a3) := a in let '(b1, b2, b3) := b in
  String.eqb a1 b1 && String.eqb a2 b2 && String.eqb a3 b3.
Definition mem_tag (t : tag) (l : list tag) : bool := existsb (tag_eqb t) l.

(* C15 - The download cache never serves a damaged file.

   Gallina model of
     req_compile/repos/pypi.py      _scan_page_links (retry on 5xx), _do_download,
                                    PyPIRepository.resolve_candidate
     req_compile/repos/repository.py  Repository.do_get_candidate (the scan that moves on to the
                                    next candidate after a MetadataError)
   The wheel directory is a finite map  file name -> bytes  (bytes = Coq [string]); the server
   is a fault script, one scripted response per request, consumed in order.  [sha] (hex digest
   of a byte string) and [meta] (what extract_metadata does with a file) are Section
   variables: nothing is assumed about them (no injectivity of [sha]).  For extraction and T2
   they are instantiated with [toy_sha] and a finite table [meta_of_table] (trusted base).

   The model reproduces what the code DOES, including: an error status fails the transfer
   before anything is written; NO digest check on a fresh transfer; a fresh file is removed
   again on every failure of extract_metadata; a stream that breaks leaves the partial file
   under the final name. *)
From Coq Require Import List String Ascii NArith Bool Arith.
From RC Require Import lib.PyStr model.CliTypesC15 gen.C15Consts.
Import ListNotations.
Open Scope string_scope.
Open Scope nat_scope.

Definition bytes := string.
Definition fname := string.

(* ---- wheel directory --------------------------------------------------------------- *)
Definition dir := list (fname * bytes).

Fixpoint lookup (d : dir) (f : fname) : option bytes :=
  match d with
  | [] => None
  | (g, b) :: r => if String.eqb g f then Some b else lookup r f
  end.

Fixpoint remove (d : dir) (f : fname) : dir :=
  match d with
  | [] => []
  | (g, b) :: r => if String.eqb g f then remove r f else (g, b) :: remove r f
  end.

(* open(name, "wb") + writes: the file afterwards holds exactly [b] *)
Definition write (d : dir) (f : fname) (b : bytes) : dir := (f, b) :: remove d f.

(* first n bytes *)
Fixpoint take (n : nat) (s : string) : string :=
  match n, s with
  | O, _ => EmptyString
  | S k, EmptyString => EmptyString
  | S k, String c r => String c (take k r)
  end.

(* An earlier run was cut off while it was writing [served] to [f]: the file was created
   (truncated) by open(..., "wb") and some prefix of the byte sequence reached the disk. *)
Definition crashed (d : dir) (f : fname) (served : bytes) (k : nat) : dir :=
  write d f (take k served).

(* ---- server ------------------------------------------------------------------------ *)
Inductive resp :=
| RBody (status : N) (body : bytes)   (* complete response; an error page is a body with status 5xx/4xx *)
| RBreak (status : N) (sent : bytes)  (* the stream breaks after [sent] was delivered *)
| RFail.                               (* session.get raises (connection refused, ...) *)

Inductive exn :=
| ConnectionError | ChunkedEncodingError | HTTPError
| MetadataError | ValueError | OtherError | NoCandidate.

Definition exn_eqb (a b : exn) : bool :=
  match a, b with
  | ConnectionError, ConnectionError | ChunkedEncodingError, ChunkedEncodingError
  | HTTPError, HTTPError | MetadataError, MetadataError | ValueError, ValueError
  | OtherError, OtherError | NoCandidate, NoCandidate => true
  | _, _ => false
  end.

Record world := mkW {
  wdir : dir;               (* wheel directory *)
  wscript : list resp;      (* responses still to be served, in request order *)
  wlog : list string        (* requests seen by the server (resource strings), newest first *)
}.

Definition set_dir (w : world) (d : dir) : world := mkW d (wscript w) (wlog w).

(* result of extract_metadata on a file *)
Inductive mres := MReadable | MMetaErr | MOther.

(* the digest part of a link resource: resource.split("#sha256=")[1] when there is one *)
Definition adv_of (resource : string) : option string :=
  match split_str dl_digest_sep resource with
  | _ :: x :: _ => Some x
  | _ => None
  end.

Inductive dres := DOk (cached : bool) | DExn (e : exn).
Inductive rres := ROk (cached : bool) | RExn (e : exn).

Record cand := mkC {
  cfile : option fname;     (* candidate.filename *)
  cres : string;            (* link resource: "<file>#sha256=<hex>" or without fragment *)
  cver : option N;          (* candidate.version (None = no version) as an opaque id *)
  csdist : bool;            (* candidate.type == SDIST *)
  cname_ok : bool           (* normalised candidate name == normalised requirement name *)
}.

Inductive sres :=
| SOk (c : cand) (cached : bool)
| SExn (e : exn).

Section Cache.
Variable sha : bytes -> string.
Variable meta : fname -> bytes -> mres.

(* requests.Response.raise_for_status *)
Definition raises_for_status (st : N) : bool := N.leb 400 st && N.ltb st 600.

(* pypi.py:219-230: response.raise_for_status() before anything is written (an error answer is
   not the file); no digest check on the fresh transfer *)
Definition transfer (w : world) (fn : fname) (resource : string) : world * dres :=
  let log' := resource :: wlog w in
  match wscript w with
  | [] => (mkW (wdir w) [] log', DExn ConnectionError)
  | RFail :: s => (mkW (wdir w) s log', DExn ConnectionError)
  | RBody st b :: s =>
      if raises_for_status st then (mkW (wdir w) s log', DExn HTTPError)
      else (mkW (write (wdir w) fn b) s log', DOk false)
  | RBreak st b :: s =>
      if raises_for_status st then (mkW (wdir w) s log', DExn HTTPError)
      else (mkW (write (wdir w) fn b) s log', DExn ChunkedEncodingError)
  end.

(* pypi.py:194-217 *)
Definition do_download (w : world) (fn : fname) (resource : string) : world * dres :=
  match adv_of resource, lookup (wdir w) fn with
  | Some a, Some c =>
      if String.eqb (sha c) a then (w, DOk true)
      else transfer (set_dir w (remove (wdir w) fn)) fn resource
  | _, _ => transfer w fn resource
  end.

(* pypi.py:302-330 *)
Definition resolve (w : world) (c : cand) : world * rres :=
  match cfile c with
  | None => (w, RExn ValueError)
  | Some fn =>
      let (w1, r) := do_download w fn (cres c) in
      match r with
      | DExn e => (w1, RExn e)
      | DOk cached =>
          match lookup (wdir w1) fn with
          | None => (w1, RExn OtherError)       (* never happens: see resolve_file_present *)
          | Some content =>
              match meta fn content with
              | MReadable => (w1, ROk cached)
              | MMetaErr =>
                  ((if cached then w1 else set_dir w1 (remove (wdir w1) fn)), RExn MetadataError)
              | MOther =>
                  ((if cached then w1 else set_dir w1 (remove (wdir w1) fn)), RExn OtherError)
              end
          end
      end
  end.

Fixpoint memN (x : N) (l : list N) : bool :=
  match l with [] => false | y :: r => if N.eqb x y then true else memN x r end.
Definition addN (x : N) (l : list N) : list N := if memN x l then l else x :: l.

(* repository.py do_get_candidate, the loop over sort_candidates(filtered): [cs] is that
   sorted list.  [tried] = tried_versions, [maxdg] = max_downgrade. *)
Fixpoint scan (allow_sdist : bool) (maxdg : option N) (w : world) (cs : list cand) (tried : list N)
  : world * sres :=
  match cs with
  | [] => (w, SExn NoCandidate)
  | c :: rest =>
      match cver c with
      | None => scan allow_sdist maxdg w rest tried
      | Some v =>
          if csdist c && negb allow_sdist then scan allow_sdist maxdg w rest tried
          else
            let (w1, r) := resolve w c in
            let continue_ (_ : unit) :=
              let tried' := addN v tried in
              match maxdg with
              | Some m => if N.leb m (N.of_nat (List.length tried')) then (w1, SExn NoCandidate)
                          else scan allow_sdist maxdg w1 rest tried'
              | None => scan allow_sdist maxdg w1 rest tried'
              end in
            match r with
            | ROk cached => if cname_ok c then (w1, SOk c cached) else continue_ tt
            | RExn MetadataError => continue_ tt
            | RExn e => (w1, SExn e)
            end
      end
  end.

End Cache.

(* ---- index page scan: pypi.py:149-184 ------------------------------------------------ *)
Inductive presp := PResp (status : N) | PFail.
Inductive pres :=
| PParsed (status : N)     (* the body of this response is handed to the HTML parser *)
| PExn (e : exn).

(* `retries and LO <= status < HI` with the bounds and comparison operators read by T1 *)
Definition is_5xx (st : N) : bool :=
  (if page_retry_lo_incl then N.leb page_retry_lo st else N.ltb page_retry_lo st) &&
  (if page_retry_hi_incl then N.leb st page_retry_hi else N.ltb st page_retry_hi).
(* returns the result and the number of requests made *)
Fixpoint scan_page (retries : nat) (script : list presp) (made : nat) {struct script} : pres * nat :=
  match script with
  | [] => (PExn ConnectionError, S made)
  | PFail :: _ => (PExn ConnectionError, S made)
  | PResp st :: s =>
      match retries with
      | S r => if is_5xx st then scan_page r s (S made)
               else if negb (N.eqb st page_pass_status) && raises_for_status st then (PExn HTTPError, S made)
               else (PParsed st, S made)
      | O => if negb (N.eqb st page_pass_status) && raises_for_status st then (PExn HTTPError, S made)
             else (PParsed st, S made)
      end
  end.

(* ---- one index = page scan + candidate scan; several repositories in order --------------------
   Repository.get_dist (repository.py) and MultiRepository.get_dist (repos/multi.py; also what
   PooledCandidateMultiRepository, i.e. --index-url A --extra-index-url B, runs): the repositories
   are asked in order, ONLY NoCandidateException makes the loop go on to the next one. *)
Record repo := mkRepo {
  r_retries : nat;            (* PyPIRepository(retries=...) *)
  r_pages : list presp;       (* answers to the requests for this index's project page *)
  r_listing : list cand       (* the candidates of the page served with status 200, in sort order *)
}.

Section Multi.
Variable sha : bytes -> string.
Variable meta : fname -> bytes -> mres.
Variable allow_sdist : bool.
Variable maxdg : option N.

(* by convention of the fault scripts only a 200 answer carries the listing; every other body
   that is parsed (404 page, 204, 3xx) has no links *)
Definition repo_get_dist (r : repo) (w : world) : world * sres :=
  match fst (scan_page (r_retries r) (r_pages r) 0) with
  | PExn e => (w, SExn e)
  | PParsed st => scan sha meta allow_sdist maxdg w (if N.eqb st 200 then r_listing r else []) []
  end.

(* returns the final world, the result, and the result of every repository that was asked *)
Fixpoint multi_get_dist (rs : list repo) (w : world) : world * sres * list sres :=
  match rs with
  | [] => (w, SExn NoCandidate, [])
  | r :: rest =>
      let (w1, res) := repo_get_dist r w in
      match res with
      | SExn NoCandidate =>
          let '(w2, res2, tr) := multi_get_dist rest w1 in (w2, res2, res :: tr)
      | _ => (w1, res, [res])
      end
  end.
End Multi.

(* ---- concrete instances used by extraction / T2 (trusted base) ----------------------- *)
Fixpoint toy_acc (s : string) (h : N) : N :=
  match s with
  | EmptyString => h
  | String c r => toy_acc r (N.modulo (h * 131 + N.of_nat (nat_of_ascii c) + 1) 4294967291)
  end.

Fixpoint n_digits (fuel : nat) (n : N) (acc : string) : string :=
  match fuel with
  | O => acc
  | S f =>
      let d := String (ascii_of_N (48 + N.modulo n 10)) EmptyString in
      if N.ltb n 10 then d ++ acc else n_digits f (N.div n 10) (d ++ acc)
  end.
Definition toy_sha (b : bytes) : string :=
  n_digits 12 (toy_acc b 7) "" ++ "x" ++ n_digits 12 (N.of_nat (String.length b)) "".

Fixpoint meta_of_table (t : list (fname * bytes * mres)) (f : fname) (b : bytes) : mres :=
  match t with
  | [] => MMetaErr
  | (g, c, m) :: r => if String.eqb g f && String.eqb c b then m else meta_of_table r f b
  end.

Definition w0 (d : dir) (s : list resp) : world := mkW d s [].

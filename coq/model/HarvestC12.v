(* C12 - the setup()/setup.cfg argument harvester of req_compile/metadata/source.py
   (setup, _add_setup_cfg_kwargs, parse_req_with_marker; utils.parse_requirements) and the
   post-processing of _parse_setup_py / _fetch_from_setup_py, as a pure function
   decl -> result meta.  String-exact for everything req-compile itself does (line
   filtering, key -> marker text, text composition); the PEP 508 re-parse/print the code
   delegates to pkg_resources/packaging is modelled for markers (tokenizer, parser with
   packaging's flat and/or list + groups, extra-name normalisation, printer) and kept opaque
   for the "head" (name[extras]specifier), which must already be canonically spelled
   (otherwise the model answers Unmodelled; T2 never compares those).

   The declared meaning [meta_of] composes markers structurally (a conjunction of groups) - that
   is what setuptools itself does with extras_require keys "extra", ":marker" and "extra:marker". *)
From Coq Require Import List String Ascii Bool Arith NArith.
From RC Require Import lib.PyStr lib.Pep440 lib.Name gen.HarvestC12Consts model.PathMapC12.
Import ListNotations.
Open Scope string_scope.
Open Scope nat_scope.

(* ------------------------------------------------------------------ markers *)
Inductive operand := OVar (s : string) | OLit (s : string).
Record atom := mkAtom { a_l : operand; a_op : string; a_r : operand }.
Inductive conn := CAnd | COr.
Inductive mk := MAtom (a : atom) | MGroup (l : mlist)
with mlist := MOne (m : mk) | MCons (m : mk) (c : conn) (r : mlist).

Inductive tok :=
| TL | TR | TConn (c : conn) | TIn | TNot | TOp (s : string) | TVar (s : string) | TStr (s : string).

(* --- tokenizer (packaging/_tokenizer.py rules used by the marker grammar), one character
       at a time.  LBad = ParserSyntaxError; LUn = outside the model (back-slash escapes in a
       quoted string other than the always-failing one, the set-valued variables). *)
Inductive lstate :=
| SIdle
| SWord (acc : string)              (* reversed *)
| SOp (acc : string)                (* reversed *)
| SQuote (q : ascii) (acc : string) (* reversed *).
Inductive lerr := LBad | LUn.

Definition is_word_char (c : ascii) : bool :=
  is_digit c || is_alpha_ascii c || Ascii.eqb c "_"%char || Ascii.eqb c "."%char.
Definition is_op_char (c : ascii) : bool :=
  Ascii.eqb c "<"%char || Ascii.eqb c ">"%char || Ascii.eqb c "="%char
  || Ascii.eqb c "!"%char || Ascii.eqb c "~"%char.
Definition is_ws (c : ascii) : bool := Ascii.eqb c " "%char || Ascii.eqb c (ascii_of_nat 9).
Definition is_quote (c : ascii) : bool := Ascii.eqb c """"%char || Ascii.eqb c "'"%char.

(* the spellings the VARIABLE rule accepts, with the Variable they denote *)
Definition marker_vars : list (string * string) :=
  [("python_version", "python_version"); ("python_full_version", "python_full_version");
   ("os_name", "os_name"); ("os.name", "os_name"); ("sys_platform", "sys_platform");
   ("sys.platform", "sys_platform"); ("platform_release", "platform_release");
   ("platform_system", "platform_system"); ("platform_version", "platform_version");
   ("platform.version", "platform_version"); ("platform_machine", "platform_machine");
   ("platform.machine", "platform_machine");
   ("platform_python_implementation", "platform_python_implementation");
   ("platform.python_implementation", "platform_python_implementation");
   ("python_implementation", "platform_python_implementation");
   ("implementation_name", "implementation_name");
   ("implementation_version", "implementation_version"); ("extra", "extra")].
Definition marker_ops : list string := ["==="; "=="; "~="; "!="; "<="; ">="; "<"; ">"].
Definition mem_str (s : string) (l : list string) : bool := existsb (String.eqb s) l.
Fixpoint assoc_str (s : string) (l : list (string * string)) : option string :=
  match l with
  | [] => None
  | (k, v) :: r => if String.eqb s k then Some v else assoc_str s r
  end.

Definition classify_word (w : string) : sum lerr tok :=
  if String.eqb w "and" then inr (TConn CAnd)
  else if String.eqb w "or" then inr (TConn COr)
  else if String.eqb w "in" then inr TIn
  else if String.eqb w "not" then inr TNot
  else if String.eqb w "extras" || String.eqb w "dependency_groups" then inl LUn
  else match assoc_str w marker_vars with
       | Some v => inr (TVar v)
       | None => inl LBad
       end.
Definition classify_op (o : string) : sum lerr tok :=
  if mem_str o marker_ops then inr (TOp o) else inl LBad.

(* flush the pending token of a state (None = nothing pending) *)
Definition flush (st : lstate) : sum lerr (list tok) :=
  match st with
  | SIdle => inr []
  | SWord acc => match classify_word (rev_str acc) with inr t => inr [t] | inl e => inl e end
  | SOp acc => match classify_op (rev_str acc) with inr t => inr [t] | inl e => inl e end
  | SQuote _ _ => inl LBad
  end.

(* start a token at character c from the idle state *)
Definition start (c : ascii) : sum lerr (list tok * lstate) :=
  if is_ws c then inr ([], SIdle)
  else if Ascii.eqb c "("%char then inr ([TL], SIdle)
  else if Ascii.eqb c ")"%char then inr ([TR], SIdle)
  else if is_quote c then inr ([], SQuote c "")
  else if is_word_char c then inr ([], SWord (String c ""))
  else if is_op_char c then inr ([], SOp (String c ""))
  else inl LBad.

Definition lstep (st : lstate) (c : ascii) : sum lerr (list tok * lstate) :=
  match st with
  | SQuote q acc =>
      if Ascii.eqb c q then inr ([TStr (rev_str acc)], SIdle)
      else if Ascii.eqb c "\"%char then
        (* ast.literal_eval of the token: the code's own escaping (extra.replace('"','\\"'))
           always yields a token ending in a back-slash, which is a SyntaxError *)
        inl (if Ascii.eqb q """"%char then LBad else LUn)
      else if Ascii.eqb c (ascii_of_nat 10) || Ascii.eqb c (ascii_of_nat 13) || Ascii.eqb c (ascii_of_nat 0) then inl LBad
      else inr ([], SQuote q (String c acc))
  | SWord acc =>
      if is_word_char c then inr ([], SWord (String c acc))
      else match flush st, start c with
           | inr t1, inr (t2, st') => inr ((t1 ++ t2)%list, st')
           | inl e, _ => inl e
           | _, inl e => inl e
           end
  | SOp acc =>
      if is_op_char c then inr ([], SOp (String c acc))
      else match flush st, start c with
           | inr t1, inr (t2, st') => inr ((t1 ++ t2)%list, st')
           | inl e, _ => inl e
           | _, inl e => inl e
           end
  | SIdle => start c
  end.

Fixpoint lrun (st : lstate) (s : string) : sum lerr (list tok * lstate) :=
  match s with
  | EmptyString => inr ([], st)
  | String c s' =>
      match lstep st c with
      | inl e => inl e
      | inr (t1, st1) =>
          match lrun st1 s' with
          | inl e => inl e
          | inr (t2, st2) => inr ((t1 ++ t2)%list, st2)
          end
      end
  end.

Definition lex (s : string) : sum lerr (list tok) :=
  match lrun SIdle s with
  | inl e => inl e
  | inr (ts, st) => match flush st with inr t => inr (ts ++ t)%list | inl e => inl e end
  end.

(* --- parser (packaging/_parser.py _parse_marker / _parse_marker_atom / _parse_marker_item) *)
Inductive presult (A : Type) := POk (a : A) | PErr | PUn | PFuel.
Arguments POk {A} a. Arguments PErr {A}. Arguments PUn {A}. Arguments PFuel {A}.

Definition parse_operand (ts : list tok) : option (operand * list tok) :=
  match ts with
  | TVar v :: r => Some (OVar v, r)
  | TStr s :: r => Some (OLit s, r)
  | _ => None
  end.
Definition parse_mop (ts : list tok) : option (string * list tok) :=
  match ts with
  | TOp o :: r => Some (o, r)
  | TIn :: r => Some ("in", r)
  | TNot :: TIn :: r => Some ("not in", r)
  | _ => None
  end.
Definition parse_item (ts : list tok) : option (atom * list tok) :=
  match parse_operand ts with
  | Some (l, r1) =>
      match parse_mop r1 with
      | Some (o, r2) =>
          match parse_operand r2 with
          | Some (r, r3) => Some (mkAtom l o r, r3)
          | None => None
          end
      | None => None
      end
  | None => None
  end.

Definition parse_atom_with (rec : list tok -> presult (mlist * list tok)) (ts : list tok)
  : presult (mk * list tok) :=
  match ts with
  | TL :: r =>
      match rec r with
      | POk (l, TR :: r') => POk (MGroup l, r')
      | POk _ => PErr
      | PErr => PErr | PUn => PUn | PFuel => PFuel
      end
  | _ => match parse_item ts with Some (a, r) => POk (MAtom a, r) | None => PErr end
  end.

Fixpoint parse_list (fuel : nat) (ts : list tok) : presult (mlist * list tok) :=
  match fuel with
  | O => PFuel
  | S f =>
      match parse_atom_with (parse_list f) ts with
      | POk (m, TConn c :: r) =>
          match parse_list f r with
          | POk (l, r') => POk (MCons m c l, r')
          | PErr => PErr | PUn => PUn | PFuel => PFuel
          end
      | POk (m, r) => POk (MOne m, r)
      | PErr => PErr | PUn => PUn | PFuel => PFuel
      end
  end.

(* canonicalize_name: re.sub(r"[-_.]+", "-", name).lower() *)
Definition is_sep (c : ascii) : bool :=
  Ascii.eqb c "-"%char || Ascii.eqb c "_"%char || Ascii.eqb c "."%char.
Fixpoint canon_aux (s : string) (in_run : bool) : string :=
  match s with
  | EmptyString => EmptyString
  | String c s' =>
      if is_sep c then (if in_run then canon_aux s' true else String "-"%char (canon_aux s' true))
      else String (lower_ascii c) (canon_aux s' false)
  end.
Definition canon_name (s : string) : string := canon_aux s false.

(* markers._normalize_extras *)
Definition norm_atom (a : atom) : atom :=
  match a_l a, a_r a with
  | OVar "extra", OLit v => mkAtom (a_l a) (a_op a) (OLit (canon_name v))
  | OLit v, OVar "extra" => mkAtom (OLit (canon_name v)) (a_op a) (a_r a)
  | _, _ => a
  end.
Fixpoint norm_mk (m : mk) : mk :=
  match m with
  | MAtom a => MAtom (norm_atom a)
  | MGroup l => MGroup (norm_list l)
  end
with norm_list (l : mlist) : mlist :=
  match l with
  | MOne m => MOne (norm_mk m)
  | MCons m c r => MCons (norm_mk m) c (norm_list r)
  end.

Definition parse_marker_text (s : string) : presult mlist :=
  match lex s with
  | inl LBad => PErr
  | inl LUn => PUn
  | inr ts =>
      match parse_list (S (List.length ts)) ts with
      | POk (l, []) => POk (norm_list l)
      | POk (_, _ :: _) => PErr      (* "Expected end of dependency specifier" *)
      | PErr => PErr | PUn => PUn | PFuel => PFuel
      end
  end.

(* --- printer (markers._format_marker, Value.serialize) *)
Definition operand_text (o : operand) : string :=
  match o with
  | OVar v => v
  | OLit s => if containsb """" s then "'" ++ s ++ "'" else """" ++ s ++ """"
  end.
Definition atom_text (a : atom) : string :=
  operand_text (a_l a) ++ " " ++ a_op a ++ " " ++ operand_text (a_r a).
Definition conn_text (c : conn) : string := match c with CAnd => "and" | COr => "or" end.
Definition paren (first : bool) (s : string) : string := if first then s else "(" ++ s ++ ")".

Fixpoint fmt_mk (first : bool) (m : mk) : string :=
  match m with
  | MAtom a => atom_text a
  | MGroup l => fmt_list first l
  end
with fmt_list (first : bool) (l : mlist) : string :=
  match l with
  | MOne m => fmt_mk first m
  | MCons m c r => paren first (fmt_mk false m ++ " " ++ conn_text c ++ " " ++ fmt_items r)
  end
with fmt_items (l : mlist) : string :=
  match l with
  | MOne m => fmt_mk false m
  | MCons m c r => fmt_mk false m ++ " " ++ conn_text c ++ " " ++ fmt_items r
  end.

(* --- evaluation (markers._evaluate_markers): any(all(group)) over the or-separated groups;
       the truth of an atom is the environment's business *)
Fixpoint eval_mk (env : atom -> bool) (m : mk) : bool :=
  match m with
  | MAtom a => env a
  | MGroup l => eval_groups env true l
  end
with eval_groups (env : atom -> bool) (acc : bool) (l : mlist) : bool :=
  match l with
  | MOne m => acc && eval_mk env m
  | MCons m CAnd r => eval_groups env (acc && eval_mk env m) r
  | MCons m COr r => (acc && eval_mk env m) || eval_groups env true r
  end.
Definition eval (env : atom -> bool) (l : mlist) : bool := eval_groups env true l.

(* flat concatenation  l1 <c> l2  - what re-parsing "text1 c text2" yields *)
Fixpoint mapp (l1 : mlist) (c : conn) (l2 : mlist) : mlist :=
  match l1 with
  | MOne m => MCons m c l2
  | MCons m c1 r => MCons m c1 (mapp r c l2)
  end.
Fixpoint has_or (l : mlist) : bool :=
  match l with
  | MOne _ => false
  | MCons _ COr _ => true
  | MCons _ CAnd r => has_or r
  end.

(* ------------------------------------------------------------------ requirement texts *)
Record preq := mkReq { r_head : string; r_marker : option mlist }.

Definition head_char_ok (c : ascii) : bool :=
  is_digit c || is_alpha_ascii c
  || mem_ascii c "._-[],<>=!~*+".
Fixpoint all_chars (p : ascii -> bool) (s : string) : bool :=
  match s with EmptyString => true | String c s' => p c && all_chars p s' end.
Definition head_ok (h : string) : bool :=
  match h with
  | EmptyString => false
  | String c _ => (is_digit c || is_alpha_ascii c) && all_chars head_char_ok h
  end.

Inductive rres (A : Type) := ROk (a : A) | RErr | RUn.
Arguments ROk {A} a. Arguments RErr {A}. Arguments RUn {A}.

Definition strip_ws (x : string) : string := rstrip_by is_ws (lstrip_by is_ws x).
(* utils.parse_requirement -> pkg_resources.Requirement.parse *)
Definition parse_req_text (t0 : string) : rres preq :=
  let t := strip t0 in
  if String.eqb t "" then RErr
  else if startswith t "#" then RErr
  else if containsb "#" t then RUn
  else
    match partition_char ";"%char t with
    | (h0, found, m) =>
        let h := strip_ws h0 in
        if negb (head_ok h) then
          (* a name must start with a letter or digit ("Expected package name at the start of
             dependency specifier"); other non-canonical heads are outside the model *)
          match h with
          | String c _ => if is_digit c || is_alpha_ascii c then RUn else RErr
          | EmptyString => RErr
          end
        else if found then
          match parse_marker_text m with
          | POk l => ROk (mkReq h (Some l))
          | PErr => RErr
          | PUn => RUn
          | PFuel => RUn
          end
        else ROk (mkReq h None)
    end.

Definition print_req (r : preq) : string :=
  match r_marker r with
  | None => r_head r
  | Some l => r_head r ++ "; " ++ fmt_list true l
  end.

(* utils.parse_requirements: the lines that reach parse_requirement *)
Definition keep_line (r : string) : list string :=
  if String.eqb r "" then []
  else if startswith r "#" || startswith r "--" then []
  else [r].
Definition clean (s : string) : string := rstrip_chars "\" (strip s).
Definition nl : ascii := ascii_of_nat 10.
Definition req_lines (l : list string) : list string :=
  flat_map (fun req =>
    let r := clean req in
    if containsb (String nl "") r
    then flat_map (fun q => keep_line (clean q)) (split_char nl r)
    else keep_line r) l.

Fixpoint parse_all (ls : list string) : rres (list preq) :=
  match ls with
  | [] => ROk []
  | t :: r =>
      match parse_req_text t with
      | ROk q => match parse_all r with ROk qs => ROk (q :: qs) | RErr => RErr | RUn => RUn end
      | RErr => RErr
      | RUn => RUn
      end
  end.

(* parse_req_with_marker: text composition, string-exact.  The requirement's own marker is
   parenthesised; [marker] is a conjunction of parenthesised markers / atoms built by the caller *)
Definition compose_text (req_str marker : string) : string :=
  if containsb glue_test req_str then
    match partition_char glue_test_char req_str with
    | (head, _, own) => head ++ glue_own_open ++ own ++ glue_own_close ++ marker
    end
  else req_str ++ glue_semi ++ marker.

(* an extras_require key "extra", ":marker" or "extra:marker" (setuptools' syntax), split at the
   first ':' : the extra's name (stripped) and the environment-marker text *)
Definition key_parts (e : string) : string * string :=
  match partition_char key_sep_char e with (x, _, t) => (strip x, t) end.
(* the marker texts the key stands for: "(<env marker>)" and/or  extra=="<name>"  *)
Definition key_marker_parts (e : string) : list string :=
  let xt := key_parts e in
  List.app (if String.eqb (strip (snd xt)) "" then [] else [key_env_open ++ snd xt ++ key_env_close])
           (if String.eqb (fst xt) "" then [] else [key_prefix ++ replace key_esc_from key_esc_to (fst xt) ++ key_suffix]).

(* ------------------------------------------------------------------ declarations *)
Inductive strs := SOne (s : string) | SMany (l : list string).
Definition as_list (x : strs) : list string := match x with SOne s => [s] | SMany l => l end.

Inductive vres := VBad | VGood (v : version).    (* utils.parse_version(str(version)) *)

Record cfg := mkCfg {
  c_name : option string;
  c_version : option vres;
  c_install : option string;                       (* parser.get("options","install_requires") *)
  c_extras : option (list (string * string)) }.    (* parser.items("options.extras_require") *)

Record decl := mkDecl {
  d_name : option string;
  d_version : option vres;
  d_install : option strs;
  d_extras : list (string * strs);                  (* dict items, insertion order, keys distinct *)
  d_framework : bool;       (* pbr / d2to1 / use_pyscaffold kwargs, pbr|setupmeta in setup_requires *)
  d_cfg : option cfg }.     (* os.path.exists("setup.cfg") as the virtual file system answers *)

Record meta := mkMeta { m_name : option string; m_version : option version; m_reqs : list string }.

Inductive herr := EFramework | EAttr | EVersion | EReq | ENoMeta.
Inductive hres := HOk (m : meta) | HErr (e : herr) | HUn.

Fixpoint assoc_set (k : string) (v : strs) (l : list (string * strs)) : list (string * strs) :=
  match l with
  | [] => [(k, v)]
  | (k', v') :: r => if String.eqb k k' then (k, v) :: r else (k', v') :: assoc_set k v r
  end.

(* _add_setup_cfg_kwargs *)
Definition overlay_install (d : decl) (c : cfg) : option (option strs) :=
  match c_install c with
  | None => Some (d_install d)
  | Some v =>
      match d_install d with
      | None => Some (Some (SMany (split_char nl v)))
      | Some (SMany l) => Some (Some (SMany (l ++ split_char nl v)%list))
      | Some (SOne _) => None          (* str.extend: AttributeError *)
      end
  end.
Definition overlay_extras (d : decl) (c : cfg) : list (string * strs) :=
  match c_extras c with
  | None => d_extras d
  | Some items => fold_left (fun acc kv => assoc_set (fst kv) (SMany (split_char nl (snd kv))) acc) items (d_extras d)
  end.
Definition pick {A} (o1 o2 : option A) : option A := match o1 with Some x => Some x | None => o2 end.

(* one extras_require entry: how the pieces are combined is a parameter, so that the code's
   textual composition and the declared (structural) meaning share everything else *)
Definition combine_fn := preq -> string -> rres string.

Fixpoint map_res (f : preq -> rres string) (l : list preq) : rres (list string) :=
  match l with
  | [] => ROk []
  | q :: r =>
      match f q with
      | ROk s => match map_res f r with ROk ss => ROk (s :: ss) | RErr => RErr | RUn => RUn end
      | RErr => RErr
      | RUn => RUn
      end
  end.

Fixpoint extras_loop (comb : combine_fn) (l : list (string * strs)) : rres (list string) :=
  match l with
  | [] => ROk []
  | (k, v) :: r =>
      let e := strip k in
      if String.eqb e "" then extras_loop comb r
      else
        match parse_all (req_lines (as_list v)) with
        | ROk qs =>
            match map_res (fun q => comb q e) qs with
            | ROk ss => match extras_loop comb r with ROk rest => ROk (ss ++ rest)%list | RErr => RErr | RUn => RUn end
            | RErr => RErr
            | RUn => RUn
            end
        | RErr => RErr
        | RUn => RUn
        end
  end.

(* the code: no marker text -> the requirement itself; otherwise the composed text, parsed again, printed *)
Definition combine_code : combine_fn := fun q e =>
  match key_marker_parts e with
  | [] => ROk (print_req q)
  | parts =>
      match parse_req_text (compose_text (print_req q) (join key_join parts)) with
      | ROk q' => ROk (print_req q')
      | RErr => RErr
      | RUn => RUn
      end
  end.

Definition harvest_with (comb : combine_fn) (d : decl) : hres :=
  if d_framework d then HErr EFramework else
  let merged :=
    match d_cfg d with
    | None => Some (d_name d, d_version d, d_install d, d_extras d)
    | Some c =>
        match overlay_install d c with
        | None => None
        | Some ins => Some (pick (c_name c) (d_name d), pick (c_version c) (d_version d), ins, overlay_extras d c)
        end
    end in
  match merged with
  | None => HErr EAttr
  | Some (name, ver, ins, extras) =>
      match ver with
      | Some VBad => HErr EVersion
      | _ =>
          let version := match ver with Some (VGood v) => Some v | _ => None end in
          match parse_all (req_lines (match ins with None => [] | Some x => as_list x end)) with
          | RErr => HErr EReq
          | RUn => HUn
          | ROk base =>
              match extras_loop comb extras with
              | RErr => HErr EReq
              | RUn => HUn
              | ROk ex =>
                  let name' := match name with Some n => Some (replace_char name_repl_from name_repl_to n) | None => None end in
                  (* _parse_setup_py: nothing harvested *)
                  match name', version with
                  | None, None => HErr ENoMeta
                  | _, _ => HOk (mkMeta name' version (map print_req base ++ ex)%list)
                  end
              end
          end
      end
  end.

Definition harvest (d : decl) : hres := harvest_with combine_code d.

(* ------------------------------------------------------------------ the declared meaning *)
(* the conjunction of: the requirement's own marker, the key's environment marker, extra == <name>;
   each compound marker is a group (what setuptools itself writes into requires.txt / METADATA) *)
Fixpoint and_list (m : mk) (r : list mk) : mlist :=
  match r with
  | [] => MOne m
  | m2 :: r' => MCons m CAnd (and_list m2 r')
  end.
Definition extra_atom (x : string) : mk :=
  MAtom (mkAtom (OVar "extra") "==" (OLit (canon_name x))).
Definition group_of (o : option mlist) : list mk := match o with Some l => [MGroup l] | None => [] end.
Definition declared_marker (own env : option mlist) (x : string) : option mlist :=
  match List.app (group_of own) (List.app (group_of env) (if String.eqb x "" then [] else [extra_atom x])) with
  | [] => None
  | m :: r => Some (and_list m r)
  end.

Definition combine_decl : combine_fn := fun q e =>
  let xt := key_parts e in
  let envm :=
    if String.eqb (strip (snd xt)) "" then ROk None
    else match parse_marker_text (snd xt) with POk l => ROk (Some l) | PErr => RErr | _ => RUn end in
  match envm with
  | ROk em => ROk (print_req (mkReq (r_head q) (declared_marker (r_marker q) em (fst xt))))
  | RErr => RErr
  | RUn => RUn
  end.

Definition meta_of_res (d : decl) : hres := harvest_with combine_decl d.

(* ------------------------------------------------------------------ _fetch_from_setup_py post-processing *)
Definition v000 : version := mkV 0%N [0%N; 0%N; 0%N] None None None [].

Definition finish (k : kind) (fn_name : string) (fn_version : option version) (m : meta) : meta :=
  let name := match m_name m with Some n => n | None => fn_name end in
  let version :=
    match m_version m with
    | None => match fn_version with Some fv => fv | None => v000 end
    | Some v =>
        match fn_version with
        | Some fv => if veqb v fv then v else fv
        | None => v
        end
    end in
  let name := match k with
              | KDir => name
              | _ => if String.eqb (norm name) (norm fn_name) then name else fn_name
              end in
  mkMeta (Some name) (Some version) (m_reqs m).

(* ------------------------------------------------------------------ which metadata source is consulted
   (metadata.py extract_metadata, pyproject.py fetch_from_pyproject, _fetch_from_setup_py) *)
Inductive pyp := PNone | PBuildOnly | PProject.   (* pyproject.toml: absent | setuptools.build_meta without [project] | with [project] *)
Record layout := mkLayout { has_setup_py : bool; has_setup_cfg : bool; pyproject : pyp }.
Inductive route := RSetupPy | RCfgOnly | RPep517 | RNothing.

Definition source_route (lay : layout) : route :=
  if has_setup_py lay then RSetupPy else if has_setup_cfg lay then RCfgOnly else RNothing.
Definition route_of (k : kind) (lay : layout) : route :=
  match k, pyproject lay with
  | KDir, PProject => RPep517      (* pyproject.toml is only looked at for directories *)
  | _, PProject => if pyproject_only_for_dirs then source_route lay else RPep517
  | _, _ => source_route lay
  end.

(* ------------------------------------------------------------------ the decidable guard of C12_harvest_exact_partial
   (computed by the extracted model for every generated declaration, so that T2 replays the
   theorem on the real code: inside the guard, implementation = declared meaning) *)
Definition operand_eqb (a b : operand) : bool :=
  match a, b with
  | OVar x, OVar y => String.eqb x y
  | OLit x, OLit y => String.eqb x y
  | _, _ => false
  end.
Definition atom_eqb (a b : atom) : bool :=
  operand_eqb (a_l a) (a_l b) && String.eqb (a_op a) (a_op b) && operand_eqb (a_r a) (a_r b).
Definition conn_eqb (a b : conn) : bool :=
  match a, b with CAnd, CAnd => true | COr, COr => true | _, _ => false end.
Fixpoint mk_eqb (a b : mk) : bool :=
  match a, b with
  | MAtom x, MAtom y => atom_eqb x y
  | MGroup x, MGroup y => mlist_eqb x y
  | _, _ => false
  end
with mlist_eqb (a b : mlist) : bool :=
  match a, b with
  | MOne x, MOne y => mk_eqb x y
  | MCons x c r, MCons y d s => mk_eqb x y && conn_eqb c d && mlist_eqb r s
  | _, _ => false
  end.

Definition dq : ascii := """"%char.
Definition key_char_ok (c : ascii) : bool :=
  negb (Ascii.eqb c "#"%char) && negb (Ascii.eqb c dq) && negb (Ascii.eqb c "\"%char) && negb (Ascii.eqb c ":"%char)
  && negb (Ascii.eqb c (ascii_of_nat 10)) && negb (Ascii.eqb c (ascii_of_nat 13)) && negb (Ascii.eqb c (ascii_of_nat 0)).
Fixpoint has_char (c : ascii) (s : string) : bool :=
  match s with EmptyString => false | String d s' => Ascii.eqb c d || has_char c s' end.

Definition marker_stable_b (m : mlist) : bool :=
  match parse_marker_text (fmt_list true m) with POk m' => mlist_eqb m' m | _ => false end.
(* the requirement's own marker: what str(cur_req) prints re-parses to the same marker *)
Definition marker_ok_b (m : mlist) : bool :=
  marker_stable_b m && negb (has_char "#"%char (fmt_list true m)).
(* the key: a name without quote / back-slash / control characters, an environment marker that parses *)
Definition key_ok_b (e : string) : bool :=
  let xt := key_parts e in
  all_chars key_char_ok (fst xt)
  && (String.eqb (strip (snd xt)) ""
      || (negb (has_char "#"%char (snd xt))
          && match parse_marker_text (snd xt) with POk _ => true | _ => false end)).
Definition pair_ok_b (q : preq) (e : string) : bool :=
  head_ok (r_head q)
  && match r_marker q with None => true | Some m => marker_ok_b m end
  && key_ok_b e.

Definition effective_extras (d : decl) : list (string * strs) :=
  match d_cfg d with None => d_extras d | Some c => overlay_extras d c end.

Definition decl_ok_b (d : decl) : bool :=
  forallb (fun kv =>
             let e := strip (fst kv) in
             String.eqb e ""
             || match parse_all (req_lines (as_list (snd kv))) with
                | ROk qs => forallb (fun q => pair_ok_b q e) qs
                | _ => true
                end)
          (effective_extras d).

(* L1: req_compile/dists.py DistributionCollection / DependencyNode as a pure state machine.
   Nodes are heap objects with an identity (Python compares nodes by identity but hashes
   them by key), `index` is the `nodes` dict (key -> node), references in `ndeps` / `nrdeps`
   are identities and may outlive the removal of a node from the index, exactly as in the
   code.  One fuel argument bounds the *depth* of the mutual recursion
   add_dist -> _update_dists -> add_dist / remove_dists -> remove_dists. *)
From Coq Require Import List String Ascii Bool Arith NArith.
From RC Require Import lib.PyStr lib.StrSort lib.Pep440 lib.Name model.Merge.
Import ListNotations.
Open Scope list_scope.

Inductive err :=
| EAssert          (* AssertionError: "Reverse dependency should already have a solution" *)
| EKey             (* KeyError from a dict/set lookup on a stale link *)
| EValueGone       (* ValueError "The node ... is gone, while adding" *)
| EValueMerge      (* ValueError "Reqs don't match" *)
| EValueDeep       (* ValueError "Recursion too deep" *)
| EValueCircular   (* ValueError "Circular dependency" *)
| ENoCand (name : string) (spec : list clause)
| EAmbiguous       (* outcome depends on the iteration order of a hash set (model cannot decide) *)
| EFuel.           (* model ran out of depth fuel: Python RecursionError *)

Inductive res (A : Type) := Rok (a : A) | Rer (e : err).
Arguments Rok {A}. Arguments Rer {A}.
Definition bind {A B} (x : res A) (f : A -> res B) : res B :=
  match x with Rok a => f a | Rer e => Rer e end.
Notation "x <- e1 ;; e2" := (bind e1 (fun x => e2)) (at level 61, e1 at next level, right associativity).
Notation "' p <- e1 ;; e2" := (bind e1 (fun p => e2)) (at level 61, p pattern, e1 at next level, right associativity).

Record dist := mkDist {
  dname : string;
  dversion : option version;
  dvtext : string;          (* str(version) as the implementation prints it *)
  dreqs : list req;
  dmeta : bool;
  dsource : bool            (* metadata.origin is a SourceRepository (a project of a local source tree) *)
}.

Record node := mkNode {
  nkey : string;
  nmeta : option dist;
  ndeps : list (nat * option req);   (* dict node -> reason, insertion ordered *)
  nrdeps : list nat;                 (* set of nodes *)
  ncomplete : bool
}.

(* glog: a trace of solver events (queries, walk-backs); write-only, never read by the model *)
Record graph := mkG { heap : list (nat * node); index : list (string * nat); next : nat; glog : list string }.
Definition empty_graph : graph := mkG [] [] 0 [].
Definition log_event (g : graph) (s : string) : graph := mkG (heap g) (index g) (next g) (s :: glog g).

(* environment: marker evaluation is an oracle supplied by the harness (packaging.markers) *)
Record env := mkEnv {
  meval : string -> option string -> bool;      (* marker text, extra -> truth value *)
  mextras : string -> list string;              (* extras named by `extra == "e"` atoms *)
  xorder : list (option string)                 (* iteration order of {None} | extras *)
}.

(* ---- association helpers ---- *)
Fixpoint alookup {A} (k : nat) (l : list (nat * A)) : option A :=
  match l with [] => None | (k', v) :: l' => if Nat.eqb k k' then Some v else alookup k l' end.
Fixpoint aset {A} (k : nat) (v : A) (l : list (nat * A)) : list (nat * A) :=
  match l with
  | [] => [(k, v)]
  | (k', v') :: l' => if Nat.eqb k k' then (k, v) :: l' else (k', v') :: aset k v l'
  end.
Fixpoint adel {A} (k : nat) (l : list (nat * A)) : list (nat * A) :=
  match l with [] => [] | (k', v) :: l' => if Nat.eqb k k' then l' else (k', v) :: adel k l' end.
Definition amem {A} (k : nat) (l : list (nat * A)) : bool :=
  match alookup k l with Some _ => true | None => false end.
Fixpoint slookup {A} (k : string) (l : list (string * A)) : option A :=
  match l with [] => None | (k', v) :: l' => if String.eqb k k' then Some v else slookup k l' end.
Fixpoint sdel {A} (k : string) (l : list (string * A)) : list (string * A) :=
  match l with [] => [] | (k', v) :: l' => if String.eqb k k' then l' else (k', v) :: sdel k l' end.
Fixpoint nmem (k : nat) (l : list nat) : bool :=
  match l with [] => false | x :: l' => Nat.eqb k x || nmem k l' end.
Fixpoint nremove (k : nat) (l : list nat) : list nat :=
  match l with [] => [] | x :: l' => if Nat.eqb k x then l' else x :: nremove k l' end.
Definition nadd (k : nat) (l : list nat) : list nat := if nmem k l then l else l ++ [k].
Fixpoint smem (k : string) (l : list string) : bool :=
  match l with [] => false | x :: l' => String.eqb k x || smem k l' end.

Definition getn (g : graph) (id : nat) : res node :=
  match alookup id (heap g) with Some n => Rok n | None => Rer EKey end.
Definition setn (g : graph) (id : nat) (n : node) : graph :=
  mkG (aset id n (heap g)) (index g) (next g) (glog g).
Definition key_present (g : graph) (k : string) : bool :=
  match slookup k (index g) with Some _ => true | None => false end.

(* ---- containers.py ---- *)
Definition req_uses_extra (e : env) (r : req) (extra : option string) : bool :=
  match rmarker r with
  | None => match extra with Some _ => false | None => true end
  | Some m => meval e m extra
  end.

Definition lift_merge {A} (x : Merge.result A) : res A :=
  match x with Merge.Ok a => Rok a | Merge.Err _ => Rer EValueMerge end.

Definition requires (e : env) (d : dist) (extra : option string) : res (list req) :=
  lift_merge (reduce (filter (fun r => req_uses_extra e r extra) (dreqs d))).

Fixpoint collect_requires (e : env) (d : dist) (extras : list (option string)) : res (list req) :=
  match extras with
  | [] => Rok []
  | x :: xs => rs <- requires e d x ;; rest <- collect_requires e d xs ;; Rok (rs ++ rest)
  end.

(* ---- DependencyNode.extras ---- *)
Fixpoint extras_from (g : graph) (id : nat) (rds : list nat) : res (list string) :=
  match rds with
  | [] => Rok []
  | rd :: rds' =>
      n <- getn g rd ;;
      match nmeta n with
      | None => Rer EAssert
      | Some _ =>
          match alookup id (ndeps n) with
          | None => Rer EKey
          | Some reason =>
              rest <- extras_from g id rds' ;;
              Rok (match reason with Some r => rextras r ++ rest | None => rest end)
          end
      end
  end.
Definition node_extras (g : graph) (id : nat) : res (list string) :=
  n <- getn g id ;; xs <- extras_from g id (nrdeps n) ;; Rok (sort_set xs).

(* iteration order of the Python set {None} | extras *)
Definition opt_str_eqb (a b : option string) : bool :=
  match a, b with None, None => true | Some x, Some y => String.eqb x y | _, _ => false end.
Definition extras_iteration (e : env) (xs : list string) : list (option string) :=
  let members := None :: map Some xs in
  let known := filter (fun o => existsb (opt_str_eqb o) members) (xorder e) in
  let unknown := filter (fun o => negb (existsb (opt_str_eqb o) (xorder e))) members in
  known ++ unknown.

(* ---- build_constraints ---- *)
Fixpoint merge_matching (key : string) (acc : option req) (rs : list req) : res (option req) :=
  match rs with
  | [] => Rok acc
  | r :: rs' =>
      if String.eqb (norm (safe_name (rname r))) key then
        m <- lift_merge (merge acc (Some r)) ;; merge_matching key (Some m) rs'
      else merge_matching key acc rs'
  end.

Fixpoint all_reqs_of (e : env) (d : dist) (extras : list (option string)) : res (list req) :=
  match extras with
  | [] => Rok []
  | x :: xs => a <- requires e d x ;; b <- all_reqs_of e d xs ;; Rok (a ++ b)
  end.

(* set(...) of Requirement objects: pkg_resources.Requirement.__eq__ compares
   (lower-cased project name, specifier set, frozenset of extras, marker text) *)
Definition op_eqb (a b : op) : bool :=
  match a, b with
  | OEq, OEq | ONe, ONe | OLt, OLt | OLe, OLe | OGt, OGt | OGe, OGe | OCompat, OCompat => true
  | _, _ => false
  end.
Definition clause_eqb (a b : clause) : bool :=
  op_eqb (cop a) (cop b) && Bool.eqb (cwild a) (cwild b) &&
  (if cwild a then N.eqb (epoch (cver a)) (epoch (cver b)) && list_N_eqb (release (cver a)) (release (cver b))
   else match cop a with
        | OCompat => veqb (cver a) (cver b) && list_N_eqb (release (cver a)) (release (cver b))
        | _ => veqb (cver a) (cver b)
        end).
Definition subset_by {A} (eqb : A -> A -> bool) (l1 l2 : list A) : bool :=
  forallb (fun x => existsb (eqb x) l2) l1.
Definition opt_string_eqb (a b : option string) : bool :=
  match a, b with None, None => true | Some x, Some y => String.eqb x y | _, _ => false end.
Definition req_eqb (a b : req) : bool :=
  String.eqb (lower (safe_name (rname a))) (lower (safe_name (rname b))) &&
  subset_by clause_eqb (rspec a) (rspec b) && subset_by clause_eqb (rspec b) (rspec a) &&
  subset_by String.eqb (rextras a) (rextras b) && subset_by String.eqb (rextras b) (rextras a) &&
  opt_string_eqb (rmarker a) (rmarker b).
Fixpoint dedup_reqs (rs : list req) (seen : list req) : list req :=
  match rs with
  | [] => []
  | r :: rs' => if existsb (req_eqb r) seen then dedup_reqs rs' seen else r :: dedup_reqs rs' (r :: seen)
  end.

Fixpoint constraints_from (e : env) (g : graph) (key : string) (acc : option req) (rds : list nat)
  : res (option req) :=
  match rds with
  | [] => Rok acc
  | rd :: rds' =>
      n <- getn g rd ;;
      match nmeta n with
      | None => Rer EAssert
      | Some d =>
          xs <- node_extras g rd ;;
          rs <- all_reqs_of e d (None :: map Some xs) ;;
          acc' <- merge_matching key acc (dedup_reqs rs []) ;;
          constraints_from e g key acc' rds'
      end
  end.

Definition build_constraints (e : env) (g : graph) (id : nat) : res req :=
  n <- getn g id ;;
  r <- constraints_from e g (nkey n) None (nrdeps n) ;;
  match r with
  | Some r => Rok r
  | None =>
      xs <- node_extras g id ;;
      Rok (mkReq (match nmeta n with None => nkey n | Some d => dname d end) xs [] None)
  end.

(* ---- remove_dists ---- *)
Fixpoint del_dep_in (g : graph) (id : nat) (rds : list nat) : res graph :=
  match rds with
  | [] => Rok g
  | rd :: rds' =>
      n <- getn g rd ;;
      if amem id (ndeps n) then
        del_dep_in (setn g rd (mkNode (nkey n) (nmeta n) (adel id (ndeps n)) (nrdeps n) (ncomplete n))) id rds'
      else Rer EKey
  end.

Fixpoint remove_dists (fuel : nat) (g : graph) (id : nat) (upstream : bool) : res graph :=
  match fuel with
  | O => Rer EFuel
  | S f =>
      n <- getn g id ;;
      if negb (key_present g (nkey n)) then Rok g else
      g1 <- (if upstream then
               del_dep_in (mkG (heap g) (sdel (nkey n) (index g)) (next g) (glog g)) id (nrdeps n)
             else Rok g) ;;
      n1 <- getn g1 id ;;
      g2 <- fold_left
              (fun acc dep =>
                 g' <- acc ;;
                 d <- getn g' (fst dep) ;;
                 if upstream || negb (String.eqb (nkey d) (nkey n)) then
                   if nmem id (nrdeps d) then
                     let rd' := nremove id (nrdeps d) in
                     let g'' := setn g' (fst dep) (mkNode (nkey d) (nmeta d) (ndeps d) rd' (ncomplete d)) in
                     match rd' with
                     | [] => remove_dists f g'' (fst dep) true
                     | _ => Rok g''
                     end
                   else Rer EKey
                 else Rok g')
              (ndeps n1) (Rok g1) ;;
      if upstream then Rok g2 else
      n2 <- getn g2 id ;;
      Rok (setn g2 id (mkNode (nkey n2) None [] (nrdeps n2) false))
  end.

(* ---- add_dist / _update_dists / _discard_metadata_if_necessary ---- *)
Definition discard (fuel : nat) (g : graph) (id : nat) (reason : option req) : res graph :=
  n <- getn g id ;;
  match nmeta n, reason with
  | Some d, Some r =>
      if dmeta d then Rok g else
      match dversion d with
      | Some v => if spec_contains (rspec r) v true then Rok g else remove_dists fuel g id false
      | None => Rok g
      end
  | _, _ => Rok g
  end.

Definition dedup_nat (l : list nat) : list nat := fold_left (fun acc x => nadd x acc) l [].

Fixpoint add_dist (fuel : nat) (e : env) (g : graph) (nm : string) (md : option dist)
         (source : option nat) (reason : option req) : res (graph * list nat) :=
  match fuel with
  | O => Rer EFuel
  | S f =>
      let key := norm nm in
      let '(g1, id) :=
        match slookup key (index g) with
        | Some id => (g, id)
        | None => (mkG (heap g ++ [(next g, mkNode key md [] [] false)])
                       (index g ++ [(key, next g)]) (S (next g)) (glog g), next g)
        end in
      n <- getn g1 id ;;
      '(md2, g2) <-
        match reason, nmeta n with
        | Some r, Some m =>
            match rextras r with
            | [] => Rok (md, g1)
            | _ =>
                ex <- node_extras g1 id ;;
                if existsb (fun x => negb (smem x ex)) (rextras r) then
                  Rok (Some m, setn g1 id (mkNode (nkey n) (nmeta n) (ndeps n) (nrdeps n) false))
                else Rok (md, g1)
            end
        | _, _ => Rok (md, g1)
        end ;;
      g3 <-
        match source with
        | None => Rok g2
        | Some s =>
            sn <- getn g2 s ;;
            if key_present g2 (nkey sn) then
              n2 <- getn g2 id ;;
              let g' := setn g2 id (mkNode (nkey n2) (nmeta n2) (ndeps n2) (nadd s (nrdeps n2)) (ncomplete n2)) in
              sn' <- getn g' s ;;
              Rok (setn g' s (mkNode (nkey sn') (nmeta sn') (aset id reason (ndeps sn')) (nrdeps sn') (ncomplete sn')))
            else Rok g2
        end ;;
      '(g4, nodes) <-
        match md2 with
        | None => Rok (g3, [])
        | Some m =>
            n3 <- getn g3 id ;;
            let g' := setn g3 id (mkNode (nkey n3) (Some m) (ndeps n3) (nrdeps n3) (ncomplete n3)) in
            ex <- node_extras g' id ;;
            (* (after the /repo fix that combines the reasons of one edge) all requirements that apply under
               None and the requested extras are collected first and reduced to one requirement per project;
               each project is then added once, with the combined requirement as the edge reason *)
            all <- collect_requires e m (extras_iteration e ex) ;;
            rs <- lift_merge (reduce all) ;;
            fold_left
              (fun acc r =>
                 '(gb, nb) <- acc ;;
                 '(gc, nc) <- add_dist f e gb (rname r) None (Some id) (Some r) ;;
                 Rok (gc, nb ++ nc))
              rs (Rok (g', [id]))
        end ;;
      g5 <- discard f g4 id reason ;;
      n5 <- getn g5 id ;;
      if key_present g5 (nkey n5) then Rok (g5, dedup_nat nodes) else Rer EValueGone
  end.

(* ---- visit_nodes: nodes reachable from the roots through dependency links ---- *)
Fixpoint visit (fuel : nat) (g : graph) (visited : list nat) (todo : list nat) : list nat :=
  match fuel with
  | O => visited
  | S f =>
      match todo with
      | [] => visited
      | id :: todo' =>
          match alookup id (heap g) with
          | None => visit f g visited todo'
          | Some n =>
              let new := filter (fun d => negb (nmem d visited)) (map fst (ndeps n)) in
              let new := dedup_nat new in
              visit f g (visited ++ new) (new ++ todo')
          end
      end
  end.
Definition visit_nodes (g : graph) (roots : list nat) : list nat :=
  visit (S (List.length (heap g) * S (List.length (heap g)))) g [] roots.

(* ---- the operations the solver and the loader are entitled to perform (C10) ---- *)
Inductive gop :=
| OpAdd (nm : string) (md : option dist) (source : option string) (reason : option req)
        (* add_dist(name_or_metadata, dists[source], reason) *)
| OpAddFrom (nm : string) (md : option dist) (source : nat) (reason : option req)
        (* add_dist(name_or_metadata, <node object number `source`, possibly no longer in the graph>, reason):
           the solver keeps node objects across removals and passes them on as `source` *)
| OpInvalidate (k : string)     (* remove_dists(dists[k], remove_upstream=False) *)
| OpRemove (k : string).        (* remove_dists(dists[k]) *)

Definition gstep (fuel : nat) (e : env) (g : graph) (o : gop) : res graph :=
  match o with
  | OpAdd nm md source reason =>
      match source with
      | None => '(g', _) <- add_dist fuel e g nm md None reason ;; Rok g'
      | Some sk =>
          match slookup (norm sk) (index g) with
          | None => Rer EKey
          | Some s => '(g', _) <- add_dist fuel e g nm md (Some s) reason ;; Rok g'
          end
      end
  | OpAddFrom nm md sid reason =>
      match alookup sid (heap g) with
      | None => Rer EKey
      | Some _ => '(g', _) <- add_dist fuel e g nm md (Some sid) reason ;; Rok g'
      end
  | OpInvalidate k =>
      match slookup (norm k) (index g) with
      | None => Rer EKey
      | Some id => remove_dists fuel g id false
      end
  | OpRemove k =>
      match slookup (norm k) (index g) with
      | None => Rer EKey
      | Some id => remove_dists fuel g id true
      end
  end.

Fixpoint grun (fuel : nat) (e : env) (g : graph) (ops : list gop) : res graph :=
  match ops with
  | [] => Rok g
  | o :: ops' => g' <- gstep fuel e g o ;; grun fuel e g' ops'
  end.

(* C04: req_compile/repos/multi.py (MultiRepository.get_dist, PooledCandidateMultiRepository),
   req_compile/cmdline.py build_repo, and the get_candidates of the four repository kinds
   (solution.py, source.py, findlinks.py, pypi.py).  Selection inside one repository is the
   C03 model (model/SelectC03.v).  (T1) constants come from gen/C04Consts.v. *)
From Coq Require Import List String Ascii Bool ZArith NArith.
From RC Require Import lib.Lex lib.PyStr lib.Pep440 lib.Name model.Merge gen.C03Consts model.SelectC03 gen.C04Consts.
Import ListNotations.
Open Scope string_scope.
Open Scope list_scope.

Inductive rkind := KSolution | KSource | KFindLinks | KIndex.

(* One repository.  [holdings]: (page key, candidate).  The page key is only used by an
   index (the PEP 503 name of the page the link is listed on); [excluded]: the normalised
   names in SolutionRepository.excluded_packages. *)
Record repository := mkRepo {
  rk : rkind;
  rid : N;                              (* identifies the repository in the request log *)
  holdings : list (string * cand);
  excluded : list string
}.

(* pypi.normalize: re.sub(r"(\s|[-_.])+", "-", name).lower()  (ASCII white space) *)
Definition is_sep503 (c : ascii) : bool :=
  is_space c || Ascii.eqb c "-"%char || Ascii.eqb c "_"%char || Ascii.eqb c "."%char.
Fixpoint pep503_aux (s : string) (in_run : bool) : string :=
  match s with
  | EmptyString => EmptyString
  | String c s' =>
      if is_sep503 c then (if in_run then pep503_aux s' true else String "-"%char (pep503_aux s' true))
      else String (lower_ascii c) (pep503_aux s' false)
  end.
Definition pep503 (s : string) : string := pep503_aux s false.

(* req.project_name *)
Definition project_name (rq : req) : string := safe_name (rname rq).

Definition get_candidates (r : repository) (rq : req) : list cand :=
  match rk r with
  | KSolution =>
      (* excluded -> []; else the single recorded node of the project (DistributionCollection
         is keyed by the normalised name), or [] on KeyError *)
      if existsb (String.eqb (norm (project_name rq))) (excluded r) then []
      else match List.find (fun kc => String.eqb (norm (cname (snd kc))) (norm (project_name rq))) (holdings r) with
           | Some kc => [snd kc]
           | None => []
           end
  | KSource =>
      (* self.distributions.get(normalize_project_name(req.name), []) *)
      map snd (filter (fun kc => String.eqb (norm (cname (snd kc))) (norm (rname rq))) (holdings r))
  | KFindLinks =>
      map snd (filter (fun kc => String.eqb (norm (cname (snd kc))) (norm (project_name rq))) (holdings r))
  | KIndex =>
      (* every link on the page <index>/<pep503 name>/ *)
      map snd (filter (fun kc => String.eqb (fst kc) (pep503 (project_name rq))) (holdings r))
  end.

(* what one get_dist call carries down the stack *)
Record query := mkQ {
  q_allow_pre : bool;        (* build_repo(allow_prerelease=...) *)
  q_allow_src : bool;        (* allow_source_dist *)
  q_budget : option Z        (* max_downgrade *)
}.

(* (T1) SolutionRepository / SourceRepository pass allow_prerelease=True to Repository.__init__ *)
Definition repo_allow_pre (q : query) (r : repository) : bool :=
  match rk r with
  | KSolution => solution_allow_pre
  | KSource => source_allow_pre
  | _ => q_allow_pre q
  end.

Definition repo_settings (q : query) (r : repository) : settings :=
  mkSet (repo_allow_pre q r) (q_allow_src q) (q_budget q).

(* Repository.get_dist of a leaf repository: get_candidates once, then do_get_candidate *)
Definition repo_get_dist (q : query) (r : repository) (rq : req) : answer :=
  get_dist (repo_settings q r) rq (get_candidates r rq).

(* MultiRepository.get_dist over leaf repositories: the answer with the id of the repository
   that gave it, and the ids of the repositories whose get_candidates was called, in order *)
Fixpoint multi_leaves (q : query) (rs : list repository) (rq : req) : option (N * cand) * list N :=
  match rs with
  | [] => (None, [])
  | r :: rs' =>
      match repo_get_dist q r rq with
      | Found c => (Some (rid r, c), [rid r])
      | NoCandidate =>
          let (a, log) := multi_leaves q rs' rq in (a, rid r :: log)
      end
  end.

(* the stack build_repo returns: leaves and at most one pooled group; the group inherits
   MultiRepository.get_dist ((T1) pooled_overrides_get_dist = false) *)
Inductive node := Leaf (r : repository) | Group (rs : list repository).

Definition node_get_dist (q : query) (n : node) (rq : req) : option (N * cand) * list N :=
  match n with
  | Leaf r => multi_leaves q [r] rq
  | Group rs => multi_leaves q rs rq
  end.

Fixpoint multi_get_dist (q : query) (stack : list node) (rq : req) : option (N * cand) * list N :=
  match stack with
  | [] => (None, [])
  | n :: stack' =>
      match node_get_dist q n rq with
      | (Some a, log) => (Some a, log)
      | (None, log) =>
          let (a, log') := multi_get_dist q stack' rq in (a, log ++ log')
      end
  end.

Definition node_leaves (n : node) : list repository :=
  match n with Leaf r => [r] | Group rs => rs end.
Definition flatten (stack : list node) : list repository := flat_map node_leaves stack.

(* ---- build_repo ---- *)
Record config := mkCfg {
  c_solutions : list repository;
  c_sources : list repository;
  c_find_links : list repository;
  c_index_urls : list repository;
  c_default_index : repository;       (* used when no --index-url is given *)
  c_extra_index_urls : list repository;
  c_no_index : bool
}.

Definition pooled_members_of (cfg : config) (p : pooled_part) : list repository :=
  match p with
  | PFindLinks => c_find_links cfg
  | PIndexDefault =>
      if c_no_index cfg then [] else match c_index_urls cfg with [] => [c_default_index cfg] | _ => [] end
  | PIndexUrls => if c_no_index cfg then [] else c_index_urls cfg
  | PExtra => if c_no_index cfg then [] else c_extra_index_urls cfg
  end.

(* (T1) order of the pooled_repos.extend/append statements *)
Definition pooled_members (cfg : config) : list repository :=
  flat_map (pooled_members_of cfg) pooled_order.

Definition stack_nodes_of (cfg : config) (s : stack_part) : list node :=
  match s with
  | SSolutions => map Leaf (c_solutions cfg)
  | SSources => map Leaf (c_sources cfg)
  | SPooled =>
      match pooled_members cfg with
      | [] => []
      | [r] => [Leaf r]
      | rs => [Group rs]
      end
  end.

(* (T1) order of the repos.extend/append statements; None = ValueError("At least one source
   of Python distributions must be provided.") *)
Definition build_stack (cfg : config) : option (list node) :=
  match flat_map (stack_nodes_of cfg) stack_order with
  | [] => None
  | s => Some s
  end.

(* ---- compile_main: the index URLs handed to build_repo ---- *)
(* OrderedDict(zip(cli, repeat(None))); for url in file: d[url] = None; list(d):
   first occurrences, in order of first insertion *)
Fixpoint dedup (l : list string) : list string :=
  match l with
  | [] => []
  | x :: r => x :: filter (fun y => negb (String.eqb x y)) (dedup r)
  end.

Definition merge_urls (cli file : list string) : list string := dedup (cli ++ file).

Record cmdline := mkCmd {
  cl_index : list string;          (* --index-url on the command line, in order *)
  cl_extra : list string;          (* --extra-index-url on the command line *)
  fl_index : list string;          (* --index-url lines of the requirements files, in file order *)
  fl_extra : list string;
  has_file_options : bool          (* extra_parameters is not empty *)
}.

(* (T1) the merge block sits under `if extra_parameters:`; without option lines the command
   line lists go to build_repo untouched (duplicates included) *)
Definition effective_index (c : cmdline) : list string :=
  if has_file_options c then merge_urls (cl_index c) (fl_index c) else cl_index c.
Definition effective_extra (c : cmdline) : list string :=
  if has_file_options c then merge_urls (cl_extra c) (fl_extra c) else cl_extra c.

(* what is behind a URL: its pages, as an index repository (unknown URL: an empty index) *)
Definition lookup_index (table : list (string * repository)) (url : string) : repository :=
  match List.find (fun ur => String.eqb (fst ur) url) table with
  | Some ur => snd ur
  | None => mkRepo KIndex 0%N [] []
  end.

Definition config_of_cmdline (c : cmdline) (sols srcs fls : list repository)
    (table : list (string * repository)) (default : repository) (no_index : bool) : config :=
  mkCfg sols srcs fls (map (lookup_index table) (effective_index c)) default
        (map (lookup_index table) (effective_extra c)) no_index.

(* ---- PooledCandidateMultiRepository.get_candidates (listing only: get_dist never calls it) ---- *)
Definition tag_pooled (idx : nat) (c : cand) : cand :=
  mkCand (cname c) (ver c) (ckind c) (usable c) (readable c) (Z.of_nat idx :: extra c) (tagscore c) (cfile c).

Fixpoint pooled_candidates_from (idx : nat) (rs : list repository) (rq : req) : list cand :=
  match rs with
  | [] => []
  | r :: rs' => map (tag_pooled idx) (get_candidates r rq) ++ pooled_candidates_from (S idx) rs' rq
  end.
Definition pooled_get_candidates (rs : list repository) (rq : req) : list cand :=
  pooled_candidates_from 0 rs rq.

(* for T2 *)
Definition pooled_listing (rs : list repository) (rq : req) : list string :=
  map cfile (sort_candidates (pooled_get_candidates rs rq)).

Definition stack_shape_ids (stack : list node) : list (bool * list N) :=
  map (fun n => match n with Leaf r => (false, [rid r]) | Group rs => (true, map rid rs) end) stack.

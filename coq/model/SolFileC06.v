(* C06 - solution files: the writer (cmdline.write_requirements_file + ExplanationRender +
   dists._process_constraint_req, explanation-enabled modes) and the loader
   (repos/solution.py: _load_from_lines, _parse_line, _parse_multi_line, _parse_single_line,
   _add_sources, _create_metadata_req, _remove_nodes) transcribed at the level of strings.

   Outside the model (see ASSUMPTIONS in harness/c06.py): pkg_resources / packaging parsing
   of requirement, version and specifier strings.  The model only *recognises* a canonical
   lexical fragment of them (req_lex, ver_ok, spec_ok); on anything else it answers
   [Err EUnmodelled] - an explicit "outside the model" value that the theorems exclude and
   the correspondence harness counts separately (never a normal-looking result). *)
From Coq Require Import List Bool String Ascii Arith.
From RC Require Import lib.PyStr lib.StrSort lib.Name gen.SolConstsC06.
Import ListNotations.
Open Scope string_scope.
Open Scope nat_scope.

(* ------------------------------------------------------------------ data *)

Record via_t := mkVia {
  v_req : string;            (* requirer: project name, or the file path / "-" of an input *)
  v_mex : list string;       (* extras of the requirer under which the requirement applies *)
  v_spec : string;           (* specifier text, "" if none *)
  v_extras : list string     (* extras requested on the pinned project by this edge *)
}.
Record pin := mkPin {
  p_name : string; p_version : string;
  p_hash : option string; p_url : option string;
  p_via : list via_t
}.
Definition view := list pin.

Record annot := mkAnnot {
  a_ver : string; a_time : string;
  a_inputs : list string; a_repos : list string;
  a_idx : list (string * string)   (* pin name -> text printed between [ ] ; default "?" *)
}.
Record opts := mkOpts {
  o_format : option bool;    (* the `multiline` argument: Some true / Some false, or None = left to the tool *)
  o_hashes : bool; o_urls : bool;
  o_annot : option annot;
  o_index : list string;     (* str(repo) of the index directives written, in order *)
  o_links : list string      (* str(repo) of the --find-links directives written *)
}.

(* the layout the writer uses: `if multiline is None and <rule>: multiline = <value>`, then `if multiline:`
   everywhere (None is falsy).  The rule is read from /repo by T1 (w_default_multi). *)
Definition o_multi (o : opts) : bool :=
  match o_format o with
  | Some b => b
  | None => w_default_multi (o_hashes o) (o_urls o)
  end.

Inductive lerr := ENotAnnotated | EValue | EUnmodelled.
Inductive result (A : Type) := Ok (a : A) | Err (e : lerr).
Arguments Ok {A} a.
Arguments Err {A} e.

(* ------------------------------------------------------------------ helpers *)

Definition nl : string := String (ascii_of_nat 10) EmptyString.
Definition nlc : ascii := ascii_of_nat 10.
Definition bsl : string := String (ascii_of_nat 92) EmptyString.

Definition nonempty (s : string) : bool := match s with EmptyString => false | _ => true end.

Fixpoint concat_str (l : list string) : string :=
  match l with [] => EmptyString | x :: l' => x ++ concat_str l' end.

(* stable sort by a string key (Python sorted(key=...) on ASCII strings) *)
Section SortBy.
  Context {A : Type} (key : A -> string).
  Fixpoint insert_by (x : A) (l : list A) : list A :=
    match l with
    | [] => [x]
    | y :: l' => if str_leb (key x) (key y) then x :: l else y :: insert_by x l'
    end.
  Definition sort_by (l : list A) : list A := fold_right insert_by [] l.
  Fixpoint sorted_by (l : list A) : bool :=
    match l with
    | [] => true
    | x :: l' => match l' with [] => true | y :: _ => str_leb (key x) (key y) && sorted_by l' end
    end.
End SortBy.

Fixpoint repeat_str (c : ascii) (n : nat) : string :=
  match n with O => EmptyString | S n' => String c (repeat_str c n') end.
Definition ljust (s : string) (w : nat) : string :=
  s ++ repeat_str " "%char (w - String.length s).

Fixpoint lookup (k : string) (l : list (string * string)) (d : string) : string :=
  match l with [] => d | (k', v) :: l' => if String.eqb k k' then v else lookup k l' d end.

Fixpoint dec_digits (fuel n : nat) (acc : string) : string :=
  match fuel with
  | O => acc
  | S f => let d := String (ascii_of_nat (48 + n mod 10)) acc in
           if n / 10 =? 0 then d else dec_digits f (n / 10) d
  end.
Definition dec (n : nat) : string := dec_digits (S n) n EmptyString.

Fixpoint last_char (s : string) : option ascii :=
  match s with
  | EmptyString => None
  | String c EmptyString => Some c
  | String _ s' => last_char s'
  end.

(* s.partition(sep) for a string separator *)
Fixpoint take (n : nat) (s : string) : string :=
  match n, s with
  | S n', String c s' => String c (take n' s')
  | _, _ => EmptyString
  end.
Definition partition_str (sep s : string) : string * bool * string :=
  match find s sep with
  | None => (s, false, EmptyString)
  | Some i => (take i s, true, drop (i + String.length sep) s)
  end.

(* f.readlines(): lines keep their terminator *)
Fixpoint readlines_acc (s acc : string) : list string :=
  match s with
  | EmptyString => match acc with EmptyString => [] | _ => [rev_str acc] end
  | String c s' =>
      if Ascii.eqb c nlc then rev_str (String c acc) :: readlines_acc s' EmptyString
      else readlines_acc s' (String c acc)
  end.
Definition readlines (s : string) : list string := readlines_acc s EmptyString.

(* ------------------------------------------------------------------ writer *)

Definition bracket (pre : string) (l : list string) : string :=
  match l with [] => EmptyString | _ => pre ++ "[" ++ join "," l ++ "]" end.
Definition requirer_text (v : via_t) : string := v_req v ++ bracket "" (sort_set (v_mex v)).

(* dists._process_constraint_req (the extras sets arrive lower-cased; sorted() is here) *)
Definition constraint_text (v : via_t) : string :=
  let source := requirer_text v in
  let specifics := v_spec v ++ bracket " " (sort_set (v_extras v)) in
  source ++ (if nonempty specifics then w_paren_open ++ strip specifics ++ w_paren_close else EmptyString).

(* cmdline.ExplanationRender.__str__ *)
Definition explanation (multi : bool) (vias : list via_t) : string :=
  let cs := map constraint_text vias in
  match cs with
  | [c] => (if multi then w_via_one else EmptyString) ++ c
  | _ =>
    (if multi then w_via_many else EmptyString) ++
    join (if multi then w_item_sep_multi else w_item_sep_single)
         (map (fun c => (if multi then w_item_prefix else EmptyString) ++ c) (sort_by lower cs))
  end.

Definition idx_text (a : annot) (name : string) : string := lookup name (a_idx a) "?".

Definition pin_text (o : opts) (p : pin) : string :=
  let multi := o_multi o in
  let sep := if multi then w_cmt_multi else w_cmt_single in
  let hash_part :=
    match p_hash p with
    | Some h => if o_hashes o && nonempty h
                then (if multi then w_hash_multi else w_hash_single) ++ w_hash_opt ++ h
                else EmptyString
    | None => EmptyString
    end in
  let comment :=
    (match o_annot o with Some a => sep ++ "[" ++ idx_text a (p_name p) ++ "]" | None => EmptyString end)
    ++ sep ++ explanation multi (p_via p)
    ++ (match p_url p with
        | Some u => if o_urls o then sep ++ u else EmptyString
        | None => EmptyString end) in
  p_name p ++ w_pin_eq ++ p_version p ++ hash_part
  ++ (if nonempty comment then (if multi then EmptyString else w_cmt_open_single) ++ comment else EmptyString)
  ++ nl.

Definition sort_pins (v : view) : view := sort_by (fun p => lower (p_name p)) v.

Definition pass_one (o : opts) (v : view) : string := concat_str (map (pin_text o) (sort_pins v)).

(* the second pass of the one-line mode: column alignment *)
Definition pass_two (text : string) : string :=
  let lines := filter (fun l => nonempty (strip l)) (split_char nlc text) in
  let sd := map (fun l => match partition_char " "%char l with (s, _, d) => (s, d) end) lines in
  match sd with
  | [] => EmptyString
  | _ =>
    let mx := fold_right (fun p m => Nat.max (String.length (fst p)) m) 0 sd in
    let any_comments := existsb (fun p => nonempty (strip_chars "# " (snd p))) sd in
    concat_str (map (fun p => if any_comments then ljust (fst p) (mx + w_pad) ++ snd p ++ nl
                              else fst p ++ nl) sd)
  end.

Fixpoint repo_lines (i : nat) (l : list string) : string :=
  match l with
  | [] => EmptyString
  | r :: l' => "# [" ++ dec i ++ "] " ++ r ++ nl ++ repo_lines (S i) l'
  end.

(* cmdline._generate_repo_header *)
Definition header_text (a : annot) : string :=
  "# Compiled by Req-Compile (" ++ a_ver a ++ ") on " ++ a_time a ++ " UTC" ++ nl
  ++ "#" ++ nl ++ "# Inputs:" ++ nl
  ++ concat_str (map (fun i => "# " ++ i ++ nl) (a_inputs a))
  ++ "#" ++ nl ++ "# Repositories (this annotation produced by --annotate):" ++ nl
  ++ repo_lines 0 (a_repos a)
  ++ nl.

(* cmdline._write_index_directives *)
Definition directives_text (o : opts) : string :=
  let c := concat_str (map (fun r => r ++ nl) (o_index o)) ++ concat_str (map (fun r => r ++ nl) (o_links o)) in
  if nonempty c then c ++ nl else EmptyString.

Definition write (o : opts) (v : view) : string :=
  (match o_annot o with Some a => header_text a | None => EmptyString end)
  ++ directives_text o
  ++ (if o_multi o then pass_one o v else pass_two (pass_one o v)).

(* ------------------------------------------------------------------ lexical recognisers
   (the canonical fragment of PEP 508 / PEP 440 strings the model answers for) *)

Definition is_alnum (c : ascii) : bool := is_digit c || is_alpha_ascii c.
Definition is_namech (c : ascii) : bool :=
  is_alnum c || Ascii.eqb c "."%char || Ascii.eqb c "_"%char || Ascii.eqb c "-"%char.
Definition is_lower_alnum (c : ascii) : bool :=
  let n := nat_of_ascii c in is_digit c || ((97 <=? n) && (n <=? 122)).

Fixpoint span (p : ascii -> bool) (s : string) : string * string :=
  match s with
  | EmptyString => (EmptyString, EmptyString)
  | String c s' => if p c then match span p s' with (a, b) => (String c a, b) end
                   else (EmptyString, s)
  end.
Fixpoint forall_chars (p : ascii -> bool) (s : string) : bool :=
  match s with EmptyString => true | String c s' => p c && forall_chars p s' end.

Definition first_ok (p : ascii -> bool) (s : string) : bool :=
  match s with EmptyString => false | String c _ => p c end.
Definition last_ok (p : ascii -> bool) (s : string) : bool :=
  match last_char s with None => false | Some c => p c end.

(* an extra as pkg_resources prints it (safe_extra): lower case, [a-z0-9._-], alnum ends *)
Definition extra_ok (e : string) : bool :=
  forall_chars (fun c => is_lower_alnum c || Ascii.eqb c "."%char || Ascii.eqb c "_"%char || Ascii.eqb c "-"%char) e
  && first_ok is_lower_alnum e && last_ok is_lower_alnum e.

(* canonical decimal number: 0 | [1-9][0-9]* ; returns the rest *)
Definition scan_num (s : string) : option string :=
  match span is_digit s with
  | (EmptyString, _) => None
  | (String d EmptyString, r) => Some r
  | (String d ds, r) => if Ascii.eqb d "0"%char then None else Some r
  end.

Fixpoint scan_release (fuel : nat) (s : string) : option string :=
  match fuel with
  | O => None
  | S f =>
    match scan_num s with
    | None => None
    | Some r =>
      match r with
      | String "."%char (String c r') =>
          if is_digit c then scan_release f (String c r') else Some r
      | _ => Some r
      end
    end
  end.

Definition scan_opt_tag (tag : string) (s : string) : option string :=
  if prefixb tag s then scan_num (drop (String.length tag) s) else Some s.

Definition scan_pre (s : string) : option string :=
  if prefixb "a" s then scan_num (drop 1 s)
  else if prefixb "b" s then scan_num (drop 1 s)
  else if prefixb "rc" s then scan_num (drop 2 s)
  else Some s.

Definition local_seg_ok (g : string) : bool :=
  nonempty g && forall_chars is_lower_alnum g &&
  (if forall_chars is_digit g then match scan_num g with Some EmptyString => true | _ => false end else true).

Definition public_ok (s : string) : bool :=
  match scan_release (S (String.length s)) s with
  | None => false
  | Some r1 =>
    match scan_pre r1 with
    | None => false
    | Some r2 =>
      match scan_opt_tag ".post" r2 with
      | None => false
      | Some r3 =>
        match scan_opt_tag ".dev" r3 with
        | Some EmptyString => true
        | _ => false
        end
      end
    end
  end.

(* str(packaging.version.Version(s)) == s *)
Definition ver_ok (s : string) : bool :=
  match partition_char "+"%char s with
  | (pub, has_local, loc) =>
    (if has_local then forallb local_seg_ok (split_char "."%char loc) else true) &&
    match partition_char "!"%char pub with
    | (ep, true, rest) =>
        match scan_num ep with Some EmptyString => negb (String.eqb ep "0") && public_ok rest | _ => false end
    | (_, false, _) => public_ok pub
    end
  end.

Definition spec_ops : list string := ["=="; "~="; "!="; "<="; ">="; "<"; ">"].

Fixpoint clause_version (ops : list string) (c : string) : option string :=
  match ops with
  | [] => None
  | op :: ops' => if prefixb op c then Some (strip (drop (String.length op) c)) else clause_version ops' c
  end.

(* release-only version with optional epoch followed by ".*" *)
Definition wildcard_ok (v : string) : bool :=
  endswith v ".*" &&
  let b := take (String.length v - 2) v in
  match partition_char "!"%char b with
  | (ep, true, rest) => ver_ok b && forall_chars (fun c => is_digit c || Ascii.eqb c "."%char) rest
  | (_, false, _) => ver_ok b && forall_chars (fun c => is_digit c || Ascii.eqb c "."%char) b
  end.

Definition release_has_dot (v : string) : bool :=
  let r := match partition_char "!"%char v with (_, true, rest) => rest | (_, false, _) => v end in
  containsb "." (fst (span (fun c => is_digit c || Ascii.eqb c "."%char) r)).

Definition clause_ok (c0 : string) : bool :=
  let c := strip c0 in
  if prefixb "===" c then false else
  match clause_version spec_ops c with
  | Some v =>
      if prefixb "==" c || prefixb "!=" c then ver_ok v || wildcard_ok v
      else ver_ok v && negb (containsb "+" v) && (if prefixb "~=" c then release_has_dot v else true)
  | None => false
  end.

(* a specifier set in the canonical fragment: "" or comma separated clauses *)
Definition spec_ok (s : string) : bool :=
  match s with
  | EmptyString => true
  | _ => forallb clause_ok (split_char ","%char s)
  end.

Inductive rl := RL_ok (name : string) (extras : list string) (rest : string) | RL_invalid | RL_unmod.

(* utils.parse_requirement on the fragment  name [ "[" extras "]" ] rest *)
Definition req_lex (s0 : string) : rl :=
  let s := strip s0 in
  match s with
  | EmptyString => RL_invalid
  | String c _ =>
    if negb (is_alnum c) then
      (if forall_chars (fun c => (nat_of_ascii c <? 128)) s then RL_invalid else RL_unmod)
    else
      match span is_namech s with
      | (name, r1) =>
        if negb (last_ok is_alnum name) then RL_unmod else
        let r2 := lstrip r1 in
        match r2 with
        | String "["%char r3 =>
          match partition_char "]"%char r3 with
          | (inside, true, r4) =>
              let es := if nonempty (strip inside) then map strip (split_char ","%char inside) else [] in
              if forallb extra_ok es then RL_ok name (sort_set es) (strip r4) else RL_unmod
          | _ => RL_unmod
          end
        | _ => RL_ok name [] (strip r2)
        end
      end
  end.

(* ------------------------------------------------------------------ loader *)

Definition url_like (part : string) : bool :=
  existsb (fun p => startswith part p) sol_url_prefixes || existsb (fun x => endswith part x) sol_url_suffixes.

Definition is_path (name : string) : bool :=
  existsb (fun x => endswith name x) sol_path_suffixes || existsb (fun x => containsb x name) sol_path_infixes.

Record pst := mkPst { in_sources : bool; in_url : bool; s_url : string; s_sources : list string (* reversed *) }.

(* one iteration of the `for part in parts` loop of _parse_single_line *)
Definition part_step (st : pst) (part0 : string) : pst :=
  let part := strip part0 in
  let st1 :=
    if url_like part then mkPst false true part (s_sources st)
    else if in_url st then mkPst (in_sources st) false (s_url st ++ "#" ++ part) (s_sources st)
    else st in
  if in_sources st1 then mkPst true (in_url st1) (s_url st1) (part :: s_sources st1)
  else if startswith part l_via then
    mkPst true (in_url st1) (s_url st1)
          (if String.eqb part l_via then s_sources st1 else drop l_via_skip part :: s_sources st1)
  else st1.

Record entry := mkEntry { e_req : string; e_hash : option string; e_sources : list string; e_url : string }.

(* s.rpartition(c) for a single character: (before the last c, found, after) *)
Definition rpartition_char (c : ascii) (s : string) : string * bool * string :=
  match partition_char c (rev_str s) with
  | (a, true, b) => (rev_str b, true, rev_str a)
  | (_, false, _) => (EmptyString, false, s)
  end.

(* one-line layout written with --urls: the URL is the last blank-separated token of the last source *)
Definition take_url (sources : list string) : list string * string :=
  match rev sources with
  | [] => (sources, EmptyString)
  | last :: before =>
    match rpartition_char " "%char last with
    | (head, _, tail) =>
      if nonempty head && url_like (fst (fst (partition_char "#"%char tail)))
      then (rev (head :: before), tail) else (sources, EmptyString)
    end
  end.

(* _parse_single_line up to the call of _add_sources; None = nothing to do.  [acc] = the text was gathered
   from several lines by _parse_multi_line *)
Definition single_entry (acc : bool) (line : string) : result (option entry) :=
  match partition_char "#"%char line with
  | (rh0, _, source_part) =>
    let rh := strip rh0 in
    if negb (nonempty rh) then Ok None else
    let hashes := split_str l_hash_split rh in
    let req_part := hd EmptyString hashes in
    let dist_hash := match hashes with _ :: h :: _ => Some h | _ => None end in
    match req_lex req_part with
    | RL_invalid => Err EValue
    | RL_unmod => Err EUnmodelled
    | RL_ok _ _ rest =>
      (* parse_requirement(req_part) runs before anything else: its verdict on the specifier
         part is only known for the canonical fragment *)
      if negb (spec_ok rest) then Err EUnmodelled else
      if acc || negb (nonempty (strip source_part)) || startswith (strip source_part ++ l_via_pad) l_via_word then
        let parts := split_char "#"%char (strip source_part) in
        let st := fold_left part_step parts (mkPst false false EmptyString []) in
        match s_sources st with
        | [] => Err ENotAnnotated
        | _ => Ok (Some (mkEntry req_part dist_hash (rev (s_sources st)) (s_url st)))
        end
      else
        let sp := strip source_part in
        let sp' := if prefixb "[" sp then match partition_str l_idx_close sp with (_, _, r) => r end else sp in
        match take_url (split_str l_src_sep sp') with
        | (sources, url) => Ok (Some (mkEntry req_part dist_hash sources url))
        end
    end
  end.

(* the version named by the pin requirement: list(req.specs)[0][1] *)
Definition pin_version (rest : string) : result string :=
  match rest with
  | EmptyString => Err EValue            (* IndexError inside the try *)
  | _ =>
    if containsb "," rest || containsb ";" rest || containsb "@" rest || prefixb "===" rest then Err EUnmodelled else
    match clause_version spec_ops rest with
    | Some v => if ver_ok v then Ok v else Err EUnmodelled
    | None => Err EUnmodelled
    end
  end.

(* the requirer named by a source: path test, parse_requirement(name), the marker extra *)
Definition requirer_of (name : string) : result (string * list string) :=
  if negb (nonempty name) || is_path name then
    (if containsb "[" name then Err EUnmodelled else Ok (name, []))
  else
    match req_lex name with
    | RL_ok n mex rest =>
        if nonempty rest then Err EUnmodelled else
        if containsb "[" name then
          match mex with
          | [] => Err EValue              (* next(iter(())) -> StopIteration inside the try *)
          | [m] => Ok (n, [m])
          | _ => Err EUnmodelled          (* next(iter(set)) is hash-order dependent *)
          end
        else Ok (n, [])
    | RL_invalid => if containsb "[" name then Err EUnmodelled else Ok (name, [])
    | RL_unmod => Err EUnmodelled
    end.

(* _create_metadata_req: specifier and extras out of "(spec [e1,e2])" with the parentheses removed *)
Definition constraint_parts (c0 : string) (pin_extras : list string) : string * list string :=
  if nonempty c0 && containsb "[" c0 && containsb "]" c0 then
    match partition_char "["%char c0 with
    | (c1, _, es) => (strip c1, sort_set (map strip (split_char ","%char (replace "]" "" es))))
    end
  else (c0, pin_extras).

(* one (name, constraint) pair of _add_sources, including _create_metadata_req *)
Definition source_via (pin_extras : list string) (src : string) : result via_t :=
  match partition_char " "%char src with
  | (name, has_space, after) =>
    let constraint : result (option string) :=
      if containsb "(" src then
        (if has_space then Ok (Some (replace ")" "" (replace "(" "" after))) else Err EValue)
      else Ok None in
    match constraint with
    | Err e => Err e
    | Ok cns =>
      match requirer_of name with
      | Err e => Err e
      | Ok (rname, mex) =>
        let c0 := match cns with Some c => c | None => EmptyString end in
        match constraint_parts c0 pin_extras with
        | (spec, extras) =>
          if negb (forallb extra_ok extras) then Err EUnmodelled else
          if negb (spec_ok spec) then Err EUnmodelled else
          Ok (mkVia rname mex spec extras)
        end
      end
    end
  end.

Fixpoint map_result {A B} (f : A -> result B) (l : list A) : result (list B) :=
  match l with
  | [] => Ok []
  | x :: l' => match f x with
               | Err e => Err e
               | Ok y => match map_result f l' with Err e => Err e | Ok ys => Ok (y :: ys) end
               end
  end.

Definition add_sources (e : entry) : result pin :=
  match req_lex (e_req e) with
  | RL_ok name pin_extras rest =>
    match pin_version rest with
    | Err er => Err er
    | Ok ver =>
      match map_result (source_via pin_extras) (e_sources e) with
      | Err er => Err er
      | Ok vias =>
        Ok (mkPin name ver (e_hash e) (if nonempty (e_url e) then Some (e_url e) else None) vias)
      end
    end
  | RL_invalid => Err EValue
  | RL_unmod => Err EUnmodelled
  end.

Definition single (acc : bool) (line : string) : result (option pin) :=
  match single_entry acc line with
  | Err e => Err e
  | Ok None => Ok None
  | Ok (Some en) => match add_sources en with Err e => Err e | Ok p => Ok (Some p) end
  end.

(* _parse_multi_line: returns the new partial line and the pin flushed, if any *)
Definition multi_step (partial line : string) : result (string * option pin) :=
  let stripped := rstrip_chars l_cont (strip line) in
  if nonempty partial && (negb (nonempty stripped) || negb (existsb (fun p => startswith stripped p) l_cont_prefixes)) then
    match single true partial with
    | Err e => Err e
    | Ok r => Ok (stripped, r)
    end
  else Ok (partial ++ stripped, None).

(* _parse_line *)
Definition line_step (partial line : string) : result (string * option pin) :=
  if nonempty partial then multi_step partial line else
  match partition_char "#"%char line with
  | (rp0, has_comment, _) =>
    let rp := strip rp0 in
    if negb (nonempty rp) then Ok (EmptyString, None)
    else if negb has_comment || endswith rp l_cont then multi_step EmptyString line
    else match single false line with Err e => Err e | Ok r => Ok (EmptyString, r) end
  end.

Definition push (r : option pin) (acc : list pin) : list pin :=
  match r with Some p => p :: acc | None => acc end.

(* _load_from_lines; acc is reversed *)
Fixpoint load_lines (lines : list string) (partial : string) (acc : list pin) : result (list pin) :=
  match lines with
  | [] =>
    if nonempty partial then
      match multi_step partial EmptyString with
      | Err e => Err e
      | Ok (_, r) => Ok (rev (push r acc))
      end
    else Ok (rev acc)
  | l :: ls =>
    if startswith (strip l) "--" && negb (nonempty partial) then load_lines ls partial acc
    else match line_step partial l with
         | Err e => Err e
         | Ok (partial', r) => load_lines ls partial' (push r acc)
         end
  end.

(* every _add_sources call of the file, in file order *)
Definition load_entries (text : string) : result (list pin) := load_lines (readlines text) EmptyString [].

(* _remove_nodes drops the requirers that never got a pin of their own (their stand-in metadata does not
   originate from this repository); every _add_sources call is for a pin, so the loaded view is the list of
   those calls *)
Definition load (text : string) : result view := load_entries text.

(* requirer -> project edges of a view as the loaded graph holds them: path requirers
   (and the empty name) produce no edge.  (requirer key, project, extras, spec, marker extra) *)
Definition edges (v : view) : list (string * string * list string * string * list string) :=
  flat_map (fun p =>
    flat_map (fun x =>
      if negb (nonempty (v_req x)) || is_path (requirer_text x) then []
      else [(norm (v_req x), p_name p, v_extras x, v_spec x, v_mex x)]) (p_via p)) v.

(* C11 - Wheel metadata is read exactly as declared.

   Model of req_compile/metadata/dist_info.py (_find_dist_info_metadata, _fetch_from_wheel,
   _parse_flat_metadata), the `.whl` branch of metadata.extract_metadata and the string part of
   utils.parse_requirements, built from the shapes T1 reads into gen/WheelC11Consts.v, together
   with the specification side (an RFC 822 header reader).

   Strings are the UTF-8 bytes of the Python `str` the code works on (the METADATA text after
   `.decode("utf-8", "ignore")`, zip member names as zipfile decodes them).  Code-point aware
   operations (str.strip on Unicode white space, `.` in a regex) are written over UTF-8. *)
From Coq Require Import List Bool String Ascii Arith.
From RC Require Import lib.PyStr gen.WheelC11Consts.
Import ListNotations.
Open Scope string_scope.
Open Scope nat_scope.

Definition nl : ascii := ascii_of_nat 10.
Definition cr : ascii := ascii_of_nat 13.
Definition colon : ascii := ascii_of_nat 58.

(* ------------------------------------------------------------------------------------ *)
(* Python str primitives, structural (no accumulators) so that they are easy to reason on *)

(* s.split(c): never empty *)
Fixpoint psplit (c : ascii) (s : string) : list string :=
  match s with
  | EmptyString => [EmptyString]
  | String d s' =>
      if Ascii.eqb d c then EmptyString :: psplit c s'
      else match psplit c s' with
           | h :: t => String d h :: t
           | [] => [String d EmptyString]
           end
  end.

(* s.partition(c) = (before, sep-or-empty, after) *)
Fixpoint ppartition (c : ascii) (s : string) : string * bool * string :=
  match s with
  | EmptyString => (EmptyString, false, EmptyString)
  | String d s' =>
      if Ascii.eqb d c then (EmptyString, true, s')
      else match ppartition c s' with (a, f, b) => (String d a, f, b) end
  end.

(* code points of a UTF-8 string: a byte followed by its continuation bytes (0x80..0xBF) *)
Definition is_contb (c : ascii) : bool :=
  let n := nat_of_ascii c in (128 <=? n) && (n <=? 191).
Definition head_is_cont (g : string) : bool :=
  match g with String c _ => is_contb c | EmptyString => false end.
Fixpoint chars (s : string) : list string :=
  match s with
  | EmptyString => []
  | String c s' =>
      match chars s' with
      | g :: gs => if head_is_cont g then String c g :: gs else String c EmptyString :: g :: gs
      | [] => [String c EmptyString]
      end
  end.
Fixpoint sconcat (l : list string) : string :=
  match l with [] => EmptyString | x :: l' => x ++ sconcat l' end.

Definition bytes_of (l : list nat) : string :=
  fold_right (fun n s => String (ascii_of_nat n) s) EmptyString l.

(* the code points for which Python's str.isspace() holds, i.e. what str.strip() removes *)
Definition ws_multibyte : list string :=
  [ bytes_of [194; 133]; bytes_of [194; 160]; bytes_of [225; 154; 128];
    bytes_of [226; 128; 128]; bytes_of [226; 128; 129]; bytes_of [226; 128; 130];
    bytes_of [226; 128; 131]; bytes_of [226; 128; 132]; bytes_of [226; 128; 133];
    bytes_of [226; 128; 134]; bytes_of [226; 128; 135]; bytes_of [226; 128; 136];
    bytes_of [226; 128; 137]; bytes_of [226; 128; 138]; bytes_of [226; 128; 168];
    bytes_of [226; 128; 169]; bytes_of [226; 128; 175]; bytes_of [226; 129; 159];
    bytes_of [227; 128; 128] ].
Definition is_ws_cp (g : string) : bool :=
  match g with
  | String c EmptyString => is_space c
  | _ => existsb (String.eqb g) ws_multibyte
  end.

Fixpoint dropwhile {A} (p : A -> bool) (l : list A) : list A :=
  match l with [] => [] | x :: l' => if p x then dropwhile p l' else l end.
Fixpoint rstripl {A} (p : A -> bool) (l : list A) : list A :=
  match l with
  | [] => []
  | x :: l' => match rstripl p l' with
               | [] => if p x then [] else [x]
               | r => x :: r
               end
  end.
(* str.strip() *)
Definition py_strip (s : string) : string :=
  sconcat (dropwhile is_ws_cp (rstripl is_ws_cp (chars s))).

(* s.rstrip(chars) for ASCII chars *)
Fixpoint ascii_list (s : string) : list ascii :=
  match s with EmptyString => [] | String c s' => c :: ascii_list s' end.
Fixpoint of_ascii_list (l : list ascii) : string :=
  match l with [] => EmptyString | c :: l' => String c (of_ascii_list l') end.
Definition py_rstrip_chars (cs s : string) : string :=
  of_ascii_list (rstripl (fun c => mem_ascii c cs) (ascii_list s)).

(* ------------------------------------------------------------------------------------ *)
(* line helpers shared by the code model and the specification *)

Fixpoint all_chars (p : ascii -> bool) (s : string) : bool :=
  match s with EmptyString => true | String c s' => p c && all_chars p s' end.
Definition is_lwsp (c : ascii) : bool := Ascii.eqb c " "%char || Ascii.eqb c (ascii_of_nat 9).
(* the line starts with a space or a tab: an RFC 822 continuation line *)
Definition is_cont_line (l : string) : bool :=
  match l with String c _ => is_lwsp c | EmptyString => false end.
(* s.rstrip("\r"): trailing CRs belong to the line terminator *)
Fixpoint chomp_cr (s : string) : string :=
  match s with
  | EmptyString => EmptyString
  | String c s' => match chomp_cr s' with
                   | EmptyString => if Ascii.eqb c cr then EmptyString else String c EmptyString
                   | r => String c r
                   end
  end.

(* ------------------------------------------------------------------------------------ *)
(* _parse_flat_metadata *)

(* `line[:1] in (" ", "\t")` with the characters T1 read *)
Definition code_is_cont (l : string) : bool :=
  match l with String c _ => existsb (Ascii.eqb c) c11_cont_chars | EmptyString => false end.
(* the unfolding pre-pass: `lines[-1] = lines[-1].rstrip("\r") + line` for a continuation line
   (never for the first line), else `lines.append(line)`; [cur] is lines[-1] *)
Fixpoint unfold_from (cur : string) (ls : list string) : list string :=
  match ls with
  | [] => [cur]
  | l :: ls' => if code_is_cont l then unfold_from (py_rstrip_chars c11_unfold_rstrip cur ++ l) ls'
                else cur :: unfold_from l ls'
  end.
Definition unfold_lines (ls : list string) : list string :=
  match ls with [] => [] | l :: ls' => unfold_from l ls' end.

Record pstate := mkP { p_name : option string; p_version : option string; p_reqs : list string;
                       p_index_error : bool }.
Definition p_init : pstate := mkP None None [] false.

(* line.split(c)[i] / line.partition(c)[i]; None = IndexError *)
Definition run_extr (e : c11_extr) (line : string) : option string :=
  match e with
  | ExSplit c i => nth_error (psplit c line) i
  | ExPartition c i =>
      match ppartition c line with
      | (a, f, b) => nth_error [a; if f then String c EmptyString else EmptyString; b] i
      end
  end.

Definition branch_fires (s : pstate) (lower_line : string) (b : c11_branch) : bool :=
  (if b_first_wins b then
     match b_target b with
     | TName => match p_name s with None => true | Some _ => false end
     | TVersion => match p_version s with None => true | Some _ => false end
     | TReq => true
     end
   else true) && startswith lower_line (b_prefix b).

Definition apply_branch (s : pstate) (line : string) (b : c11_branch) : pstate :=
  match run_extr (b_extr b) line with
  | None => mkP (p_name s) (p_version s) (p_reqs s) true
  | Some v0 =>
      let v := if b_strip b then py_strip v0 else v0 in
      match b_target b with
      | TName => mkP (Some v) (p_version s) (p_reqs s) (p_index_error s)
      | TVersion => mkP (p_name s) (Some v) (p_reqs s) (p_index_error s)
      | TReq => mkP (p_name s) (p_version s) (p_reqs s ++ [v]) (p_index_error s)
      end
  end.

(* one iteration of the loop: the if/elif chain read by T1 *)
Fixpoint run_chain (bs : list c11_branch) (s : pstate) (line lower_line : string) : pstate :=
  match bs with
  | [] => s
  | b :: bs' => if branch_fires s lower_line b then apply_branch s line b
                else run_chain bs' s line lower_line
  end.
Definition p_step (s : pstate) (line : string) : pstate :=
  if p_index_error s then s else run_chain c11_branches s line (lower line).

Definition parse_loop (contents : string) : pstate :=
  fold_left p_step (unfold_lines (psplit c11_line_sep contents)) p_init.

Inductive exc :=
  | MetadataError        (* req_compile.errors.MetadataError *)
  | InvalidVersion       (* packaging.version.InvalidVersion, from utils.parse_version *)
  | InvalidRequirement   (* raised by pkg_resources.Requirement.parse *)
  | IndexError           (* shown unreachable: p_step_no_index_error *)
  | Unmodelled.          (* project name with regex meta characters / unknown regex: outside the model *)
Inductive res (A : Type) := Ok (a : A) | Err (e : exc).
Arguments Ok {A}. Arguments Err {A}.

(* what the loop leaves: (name, version text, raw Requires-Dist texts), or the reason there is
   no distribution.  MissingName carries the version text because parse_version has already run
   on it (an invalid one raises before the name check). *)
Inductive flat_err := MissingName (v : option string) | FlatIndexError.
Inductive flat_res := FlatOk (name : string) (v : option string) (raw : list string) | FlatErr (e : flat_err).

Definition finish (s : pstate) : flat_res :=
  if p_index_error s then FlatErr FlatIndexError else
  match p_name s with
  | None => FlatErr (MissingName (p_version s))
  | Some n => FlatOk n (p_version s) (p_reqs s)
  end.
Definition parse_flat (contents : string) : flat_res := finish (parse_loop contents).

(* utils.parse_requirements + parse_requirement, up to the call of Requirement.parse:
   strip, rstrip("\\"), skip empty / comment / option lines, strip again *)
Definition req_clean (r : string) : string := py_rstrip_chars c11_req_rstrip_chars (py_strip r).
Definition req_kept (r : string) : bool :=
  match r with
  | EmptyString => false
  | String c _ => negb (startswith r c11_req_comment_char) && negb (startswith r c11_req_skip_prefix)
  end.
Definition post_reqs (raw : list string) : list string :=
  map py_strip (filter req_kept (map req_clean raw)).

(* The third-party parsers are opaque: [vok v] = parse_version accepts v, [rok r] =
   Requirement.parse accepts r.  Order of the exceptions as in the code: the version is parsed
   inside the loop, the name is checked after it, requirements are parsed last. *)
Definition dist := (string * option string * list string)%type.
Definition outcome (vok rok : string -> bool) (f : flat_res) : res dist :=
  let ver := match f with FlatOk _ v _ => v | FlatErr (MissingName v) => v | _ => None end in
  match f with
  | FlatErr FlatIndexError => Err IndexError
  | _ =>
    if match ver with Some v => negb (vok v) | None => false end then Err InvalidVersion else
    match f with
    | FlatOk n v raw =>
        let rs := post_reqs raw in
        if forallb rok rs then Ok (n, v, rs) else Err InvalidRequirement
    | FlatErr _ => Err MetadataError
    end
  end.

(* ------------------------------------------------------------------------------------ *)
(* _find_dist_info_metadata: the two regular expressions as string predicates *)

Definition dsuf : string := ".dist-info/METADATA".
Definition regex_root_text : string := "^{}-[^/]+\.dist-info/METADATA$".
Definition regex_own_text : string := "^(.+/)?{}-.+\.dist-info/METADATA$".
Definition regex_any_text : string := "^.*\.dist-info/METADATA".

(* the project name is pasted into the regexes through re.escape: it matches literally *)
Fixpoint strip_prefix (p s : string) : option string :=
  match p with
  | EmptyString => Some s
  | String c p' => match s with
                   | String d s' => if Ascii.eqb d c then strip_prefix p' s' else None
                   | EmptyString => None
                   end
  end.

(* `.+\.dist-info/METADATA$` : [started] = at least one character of `.+` consumed *)
Fixpoint mid_suffix (s : string) (started : bool) : bool :=
  (started && (String.eqb s dsuf || String.eqb s (dsuf ++ String nl EmptyString)))
  || match s with
     | EmptyString => false
     | String c s' => if Ascii.eqb c nl then false else mid_suffix s' true
     end.
(* `[^/]+\.dist-info/METADATA$` : the negated class also matches a newline *)
Fixpoint root_suffix (s : string) (started : bool) : bool :=
  (started && (String.eqb s dsuf || String.eqb s (dsuf ++ String nl EmptyString)))
  || match s with
     | EmptyString => false
     | String c s' => if Ascii.eqb c "/"%char then false else root_suffix s' true
     end.
(* `^{project}-[^/]+\.dist-info/METADATA$` : the wheel's own directory at the root of the archive *)
Definition root_match (p s : string) : bool :=
  match strip_prefix p s with
  | Some (String c r) => Ascii.eqb c "-"%char && root_suffix r false
  | _ => false
  end.
(* `{project}-.+\.dist-info/METADATA$` *)
Definition tail_match (p s : string) : bool :=
  match strip_prefix p s with
  | Some (String c r) => Ascii.eqb c "-"%char && mid_suffix r false
  | _ => false
  end.
(* `(.+/)` then the tail, scanning for the `/` *)
Fixpoint own_scan (p s : string) (started : bool) : bool :=
  match s with
  | EmptyString => false
  | String c s' =>
      if Ascii.eqb c nl then false
      else (Ascii.eqb c "/"%char && started && tail_match p s') || own_scan p s' true
  end.
Definition own_match (p s : string) : bool := tail_match p s || own_scan p s false.

(* `^.*\.dist-info/METADATA` with re.match *)
Fixpoint any_match (s : string) : bool :=
  prefixb dsuf s
  || match s with
     | EmptyString => false
     | String c s' => if Ascii.eqb c nl then false else any_match s'
     end.

Inductive find_res := Found (entry : string) | NotFound | RegexUnmodelled.

Definition interp_regex (project : string) (r : string * bool) : option (string -> bool) :=
  match r with
  | (text, true) =>
      if String.eqb text regex_root_text then Some (root_match project)
      else if String.eqb text regex_own_text then Some (own_match project) else None
  | (text, false) =>
      if String.eqb text regex_any_text then Some any_match else None
  end.

Fixpoint find_passes (project : string) (rs : list (string * bool)) (namelist : list string) : find_res :=
  match rs with
  | [] => NotFound
  | r :: rs' =>
      match interp_regex project r with
      | None => RegexUnmodelled
      | Some f =>
          match List.find f namelist with
          | Some x => Found x
          | None => find_passes project rs' namelist
          end
      end
  end.
(* [namelist] is the list the function is handed (already reversed by the caller) *)
Definition find_dist_info (project : string) (namelist : list string) : find_res :=
  find_passes project c11_regexes namelist.

(* ------------------------------------------------------------------------------------ *)
(* _fetch_from_wheel + the `.whl` branch of extract_metadata *)

(* a zip member: its decoded text, or unreadable (zfile.read raises BadZipFile: bad CRC / header) *)
Inductive member := Content (text : string) | BadMember.
(* the archive: not a zip at all (ZipFile() raises BadZipFile), or its directory in archive order *)
Inductive archive := NotZip | Zip (entries : list (string * member)).

Definition project_of (basename : string) : option string :=
  nth_error (psplit c11_project_sep basename) c11_project_idx.

(* zfile.read(name): the LAST entry of that name (ZipFile.NameToInfo) *)
Definition read_last (name : string) (entries : list (string * member)) : option member :=
  match List.find (fun e => String.eqb (fst e) name) (rev entries) with
  | Some e => Some (snd e)
  | None => None
  end.

(* None = the function returned None (logged "could not find" / "bad zip") *)
Inductive fetch_res := FetchNone | FetchFlat (f : flat_res) | FetchUnmodelled.
Definition fetch_from_wheel (basename : string) (a : archive) : fetch_res :=
  match a with
  | NotZip => FetchNone
  | Zip entries =>
      match project_of basename with
      | None => FetchUnmodelled
      | Some project =>
          let names := map fst entries in
          let infos := if c11_namelist_reversed then rev names else names in
          match find_dist_info project infos with
          | RegexUnmodelled => FetchUnmodelled
          | NotFound => FetchNone
          | Found entry =>
              match read_last entry entries with
              | Some (Content text) => FetchFlat (parse_flat text)
              | Some BadMember => FetchNone
              | None => FetchUnmodelled (* find returns a member of the list: fetch_entry_read *)
              end
          end
      end
  end.

(* extract_metadata(wheel): a None from _fetch_from_wheel falls through to the source-directory
   analysis of the wheel FILE, which finds no setup.py/setup.cfg and raises MetadataError. *)
Definition extract_whl (vok rok : string -> bool) (basename : string) (a : archive) : res dist :=
  match fetch_from_wheel basename a with
  | FetchNone => Err MetadataError
  | FetchUnmodelled => Err Unmodelled
  | FetchFlat f => outcome vok rok f
  end.

(* ------------------------------------------------------------------------------------ *)
(* Specification: METADATA read as an RFC 822 message *)

(* field-name = 1*<any CHAR, excluding CTLs, SPACE, and ":"> *)
Definition ftext (c : ascii) : bool :=
  let n := nat_of_ascii c in (33 <=? n) && (n <=? 126) && negb (Ascii.eqb c colon).
Definition field_split (l : string) : option (string * string) :=
  match ppartition colon l with
  | (n, true, v) => match n with
                    | EmptyString => None
                    | _ => if all_chars ftext n then Some (n, v) else None
                    end
  | _ => None
  end.
(* a line of the header block: not empty, and a field or a continuation *)
Definition hdr_line (l : string) : bool :=
  match l with
  | EmptyString => false
  | _ => is_cont_line l || match field_split l with Some _ => true | None => false end
  end.
(* header block = lines up to the first empty (or non-header) line; the rest is the body *)
Fixpoint span_hdr (ls : list string) : list string * list string :=
  match ls with
  | [] => ([], [])
  | l :: ls' => if hdr_line (chomp_cr l) then
                  match span_hdr ls' with (h, b) => (l :: h, b) end
                else ([], ls)
  end.
Definition text_lines (t : string) : list string := psplit nl t.
Definition header_lines (t : string) : list string := fst (span_hdr (text_lines t)).
Definition body_lines (t : string) : list string := snd (span_hdr (text_lines t)).

Definition flush (cur : option (string * string)) : list (string * string) :=
  match cur with Some (n, v) => [(lower n, py_strip v)] | None => [] end.
(* fields of a header block, continuation lines unfolded (CRLF dropped, the LWSP kept);
   a continuation line before any field is ignored (as the stdlib parser does) *)
Fixpoint fields_of (hl : list string) (cur : option (string * string)) : list (string * string) :=
  match hl with
  | [] => flush cur
  | l :: hl' =>
      let l' := chomp_cr l in
      if is_cont_line l' then
        match cur with
        | Some (n, v) => fields_of hl' (Some (n, v ++ l'))
        | None => fields_of hl' None
        end
      else match field_split l' with
           | Some f => flush cur ++ fields_of hl' (Some f)
           | None => flush cur ++ fields_of hl' None    (* not reached on a header block *)
           end
  end.
(* (lower-cased field name, unfolded value without surrounding white space), in order *)
Definition rfc822_fields (t : string) : list (string * string) := fields_of (header_lines t) None.

(* Name = first Name field, Version = first Version field, all Requires-Dist fields in order *)
Definition sel_step (s : pstate) (f : string * string) : pstate :=
  let (n, v) := f in
  if String.eqb n "name" then
    match p_name s with None => mkP (Some v) (p_version s) (p_reqs s) (p_index_error s) | Some _ => s end
  else if String.eqb n "version" then
    match p_version s with None => mkP (p_name s) (Some v) (p_reqs s) (p_index_error s) | Some _ => s end
  else if String.eqb n "requires-dist" then mkP (p_name s) (p_version s) (p_reqs s ++ [v]) (p_index_error s)
  else s.
Definition select_fields (fs : list (string * string)) : flat_res :=
  finish (fold_left sel_step fs p_init).

(* ---- the wheel's own dist-info entry ---- *)
Definition own_entry (project version : string) : string :=
  project ++ "-" ++ version ++ ".dist-info/METADATA".
Definition no_newline (s : string) : bool := all_chars (fun c => negb (Ascii.eqb c nl)) s.
Definition no_slash (s : string) : bool := all_chars (fun c => negb (Ascii.eqb c "/"%char)) s.

(* boolean equality of flat results (used by the in-Coq recheck of T2 samples) *)
Definition opt_str_eqb (a b : option string) : bool :=
  match a, b with Some x, Some y => String.eqb x y | None, None => true | _, _ => false end.
Fixpoint strs_eqb (a b : list string) : bool :=
  match a, b with
  | [], [] => true
  | x :: a', y :: b' => String.eqb x y && strs_eqb a' b'
  | _, _ => false
  end.
Definition flat_res_eqb (a b : flat_res) : bool :=
  match a, b with
  | FlatOk n v r, FlatOk n' v' r' => String.eqb n n' && opt_str_eqb v v' && strs_eqb r r'
  | FlatErr (MissingName v), FlatErr (MissingName v') => opt_str_eqb v v'
  | FlatErr FlatIndexError, FlatErr FlatIndexError => true
  | _, _ => false
  end.

(* ---- the guard of the partial theorem (decidable, computed from the text): the code keeps
   reading after the header block (the test-suite wants a Requires-Dist after a stray blank line
   to be read), so a body line that looks like Requires-Dist: is taken as a requirement, and one
   that looks like Name:/Version: is taken when the header block declares none (first wins).
   Body lines are seen after the same unfolding as header lines. ---- *)
Definition has_field (n : string) (fs : list (string * string)) : bool :=
  existsb (fun f => String.eqb (fst f) n) fs.
Definition body_harmless (t : string) : bool :=
  let fs := rfc822_fields t in
  forallb (fun l =>
    let ll := lower l in
    negb (startswith ll "requires-dist:")
    && (has_field "name" fs || negb (startswith ll "name:"))
    && (has_field "version" fs || negb (startswith ll "version:"))) (unfold_lines (body_lines t)).

(* ------------------------------------------------------------------------------------ *)
(* One process, many reads: files are written/replaced and wheels are read, in any order.
   The code keeps no memory between calls of extract_metadata on a wheel (FAILED_BUILDS in
   metadata/source.py only turns one MetadataError into another), so the process model has the
   file system as its only state and every read answers from the file that is there NOW. *)
Inductive op := WriteFile (path : string) (a : archive) | ReadWheel (path : string).
Inductive read_res := NoSuchFile | Answer (r : res dist).
Definition files := list (string * archive).
Definition lookup_file (p : string) (st : files) : option archive :=
  match List.find (fun e => String.eqb (fst e) p) st with Some e => Some (snd e) | None => None end.
Definition answer_now (vok rok : string -> bool) (p : string) (st : files) : read_res :=
  match lookup_file p st with
  | Some a => Answer (extract_whl vok rok p a)
  | None => NoSuchFile     (* zipfile.ZipFile raises FileNotFoundError, which is not caught *)
  end.
Fixpoint fs_after (st : files) (ops : list op) : files :=
  match ops with
  | [] => st
  | WriteFile p a :: r => fs_after ((p, a) :: st) r
  | ReadWheel _ :: r => fs_after st r
  end.
Fixpoint run_ops (vok rok : string -> bool) (st : files) (ops : list op) : list read_res :=
  match ops with
  | [] => []
  | WriteFile p a :: r => run_ops vok rok ((p, a) :: st) r
  | ReadWheel p :: r => answer_now vok rok p st :: run_ops vok rok st r
  end.
Definition writes_to (p : string) (o : op) : bool :=
  match o with WriteFile q _ => String.eqb q p | ReadWheel _ => false end.

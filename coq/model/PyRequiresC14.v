(* C14: req_compile/repos/pypi.py check_python_compatibility / _check_py_constraint against
   an interpreter version (major, minor, patch) -- the three module constants
   SYS_PY_VERSION, SYS_PY_MAJOR_MINOR, SYS_PY_MAJOR.  pkg_resources.parse_version is the
   section variable [pv] ([None] = raises InvalidVersion, a ValueError); comparison of the
   parsed versions is lib/Pep440's order.  Constants come from gen/ConstsC14.v (T1). *)
From Coq Require Import List String Ascii Bool Arith NArith.
From RC Require Import lib.Pep440 gen.ConstsC14 model.StrC14.
Import ListNotations.
Open Scope string_scope.
Open Scope nat_scope.

Record interp := mkI { iM : N; im : N; ip : N }.

Definition relv (r : list N) : version := mkV 0%N r None None None [].
(* 0 = SYS_PY_VERSION, 1 = SYS_PY_MAJOR_MINOR, 2 = SYS_PY_MAJOR *)
Definition refv (i : interp) (k : nat) : version :=
  match k with
  | 0 => relv [iM i; im i; ip i]
  | 1 => relv [iM i; im i]
  | _ => relv [iM i]
  end.

(* the lambdas of OPS, by the comparison T1 read out of each *)
Definition apply_cmp (c : string) (x y : version) : option bool :=
  if String.eqb c "Lt" then Some (vltb x y)
  else if String.eqb c "Gt" then Some (vltb y x)
  else if String.eqb c "Eq" then Some (veqb x y)
  else if String.eqb c "Ne" then Some (negb (veqb x y))
  else if String.eqb c "Ge" then Some (vleb y x)
  else if String.eqb c "Le" then Some (vleb x y)
  else None.

Fixpoint assoc_str {A} (k : string) (l : list (string * A)) : option A :=
  match l with [] => None | (k', a) :: l' => if String.eqb k k' then Some a else assoc_str k l' end.
Fixpoint assoc_nat {A} (k : nat) (l : list (nat * A)) : option A :=
  match l with [] => None | (k', a) :: l' => if k =? k' then Some a else assoc_nat k l' end.

(* True / False / ValueError / unbounded recursion *)
Inductive rres := ROk (b : bool) | RValueError | ROutOfFuel.

(* int(s): the callers only reach it with a string packaging accepted as (the start of) a
   version, where int() succeeds exactly on non-empty ASCII digit strings *)
Definition py_int (s : string) : option N := if digits_ne s then Some (num s) else None.

Section Requires.
Variable pv : string -> option version.
Variable sys : interp.

Definition is_opchar (c : ascii) : bool := mem_char c rp_op_chars.

(* all(gen): stops at the first False; an exception escapes *)
Fixpoint all_parts (chk : string -> rres) (parts : list string) : rres :=
  match parts with
  | [] => ROk true
  | p :: r => match chk p with ROk true => all_parts chk r | other => other end
  end.

Definition live_parts (s : string) : list string :=
  filter (fun p => negb (String.eqb (strip p) EmptyString)) (split_on rp_comma s).

(* _check_py_constraint; [rec] is check_python_compatibility for the ~= rewrite *)
Definition check_constraint (rec : string -> rres) (part : string) : rres :=
  let vp := strip (after_last is_opchar part) in
  let op0 := strip (remove_all vp part) in
  let op := if negb (String.eqb vp EmptyString) && String.eqb op0 EmptyString then rp_default_op else op0 in
  let dotted := List.length (split_on rp_dot vp) in
  let '(vp2, ref) :=
    if ends_with rp_wild_suffix vp then
      (remove_all rp_wild_remove vp, match assoc_nat dotted rp_wild_table with Some k => k | None => 0 end)
    else match assoc_nat dotted rp_plain_table with
         | Some (k, suffix) => (vp ++ suffix, k)
         | None => (vp, 0)
         end in
  match pv vp2 with
  | None => RValueError
  | Some v =>
      if String.eqb op rp_compat_op then
        match py_int (before_first "."%char vp2) with
        | None => RValueError
        | Some major =>
            let '(f1, f2, f3) := rp_fmt in
            rec (f1 ++ vp2 ++ f2 ++ dec (major + rp_incr)%N ++ f3)
        end
      else
        match assoc_str op rp_ops with
        | None => RValueError      (* KeyError -> ValueError *)
        | Some c => match apply_cmp c (refv sys ref) v with Some b => ROk b | None => RValueError end
        end
  end.

Fixpoint check_all (fuel : nat) (s : string) : rres :=
  match fuel with
  | O => ROutOfFuel
  | S f => all_parts (check_constraint (check_all f)) (live_parts s)
  end.

Definition default_fuel : nat := 16.

(* check_python_compatibility(requires_python) *)
Definition check_python (r : option string) : rres :=
  match r with None => ROk true | Some s => check_all default_fuel s end.

(* handle_starttag's use: active_skip.  None = the exception escapes the handler *)
Definition gate_skip (r : option string) : option bool :=
  match r with
  | None => Some false
  | Some EmptyString => Some false
  | Some s =>
      match check_python (Some s) with
      | ROk b => Some (negb b)
      | RValueError => Some false      (* except ValueError: LOG.error(...) *)
      | ROutOfFuel => None
      end
  end.

End Requires.

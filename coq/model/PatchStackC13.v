(* C13 - the patch stack and the setup.py analyser of req_compile/metadata as a pure state
   machine over the process-global state.

   Source modelled (req_compile/metadata):
     patch.py      begin_patch / end_patch / patch          -> begin_patch, end_patch, patch_enter, patch_exit
     source.py     _fetch_from_setup_py (outer patch)       -> analyse (outer part)
                   _parse_setup_py (captureWarnings, fake numpy/Cython modules, three begin_patch,
                   meta-path hook, inner patch, try/except SystemExit/finally) -> enter_parse, body, exit_parse
     pyproject.py  _parse_from_prepared_metadata            -> analyse_pyproject
   The argument lists of the patch calls and the layout of the restores come from
   gen/C13Consts.v (T1).  Behaviour that looks wrong is modelled as it is:
     - sys.meta_path.remove takes out the FIRST equal entry only;
     - the module purge removes every fake module and every module whose file lies under the
       project's fake root, whoever loaded it;
     - logging.captureWarnings(True) is undone in the finally only when this call switched it on.
   A setup script is an arbitrary finite sequence of effects (op) with one of four endings. *)
From Coq Require Import List String Ascii NArith Bool.
From RC Require Import gen.C13Consts.
Import ListNotations.
Open Scope string_scope.

(* ---------------------------------------------------------------- values and finite maps *)

Definition key := (string * string)%type.          (* (module object, attribute name) *)
Definition key_eqb (a b : key) : bool :=
  String.eqb (fst a) (fst b) && String.eqb (snd a) (snd b).

(* Object identities.  VNone is Python's None.  VOrig = objects of the host process,
   VFake = replacements installed by an analyser, VProg = objects created by the script. *)
Inductive value := VNone | VOrig (n : N) | VFake (n : N) | VProg (n : N).

Definition value_eqb (a b : value) : bool :=
  match a, b with
  | VNone, VNone => true
  | VOrig x, VOrig y => N.eqb x y
  | VFake x, VFake y => N.eqb x y
  | VProg x, VProg y => N.eqb x y
  | _, _ => false
  end.

Definition amap := list (key * value).

Fixpoint aget (k : key) (m : amap) : option value :=
  match m with
  | [] => None
  | (k', v) :: r => if key_eqb k k' then Some v else aget k r
  end.
Fixpoint adel (k : key) (m : amap) : amap :=
  match m with
  | [] => []
  | (k', v) :: r => if key_eqb k k' then adel k r else (k', v) :: adel k r
  end.
Definition aset (k : key) (v : value) (m : amap) : amap := (k, v) :: adel k m.

(* sys.modules: name -> what kind of object is registered under it *)
Inductive mkind :=
| KPlain   (* anything the purge loop leaves alone *)
| KFake    (* instance of FakeModule / FakeNumpyModule *)
| KProj    (* has an ABSOLUTE __file__ under the project's fake root and outside the interpreter prefix *)
| KRel.    (* project module loaded by a RELATIVE file path (spec_from_file_location("x", "pkg/_about.py") +
              module_from_spec, imp.load_source("x", "./pkg/_legacy.py")): __file__ is that relative path *)
Definition is_plain (k : mkind) : bool := match k with KPlain => true | _ => false end.
(* what the purge loop keeps; rr = a relative __file__ is recognised as lying under the fake root *)
Definition purge_keep (rr : bool) (k : mkind) : bool :=
  match k with KPlain => true | KRel => negb rr | _ => false end.

Definition mmap := list (string * mkind).
Fixpoint mmem (n : string) (m : mmap) : bool :=
  match m with [] => false | (n', _) :: r => String.eqb n n' || mmem n r end.
Fixpoint mdel (n : string) (m : mmap) : mmap :=
  match m with
  | [] => []
  | (n', k) :: r => if String.eqb n n' then mdel n r else (n', k) :: mdel n r
  end.
Definition mset (n : string) (k : mkind) (m : mmap) : mmap := (n, k) :: mdel n m.

Fixpoint remove_first_s (x : string) (l : list string) : list string :=
  match l with [] => [] | y :: r => if String.eqb x y then r else y :: remove_first_s x r end.
Fixpoint remove_first_n (x : N) (l : list N) : list N :=
  match l with [] => [] | y :: r => if N.eqb x y then r else y :: remove_first_n x r end.
Fixpoint mem_n (x : N) (l : list N) : bool :=
  match l with [] => false | y :: r => N.eqb x y || mem_n x r end.

(* ---------------------------------------------------------------- process state *)

Record st := mkSt {
  attrs : amap;            (* attributes of module objects (absent = not in the map) *)
  cwd   : string;          (* the REAL working directory of the process *)
  vcwd  : string;          (* THREADLOCAL.curdir, the virtual working directory *)
  path  : list string;     (* sys.path *)
  meta  : list N;          (* sys.meta_path (finder identities) *)
  mods  : mmap;            (* sys.modules *)
  heap  : list (value * N) (* contents of mutable objects (lists such as sys.argv, objects with attributes):
                              identity -> content stamp; an object not listed is pristine (stamp 0) *)
}.

Definition with_attrs (f : amap -> amap) (s : st) : st :=
  mkSt (f (attrs s)) (cwd s) (vcwd s) (path s) (meta s) (mods s) (heap s).
Definition with_cwd (d : string) (s : st) : st := mkSt (attrs s) d (vcwd s) (path s) (meta s) (mods s) (heap s).
Definition with_vcwd (d : string) (s : st) : st := mkSt (attrs s) (cwd s) d (path s) (meta s) (mods s) (heap s).
Definition with_path (p : list string) (s : st) : st := mkSt (attrs s) (cwd s) (vcwd s) p (meta s) (mods s) (heap s).
Definition with_meta (m : list N) (s : st) : st := mkSt (attrs s) (cwd s) (vcwd s) (path s) m (mods s) (heap s).
Definition with_mods (m : mmap) (s : st) : st := mkSt (attrs s) (cwd s) (vcwd s) (path s) (meta s) m (heap s).
Definition with_heap (h : list (value * N)) (s : st) : st :=
  mkSt (attrs s) (cwd s) (vcwd s) (path s) (meta s) (mods s) h.

Definition get (k : key) (s : st) : option value := aget k (attrs s).
Definition set_attr (k : key) (v : value) (s : st) : st := with_attrs (aset k v) s.
Definition del_attr (k : key) (s : st) : st := with_attrs (adel k) s.

(* contents: the object identity is what attributes hold; an in-place edit (sys.argv[1:] = ...,
   obj.attr = ...) changes the content of the object, whoever refers to it *)
Fixpoint hget (v : value) (h : list (value * N)) : N :=
  match h with [] => 0%N | (v', c) :: r => if value_eqb v v' then c else hget v r end.
Definition content (o : option value) (s : st) : N :=
  match o with Some VNone | None => 0%N | Some v => hget v (heap s) end.
Definition mutate (k : key) (c : N) (s : st) : st :=
  match get k s with
  | Some VNone | None => s                       (* nothing / None: cannot be edited in place *)
  | Some v => with_heap ((v, c) :: heap s) s
  end.

(* ---------------------------------------------------------------- patch.py *)

Definition pkey (p : pspec) : key := (p_mod p, p_attr p).

(* begin_patch with a string module returns no token when the module is not loaded *)
Definition target_ok (p : pspec) (s : st) : bool := negb (p_byname p) || mmem (p_mod p) (mods s).

(* a token remembers what the attribute held: None = the private _MISSING sentinel (the attribute
   did not exist), Some v = its value (v may be Python's None) *)
Definition token := option (key * option value).

Definition old_of (o : option value) : value := match o with Some v => v | None => VNone end.

Definition begin_patch (p : pspec) (nv : value) (s : st) : st * token :=
  if target_ok p s
  then (set_attr (pkey p) nv s, Some (pkey p, get (pkey p) s))
  else (s, None).

(* end_patch: _MISSING => delete the attribute if it is (still) there; otherwise setattr.
   Neither can raise (the result stays an option so that the callers' shape is unchanged). *)
Definition end_patch (t : token) (s : st) : option st :=
  match t with
  | None => Some s
  | Some (k, None) => Some (del_attr k s)
  | Some (k, Some old) => Some (set_attr k old s)
  end.

(* what the third argument of a triple evaluates to: a new object (function, StringIO(), a literal,
   a copy such as list(sys.argv)) or - NSame - the very object the attribute already holds *)
Definition newval (p : pspec) (base : N) (s : st) : value :=
  match p_new p with NSame => old_of (get (pkey p) s) | _ => VFake base end.

(* the __enter__ of patch(...) : the i-th triple installs the replacement VFake (base + i) *)
Fixpoint patch_enter (ps : list pspec) (base : N) (s : st) : st * list token :=
  match ps with
  | [] => (s, [])
  | p :: r =>
      let '(s1, t) := begin_patch p (newval p base s) s in
      let '(s2, ts) := patch_enter r (N.succ base) s1 in
      (s2, t :: ts)
  end.

(* the loop `for token in ...: end_patch(token)`; false = an end_patch raised, the rest is skipped *)
Fixpoint restore_all (ts : list token) (s : st) : st * bool :=
  match ts with
  | [] => (s, true)
  | t :: r => match end_patch t s with
              | Some s1 => restore_all r s1
              | None => (s, false)
              end
  end.

Definition patch_exit (ts : list token) (s : st) : st * bool :=
  restore_all (if patch_restores_reversed then rev ts else ts) s.

(* ---------------------------------------------------------------- setup scripts *)

Inductive pval := PNone | PObj (n : N) | PCopy (k : key).   (* what a script can write *)
Inductive op :=
| OWrite (k : key) (v : pval)          (* setattr(module, attr, v); PCopy of a missing attribute: no effect *)
| ODel (k : key)                       (* delattr(module, attr); missing: no effect *)
| OChdir (d : string)                  (* os.chdir(d) through whatever os.chdir currently is *)
| OModIns (name : string) (kd : mkind) (* sys.modules[name] = ... / import of a local module *)
| OModDel (name : string)              (* sys.modules.pop(name, None) *)
| OPathIns (d : string)                (* sys.path.insert(0, d) *)
| OMutate (k : key) (c : N)            (* in-place edit of the object the attribute holds (sys.argv[1:] = [...]) *)
| OMetaIns (front : bool) (h : N).     (* sys.meta_path.insert(0, finder) / sys.meta_path.append(finder) *)
(* Unreadable: the script cannot even be read (setup.py that is not UTF-8): extractor.contents raises *)
Inductive ending := Finish | Raise | SysExit | OsExit | Unreadable.
Definition program := (list op * ending)%type.
Definition is_unreadable (en : ending) : bool := match en with Unreadable => true | _ => false end.
(* what of the script runs: nothing when it could not be read *)
Definition eff_ops (p : program) : list op := if is_unreadable (snd p) then [] else fst p.
(* the read raises BEFORE `with patches:` is entered when it does not sit inside the try (T1: read_in_try) *)
Definition read_aborts (p : program) : bool := negb read_in_try && is_unreadable (snd p).

Definition k_chdir : key := ("os", "chdir").
Definition k_exit : key := ("os", "_exit").
Definition k_abspath : key := ("os.path", "abspath").
Definition k_getcwd : key := ("os", "getcwd").
Definition k_cythonize : key := ("Cython.Build", "cythonize").
Definition k_showwarning : key := ("warnings", "showwarning").
Definition k_saved_showwarning : key := ("logging", "_warnings_showwarning").

Definition outer_base : N := 1000.
Definition begin_base : N := 2000.
Definition inner_base : N := 3000.
Definition pyproject_base : N := 4000.
Definition v_cython_fake : value := VFake 5000.
Definition v_logging_showwarning : value := VOrig 5001.   (* logging._showwarning *)

Fixpoint fake_of (ps : list pspec) (base : N) (k : key) : option value :=
  match ps with
  | [] => None
  | p :: r => if key_eqb (pkey p) k
              then match p_new p with NSame => None | _ => Some (VFake base) end
              else fake_of r (N.succ base) k
  end.

Definition opt_value_eqb (a b : option value) : bool :=
  match a, b with Some x, Some y => value_eqb x y | _, _ => false end.

(* what is fixed while one analysis runs *)
Record env := mkEnv {
  e_root : string;            (* abs_setupdir = the fake root (+ directory of setup.py) *)
  e_hook : N;                 (* identity of the ArchiveMetaHook instance *)
  e_cython : bool;            (* `import Cython.Build` succeeds *)
  e_early : bool;             (* _fetch_from_setup_py returns before _parse_setup_py *)
  e_real_chdir : option value;(* os.chdir / os._exit / os.path.abspath of the host when the analysis started *)
  e_real_exit : option value;
  e_real_abspath : option value
}.

(* os.chdir(d): the analyser's replacement only moves the virtual directory; the host's own
   function moves the real one; anything else (a script object, None) is not callable *)
Definition do_chdir (fake : option value) (real : option value) (d : string) (s : st) : st :=
  let cur := get k_chdir s in
  if opt_value_eqb cur fake then with_vcwd d s
  else if opt_value_eqb cur real then with_cwd d s
  else s.

Definition run_op (e : env) (o : op) (s : st) : st :=
  match o with
  | OWrite k PNone => set_attr k VNone s
  | OWrite k (PObj n) => set_attr k (VProg n) s
  | OWrite k (PCopy k') => match get k' s with Some v => set_attr k v s | None => s end
  | ODel k => del_attr k s
  | OChdir d => do_chdir (fake_of outer_patched outer_base k_chdir) (e_real_chdir e) d s
  | OModIns n kd => with_mods (mset n kd (mods s)) s
  | OModDel n => with_mods (mdel n (mods s)) s
  | OPathIns d => with_path (d :: path s) s
  | OMutate k c => mutate k c s
  | OMetaIns front h => with_meta (if front then h :: meta s else meta s ++ [h]) s
  end.

Definition run_ops (e : env) (os : list op) (s : st) : st := fold_left (fun a o => run_op e o a) os s.

Inductive outcome := Normal | Exc | Died.

Definition end_outcome (e : env) (en : ending) (s : st) : outcome :=
  let caught := if catches_sysexit then Normal else Exc in
  match en with
  | Finish => Normal
  | Raise => Exc
  | Unreadable => Exc       (* UnicodeDecodeError from extractor.contents, inside the try *)
  | SysExit => caught
  | OsExit =>
      let cur := get k_exit s in
      if opt_value_eqb cur (fake_of inner_patched inner_base k_exit) then caught
      else if opt_value_eqb cur (e_real_exit e) then Died
      else Exc      (* AttributeError / TypeError: not callable *)
  end.

(* ---------------------------------------------------------------- _parse_setup_py *)

Definition capture_warnings (s : st) : st :=
  match get k_saved_showwarning s with
  | Some VNone | None =>
      set_attr k_showwarning v_logging_showwarning
        (set_attr k_saved_showwarning (old_of (get k_showwarning s)) s)
  | Some _ => s
  end.

Definition ov_eqb (a b : option value) : bool :=
  match a, b with None, None => true | Some x, Some y => value_eqb x y | _, _ => false end.

(* capturing_started = warnings.showwarning is not old_showwarning, after captureWarnings(True) *)
Definition capture_started (s : st) : bool :=
  negb (ov_eqb (get k_showwarning (capture_warnings s)) (get k_showwarning s)).

(* logging.captureWarnings(False) *)
Definition uncapture (s : st) : st :=
  match get k_saved_showwarning s with
  | Some VNone | None => s
  | Some v => set_attr k_saved_showwarning VNone (set_attr k_showwarning v s)
  end.

Definition insert_fakes (names : list string) (s : st) : st :=
  with_mods (fold_left (fun m n => mset n KFake m) names (mods s)) s.

Fixpoint begin_all (ps : list (pspec * bool)) (base : N) (s : st) : st * list (key * token) :=
  match ps with
  | [] => (s, [])
  | (p, _) :: r =>
      let '(s1, t) := begin_patch p (newval p base s) s in
      let '(s2, ts) := begin_all r (N.succ base) s1 in
      (s2, (pkey p, t) :: ts)
  end.

Fixpoint token_for (k : key) (ts : list (key * token)) : token :=
  match ts with
  | [] => None
  | (k', t) :: r => if key_eqb k k' then t else token_for k r
  end.

Record ptoks := mkToks {
  t_old_cython : option value;
  t_begin : list (key * token);
  t_inner : list token;
  t_capture_started : bool;       (* capturing_started *)
  t_saved_path : list string      (* saved_sys_path = list(sys.path), taken just before `with patches:` *)
}.

(* inl = reached the `with patches:` body; inr = an exception left _parse_setup_py earlier *)
Definition enter_parse (e : env) (s : st) : (st * ptoks) + st :=
  let s1 := if captures_warnings then capture_warnings s else s in
  let s2 := if mmem "numpy" (mods s1) then s1 else insert_fakes numpy_fakes s1 in
  let cy :=
    if e_cython e then
      match get k_cythonize s2 with
      | Some v => inl (set_attr k_cythonize v_cython_fake s2, Some v)
      | None => inr s2                    (* AttributeError at `old_cythonize = Cython.Build.cythonize` *)
      end
    else inl (insert_fakes cython_fakes s2, None) in
  match cy with
  | inr s' => inr s'
  | inl (s3, oldc) =>
      let '(s4, bt) := begin_all begin_patched begin_base s3 in
      let s5 := if meta_append_before_with then with_meta (meta s4 ++ [e_hook e]) s4 else s4 in
      let '(s6, it) := patch_enter inner_patched inner_base s5 in
      inl (s6, mkToks oldc bt it (if captures_warnings then capture_started s else false) (path s5))
  end.

(* everything _parse_setup_py has installed when `with patches:` is reached: fake modules, the three
   begin_patch replacements, the hook on sys.meta_path - not yet the inner patch *)
Definition enter_installed (e : env) (s : st) : option st :=
  let s1 := if captures_warnings then capture_warnings s else s in
  let s2 := if mmem "numpy" (mods s1) then s1 else insert_fakes numpy_fakes s1 in
  let cy :=
    if e_cython e then
      match get k_cythonize s2 with
      | Some v => Some (set_attr k_cythonize v_cython_fake s2)
      | None => None
      end
    else Some (insert_fakes cython_fakes s2) in
  match cy with
  | None => None
  | Some s3 =>
      let '(s4, _) := begin_all begin_patched begin_base s3 in
      Some (if meta_append_before_with then with_meta (meta s4 ++ [e_hook e]) s4 else s4)
  end.

(* the body of the try: sys.path.insert, os.chdir(abs_setupdir), exec of the script *)
Definition body (e : env) (p : program) (s : st) : st * outcome :=
  let s1 := if path_insert_in_try then with_path (e_root e :: path s) s else s in
  let s2 := do_chdir (fake_of outer_patched outer_base k_chdir) (e_real_chdir e) (e_root e) s1 in
  let s3 := run_ops e (eff_ops p) s2 in
  (s3, end_outcome e (snd p) s3).

(* extractor.contains_path(module.__file__) for a relative __file__: recognised when contains_path
   makes the path absolute with os.path.abspath (T1: contains_path_uses_abspath) and that is the
   analyser's replacement resolving against the analyser's virtual working directory (os.getcwd
   replaced too).  Other combinations are treated as "not recognised" (a non-callable os.getcwd would
   raise in the middle of the loop: not modelled, not generated). *)
Definition rel_recognised (e : env) (s : st) : bool :=
  contains_path_uses_abspath
  && opt_value_eqb (get k_abspath s) (fake_of outer_patched outer_base k_abspath)
  && opt_value_eqb (get k_getcwd s) (fake_of outer_patched outer_base k_getcwd).

Definition run_fstep (e : env) (tk : ptoks) (f : fstep) (s : st) : option st :=
  match f with
  | FCython => match t_old_cython tk with
               | Some VNone | None => Some s            (* `if old_cythonize is not None` *)
               | Some v => Some (set_attr k_cythonize v s)
               end
  | FPathRemove => Some (with_path (remove_first_s (e_root e) (path s)) s)
  | FPathRestore => Some (with_path (t_saved_path tk) s)       (* sys.path[:] = saved_sys_path *)
  | FUncapture =>
      if t_capture_started tk then
        match get k_saved_showwarning s with
        | None => None            (* the script deleted logging._warnings_showwarning: NameError *)
        | Some _ => Some (uncapture s)
        end
      else Some s
  | FEndPatch k => end_patch (token_for k (t_begin tk)) s
  | FMetaRemove => if mem_n (e_hook e) (meta s)
                   then Some (with_meta (remove_first_n (e_hook e) (meta s)) s)
                   else None                             (* ValueError *)
  | FMetaPop => match rev (meta s) with       (* sys.meta_path.pop(): whatever is last *)
                | [] => None                    (* IndexError *)
                | _ :: r => Some (with_meta (rev r) s)
                end
  | FPurgeModules =>
      (* the loop calls extractor.contains_path -> os.path.abspath on the first module loaded
         from outside the interpreter prefix (the host always has one: it precedes every module
         the analysis added); if os.path.abspath is no longer a working function the loop raises
         before it has removed anything *)
      let cur := get k_abspath s in
      if negb contains_path_uses_abspath       (* contains_path does not call os.path.abspath at all *)
         || opt_value_eqb cur (fake_of outer_patched outer_base k_abspath)
         || opt_value_eqb cur (e_real_abspath e)
      then Some (with_mods (filter (fun m => purge_keep (rel_recognised e s) (snd m)) (mods s)) s)
      else None
  end.

(* statements of the finally block (flag true) and after the try (flag false), in source order.
   exc = an exception is propagating.  A raising statement skips everything after it. *)
Fixpoint run_fsteps (e : env) (tk : ptoks) (steps : list (fstep * bool)) (exc : bool) (s : st) : st * bool :=
  match steps with
  | [] => (s, exc)
  | (f, infin) :: r =>
      if infin || negb exc then
        match run_fstep e tk f s with
        | Some s1 => run_fsteps e tk r exc s1
        | None => (s, true)
        end
      else run_fsteps e tk r exc s
  end.

Definition exit_parse (e : env) (tk : ptoks) (exc : bool) (s : st) : st * bool :=
  let '(s1, exc1) := run_fsteps e tk finally_steps exc s in
  let '(s2, ok) := patch_exit (t_inner tk) s1 in
  (s2, exc1 || negb ok).

Inductive result := Alive (s : st) | Dead.

Definition mk_env (root : string) (hook : N) (cy early : bool) (s : st) : env :=
  mkEnv root hook cy early (get k_chdir s) (get k_exit s) (get k_abspath s).

(* _fetch_from_setup_py up to the end of its `with patches:` *)
Definition analyse_env (e : env) (p : program) (s : st) : result :=
  let '(s1, ot) := patch_enter outer_patched outer_base (with_vcwd (e_root e) s) in
  if e_early e then Alive (fst (patch_exit ot s1))
  else
    match enter_parse e s1 with
    | inr s2 => Alive (fst (patch_exit ot s2))
    | inl (s2, tk) =>
        if read_aborts p then
          (* the read of the script raised between the installation and the try: nothing of the
             finally runs, only the outer patch of _fetch_from_setup_py is left *)
          Alive (fst (patch_exit ot (match enter_installed e s1 with Some s5 => s5 | None => s1 end)))
        else
        let '(s3, oc) := body e p s2 in
        match oc with
        | Died => Dead
        | _ =>
            let exc := match oc with Exc => true | _ => false end in
            let '(s4, exc') := exit_parse e tk exc s3 in
            if outer_with_covers_parse || negb exc' then Alive (fst (patch_exit ot s4)) else Alive s4
        end
    end.

Definition analyse (root : string) (hook : N) (cy early : bool) (p : program) (s : st) : result :=
  analyse_env (mk_env root hook cy early s) p s.

(* two analyses of the same process interleaved (threads): A enters, B enters, A leaves, B leaves.
   Only the outer patch of each is needed to show the effect. *)
Definition interleaved_outer (s : st) : st :=
  let '(s1, ta) := patch_enter outer_patched outer_base s in
  let '(s2, tb) := patch_enter outer_patched (outer_base + 100) s1 in
  let s3 := fst (patch_exit ta s2) in
  fst (patch_exit tb s3).

(* ---------------------------------------------------------------- pyproject.py *)

(* _parse_from_prepared_metadata, second attempt: real chdir into the project, three patches,
   backend code (= a program), restore, chdir back in a finally.  os._exit is not patched. *)
Definition analyse_pyproject (src : string) (p : program) (s : st) : result :=
  let e := mk_env src 0 false false s in
  let old_cwd := cwd s in
  let s1 := do_chdir None (e_real_chdir e) src s in
  let '(s2, ts) := patch_enter pyproject_patched pyproject_base s1 in
  let s3 := fold_left (fun a o =>
              match o with
              | OChdir d => do_chdir None (e_real_chdir e) d a
              | _ => run_op e o a
              end) (fst p) s2 in
  let dies := match snd p with
              | OsExit => opt_value_eqb (get k_exit s3) (e_real_exit e)
              | _ => false end in
  if dies then Dead
  else
    let exc := match snd p with Finish => false | _ => true end in
    let '(s4, ok) := patch_exit ts s3 in
    if pyproject_chdir_back_in_finally || (negb exc && ok)
    then Alive (do_chdir None (e_real_chdir e) old_cwd s4)
    else Alive s4.

(* ---------------------------------------------------------------- two PEP 517 analyses on two threads *)

(* _parse_from_prepared_metadata as a sequence of steps on the shared working directory; LOCK is a
   mutex.  T1: cwd_saved_inside_lock = `old_cwd = os.getcwd()` is a statement of `with LOCK:`. *)
Inductive tstep := TSave | TAcquire | TChdir (d : string) | TBack | TRelease.
Definition thread_steps_gen (inside : bool) (src : string) (backend_dirs : list string) : list tstep :=
  (if inside then [TAcquire; TSave] else [TSave; TAcquire])
  ++ TChdir src :: map TChdir backend_dirs ++ [TBack; TRelease].
Definition thread_steps := thread_steps_gen cwd_saved_inside_lock.

Record tstate := mkT {
  t_cwd : string;
  t_lock : option bool;            (* who holds LOCK *)
  t_remA : list tstep; t_remB : list tstep;
  t_savedA : string; t_savedB : string
}.
Definition t_rem (w : bool) (t : tstate) := if w then t_remA t else t_remB t.
Definition t_saved (w : bool) (t : tstate) := if w then t_savedA t else t_savedB t.
Definition set_rem (w : bool) (r : list tstep) (t : tstate) : tstate :=
  if w then mkT (t_cwd t) (t_lock t) r (t_remB t) (t_savedA t) (t_savedB t)
  else mkT (t_cwd t) (t_lock t) (t_remA t) r (t_savedA t) (t_savedB t).
Definition set_saved (w : bool) (d : string) (t : tstate) : tstate :=
  if w then mkT (t_cwd t) (t_lock t) (t_remA t) (t_remB t) d (t_savedB t)
  else mkT (t_cwd t) (t_lock t) (t_remA t) (t_remB t) (t_savedA t) d.
Definition set_cwd (d : string) (t : tstate) : tstate :=
  mkT d (t_lock t) (t_remA t) (t_remB t) (t_savedA t) (t_savedB t).
Definition set_lock (l : option bool) (t : tstate) : tstate :=
  mkT (t_cwd t) l (t_remA t) (t_remB t) (t_savedA t) (t_savedB t).

(* thread w takes one step; a thread that waits for the lock (or has finished) does not move *)
Definition tstep_run (w : bool) (t : tstate) : tstate :=
  match t_rem w t with
  | [] => t
  | TAcquire :: r => match t_lock t with None => set_rem w r (set_lock (Some w) t) | Some _ => t end
  | TSave :: r => set_rem w r (set_saved w (t_cwd t) t)
  | TChdir d :: r => set_rem w r (set_cwd d t)
  | TBack :: r => set_rem w r (set_cwd (t_saved w t) t)
  | TRelease :: r => set_rem w r (set_lock None t)
  end.
Definition trun (sched : list bool) (t : tstate) : tstate := fold_left (fun a w => tstep_run w a) sched t.
Definition tinit (cwd0 : string) (a b : list tstep) : tstate := mkT cwd0 None a b "" "".
Definition two_pyproject (cwd0 srcA srcB : string) (dirsA dirsB : list string) (sched : list bool) : tstate :=
  trun sched (tinit cwd0 (thread_steps srcA dirsA) (thread_steps srcB dirsB)).

(* ---------------------------------------------------------------- project files *)

(* What a script can do to files, relative to where the analyser routes it:
   FOpenWrite/FRename/FSymlink go through replaced functions (open/io.open/codecs.open write into a
   sink, os.rename is recorded in the extractor, os.symlink is a no-op); any other os-level call
   (os.mkdir, os.remove, shutil.rmtree, ...) is NOT replaced and acts on the real file system,
   relative names being resolved against the REAL working directory. *)
Inductive fop :=
| FOpenWrite (name : string)
| FRename (a b : string)
| FSymlink (a b : string)
| FRealCreate (name : string)    (* e.g. os.mkdir(name) with a relative name *)
| FRealRemove (name : string).   (* e.g. os.remove(name) *)

Fixpoint smem (x : string) (l : list string) : bool :=
  match l with [] => false | y :: r => String.eqb x y || smem x r end.

(* tree = names present in the directory the real cwd points to; in_project = that directory is
   the analysed project *)
Definition run_fop (o : fop) (tree : list string) : list string :=
  match o with
  | FOpenWrite _ | FRename _ _ | FSymlink _ _ => tree
  | FRealCreate n => if smem n tree then tree else n :: tree
  | FRealRemove n => remove_first_s n tree
  end.
Definition run_fops (os : list fop) (tree : list string) : list string :=
  fold_left (fun t o => run_fop o t) os tree.
Definition is_virtual (o : fop) : bool :=
  match o with FOpenWrite _ | FRename _ _ | FSymlink _ _ => true | _ => false end.

(* ---------------------------------------------------------------- the egg-info fall-back *)

(* _build_egg_info: extractor.extract(temp) makes a private copy of the project, then the setup script
   is REALLY executed there by a child process.  For a source directory the copy is
   shutil.copytree(...) (T1: scratch_copy_is_copy = no copy_function other than a copying one).
   A file of the copy either has its own inode or - were the tree hard-linked - shares it with the
   project's file; writing IN PLACE (open(f, "w"), "a", "r+") goes through the inode, unlink and
   create do not. *)
Inductive fbop :=
| FbWrite (name : string) (c : N)     (* open(name, "w"/"a").write(..): in place when the file exists *)
| FbReplace (name : string) (c : N)   (* os.unlink(name); create anew *)
| FbRemove (name : string).           (* os.unlink(name) *)

Definition ftree := list (string * N).                (* file -> content stamp *)
Definition scratch := list (string * (N * bool)).     (* file -> content, shares the project's inode *)

Fixpoint ft_get {V} (n : string) (t : list (string * V)) : option V :=
  match t with [] => None | (n', v) :: r => if String.eqb n n' then Some v else ft_get n r end.
Fixpoint ft_del {V} (n : string) (t : list (string * V)) : list (string * V) :=
  match t with [] => [] | (n', v) :: r => if String.eqb n n' then ft_del n r else (n', v) :: ft_del n r end.
Definition ft_set {V} (n : string) (v : V) (t : list (string * V)) := (n, v) :: ft_del n t.

Definition extract_dir (is_copy : bool) (proj : ftree) : scratch :=
  map (fun x => (fst x, (snd x, negb is_copy))) proj.

Definition run_fbop (o : fbop) (st : ftree * scratch) : ftree * scratch :=
  let '(proj, scr) := st in
  match o with
  | FbWrite n c =>
      match ft_get n scr with
      | Some (_, true) => (ft_set n c proj, ft_set n (c, true) scr)   (* same inode: the project's file changes *)
      | Some (_, false) => (proj, ft_set n (c, false) scr)
      | None => (proj, ft_set n (c, false) scr)
      end
  | FbReplace n c => (proj, ft_set n (c, false) scr)
  | FbRemove n => (proj, ft_del n scr)
  end.
Definition fallback_project (is_copy : bool) (ops : list fbop) (proj : ftree) : ftree :=
  fst (fold_left (fun a o => run_fbop o a) ops (proj, extract_dir is_copy proj)).
Definition fallback_dir (ops : list fbop) (proj : ftree) : ftree :=
  fallback_project scratch_copy_is_copy ops proj.

(* ---------------------------------------------------------------- observations *)

Definition listed_required : list key :=
  [ ("sys", "stdin"); ("sys", "stdout"); ("sys", "stderr"); ("sys", "argv");
    ("os", "chdir"); ("os", "getcwd"); ("os", "_exit");
    ("builtins", "open"); ("io", "open"); ("codecs", "open");
    ("os.path", "exists"); ("os.path", "isfile"); ("os", "listdir"); ("os", "rename");
    ("subprocess", "Popen"); ("subprocess", "check_call"); ("subprocess", "check_output");
    ("multiprocessing", "Process"); ("multiprocessing", "Pool");
    ("urllib.request", "urlretrieve"); ("requests", "get"); ("requests", "post"); ("requests", "Session");
    ("setuptools", "setup"); ("distutils.core", "setup") ].

Definition all_patched : list pspec := outer_patched ++ map fst begin_patched ++ inner_patched.

Definition listed_state (ks : list key) (s : st) :=
  (map (fun k => get k s) ks, cwd s, path s, meta s, mods s).

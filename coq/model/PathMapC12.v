(* C12 - path resolution of req_compile/metadata/extractor.py (Extractor.to_relative,
   contains_path, exists, open; NonExtractor / TarExtractor / ZipExtractor), as it runs
   while _fetch_from_setup_py has os.getcwd / os.chdir / os.path.abspath patched
   (source.py:160-193).  Paths are byte strings; the project is an abstract list of
   (relative path, content) members; the three packagings are derived from it.

   Nothing here consults a real working directory: the only cwd is the virtual one kept
   in THREADLOCAL.curdir.  What CAN reach the real file system is made explicit by the
   observation [OReal] (absolute paths outside the fake root, and `..` above the project
   directory for the directory packaging). *)
From Coq Require Import List String Ascii Bool Arith.
From RC Require Import lib.PyStr gen.HarvestC12Consts.
Import ListNotations.
Open Scope string_scope.
Open Scope nat_scope.

Inductive kind := KDir | KTar | KZip.

(* ---------------------------------------------------------------- posixpath pieces *)
Definition isabs (p : string) : bool := startswith p "/".
(* _fake_abspath (source.py:178): no normalisation at all *)
Definition fake_abspath (cwd p : string) : string := if isabs p then p else cwd ++ "/" ++ p.
Definition nonempty_parts (p : string) : list string :=
  filter (fun x => negb (String.eqb x "")) (split_char "/"%char p).
Fixpoint common_len (a b : list string) : nat :=
  match a, b with
  | x :: a', y :: b' => if String.eqb x y then S (common_len a' b') else 0
  | _, _ => 0
  end.
(* posixpath.relpath(path, start) with the patched abspath (both arguments are absolute at
   the only call site in to_relative, so cwd is irrelevant there; kept for fidelity) *)
Definition relpath (cwd path start : string) : string :=
  let sl := nonempty_parts (fake_abspath cwd start) in
  let pl := nonempty_parts (fake_abspath cwd path) in
  let i := common_len sl pl in
  match (repeat ".." (List.length sl - i) ++ skipn i pl)%list with
  | [] => "."
  | rel => join "/" rel
  end.

Definition bs2s (s : string) : string := replace_char rel_bs rel_fs s.
Definition strip_dot_slash (s : string) : string :=
  if startswith s rel_dot_slash then drop (String.length rel_dot_slash) s else s.

(* Extractor.contains_path: a plain string prefix test on the (fake) absolute path *)
Definition contains_path (root cwd p : string) : bool := startswith (fake_abspath cwd p) root.

(* Extractor.to_relative (renames empty: os.rename is not part of the idiom family) *)
Definition to_relative (root cwd f : string) : string :=
  let f1 := if startswith (bs2s f) rel_dot_slash then drop (String.length rel_dot_slash) f else f in
  let r :=
    if isabs f1 then
      (if contains_path root cwd f1 then "." ++ drop (String.length root) f1 else f1)
    else if String.eqb cwd root then f1
    else relpath cwd cwd root ++ "/" ++ f1 in
  strip_dot_slash (bs2s r).

(* ---------------------------------------------------------------- the three packagings *)
Definition files := list (string * string).            (* plain relative path -> content *)

Fixpoint lookup (p : string) (fs : files) : option string :=
  match fs with
  | [] => None
  | (q, c) :: r => if String.eqb p q then Some c else lookup p r
  end.

Definition comps (p : string) : list string := split_char "/"%char p.

Fixpoint list_prefixb (a b : list string) : bool :=   (* a is a prefix of b *)
  match a, b with
  | [], _ => true
  | x :: a', y :: b' => String.eqb x y && list_prefixb a' b'
  | _ :: _, [] => false
  end.
Fixpoint list_eqb (a b : list string) : bool :=
  match a, b with
  | [], [] => true
  | x :: a', y :: b' => String.eqb x y && list_eqb a' b'
  | _, _ => false
  end.

Definition is_file (fs : files) (cur : list string) : bool :=
  existsb (fun e => list_eqb cur (comps (fst e))) fs.
Definition is_dir (fs : files) (cur : list string) : bool :=
  existsb (fun e => let c := comps (fst e) in
                    list_prefixb cur c && negb (list_eqb cur c)) fs.

(* what a lookup in the real directory tree gives: POSIX walk, component by component *)
Inductive fsnode := FFile (cur : list string) | FDir (cur : list string) | FMissing | FEscape.

Fixpoint walk (fs : files) (cur : list string) (cs : list string) : fsnode :=
  match cs with
  | [] => if is_dir fs cur then FDir cur else if is_file fs cur then FFile cur else FMissing
  | c :: rest =>
      if negb (is_dir fs cur) then FMissing
      else if String.eqb c "" || String.eqb c "." then walk fs cur rest
      else if String.eqb c ".." then
        match cur with
        | [] => FEscape
        | _ => walk fs (removelast cur) rest
        end
      else walk fs (cur ++ [c])%list rest
  end.

(* archive entries: name -> Some content (regular file) | None (directory entry) *)
Definition entries := list (string * option string).

Fixpoint dirs_of_comps (acc : string) (cs : list string) : list string :=
  match cs with
  | [] => []
  | [_] => []
  | c :: rest => let d := acc ++ "/" ++ c in d :: dirs_of_comps d rest
  end.
Fixpoint dedup (seen : list string) (l : list string) : list string :=
  match l with
  | [] => []
  | x :: r => if existsb (String.eqb x) seen then dedup seen r else x :: dedup (x :: seen) r
  end.
Definition all_dirs (lead : string) (fs : files) : list string :=
  dedup [] (flat_map (fun e => dirs_of_comps lead (comps (fst e))) fs).

(* tar built by tarfile.add(dir, arcname=lead): directory entries included iff [with_dirs] *)
Definition tar_of (lead : string) (with_dirs : bool) (fs : files) : entries :=
  List.app (if with_dirs then (lead, None) :: map (fun d => (d, None)) (all_dirs lead fs) else [])
    (map (fun e => (lead ++ "/" ++ fst e, Some (snd e))) fs).
(* zip: directory entries are stored with a trailing slash *)
Definition zip_of (lead : string) (top_dir with_dirs : bool) (fs : files) : entries :=
  List.app (if top_dir then [(lead ++ "/", None)] else [])
   (List.app (if with_dirs then map (fun d => (d ++ "/", None)) (all_dirs lead fs) else [])
     (map (fun e => (lead ++ "/" ++ fst e, Some (snd e))) fs)).

Fixpoint entry (n : string) (es : entries) : option (option string) :=
  match es with
  | [] => None
  | (m, c) :: r => if String.eqb n m then Some c else entry n r
  end.

Record project := mkProject {
  p_files : files;
  p_lead : string;         (* top directory inside the archives *)
  p_tar_dirs : bool;
  p_zip_top : bool;
  p_zip_dirs : bool }.

(* ---------------------------------------------------------------- observations *)
Inductive obs :=
| OBytes (c : string)      (* the file's content *)
| OErr                     (* an OSError subclass (FileNotFoundError, IOError "Could not find", IsADirectoryError) *)
| OReal (p : string).      (* served from the REAL file system, outside the model *)

(* Extractor._check_exists on the relative name *)
Definition check_exists (k : kind) (pr : project) (rel : string) : option bool :=
  match k with
  | KDir => (* os.path.exists(self.path + "/" + rel) *)
      match walk (p_files pr) [] (comps rel) with
      | FFile _ | FDir _ => Some true
      | FMissing => Some false
      | FEscape => None
      end
  | KTar => (* tar.getmember(rel) : exact name, trailing slashes of the argument dropped *)
      let n := rstrip_chars "/" rel in
      Some (match entry n (tar_of (p_lead pr) (p_tar_dirs pr) (p_files pr)) with Some _ => true | None => false end)
  | KZip => (* getinfo(rel) or any name starting with rel + "/" *)
      let es := zip_of (p_lead pr) (p_zip_top pr) (p_zip_dirs pr) (p_files pr) in
      Some (match entry rel es with
            | Some _ => true
            | None => existsb (fun e => match snd e with
                                         | Some _ => startswith (fst e) (rel ++ "/")
                                         | None => false end) es   (* names() drops entries ending in "/" *)
            end)
  end.

(* Extractor.exists: None = the answer comes from the real file system *)
Definition exists_ (k : kind) (pr : project) (root cwd f : string) : option bool :=
  check_exists k pr (to_relative root cwd f).

(* Extractor._open_handle + text decoding *)
Definition open_handle (k : kind) (pr : project) (rel : string) : obs :=
  match k with
  | KDir => (* io.open(os.path.join(self.path, rel), "rb"); rel is not absolute here *)
      match walk (p_files pr) [] (comps rel) with
      | FFile cur => match lookup (join "/" cur) (p_files pr) with Some c => OBytes c | None => OErr end
      | FDir _ | FMissing => OErr
      | FEscape => OReal rel
      end
  | KTar => (* tar.extractfile(rel): KeyError -> IOError; directory -> None -> FileNotFoundError *)
      match entry (rstrip_chars "/" rel) (tar_of (p_lead pr) (p_tar_dirs pr) (p_files pr)) with
      | Some (Some c) => OBytes c
      | _ => OErr
      end
  | KZip => (* BytesIO(zfile.read(rel)): directory entries read as empty *)
      match entry rel (zip_of (p_lead pr) (p_zip_top pr) (p_zip_dirs pr) (p_files pr)) with
      | Some (Some c) => OBytes c
      | Some None => OBytes ""
      | None => OErr
      end
  end.

(* Extractor.open(file) in text mode *)
Definition open_ (k : kind) (pr : project) (root cwd f : string) : obs :=
  let rel := to_relative root cwd f in
  if String.eqb f "/dev/null" || isabs rel then OReal f
  else open_handle k pr rel.

(* ---------------------------------------------------------------- the roots and cwds the code sets up *)
(* Extractor.__init__: fake_root = abspath(os.sep + basename(file_or_path)) *)
Definition fake_root (k : kind) (base : string) : string :=
  match k with
  | KDir => "/" ++ base
  | KTar => "/" ++ base ++ ".tar.gz"
  | KZip => "/" ++ base ++ ".zip"
  end.

(* the cwd _parse_setup_py establishes before running anything (source.py:657-661, 812-814):
   setup_file is what find_in_archive returned ("setup.py" | lead/setup.py | None);
   setup_dir = dirname(setup_file) or "." when there is no setup.py;
   abs_setupdir = _fake_abspath(setup_dir); os.chdir(abs_setupdir) only if setup_dir != "" *)
Definition start_cwd (k : kind) (root lead : string) (has_setup_py : bool) : string :=
  if has_setup_py then
    match k with
    | KDir => root                       (* setup_dir = "" : no chdir *)
    | _ => root ++ "/" ++ lead           (* setup_dir = lead *)
    end
  else if cfg_only_dir_follows_cfg then
    (* setup.cfg-only: setup_dir = dirname(<the setup.cfg find_in_archive located>) *)
    match k with
    | KDir => root
    | _ => root ++ "/" ++ lead
    end
  else root ++ "/" ++ ".".               (* formerly: setup_dir = "." for every packaging *)

(* os.chdir(sub) by the script, relative (source.py:165-176: abspath(new_dir) = cwd/sub) *)
Definition chdir_rel (cwd sub : string) : string := cwd ++ "/" ++ sub.

(* ---------------------------------------------------------------- find_in_archive (source.py:69-83) *)
Definition count_slash (s : string) : nat := List.length (split_char "/"%char s) - 1.
Definition last_comp (s : string) : string := last (split_char "/"%char s) "".
Definition names_of (k : kind) (pr : project) : list string :=
  match k with
  | KDir => (* NonExtractor.names: rel_root + filename, rel_root = "" at the top and "./sub/" below;
               os.walk order is the operating system's (T2 compares found / not found only) *)
      map (fun e => if containsb "/" (fst e) then "./" ++ fst e else fst e) (p_files pr)
  | KTar => flat_map (fun e => match snd e with Some _ => [fst e] | None => [] end)
              (tar_of (p_lead pr) (p_tar_dirs pr) (p_files pr))
  | KZip => flat_map (fun e => if endswith (fst e) "/" then [] else [fst e])
              (zip_of (p_lead pr) (p_zip_top pr) (p_zip_dirs pr) (p_files pr))
  end.
Definition find_in_archive (k : kind) (pr : project) (root cwd fname : string) (max_depth : nat) : option (option string) :=
  match exists_ k pr root cwd fname with
  | None => None
  | Some true => Some (Some fname)
  | Some false =>
      Some (List.find (fun n => endswith (lower n) fname && (count_slash n <=? max_depth)
                           && (containsb "/" fname || String.eqb (last_comp (lower n)) fname))
                 (names_of k pr))
  end.

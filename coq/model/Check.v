(* Executable checkers of the graph-relative statements of C01 / C02 / C08 / C10 on a result
   graph.  Their soundness (checker = true -> the declarative statement) is proved in
   proofs/CheckP.v; the drivers evaluate them on the outcome of every correspondence case. *)
From Coq Require Import List String Ascii Bool Arith NArith.
From RC Require Import lib.PyStr lib.StrSort lib.Pep440 lib.Name model.Merge model.Graph model.Solver model.Explain.
Import ListNotations.
Open Scope list_scope.

Definition ok_or_false {A} (x : res A) (f : A -> bool) : bool :=
  match x with Rok a => f a | Rer _ => false end.

(* requirements of requirer rd (deduplicated) as build_constraints / build_explanation see them *)
Definition requirer_reqs (e : env) (g : graph) (rd : nat) : res (dist * list req) :=
  n <- getn g rd ;;
  match nmeta n with
  | None => Rer EAssert
  | Some d => xs <- node_extras g rd ;; rs <- all_reqs_of e d (None :: map Some xs) ;; Rok (d, dedup_reqs rs [])
  end.

(* C01, graph relative: every solved non-meta node was offered, and its version lies in the
   specifier of every requirement of every current requirer on it *)
Definition node_pin_ok (e : env) (u : universe) (g : graph) (k : string) (n : node) : bool :=
  match nmeta n with
  | None => true
  | Some d =>
      if dmeta d then true else
      match dversion d with
      | None => false
      | Some v =>
          existsb (fun c => veqb (cand_version c) v && creadable c)
                  (match slookup k u with Some l => l | None => [] end) &&
          forallb (fun rd => ok_or_false (requirer_reqs e g rd)
                     (fun dr => forallb (fun q => negb (String.eqb (norm (safe_name (rname q))) k)
                                                  || spec_contains (rspec q) v true) (snd dr)))
                  (nrdeps n)
      end
  end.

Definition pins_ok_b (e : env) (u : universe) (g : graph) : bool :=
  forallb (fun ki => match alookup (snd ki) (heap g) with
                     | Some n => node_pin_ok e u g (fst ki) n
                     | None => false end) (index g).

(* C10 coherence (I1-I3, I6, I7) of the indexed part of the graph *)
Definition live (g : graph) (id : nat) : bool :=
  match alookup id (heap g) with
  | Some n => match slookup (nkey n) (index g) with Some id' => Nat.eqb id id' | None => false end
  | None => false
  end.
(* input and constraint containers are put into the graph directly: nothing has to require them *)
Definition is_meta (n : node) : bool := match nmeta n with Some d => dmeta d | None => false end.
Definition node_coherent (g : graph) (roots : list nat) (id : nat) (n : node) : bool :=
  forallb (fun d => live g (fst d) &&
                    match alookup (fst d) (heap g) with Some dn => nmem id (nrdeps dn) | None => false end) (ndeps n) &&
  forallb (fun r => live g r &&
                    match alookup r (heap g) with
                    | Some rn => amem id (ndeps rn) && match nmeta rn with Some _ => true | None => false end
                    | None => false end) (nrdeps n) &&
  (match nmeta n with None => match ndeps n with [] => true | _ => false end | Some _ => true end) &&
  (nmem id roots || is_meta n || match nrdeps n with [] => false | _ => true end).
Definition coherent_b (g : graph) (roots : list nat) : bool :=
  forallb (fun ki => match alookup (snd ki) (heap g) with
                     | Some n => node_coherent g roots (snd ki) n
                     | None => false end) (index g).

(* C02, graph relative: every emitted node is solved, and every link of an emitted or root node
   leads to a solved, emitted node (closure); emitted = reachable is visit_nodes by definition *)
Definition closed_b (g : graph) (roots : list nat) : bool :=
  let em := visit_nodes g roots in
  forallb (fun id => match alookup id (heap g) with
                     | Some n => match nmeta n with Some _ => true | None => false end
                     | None => false end) em &&
  forallb (fun id => match alookup id (heap g) with
                     | Some n => forallb (fun d => nmem (fst d) em) (ndeps n)
                     | None => false end) (roots ++ em).

(* C02 minimality, graph relative: every emitted node is required by a root or an emitted distribution, i.e. one of
   those has - under the extras that roots and emitted distributions request of it - an applicable requirement on the
   node's project.  A link kept from an abandoned candidate (an extra nobody requests any more), or an extra requested
   only by a project that is solved because a constraint file mentions it, does not count. *)
Definition node_extras_from (g : graph) (allowed : list nat) (id : nat) : list string :=
  match alookup id (heap g) with
  | None => []
  | Some n =>
      sort_set (flat_map (fun rd =>
                  if nmem rd allowed then
                    match alookup rd (heap g) with
                    | Some rn => match alookup id (ndeps rn) with Some (Some r) => rextras r | _ => [] end
                    | None => []
                    end
                  else []) (nrdeps n))
  end.
Definition justified (e : env) (g : graph) (allowed : list nat) (id : nat) : bool :=
  match alookup id (heap g) with
  | None => false
  | Some n =>
      existsb (fun rd =>
                 nmem rd allowed &&
                 match alookup rd (heap g) with
                 | Some rn =>
                     match nmeta rn with
                     | Some d => ok_or_false (all_reqs_of e d (None :: map Some (node_extras_from g allowed rd)))
                                   (existsb (fun q => String.eqb (norm (safe_name (rname q))) (nkey n)))
                     | None => false
                     end
                 | None => false
                 end) (nrdeps n)
  end.
Definition minimal_b (e : env) (g : graph) (roots : list nat) : bool :=
  let allowed := roots ++ visit_nodes g roots in
  forallb (justified e g allowed) (emitted g roots).

(* C08: every requirer named in the annotation of an emitted node is itself a root or emitted *)
Definition explain_honest_b (e : env) (g : graph) (roots : list nat) : bool :=
  let em := visit_nodes g roots in
  forallb (fun id => match alookup id (heap g) with
                     | Some n => forallb (fun rd => nmem rd roots || nmem rd em ||
                                                    match alookup rd (heap g) with Some rn => is_meta rn | None => false end) (nrdeps n)
                     | None => false end) (emitted g roots).

(* everything a stack of repositories offers, per project key *)
Definition stack_keys (rs : repo_stack) : list string :=
  fold_left (fun acc k => if smem k acc then acc else acc ++ [k]) (flat_map (fun ua => map fst (fst ua)) rs) [].
Definition flatten_stack (rs : repo_stack) : universe :=
  map (fun k => (k, flat_map (fun ua => match slookup k (fst ua) with Some l => l | None => [] end) rs)) (stack_keys rs).

(* C17: req_compile/utils.py merge_extras, merge_requirements, reduce_requirements. *)
From Coq Require Import List String Ascii Bool ZArith.
From RC Require Import lib.PyStr lib.StrSort lib.Pep440 lib.Name.
Import ListNotations.

Record req := mkReq {
  rname : string;
  rextras : list string;
  rspec : list clause;
  rmarker : option string    (* str(req.marker), None if absent *)
}.

Inductive merr := ValueError | AssertionError.
Inductive result (A : Type) := Ok (a : A) | Err (e : merr).
Arguments Ok {A}. Arguments Err {A}.

Definition merge_extras (a b : list string) : list string :=
  match a, b with
  | [], [] => []
  | [], _ => b
  | _, [] => a
  | _, _ => sort_set (a ++ b)
  end.

Definition merge_marker (m1 m2 : option string) : option string :=
  match m1, m2 with
  | Some a, Some b =>
      if String.eqb a b then Some a
      else if containsb a b then Some a
      else if containsb b a then Some b
      else None
  | _, _ => None
  end.

Definition merge (r1 r2 : option req) : result req :=
  match r1, r2 with
  | Some a, None => Ok a
  | None, Some b => Ok b
  | None, None => Err AssertionError
  | Some a, Some b =>
      if String.eqb (norm (rname a)) (norm (rname b)) then
        Ok (mkReq (norm (rname a)) (merge_extras (rextras a) (rextras b))
                  (rspec a ++ rspec b) (merge_marker (rmarker a) (rmarker b)))
      else Err ValueError
  end.

(* SpecifierSet.contains of the requirement's specifier, explicit prerelease flag *)
Definition accepts (r : req) (v : version) (flag : bool) : bool := spec_contains (rspec r) v flag.

(* reduce_requirements: dict keyed by normalize_project_name(req.project_name) (project_name = safe_name name;
   after the /repo fix that reduces requirements by normalized project name), insertion order *)
Fixpoint upsert (k : string) (r : req) (acc : list (string * req)) : result (list (string * req)) :=
  match acc with
  | [] => Ok [(k, r)]
  | (k', r') :: acc' =>
      if String.eqb k k' then
        match merge (Some r') (Some r) with
        | Ok m => Ok ((k', m) :: acc')
        | Err e => Err e
        end
      else match upsert k r acc' with
           | Ok acc'' => Ok ((k', r') :: acc'')
           | Err e => Err e
           end
  end.

Fixpoint reduce_acc (rs : list req) (acc : list (string * req)) : result (list (string * req)) :=
  match rs with
  | [] => Ok acc
  | r :: rs' =>
      match upsert (norm (safe_name (rname r))) r acc with
      | Ok acc' => reduce_acc rs' acc'
      | Err e => Err e
      end
  end.

Definition reduce (rs : list req) : result (list req) :=
  match reduce_acc rs [] with
  | Ok acc => Ok (map snd acc)
  | Err e => Err e
  end.

(* C14: req_compile/repos/pypi.py _do_download + PyPIRepository.resolve_candidate over a
   SEQUENCE of resolutions that share one wheel directory: which bytes end up being read for
   the metadata of a pin, and which hash is reported.  The wheel directory is a finite map
   file name -> bytes; the network is [serve : url -> bytes]; sha256 is [digest]; urljoin is
   not modelled (each step carries urljoin(page url, href) as computed by urllib).
   The two tests that decide whether an existing file is reused are read by T1 from the
   source (gen/ConstsC14.v: dl_reuse_outer, dl_reuse_inner).  The cache side (partial files,
   crash points, MetadataError clean-up) is C15's. *)
From Coq Require Import List String Ascii Bool Arith.
From RC Require Import gen.ConstsC14 model.StrC14 model.IndexPageC14.
Import ListNotations.
Open Scope string_scope.

Fixpoint dropn (n : nat) (s : string) : string :=
  match n, s with
  | O, _ => s
  | S n', String _ s' => dropn n' s'
  | S _, EmptyString => EmptyString
  end.

(* first occurrence of a non-empty separator: (text before, text after) *)
Fixpoint cut_at (sep s : string) : option (string * string) :=
  match s with
  | EmptyString => None
  | String c s' =>
      if prefixb sep s then Some (EmptyString, dropn (String.length sep) s)
      else match cut_at sep s' with
           | Some (a, b) => Some (String c a, b)
           | None => None
           end
  end.

(* split_link = resource.split("#sha256="); sha = split_link[1] if len(split_link) > 1 else None *)
Definition sha_of_resource (res : string) : option string :=
  match cut_at dl_sha_sep res with
  | None => None
  | Some (_, rest) =>
      Some (match cut_at dl_sha_sep rest with Some (a, _) => a | None => rest end)
  end.

Fixpoint dl_eval (has_sha ex mt : bool) (c : dl_cond) : bool :=
  match c with
  | DHasSha => has_sha
  | DExists => ex
  | DMatch => mt
  | DNot a => negb (dl_eval has_sha ex mt a)
  | DAnd a b => dl_eval has_sha ex mt a && dl_eval has_sha ex mt b
  | DOr a b => dl_eval has_sha ex mt a || dl_eval has_sha ex mt b
  end.

Section Resolve.
Variable B : Type.                   (* file contents *)
Variable digest : B -> string.       (* sha256(...).hexdigest() *)
Variable serve : string -> B.        (* what session.get(url) delivers *)

Definition wdir := list (string * B).
Fixpoint wd_get (f : string) (wd : wdir) : option B :=
  match wd with [] => None | (g, b) :: r => if String.eqb f g then Some b else wd_get f r end.
Fixpoint wd_del (f : string) (wd : wdir) : wdir :=
  match wd with [] => [] | (g, b) :: r => if String.eqb f g then wd_del f r else (g, b) :: wd_del f r end.
Definition wd_set (f : string) (b : B) (wd : wdir) : wdir := (f, b) :: wd_del f wd.

(* one resolve_candidate call: candidate.filename, candidate.link[1], urljoin(candidate.link) *)
Record rstep := mkR { r_file : string; r_res : string; r_url : string }.

(* the file extract_metadata reads, the wheel directory afterwards, the `cached` flag;
   NoFile = open(output_file) raised because the reuse test passed without a file *)
Inductive dres := Used (wd' : wdir) (b : B) (cached : bool) | NoFile.

Definition do_download (wd : wdir) (st : rstep) : dres :=
  let sha := sha_of_resource (r_res st) in
  let cur := wd_get (r_file st) wd in
  let has_sha := match sha with Some _ => true | None => false end in
  let ex := match cur with Some _ => true | None => false end in
  let mt := match sha, cur with Some s, Some b => String.eqb (digest b) s | _, _ => false end in
  let fetch := let b := serve (r_url st) in Used (wd_set (r_file st) b wd) b false in
  if dl_eval has_sha ex false dl_reuse_outer then
    match cur with
    | None => NoFile
    | Some b =>
        if dl_eval has_sha ex mt dl_reuse_inner then Used wd b true
        else fetch      (* os.remove(output_file), then download *)
    end
  else fetch.

(* a pin as reported: the bytes its metadata came from, dist_info.hash, cached *)
Definition pin := (B * option string * bool)%type.

Fixpoint resolve_seq (wd : wdir) (steps : list rstep) : list pin * option wdir :=
  match steps with
  | [] => ([], Some wd)
  | st :: r =>
      match do_download wd st with
      | NoFile => ([], None)
      | Used wd' b c =>
          let '(pins, fin) := resolve_seq wd' r in
          ((b, hash_of_resource (r_res st), c) :: pins, fin)
      end
  end.

End Resolve.
Arguments Used {B}. Arguments NoFile {B}.

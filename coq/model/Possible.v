(* req_compile/versions.py: _offset_minor_version, _build_wildcard_min_max, is_possible,
   over structured versions.  Faithful for specifier versions of the form
   N(.N)* [a|b|rc N] [.postN] [.devN] with epoch 0 and no local part (what the solver
   correspondence generates); `===` clauses are outside the model. *)
From Coq Require Import List String Bool Arith NArith.
From Coq Require Import ZArith.
From RC Require Import lib.Lex lib.Pep440 model.Merge model.Graph.
Import ListNotations.
Open Scope list_scope.

Definition part_max : N := 999999999%N.

Definition plainv (rel : list N) : version := mkV 0 rel None None None [].

Fixpoint pad3 (l : list N) (n : nat) : list N :=
  match n with
  | O => l
  | S n' => match l with [] => 0%N :: pad3 [] n' | x :: l' => x :: pad3 l' n' end
  end.

Fixpoint set_nth (l : list N) (pos : nat) (v : N) : list N :=
  match l, pos with
  | [], _ => []
  | _ :: l', O => v :: l'
  | x :: l', S p => x :: set_nth l' p v
  end.

(* offset = +1 (up = true) or -1 (up = false); None = ValueError "Cannot create a version less than 0" *)
Fixpoint offset_at (parts : list N) (up : bool) (pos : nat) : option (list N) :=
  let cur := nth pos parts 0%N in
  if up then Some (set_nth parts pos (cur + 1)%N)
  else if N.eqb cur 0 then
         match pos with
         | O => None
         | S p => offset_at (set_nth parts pos part_max) false p
         end
       else Some (set_nth parts pos (cur - 1)%N).

Definition offset_minor (v : version) (up : bool) : option version :=
  match offset_at (pad3 (release v) 3) up 2 with
  | Some parts => Some (plainv parts)
  | None => None
  end.

(* "1.2.*" -> (1.2.0, 1.2.999999999) *)
Definition wildcard_min_max (v : version) : version * version :=
  (plainv (release v ++ [0%N]), plainv (release v ++ [part_max])).

Inductive poss := PTrue | PFalse | PValueError | PAmbiguous.

Record pstate := mkP { plower : version; pupper : version; pexact : option version }.

Fixpoint dedup_clauses (cs : list clause) : list clause :=
  match cs with
  | [] => []
  | c :: cs' => if existsb (clause_eqb c) cs' then dedup_clauses cs' else c :: dedup_clauses cs'
  end.

(* The code iterates a frozenset of Specifier objects, whose order depends on the hash seed,
   and its bound updates are order sensitive (e.g. "<=1.1" with "<1.1").  The model evaluates
   the clauses in ascending and in descending canonical order: when both agree that is the
   answer, otherwise the answer is hash-order dependent and the run is marked ambiguous. *)
Definition op_code (o : op) : Z :=
  match o with OEq => 0 | ONe => 1 | OLt => 2 | OLe => 3 | OGt => 4 | OGe => 5 | OCompat => 6 end%Z.
Definition clause_key (c : clause) : list Z :=
  vkey (cver c) ++ [op_code (cop c); if cwild c then 1%Z else 0%Z].
Fixpoint cinsert (c : clause) (l : list clause) : list clause :=
  match l with
  | [] => [c]
  | d :: l' => if Lex.leb (clause_key c) (clause_key d) then c :: l else d :: cinsert c l'
  end.
Definition sort_clauses (cs : list clause) : list clause := fold_right cinsert [] cs.

Definition poss_eqb (a b : poss) : bool :=
  match a, b with
  | PTrue, PTrue | PFalse, PFalse | PValueError, PValueError | PAmbiguous, PAmbiguous => true
  | _, _ => false
  end.
Fixpoint is_possible_fuel (fuel : nat) (cs : list clause) : poss :=
  match fuel with
  | O => PTrue
  | S f =>
    match cs with
    | [_] => PTrue
    | _ =>
      (fix loop (todo : list clause) (seen : list clause) (st : pstate) : poss :=
         match todo with
         | [] =>
             if vltb (pupper st) (plower st) then PFalse
             else match pexact st with
                  | Some e => if spec_contains cs e true then PTrue else PFalse
                  | None => PTrue
                  end
         | c :: rest =>
             match cop c with
             | OEq =>
                 if cwild c then
                   let '(lo, hi) := wildcard_min_max (cver c) in
                   let st1 := if vltb (plower st) lo then mkP lo (pupper st) (pexact st) else st in
                   let st2 := if vltb hi (pupper st1) then mkP (plower st1) hi (pexact st1) else st1 in
                   loop rest (seen ++ [c]) st2
                 else
                   match pexact st with
                   | None => loop rest (seen ++ [c]) (mkP (plower st) (pupper st) (Some (cver c)))
                   | Some e => if veqb e (cver c) then loop rest (seen ++ [c]) st else PFalse
                   end
             | ONe =>
                 if cwild c then
                   let others := seen ++ rest in
                   let '(lo, hi) := wildcard_min_max (cver c) in
                   (* each sub-requirement is parsed anew: its own (unknown) set order *)
                   let sub := fun cs' =>
                     let s := sort_clauses (dedup_clauses cs') in
                     let a := is_possible_fuel f s in
                     let b := is_possible_fuel f (rev s) in
                     if poss_eqb a b then a else PAmbiguous in
                   match sub (others ++ [mkC OLt lo false]) with
                   | PTrue => PTrue
                   | PValueError => PValueError
                   | PAmbiguous => PAmbiguous
                   | PFalse => sub (others ++ [mkC OGt hi false])
                   end
                 else loop rest (seen ++ [c]) st
             | OGt =>
                 if vltb (plower st) (cver c) then
                   match offset_minor (cver c) true with
                   | Some v => loop rest (seen ++ [c]) (mkP v (pupper st) (pexact st))
                   | None => PValueError
                   end
                 else loop rest (seen ++ [c]) st
             | OGe =>
                 if vleb (plower st) (cver c) then loop rest (seen ++ [c]) (mkP (cver c) (pupper st) (pexact st))
                 else loop rest (seen ++ [c]) st
             | OLt =>
                 if vltb (cver c) (pupper st) then
                   match offset_minor (cver c) false with
                   | Some v => loop rest (seen ++ [c]) (mkP (plower st) v (pexact st))
                   | None => PValueError
                   end
                 else loop rest (seen ++ [c]) st
             | OLe =>
                 if vleb (cver c) (pupper st) then loop rest (seen ++ [c]) (mkP (plower st) (cver c) (pexact st))
                 else loop rest (seen ++ [c]) st
             | OCompat => loop rest (seen ++ [c]) st
             end
         end) cs [] (mkP (plainv [0%N; 0%N; 0%N]) (plainv [part_max; part_max; part_max]) None)
    end
  end.

(* is_possible on the clauses in one given iteration order *)
Definition is_possible_ordered (cs0 : list clause) : poss :=
  let cs := dedup_clauses cs0 in is_possible_fuel (S (List.length cs)) cs.

Definition is_possible (cs0 : list clause) : poss :=
  let cs := sort_clauses (dedup_clauses cs0) in
  let a := is_possible_ordered cs in
  let b := is_possible_ordered (rev cs) in
  if poss_eqb a b then a else PAmbiguous.

(* C19: the Bazel lock loader (private/reqs_repo.bzl parse_lockfile / parse_constraint,
   private/utils.bzl sanitize_package_name) transcribed over strings, and a small model of
   what the Bazel front-end (private/compiler.py -> cmdline.write_requirements_file with
   urls, hashes, multiline) writes for a solved graph ("view").

   Strings are byte strings; the model covers ASCII text (DESIGN 5 / harness/c19.py
   ASSUMPTIONS).  All literals of the loader come from gen/BzlConstsC19.v, regenerated from
   /repo on every run (T1). Failures of the loader are explicit error values:
     FailMinLen / FailHash / FailUrl   the three fail(...) calls of parse_constraint
     ErrIndex                          an out-of-range list index. *)
From Coq Require Import List Bool String Ascii Arith.
From RC Require Import lib.PyStr lib.Name gen.BzlConstsC19.
Import ListNotations.
Open Scope string_scope.
Open Scope nat_scope.

(* ---------------------------------------------------------------- string helpers *)

Definition LF : ascii := Ascii.ascii_of_nat 10.
Definition CR : ascii := Ascii.ascii_of_nat 13.
Definition nl : string := String LF EmptyString.

(* characters str.splitlines() breaks on (ASCII part): \n \v \f \r \x1c \x1d \x1e *)
Definition is_linebreak (c : ascii) : bool :=
  let n := nat_of_ascii c in ((10 <=? n) && (n <=? 13)) || ((28 <=? n) && (n <=? 30)).

(* str.splitlines(): "\r\n" is one break; no trailing empty piece *)
Fixpoint splitlines_acc (s acc : string) (after_cr : bool) : list string :=
  match s with
  | EmptyString => match acc with EmptyString => [] | _ => [rev_str acc] end
  | String c s' =>
      if after_cr && Ascii.eqb c LF then splitlines_acc s' EmptyString false
      else if is_linebreak c then rev_str acc :: splitlines_acc s' EmptyString (Ascii.eqb c CR)
      else splitlines_acc s' (String c acc) false
  end.
Definition splitlines (s : string) : list string := splitlines_acc s EmptyString false.

Definition startswith_any (s : string) (ps : list string) : bool :=
  existsb (fun p => prefixb p s) ps.

(* s.partition(sep), sep a non-empty string: (before, found, after) *)
Fixpoint partition_str (sep s : string) : string * bool * string :=
  if prefixb sep s then (EmptyString, true, drop (String.length sep) s) else
  match s with
  | EmptyString => (EmptyString, false, EmptyString)
  | String c s' => match partition_str sep s' with (a, f, b) => (String c a, f, b) end
  end.

(* s.replace(old, new), old non-empty: left to right, non overlapping.  `skip` counts the
   characters of a matched occurrence still to be dropped. *)
Fixpoint replace_skip (old new s : string) (skip : nat) : string :=
  match s with
  | EmptyString => EmptyString
  | String c s' =>
      match skip with
      | S k => replace_skip old new s' k
      | O => if prefixb old s then new ++ replace_skip old new s' (String.length old - 1)
             else String c (replace_skip old new s' 0)
      end
  end.
Definition replace_all (old new s : string) : string := replace_skip old new s 0.

(* s.count(sub), sub non-empty: non overlapping occurrences *)
Fixpoint count_skip (sub s : string) (skip : nat) : nat :=
  match s with
  | EmptyString => 0
  | String c s' =>
      match skip with
      | S k => count_skip sub s' k
      | O => if prefixb sub s then S (count_skip sub s' (String.length sub - 1))
             else count_skip sub s' 0
      end
  end.
Definition count_str (sub s : string) : nat := count_skip sub s 0.

Definition is_empty (s : string) : bool := match s with EmptyString => true | _ => false end.

(* sorted(list of str): insertion sort, duplicates kept *)
Fixpoint ins_str (x : string) (l : list string) : list string :=
  match l with
  | [] => [x]
  | y :: l' => if str_leb x y then x :: l else y :: ins_str x l'
  end.
Definition sort_strs (l : list string) : list string := fold_right ins_str [] l.

(* l[:-n] *)
Definition slice_to_neg {A} (n : nat) (l : list A) : list A :=
  match n with O => [] | _ => firstn (List.length l - n) l end.

Fixpoint last_opt {A} (l : list A) : option A :=
  match l with [] => None | [x] => Some x | _ :: l' => last_opt l' end.

(* ---------------------------------------------------------------- sanitize_package_name *)

Definition apply_op (op : option (ascii * ascii)) (s : string) : string :=
  match op with None => lower s | Some (a, b) => replace_char a b s end.
Definition sanitize (s : string) : string :=
  fold_left (fun acc op => apply_op op acc) c19_sanitize_ops s.

(* ---------------------------------------------------------------- the loader *)

Inductive err := FailMinLen | FailHash | FailUrl | ErrIndex.
Inductive res (A : Type) := Ok (a : A) | Err (e : err).
Arguments Ok {A}. Arguments Err {A}.

(* A Bazel Label, as far as the loader looks at it: str() and same_package_label() *)
Record label := mkLabel { l_repo : string; l_pkg : string; l_name : string }.
Definition label_str (l : label) : string := l_repo l ++ "//" ++ l_pkg l ++ ":" ++ l_name l.
Definition same_package_label (l : label) (name : string) : label :=
  mkLabel (l_repo l) (l_pkg l) name.

Record entry := mkEntry {
  e_annotations : option string;   (* None = {} ; Some d = opaque annotation data *)
  e_constraint : option string;
  e_deps : list string;
  e_package : string;
  e_sha256 : string;
  e_url : option string;
  e_version : string;
  e_via : list string;
  e_whl : option string
}.

(* the body of `for entry in data[2:-1]`: what the entry adds to `via` *)
Definition via_of_entry (e : string) : list string :=
  let text := replace_all c19_via_old c19_via_new e in
  let pkg := fst (fst (partition_char c19_via_sep1 (strip_chars c19_via_strip text))) in
  let pkg := fst (fst (partition_char c19_via_sep2 pkg)) in
  if is_empty pkg then []
  else if existsb (fun m => containsb m pkg) c19_path_marks then []
  else [sanitize pkg].

(* url.startswith(tuple(wheel_dirs)): the url starts with one of the wheel directories *)
Definition startswith_tuple (url : string) (wheel_dirs : list string) : bool :=
  existsb (fun d => prefixb d url) wheel_dirs.

Definition relative_parent_label (url : string) (lockfile : label) : res string :=
  let url_parents := count_str c19_up_count url in
  match partition_str c19_label_sep (label_str lockfile) with
  | (repository, _, path) =>
    let lockfile_dir := fst (fst (partition_char c19_label_colon path)) in
    let new_package := join c19_join_sep (slice_to_neg url_parents (split_char c19_dir_split lockfile_dir)) in
    let split := rev (split_char c19_url_split url) in
    match split with
    | last1 :: last2 :: _ =>
        let wheel := last2 ++ "/" ++ last1 in
        Ok (repository ++ "//" ++ new_package ++ ":" ++ wheel)
    | _ => Err ErrIndex
    end
  end.

Definition parse_constraint (data : list string) (lockfile : label) (wheel_dirs : list string)
  : res entry :=
  if List.length data <? c19_min_len then Err FailMinLen else
  match nth_error data 0, nth_error data 1, last_opt data with
  | Some d0, Some d1, Some dlast =>
    match partition_str c19_pin_sep d0 with
    | (package, _, version0) =>
      let version := strip_chars c19_version_strip version0 in
      if negb (prefixb c19_hash_prefix d1) then Err FailHash else
      let sha256 := drop (String.length c19_hash_len_of) d1 in
      let via := flat_map via_of_entry (skipn 2 (removelast data)) in
      let url := strip_chars c19_url_strip dlast in
      let mk u w := mkEntry None None [] package sha256 u version (sort_strs via) w in
      if startswith_any url c19_url_schemes then Ok (mk (Some url) None)
      else
        match wheel_dirs with
        | [] => Err FailUrl
        | _ =>
          if startswith_tuple url wheel_dirs then
            if startswith_any url c19_up_prefixes then
              match relative_parent_label url lockfile with
              | Ok w => Ok (mk None (Some w))
              | Err e => Err e
              end
            else Ok (mk None (Some (label_str (same_package_label lockfile url))))
          else Err FailUrl
        end
    end
  | _, _, _ => Err ErrIndex
  end.

(* the line loop of parse_lockfile; `cap` is `capturing`, `ents` is `entries` *)
Definition fl_dir (text : string) : string :=
  let t := fst (fst (partition_char c19_fl_comment text)) in
  strip_chars c19_fl_strip (drop (String.length c19_fl_len_of) t).

Definition flush (cap : list string) (lockfile : label) (wd : list string) (ents : list entry)
  : res (list entry) :=
  match cap with
  | [] => Ok ents
  | _ => match parse_constraint cap lockfile wd with
         | Ok e => Ok (ents ++ [e])%list
         | Err x => Err x
         end
  end.

Fixpoint line_loop (lines : list string) (lockfile : label) (wd : list string)
         (ents : list entry) (cap : list string) : res (list entry) :=
  match lines with
  | [] => flush cap lockfile wd ents
  | line :: rest =>
    let text := strip line in
    if startswith_any text c19_skip_prefixes then line_loop rest lockfile wd ents cap
    else if startswith_any text c19_fl_prefixes then
      line_loop rest lockfile (wd ++ [fl_dir text])%list ents cap
    else
      let start_or_skip ents' :=
        if is_empty text || prefixb c19_comment_prefix text
        then line_loop rest lockfile wd ents' []
        else line_loop rest lockfile wd ents' [text] in
      match cap with
      | [] => start_or_skip ents
      | _ =>
        if is_empty text || negb (startswith_any text c19_capture_prefixes) then
          match flush cap lockfile wd ents with
          | Ok ents' => start_or_skip ents'
          | Err x => Err x
          end
        else line_loop rest lockfile wd ents (cap ++ [text])%list
      end
  end.

(* dicts are association lists in insertion order with unique keys *)
Definition dict := list (string * entry).
Fixpoint dict_set (d : dict) (k : string) (e : entry) : dict :=
  match d with
  | [] => [(k, e)]
  | (k', e') :: d' => if String.eqb k k' then (k', e) :: d' else (k', e') :: dict_set d' k e
  end.
Definition dict_mem (d : dict) (k : string) : bool := existsb (fun ke => String.eqb k (fst ke)) d.
Definition dict_update (d : dict) (k : string) (f : entry -> entry) : dict :=
  map (fun ke => if String.eqb k (fst ke) then (fst ke, f (snd ke)) else ke) d.

Definition dict_of_entries (ents : list entry) : dict :=
  fold_left (fun d e => dict_set d (sanitize (e_package e)) e) ents [].

Definition add_dep (pkg : string) (e : entry) : entry :=
  mkEntry (e_annotations e) (e_constraint e) (e_deps e ++ [pkg])%list (e_package e) (e_sha256 e)
          (e_url e) (e_version e) (e_via e) (e_whl e).
Definition finish_entry (constraint : option string) (e : entry) : entry :=
  mkEntry (e_annotations e)
          (match constraint with Some c => Some c | None => e_constraint e end)
          (sort_strs (e_deps e)) (e_package e) (e_sha256 e) (e_url e) (e_version e) (e_via e) (e_whl e).
Definition set_annotations (data : string) (e : entry) : entry :=
  mkEntry (Some data) (e_constraint e) (e_deps e) (e_package e) (e_sha256 e) (e_url e)
          (e_version e) (e_via e) (e_whl e).

(* for pkg, data in packages.items(): for via in data["via"]: if via in packages: ...append(pkg)
   (only "deps" lists are mutated, so iterating over the initial items is the same) *)
Definition invert_via (d : dict) : dict :=
  fold_left (fun acc ke =>
               fold_left (fun acc' via =>
                            if dict_mem acc' via then dict_update acc' via (add_dep (fst ke)) else acc')
                         (e_via (snd ke)) acc)
            d d.

Definition apply_annotations (annotations : list (string * string)) (d : dict) : dict :=
  fold_left (fun acc nd =>
               let k := sanitize (fst nd) in
               if dict_mem acc k then dict_update acc k (set_annotations (snd nd)) else acc)
            annotations d.

Definition finalize (annotations : list (string * string)) (constraint : option string)
           (ents : list entry) : dict :=
  let d := invert_via (dict_of_entries ents) in
  let d := map (fun ke => (fst ke, finish_entry constraint (snd ke))) d in
  apply_annotations annotations d.

Definition parse_lockfile (content : string) (annotations : list (string * string))
           (lockfile : label) (constraint : option string) : res dict :=
  match line_loop (splitlines content) lockfile [] [] [] with
  | Ok ents => Ok (finalize annotations constraint ents)
  | Err x => Err x
  end.

(* ---------------------------------------------------------------- the writer side *)

(* one requirer as build_explanation renders it: node.metadata.name ++ tail, the tail being
   "" or "[extras]" and/or " (specifier [extras])" *)
Record requirer := mkRequirer { rq_name : string; rq_tail : string }.
Definition rq_text (r : requirer) : string := rq_name r ++ rq_tail r.

Inductive link :=
| LUrl (u : string)                 (* absolute URL of the distribution, as joined by the writer *)
| LWheel (dir file : string).       (* candidate of `--find-links dir`: link = (dir, dir/file) *)

Record pin := mkPin {
  p_name : string;                  (* node.metadata.name *)
  p_version : string;               (* str(node.metadata.version) *)
  p_hash : option string;           (* node.metadata.hash, e.g. "sha256:ab12" *)
  p_via : list requirer;            (* build_explanation(node), in the order written *)
  p_link : option link              (* node.metadata.candidate.link *)
}.

Record view := mkView {
  v_header : list string;           (* lines of private/compiler.py _HEADER, instantiated *)
  v_indexes : list (bool * string); (* (is_extra, url): --index-url / --extra-index-url lines *)
  v_find_links : list string;       (* --find-links directories as written (relative paths) *)
  v_pins : list pin                 (* in the order written *)
}.

Definition link_text (l : link) : string :=
  match l with
  | LUrl u => u
  | LWheel d f => d ++ "/" ++ f      (* scheme-less base: the writer emits link[1] = dir/file *)
  end.

Definition via_single_line (r : requirer) : string := "    # via " ++ rq_text r.
Definition via_item_line (r : requirer) : string := "    #   " ++ rq_text r.
Definition via_lines (vs : list requirer) : list string :=
  match vs with
  | [r] => [via_single_line r]
  | [] => ["    # via"; EmptyString]
  | _ => "    # via" :: map via_item_line vs
  end.
(* with no requirer at all the writer emits "via\n" and then the comment separator
   "\n    # ", i.e. an empty line -- kept (excluded by wf_view in the theorems). *)

Definition pin_head_lines (p : pin) : list string :=
  match p_hash p with
  | Some h => [p_name p ++ "==" ++ p_version p ++ " \"; "    --hash=" ++ h]
  | None => [p_name p ++ "==" ++ p_version p]
  end.
Definition pin_link_lines (p : pin) : list string :=
  match p_link p with
  | Some l => ["    # " ++ link_text l]
  | None => []
  end.
Definition pin_lines (p : pin) : list string :=
  List.app (pin_head_lines p) (List.app (via_lines (p_via p)) (pin_link_lines p)).

Definition index_line (iu : bool * string) : string :=
  (if fst iu then "--extra-index-url " else "--index-url ") ++ snd iu.
Definition fl_line (d : string) : string := "--find-links " ++ d.
Definition directive_lines (v : view) : list string :=
  match v_indexes v, v_find_links v with
  | [], [] => []
  | _, _ => List.app (map index_line (v_indexes v))
                     (List.app (map fl_line (v_find_links v)) [EmptyString])
  end.

Definition view_lines (v : view) : list string :=
  List.app (v_header v) (List.app (directive_lines v) (flat_map pin_lines (v_pins v))).

Definition unlines (ls : list string) : string :=
  fold_right (fun l acc => l ++ nl ++ acc) EmptyString ls.

Definition write_bazel (v : view) : string := unlines (view_lines v).

(* ---------------------------------------------------------------- what the loader should recover *)

Definition is_path_requirer (r : requirer) : bool :=
  existsb (fun m => containsb m (rq_name r)) ["/"; "\"].
Definition via_keys (p : pin) : list string :=
  map (fun r => sanitize (rq_name r)) (filter (fun r => negb (is_path_requirer r)) (p_via p)).

Definition pin_key (p : pin) : string := sanitize (p_name p).

(* the pinned projects p requires = the pins that name p among their requirers
   (one occurrence per annotation, as the loader appends) *)
Definition dep_keys (v : view) (p : pin) : list string :=
  flat_map (fun q => map (fun _ => pin_key q) (filter (String.eqb (pin_key p)) (via_keys q))) (v_pins v).

(* the label of the wheel file dir/file of a find-links directory given relative to the lock
   file's package: below the package it is <repo>//<pkg>:dir/file; for a directory that
   points upwards ("../wheels") the loader's rule is kept as the specification: drop one
   package segment per "../" and name the file by its last two path segments (see
   C19_parent_dir_label for what that is on "../"^k name, and the known finding for deeper
   upward directories). *)
Definition wheel_label (lockfile : label) (d f : string) : option string :=
  let path := d ++ "/" ++ f in
  if startswith_any path [".."; "./../"] then
    match relative_parent_label path lockfile with Ok w => Some w | Err _ => None end
  else Some (l_repo lockfile ++ "//" ++ l_pkg lockfile ++ ":" ++ path).

Definition expected_entry (lockfile : label) (constraint : option string) (v : view) (p : pin) : entry :=
  mkEntry None constraint
          (sort_strs (dep_keys v p))
          (p_name p)
          (match p_hash p with Some h => drop 7 h | None => EmptyString end)
          (match p_link p with Some (LUrl u) => Some u | _ => None end)
          (p_version p)
          (sort_strs (via_keys p))
          (match p_link p with
           | Some (LWheel d f) => wheel_label lockfile d f
           | _ => None end).

Definition lock_view (lockfile : label) (constraint : option string) (v : view) : dict :=
  map (fun p => (pin_key p, expected_entry lockfile constraint v p)) (v_pins v).

(* ---------------------------------------------------------------- well-formed views (decidable) *)

Fixpoint all_chars (p : ascii -> bool) (s : string) : bool :=
  match s with EmptyString => true | String c s' => p c && all_chars p s' end.
Definition first_char (p : ascii -> bool) (s : string) : bool :=
  match s with EmptyString => false | String c _ => p c end.
Fixpoint last_char (p : ascii -> bool) (s : string) : bool :=
  match s with
  | EmptyString => false
  | String c EmptyString => p c
  | String _ s' => last_char p s'
  end.

Definition is_alnum (c : ascii) : bool := is_digit c || is_alpha_ascii c.
(* PEP 508 project-name characters *)
Definition pep508_char (c : ascii) : bool :=
  is_alnum c || Ascii.eqb c "."%char || Ascii.eqb c "_"%char || Ascii.eqb c "-"%char.
Definition pep508_name (s : string) : bool := first_char is_alnum s && all_chars pep508_char s.
(* printable, non-blank ASCII *)
Definition plain (c : ascii) : bool := let n := nat_of_ascii c in (33 <=? n) && (n <=? 126).
Definition plain_or_space (c : ascii) : bool := let n := nat_of_ascii c in (32 <=? n) && (n <=? 126).
Definition not_char (x : ascii) (c : ascii) : bool := negb (Ascii.eqb c x).
(* file and directory names of a wheel directory *)
Definition fname_char (c : ascii) : bool :=
  is_alnum c || mem_ascii c "._-+!~".

Definition is_empty_list {A} (l : list A) : bool := match l with [] => true | _ => false end.
Definition mem_str (x : string) (l : list string) : bool := existsb (String.eqb x) l.
Fixpoint nodup_b (l : list string) : bool :=
  match l with [] => true | x :: l' => negb (mem_str x l') && nodup_b l' end.

Definition wf_requirer (r : requirer) : bool :=
  first_char (fun _ => true) (rq_name r)
  && all_chars (fun c => plain c && not_char "#" c && not_char "[" c) (rq_name r)
  && all_chars (fun c => plain_or_space c && not_char "#" c) (rq_tail r)
  && (is_empty (rq_tail r)
      || ((first_char (fun c => Ascii.eqb c " " || Ascii.eqb c "[") (rq_tail r))
          && last_char plain (rq_tail r))).

Definition wheel_path (d f : string) : string := d ++ "/" ++ f.

Definition wf_link (fls : list string) (l : link) : bool :=
  match l with
  | LUrl u => startswith_any u c19_url_schemes && all_chars plain u && last_char (not_char "#") u
  | LWheel d f =>
      mem_str d fls
      && first_char (fun _ => true) f && all_chars fname_char f
      && negb (String.eqb f ".") && negb (String.eqb f "..")
      && negb (startswith_any (wheel_path d f) c19_url_schemes)
  end.

Definition wf_pin (fls : list string) (p : pin) : bool :=
  pep508_name (p_name p)
  && first_char (fun _ => true) (p_version p)
  && all_chars (fun c => plain c && not_char "\" c) (p_version p)
  && match p_hash p with
     | Some h => prefixb "sha256:" h && all_chars plain h
     | None => false
     end
  && negb (is_empty_list (p_via p)) && forallb wf_requirer (p_via p)
  && match p_link p with Some l => wf_link fls l | None => false end.

Definition comment_or_blank (l : string) : bool :=
  let t := strip l in is_empty t || prefixb "#" t.
Definition wf_header_line (l : string) : bool :=
  all_chars (fun c => negb (is_linebreak c)) l && comment_or_blank l.
Definition wf_index (iu : bool * string) : bool :=
  first_char (fun _ => true) (snd iu) && all_chars plain (snd iu).
(* a find-links directory as written: a relative path of file-name characters *)
Definition wf_fl_dir (d : string) : bool :=
  first_char (fun c => negb (Ascii.eqb c "/")) d
  && all_chars (fun c => fname_char c || Ascii.eqb c "/") d
  && last_char (fun c => negb (Ascii.eqb c "/")) d.

(* every pin once (under the compiler's normalisation); version, sha256, at least one
   requirer annotation, url or wheel of a declared find-links directory *)
Definition wf_view (v : view) : bool :=
  forallb wf_header_line (v_header v)
  && forallb wf_index (v_indexes v)
  && forallb wf_fl_dir (v_find_links v)
  && forallb (wf_pin (v_find_links v)) (v_pins v)
  && nodup_b (map (fun p => norm (p_name p)) (v_pins v)).

(* C15 - vocabulary shared by the generated facts (gen/C15Consts.v, written by
   harness/tr_c15.py from /repo's current source) and the model CliFlowC15.v. *)
From Coq Require Import List NArith Bool.
Import ListNotations.

(* the calls of compile_main / compile_requirements that can end the run, in source order *)
Inductive stage :=
| SInputs        (* _create_input_reqs over the positional arguments *)
| SExtraParams   (* argparse over the parameters found in the inputs + _create_dist_from_path(editable) *)
| SConstraints   (* _create_input_reqs over --constraints *)
| SBuildRepo     (* build_repo(...) *)
| SCompile       (* perform_compile(...) *)
| SSetupReqs     (* the setup-requires downloads (user-supplied wheel dir only) *)
| SWrite.        (* write_requirements_file *)

Inductive ecls :=
| EValueError | ERepoInit | ENoCandidate | EMetadata | ECompilation | ESystemExit | EOSError | EOther.

Definition stage_eqb (a b : stage) : bool :=
  match a, b with
  | SInputs, SInputs | SExtraParams, SExtraParams | SConstraints, SConstraints
  | SBuildRepo, SBuildRepo | SCompile, SCompile | SSetupReqs, SSetupReqs | SWrite, SWrite => true
  | _, _ => false
  end.
Definition ecls_eqb (a b : ecls) : bool :=
  match a, b with
  | EValueError, EValueError | ERepoInit, ERepoInit | ENoCandidate, ENoCandidate
  | EMetadata, EMetadata | ECompilation, ECompilation | ESystemExit, ESystemExit | EOSError, EOSError
  | EOther, EOther => true
  | _, _ => false
  end.

(* what an `except X:` clause does *)
Inductive action :=
| AExit (code : N)        (* ... sys.exit(code) *)
| AReraise (e : ecls)     (* raise Other(...) *)
| ARaiseSame.             (* bare `raise` *)

(* a statement inside the body of a top-level try *)
Inductive step :=
| SPlain (s : stage)                                          (* a stage call directly in the body *)
| STry (body : list stage) (handlers : list (ecls * action)). (* a nested try/except (no finally) around stage calls *)

Inductive item :=
| Plain (s : stage) (only_user : bool)
      (* a stage call outside every try; only_user: guarded by `if not delete_wheeldir` *)
| Try (body : list step) (handlers : list (ecls * action)) (fin_rm : bool).
      (* try: <body> except ...: ... [finally: if <flag>: shutil.rmtree(wheeldir)] *)

Definition step_stages (st : step) : list stage :=
  match st with SPlain s => [s] | STry b _ => b end.
Definition body_stages (body : list step) : list stage := concat (map step_stages body).

Record flow := mkFlow {
  f_pre : list stage;      (* stage calls that run BEFORE the wheel directory is made / looked at, outside every try *)
  f_items : list item;     (* statements after the wheel directory exists, in order *)
  f_del_user : bool;       (* does the finally's guard hold when the directory was supplied by the user *)
  f_del_tmp : bool         (* ... when it was made by tempfile.mkdtemp() *)
}.

(* C14: the Python str / os.path operations the anchored code uses, as structurally
   recursive (proof friendly) Gallina functions over Coq strings (= byte strings; the
   harness only sends ASCII).  Validated against CPython by harness/c14.py (command "U"). *)
From Coq Require Import List String Ascii Bool Arith NArith Lia.
From Coq Require Import DecimalString DecimalN Decimal.
Import ListNotations.
Open Scope string_scope.
Open Scope nat_scope.

Fixpoint has_char (p : ascii -> bool) (s : string) : bool :=
  match s with EmptyString => false | String c s' => p c || has_char p s' end.
Fixpoint all_chars (p : ascii -> bool) (s : string) : bool :=
  match s with EmptyString => true | String c s' => p c && all_chars p s' end.

Definition is_ch (a : ascii) (c : ascii) : bool := Ascii.eqb c a.
Fixpoint mem_char (c : ascii) (cs : string) : bool :=
  match cs with EmptyString => false | String d cs' => Ascii.eqb c d || mem_char c cs' end.

Definition digitb (c : ascii) : bool :=
  let n := nat_of_ascii c in (48 <=? n) && (n <=? 57).
Definition spaceb (c : ascii) : bool :=
  let n := nat_of_ascii c in (n =? 32) || ((9 <=? n) && (n <=? 13)) || ((28 <=? n) && (n <=? 31)).
Definition lower_c (c : ascii) : ascii :=
  let n := nat_of_ascii c in if (65 <=? n) && (n <=? 90) then ascii_of_nat (n + 32) else c.
Fixpoint lower (s : string) : string :=
  match s with EmptyString => EmptyString | String c s' => String (lower_c c) (lower s') end.

Fixpoint map_char (f : ascii -> ascii) (s : string) : string :=
  match s with EmptyString => EmptyString | String c s' => String (f c) (map_char f s') end.
(* s.replace(a, b) for one-character a, b *)
Definition repl_char (ab : ascii * ascii) (s : string) : string :=
  map_char (fun c => if Ascii.eqb c (fst ab) then snd ab else c) s.

Fixpoint prefixb (p s : string) : bool :=
  match p, s with
  | EmptyString, _ => true
  | String a p', String b s' => Ascii.eqb a b && prefixb p' s'
  | _, EmptyString => false
  end.
(* `sub in s` *)
Fixpoint containsb (sub s : string) : bool :=
  prefixb sub s || match s with EmptyString => false | String _ s' => containsb sub s' end.

(* s.endswith(suf) *)
Fixpoint ends_with (suf s : string) : bool :=
  String.eqb s suf || match s with EmptyString => false | String _ s' => ends_with suf s' end.

(* re.split("[cs]", s)[-1] : the text after the last character satisfying p *)
Fixpoint after_last_aux (p : ascii -> bool) (s cur : string) : string :=
  match s with
  | EmptyString => cur
  | String c s' => if p c then after_last_aux p s' s' else after_last_aux p s' cur
  end.
Definition after_last (p : ascii -> bool) (s : string) : string := after_last_aux p s s.

(* os.path.basename (posix) *)
Definition basename (s : string) : string := after_last (is_ch "/"%char) s.

(* str.strip() restricted to ASCII white space *)
Fixpoint lstrip (s : string) : string :=
  match s with String c s' => if spaceb c then lstrip s' else s | EmptyString => EmptyString end.
Fixpoint rstrip (s : string) : string :=
  match s with
  | EmptyString => EmptyString
  | String c s' =>
      match rstrip s' with
      | EmptyString => if spaceb c then EmptyString else String c EmptyString
      | r => String c r
      end
  end.
Definition strip (s : string) : string := rstrip (lstrip s).

(* s.replace(old, "") : skip = characters of a match still to be dropped *)
Fixpoint remove_aux (old : string) (skip : nat) (s : string) : string :=
  match s with
  | EmptyString => EmptyString
  | String c s' =>
      match skip with
      | S k => remove_aux old k s'
      | O => if prefixb old s then remove_aux old (String.length old - 1) s'
             else String c (remove_aux old 0 s')
      end
  end.
Definition remove_all (old s : string) : string :=
  match old with EmptyString => s | _ => remove_aux old 0 s end.

(* s.split(c) for a one-character separator: never empty *)
Fixpoint split_on (sep : ascii) (s : string) : list string :=
  match s with
  | EmptyString => [EmptyString]
  | String c s' =>
      let r := split_on sep s' in
      if Ascii.eqb c sep then EmptyString :: r
      else match r with h :: t => String c h :: t | [] => [String c EmptyString] end
  end.
Fixpoint joinc (sep : ascii) (l : list string) : string :=
  match l with
  | [] => EmptyString
  | [x] => x
  | x :: l' => x ++ String sep (joinc sep l')
  end.

(* s.partition(c)[0] / [2] *)
Fixpoint before_first (sep : ascii) (s : string) : string :=
  match s with
  | EmptyString => EmptyString
  | String c s' => if Ascii.eqb c sep then EmptyString else String c (before_first sep s')
  end.
Fixpoint after_first (sep : ascii) (s : string) : string :=
  match s with
  | EmptyString => EmptyString
  | String c s' => if Ascii.eqb c sep then s' else after_first sep s'
  end.

Fixpoint take (n : nat) (s : string) : string :=
  match n, s with
  | S n', String c s' => String c (take n' s')
  | _, _ => EmptyString
  end.
(* s[:-n] for n > 0 *)
Definition drop_last (n : nat) (s : string) : string := take (String.length s - n) s.

(* posixpath.splitext(s)[1] *)
Fixpoint splitext_aux (b : string) (nondot_before : bool) : string :=
  match b with
  | EmptyString => EmptyString
  | String c b' =>
      if Ascii.eqb c "."%char && negb (has_char (is_ch "."%char) b')
      then (if nondot_before then b else EmptyString)
      else splitext_aux b' (nondot_before || negb (Ascii.eqb c "."%char))
  end.
Definition splitext_ext (s : string) : string := splitext_aux (basename s) false.

Fixpoint str_mem (x : string) (l : list string) : bool :=
  match l with [] => false | y :: l' => String.eqb x y || str_mem x l' end.

Fixpoint remove_nth {A} (n : nat) (l : list A) : list A :=
  match n, l with
  | O, _ :: t => t
  | S n', x :: t => x :: remove_nth n' t
  | _, [] => []
  end.

(* decimal: int(s) for a non-empty all-ASCII-digit s, "{}".format(n) *)
Definition num (s : string) : N :=
  match NilEmpty.uint_of_string s with Some d => N.of_uint d | None => 0%N end.
Definition dec (n : N) : string := NilEmpty.string_of_uint (N.to_uint n).
Definition digits_ne (s : string) : bool :=
  match s with EmptyString => false | _ => all_chars digitb s end.

(* C20: the enumerations the generated constants (gen/ConstsC20.v) and the model
   (model/TagsC20.v) share. *)
Inductive sfield := FVersion | FExtra | FType | FTagScore | FFilename.      (* elements of Candidate.sortkey *)
Inductive tfield := TPy | TPlat | TAbi | TExtra.                 (* elements of Candidate.tag_score *)
Inductive reason := WrongPython | WrongAbi | WrongPlatform | IsPrerelease | VersionNoSatisfy.
Inductive dist_type := Source | Wheel | Sdist.                   (* DistributionType *)
Inductive amode := ANone | ATable | APrefix.                      (* how legacy manylinux tags are re-spelled *)

(* C03: req_compile/repos/repository.py -- Candidate.sortkey, sort_candidates,
   check_usability, filter_candidates, _is_all_prereleases, Repository.do_get_candidate;
   req_compile/utils.py -- is_pinned_requirement, has_prerelease.
   The constants marked (T1) come from gen/C03Consts.v, regenerated from /repo on every run. *)
From Coq Require Import List String Ascii Bool ZArith NArith.
From RC Require Import lib.Lex lib.PyStr lib.Pep440 lib.Name model.Merge gen.C03Consts.
Import ListNotations.

(* A candidate as do_get_candidate sees it.  [usable] is the verdict of the first three
   tests of check_usability (python tag, abi, platform): abstract here, it is the subject of
   C20.  [readable] says whether resolve_candidate returns metadata (false = MetadataError).
   [extra] is Candidate.extra_sort_info as a comparable code list (code points of the build
   tag; a pooled repository prefixes its index), [tagscore] is Candidate.tag_score. *)
Record cand := mkCand {
  cname : string;
  ver : version;
  ckind : kind;             (* (T1) Wheel | Sdist | Source *)
  usable : bool;
  readable : bool;
  extra : list Z;
  tagscore : list Z;
  cfile : string
}.

Record settings := mkSet {
  allow_pre : bool;         (* Repository.allow_prerelease *)
  allow_src : bool;         (* allow_source_dist = project not in only_binary *)
  budget : option Z         (* max_downgrade; None = unlimited *)
}.

Definition kind_eqb (a b : kind) : bool :=
  match a, b with Wheel, Wheel | Sdist, Sdist | Source, Source => true | _, _ => false end.

(* ---- utils.is_pinned_requirement / has_prerelease ---- *)
Definition op_name (o : op) : string :=
  match o with
  | OEq => "==" | ONe => "!=" | OLt => "<" | OLe => "<=" | OGt => ">" | OGe => ">=" | OCompat => "~="
  end.

Definition is_pin_clause (c : clause) : bool :=
  existsb (String.eqb (op_name (cop c))) pin_ops &&
  (if pin_excludes_wildcard then negb (cwild c) else true).

Definition has_equality (rq : req) : bool := existsb is_pin_clause (rspec rq).

(* parse_version("x.*") raises and is swallowed: wildcard clauses never count *)
Definition has_prerelease (rq : req) : bool :=
  existsb (fun c => negb (cwild c) && is_prerelease (cver c)) (rspec rq).

(* ---- check_usability / filter_candidates ---- *)
Inductive reason := CantTags | IsPrerelease | VersionNoSatisfy.

Definition check_usability (rq : req) (c : cand) (has_eq allow : bool) : option reason :=
  if negb (usable c) then Some CantTags
  else if negb has_eq && negb allow && is_prerelease (ver c) then Some IsPrerelease
  else if negb (spec_contains (rspec rq) (ver c) (has_eq || allow)) then Some VersionNoSatisfy
  else None.

Definition passes (rq : req) (allow : bool) (c : cand) : bool :=
  match check_usability rq c (has_equality rq) allow with None => true | Some _ => false end.

Definition filter_candidates (rq : req) (allow : bool) (cs : list cand) : list cand :=
  filter (passes rq allow) cs.

Definition is_all_prereleases (cs : list cand) : bool :=
  forallb (fun c => is_prerelease (ver c)) cs.

(* ---- Candidate.sortkey and sort_candidates ---- *)
(* code points of a str, for tuple comparison *)
Definition str_codes (s : string) : list Z :=
  map (fun a => Z.of_N (N_of_ascii a)) (list_ascii_of_string s).

Definition field_key (f : field) (c : cand) : list Z :=
  match f with
  | FVersion => vkey (ver c)
  | FExtra => extra c
  | FType => [dist_type_rank (ckind c)]
  | FTag => tagscore c
  | FFile => str_codes (cfile c)      (* the file name (or "") as the last tie-break *)
  end.

(* (T1) the tuple built in Candidate.sortkey, component by component *)
Definition sortkey (c : cand) : list (list Z) := map (fun f => field_key f c) sortkey_fields.

(* tuple comparison: lexicographic, each component compared lexicographically *)
Fixpoint lex2 (a b : list (list Z)) : comparison :=
  match a, b with
  | [], [] => Eq
  | [], _ :: _ => Lt
  | _ :: _, [] => Gt
  | x :: a', y :: b' =>
      match lex x y with
      | Eq => lex2 a' b'
      | c => c
      end
  end.

Definition key_cmp (a b : cand) : comparison := lex2 (sortkey a) (sortkey b).

(* sorted(..., key=sortkey, reverse=sort_reverse) is stable: an element is placed behind an
   element that came later in the input only when it is strictly worse *)
Definition goes_after (c x : cand) : bool :=
  match key_cmp c x with
  | Lt => sort_reverse
  | Gt => negb sort_reverse
  | Eq => false
  end.

Fixpoint insert_st (c : cand) (l : list cand) : list cand :=
  match l with
  | [] => [c]
  | x :: l' => if goes_after c x then x :: insert_st c l' else c :: l
  end.

Definition sort_candidates (l : list cand) : list cand := fold_right insert_st [] l.

(* ---- the scan of do_get_candidate ---- *)
Definition add_version (v : version) (tried : list version) : list version :=
  if existsb (veqb v) tried then tried else v :: tried.

(* (T1) `len(tried_versions) >= max_downgrade` *)
Definition budget_hit (b : option Z) (tried : list version) : bool :=
  match b with
  | None => false
  | Some m =>
      let n := Z.of_nat (List.length tried) in
      if budget_cmp_ge then (m <=? n)%Z else (m <? n)%Z
  end.

(* (T1) `candidate.type == DistributionType.SDIST` and not allow_source_dist: continue *)
Definition skipped (st : settings) (c : cand) : bool :=
  kind_eqb (ckind c) skipped_kind && negb (allow_src st).

(* normalize_project_name(candidate.name) == normalize_project_name(req.project_name),
   req.project_name = safe_name(req.name) *)
Definition name_ok (rq : req) (c : cand) : bool :=
  String.eqb (norm (cname c)) (norm (safe_name (rname rq))).

(* resolve_candidate returned metadata and the name check passed *)
Definition resolves (rq : req) (c : cand) : bool := readable c && name_ok rq c.

(* how the scan of one pass ends: an answer, the sorted list ran out, or the budget `break` *)
Inductive scan_result := SFound (c : cand) | SExhausted | SGaveUp.

Fixpoint scan (st : settings) (rq : req) (tried : list version) (l : list cand) : scan_result :=
  match l with
  | [] => SExhausted
  | c :: l' =>
      if skipped st c then scan st rq tried l'
      else if resolves rq c then SFound c
      else
        let tried' := add_version (ver c) tried in
        if budget_hit (budget st) tried' then SGaveUp else scan st rq tried' l'
  end.

(* one pass of do_get_candidate with allow_prereleases = allow *)
Definition attempt (st : settings) (rq : req) (cs : list cand) (allow : bool) : scan_result :=
  scan st rq [] (sort_candidates (filter_candidates rq allow cs)).

Definition fallback_cond (rq : req) (cs : list cand) : bool :=
  is_all_prereleases cs || has_prerelease rq.

Inductive answer := Found (c : cand) | NoCandidate.

Definition gave_up (r : scan_result) : bool := match r with SGaveUp => true | _ => false end.

(* do_get_candidate(force_allow_prerelease = force).  (T1) fallback_requires_not_gave_up: the
   fallback condition carries `and not gave_up`, gave_up being set by the budget `break`.
   The recursive call is made with force = True, whose own guard `not allow_prereleases` is
   then false: depth <= 2, written out (see do_get_candidate_unfold in the proofs). *)
Definition do_get_candidate (st : settings) (rq : req) (cs : list cand) (force : bool) : answer :=
  let allow := force || allow_pre st in
  match attempt st rq cs allow with
  | SFound c => Found c
  | r =>
      if fallback_cond rq cs && negb allow && negb (fallback_requires_not_gave_up && gave_up r) then
        match attempt st rq cs true with
        | SFound c => Found c
        | _ => NoCandidate
        end
      else NoCandidate
  end.

(* Repository.get_dist *)
Definition get_dist (st : settings) (rq : req) (cs : list cand) : answer :=
  do_get_candidate st rq cs false.

(* for T2: the order sort_candidates(filter_candidates(...)) produces *)
Definition sorted_files (rq : req) (allow : bool) (cs : list cand) : list string :=
  map cfile (sort_candidates (filter_candidates rq allow cs)).

(* C06 - the decidable lexical side conditions (wf) of the round-trip theorems, the
   canonical form of a view (the order the writer imposes) and what a given option set
   writes at all (erase).  Executable, so the harness evaluates them on generated views.

   Tokens whose parsing belongs to pkg_resources / packaging (the pin `name==version`, the
   requirer `name[extra]`, specifier texts) are opaque: wf asks that the model's lexical
   recognisers (req_lex through requirer_of, pin_version, spec_ok, extra_ok) accept them and
   map them back to the fields of the view. *)
From Coq Require Import List Bool String Ascii Arith.
From RC Require Import lib.PyStr lib.StrSort lib.Name gen.SolConstsC06 model.SolFileC06.
Import ListNotations.
Open Scope string_scope.
Open Scope nat_scope.

Fixpoint list_eqb (a b : list string) : bool :=
  match a, b with
  | [], [] => true
  | x :: a', y :: b' => String.eqb x y && list_eqb a' b'
  | _, _ => false
  end.

Definition canon_via (x : via_t) : via_t :=
  mkVia (v_req x) (sort_set (v_mex x)) (v_spec x) (sort_set (v_extras x)).
Definition via_key (x : via_t) : string := lower (constraint_text x).
Definition canon_pin (p : pin) : pin :=
  mkPin (p_name p) (p_version p) (p_hash p) (p_url p) (sort_by via_key (map canon_via (p_via p))).
Definition canon (v : view) : view := sort_pins (map canon_pin v).

(* what the option set writes of a pin: hashes / urls only when asked for *)
Definition erase_pin (o : opts) (p : pin) : pin :=
  mkPin (p_name p) (p_version p)
        (if o_hashes o then p_hash p else None)
        (if o_urls o then p_url p else None) (p_via p).
Definition erase (o : opts) (v : view) : view := map (erase_pin o) v.

(* ---- characters *)
Definition plain (c : ascii) : bool :=           (* printable, not a blank *)
  let n := nat_of_ascii c in (33 <=? n) && (n <=? 126).
Definition printable (c : ascii) : bool :=
  let n := nat_of_ascii c in (32 <=? n) && (n <=? 126).
Definition not_hash (c : ascii) : bool := negb (Ascii.eqb c "#"%char).
Definition is_cont (c : ascii) : bool := mem_ascii c l_cont.

(* no blank, no '#', not empty *)
Definition token (s : string) : bool := nonempty s && forall_chars (fun c => plain c && not_hash c) s.
(* can stand as the text of a comment line: printable, no '#', no blank at either end, does not
   end with the continuation character *)
Definition body_ok (s : string) : bool :=
  forall_chars (fun c => printable c && not_hash c) s
  && first_ok plain s && last_ok plain s && negb (last_ok is_cont s).

Definition is_sep (c : ascii) : bool := Ascii.eqb c "."%char || Ascii.eqb c "_"%char || Ascii.eqb c "-"%char.
Fixpoint no_sep_runs (s : string) : bool :=
  match s with
  | String a ((String b _) as s') => negb (is_sep a && is_sep b) && no_sep_runs s'
  | _ => true
  end.
Definition name_ok (s : string) : bool :=
  forall_chars is_namech s && first_ok is_alnum s && last_ok is_alnum s
  (* no runs of separators: pkg_resources' project_name collapses them, req-compile's key does not
     (z--b, a_.b): the same project then lives under two graph keys and neither the writer's
     explanation nor the loader's lookup finds it (known finding C06-separator-run-name) *)
  && no_sep_runs s.
Definition spec_ch (c : ascii) : bool := is_alnum c || mem_ascii c "<>=!~,.*+-_".
Definition idx_ok (s : string) : bool :=
  nonempty s && forall_chars (fun c => is_digit c || Ascii.eqb c "?"%char) s.
Definition oneline (s : string) : bool := forall_chars (fun c => negb (Ascii.eqb c nlc)) s.

(* ---- one edge *)
Definition via_ok (x : via_t) : bool :=
  let r := requirer_text x in
  token r && negb (containsb "(" r)
  && (match requirer_of r with
      | Ok (n, m) => String.eqb n (v_req x) && list_eqb m (v_mex x)
      | Err _ => false end)
  && forall_chars spec_ch (v_spec x) && spec_ok (v_spec x)
  && forallb extra_ok (v_extras x)
  && list_eqb (sort_set (v_extras x)) (v_extras x)
  && body_ok (constraint_text x)
  && negb (url_like (constraint_text x)).

Definition url_ok (u : string) : bool :=
  match partition_char "#"%char u with
  | (base, _, frag) =>
      forall_chars plain u && nonempty base
      && url_like base && negb (startswith base l_via)
      && forall_chars not_hash frag && negb (url_like frag) && negb (startswith frag l_via)
      && negb (last_ok is_cont u)
  end.

Definition hash_ok (h : string) : bool :=
  token h && negb (containsb l_hash_split h) && negb (last_ok is_cont h).

Definition nonempty_list {A} (l : list A) : bool := match l with [] => false | _ => true end.

Definition pin_ok (p : pin) : bool :=
  name_ok (p_name p)
  && token (p_version p) && negb (last_ok is_cont (p_version p))
  && spec_ok (w_pin_eq ++ p_version p)
  && (match pin_version (w_pin_eq ++ p_version p) with
      | Ok v => String.eqb v (p_version p) | Err _ => false end)
  && negb (containsb l_hash_split (p_name p ++ w_pin_eq ++ p_version p ++ " "))
  && (match p_hash p with Some h => hash_ok h | None => true end)
  && (match p_url p with Some u => url_ok u | None => true end)
  && nonempty_list (p_via p)
  && forallb via_ok (p_via p)
  && sorted_by via_key (p_via p)
  && (match p_via p with [x] => negb (url_like (w_via_one ++ constraint_text x)) | _ => true end).

(* ---- options *)
Definition annot_ok (a : annot) : bool :=
  oneline (a_ver a) && oneline (a_time a) && forallb oneline (a_inputs a) && forallb oneline (a_repos a).
Definition directive_ok (d : string) : bool := oneline d && startswith (strip (d ++ nl)) "--".
Definition opts_ok (o : opts) : bool :=
  (match o_annot o with Some a => annot_ok a | None => true end)
  && forallb directive_ok (o_index o) && forallb directive_ok (o_links o).
(* the text printed between [ ] for this pin *)
Definition annot_pin_ok (o : opts) (p : pin) : bool :=
  match o_annot o with
  | None => true
  | Some a => let t := idx_text a (p_name p) in
              idx_ok t && negb (url_like ("[" ++ t ++ "]"))
  end.

Definition names_sorted (v : view) : bool := sorted_by (fun p => lower (p_name p)) v.

(* the format-independent part of wf *)
Definition wf_view (o : opts) (v : view) : bool :=
  opts_ok o && forallb pin_ok v && forallb (annot_pin_ok o) v && names_sorted v.

(* multi-line output: every option combination *)
Definition wf_multi (o : opts) (v : view) : bool :=
  o_multi o && opts_ok o && forallb pin_ok v && forallb (annot_pin_ok o) v && names_sorted v.

(* one-line output.  The comment of a pin as the writer prints it after "# [n] ": requirers, then the URL. *)
Definition one_line_comment (o : opts) (p : pin) : string :=
  explanation false (p_via p) ++
  match p_url p with Some u => if o_urls o then w_cmt_single ++ u else EmptyString | None => EmptyString end.
Definition last_token (s : string) : string * string :=
  match rpartition_char " "%char s with (h, _, t) => (h, t) end.
(* - no requirer text contains the separator ", " or ends with one of its characters, no URL contains it;
   - the last blank-separated token of the last requirer text is not taken for a URL;
   - without --annotate the comment does not start with the word "via" (a requirer literally named `via`
     followed by a specifier cannot be told from pip-compile's "# via x" layout) *)
Definition single_pin_ok (o : opts) (p : pin) : bool :=
  forallb (fun x => negb (containsb l_src_sep (constraint_text x))
                    && negb (last_ok (fun c => mem_ascii c l_src_sep) (constraint_text x))) (p_via p)
  && (match rev (p_via p) with
      | x :: _ => match last_token (constraint_text x) with
                  | (h, t) => negb (nonempty h && url_like (fst (fst (partition_char "#"%char t)))) end
      | [] => true end)
  && (match p_url p, rev (p_via p) with
      | Some u, x :: _ =>
          if o_urls o then negb (containsb l_src_sep (constraint_text x ++ w_cmt_single ++ u))
                           && negb (last_ok (fun c => mem_ascii c l_src_sep) u)
          else true
      | _, _ => true end)
  && match o_annot o with
     | Some _ => true
     | None => negb (startswith (one_line_comment o p ++ l_via_pad) l_via_word)
               && negb (prefixb "[" (explanation false (p_via p)))
     end.
Definition wf_single (o : opts) (v : view) : bool :=
  negb (o_multi o) && opts_ok o && forallb pin_ok v && forallb (annot_pin_ok o) v && names_sorted v
  && forallb (single_pin_ok o) v.

(* whatever layout the option set leads to (explicit, or chosen by the tool) *)
Definition wf_auto (o : opts) (v : view) : bool :=
  wf_view o v && (o_multi o || forallb (single_pin_ok o) v).
